(* driver.ml — generic glue: reads one request tree per line, prints one reply tree per line.
   Syntax:  tree ::= INT (decimal, optional '-') | '#' HEX* (bytes) | 's' '"'... (unused) | '(' tree* ')'
            'u' followed by '(' INT* ')' is a TB whose elements are arbitrary integers (code points).
   No format knowledge lives here. *)
open Model

let z_of_int (n : int) : z =
  let rec pos n = if n = 1 then XH else if n land 1 = 1 then XI (pos (n lsr 1)) else XO (pos (n lsr 1)) in
  if n = 0 then Z0 else if n > 0 then Zpos (pos n) else Zneg (pos (- n))

let byte_tab = Array.init 256 z_of_int
let ten = z_of_int 10

let z_of_dec (s : string) : z =
  let neg = String.length s > 0 && s.[0] = '-' in
  let acc = ref Z0 in
  String.iteri (fun i c -> if i = 0 && neg then () else
    acc := Z.add (Z.mul !acc ten) (z_of_int (Char.code c - 48))) s;
  if neg then Z.opp !acc else !acc

let rec int_of_pos = function XH -> 1 | XO p -> 2 * int_of_pos p | XI p -> 2 * int_of_pos p + 1
let small_int_of_z = function Z0 -> 0 | Zpos p -> int_of_pos p | Zneg p -> - (int_of_pos p)

let rec pos_bits = function XH -> 1 | XO p -> 1 + pos_bits p | XI p -> 1 + pos_bits p

let dec_of_z (v : z) : string =
  let small p = pos_bits p < 60 in
  match v with
  | Z0 -> "0"
  | Zpos p when small p -> string_of_int (int_of_pos p)
  | Zneg p when small p -> string_of_int (- (int_of_pos p))
  | _ ->
    let neg = (match v with Zneg _ -> true | _ -> false) in
    let v = if neg then Z.opp v else v in
    let buf = Buffer.create 32 in
    let rec go v = if Z.eqb v Z0 then () else begin
        go (Z.div v ten);
        Buffer.add_char buf (Char.chr (48 + small_int_of_z (Z.modulo v ten))) end in
    go v; (if neg then "-" else "") ^ Buffer.contents buf

(* ---- parsing ---- *)
let parse (s : string) : tree =
  let n = String.length s in
  let i = ref 0 in
  let skip () = while !i < n && (s.[!i] = ' ' || s.[!i] = '\t' || s.[!i] = '\r') do incr i done in
  let hexv c = match c with
    | '0'..'9' -> Char.code c - 48 | 'a'..'f' -> Char.code c - 87 | 'A'..'F' -> Char.code c - 55
    | _ -> failwith "hex" in
  let rec tree () : tree =
    skip ();
    if !i >= n then failwith "eof";
    match s.[!i] with
    | '(' -> incr i; TL (items ())
    | '#' -> incr i;
      let acc = ref [] in
      while !i + 1 < n && (match s.[!i] with '0'..'9'|'a'..'f'|'A'..'F' -> true | _ -> false) do
        acc := byte_tab.(16 * hexv s.[!i] + hexv s.[!i+1]) :: !acc; i := !i + 2 done;
      TB (List.rev !acc)
    | 'u' -> incr i; skip ();
      if !i >= n || s.[!i] <> '(' then failwith "u(";
      incr i;
      let l = items () in
      TB (List.map (function TI z -> z | _ -> failwith "u item") l)
    | '-' | '0'..'9' ->
      let j = !i in
      incr i;
      while !i < n && (match s.[!i] with '0'..'9' -> true | _ -> false) do incr i done;
      TI (z_of_dec (String.sub s j (!i - j)))
    | _ -> failwith "char"
  and items () : tree list =
    skip ();
    if !i >= n then failwith "eof in list";
    if s.[!i] = ')' then (incr i; []) else
      let t = tree () in t :: items ()
  in
  let t = tree () in skip (); if !i <> n then failwith "trailing"; t

(* ---- printing ---- *)
let hexd = "0123456789abcdef"
let rec print (b : Buffer.t) (t : tree) : unit =
  match t with
  | TI z -> Buffer.add_string b (dec_of_z z)
  | TB l ->
    let is_b = function Z0 -> true | Zpos p -> pos_bits p <= 8 | Zneg _ -> false in
    if List.for_all is_b l then begin
      Buffer.add_char b '#';
      List.iter (fun z -> let v = small_int_of_z z in
                  Buffer.add_char b hexd.[v lsr 4]; Buffer.add_char b hexd.[v land 15]) l end
    else begin
      Buffer.add_string b "u(";
      List.iteri (fun k z -> if k > 0 then Buffer.add_char b ' '; Buffer.add_string b (dec_of_z z)) l;
      Buffer.add_char b ')' end
  | TL l ->
    Buffer.add_char b '(';
    List.iteri (fun k t -> if k > 0 then Buffer.add_char b ' '; print b t) l;
    Buffer.add_char b ')'

let () =
  let b = Buffer.create 65536 in
  (try
     while true do
       let line = input_line stdin in
       Buffer.clear b;
       (try print b (dispatch (parse line))
        with Failure m -> Buffer.clear b; Buffer.add_string b ("!parse " ^ m)
           | Stack_overflow -> Buffer.clear b; Buffer.add_string b "!stack");
       print_string (Buffer.contents b); print_newline ()
     done
   with End_of_file -> ())
