"""judge.py — property predicates evaluated on what the verified strict reader decodes from implementation output,
against expectations computed from the program (the operation list), never from dliswriter objects."""
import datetime as dtm
import struct
import specgen
import apimodel
import filemodel

SET_TYPE = None


def set_types():
    global SET_TYPE
    if SET_TYPE is None:
        A = specgen.api()
        SET_TYPE = {k: v['set_type'] for k, v in A.items()}
    return SET_TYPE


class ExpObj:
    def __init__(self, idx, lf, tkey, set_name, name, explicit_origin):
        self.idx, self.lf, self.tkey, self.set_name, self.name = idx, lf, tkey, set_name, name
        self.explicit_origin = explicit_origin
        self.copy = None
        self.origin = None
        self.assign = {}       # attr name -> {'value': RAW, 'units': RAW}
        self.order = []


def expected_objects(prog, outs):
    """Objects the accepted calls created, with the copy number and origin reference the documentation promises:
    copy = number of earlier same-named objects of that set type and set name; origin = explicit, else the defining
    origin's reference (objects created before the first origin take it when it is added)."""
    A = specgen.api()
    objs = {}            # creation index -> ExpObj
    created = 0
    per_set = {}         # (set type, set name, name) -> count
    lf_origins = {}      # lf -> list of origin refs in creation order
    files = []
    for s, o in zip(prog, outs):
        op = s['op']
        if op == 'newfile':
            objs = {}
            created = 0
            per_set = {}
            lf_origins = {}
            files.append(objs)
            continue
        if op in ('origin', 'add', 'channel', 'frame'):
            ci = created
            created += 1
            if o[0] != 'ok':
                continue
            tkey = s.get('type') or op
            nm = s['name']['v']
            e = ExpObj(ci, s['lf'], tkey, s.get('set_name') or None, nm, None)
            k = (tkey, s.get('set_name') or None, nm)
            e.copy = per_set.get(k, 0)
            per_set[k] = e.copy + 1
            org = s.get('origin')
            orgv = org['v'] if isinstance(org, dict) and org.get('t') == 'int' and org['v'] else None
            refs = lf_origins.setdefault(s['lf'], [])
            if op == 'origin':
                if orgv is None:
                    n = len(refs)
                    while n in refs:
                        n += 1
                    orgv = n
                e.origin = orgv
                refs.append(orgv)
                if len(refs) == 1:
                    for x in objs.values():
                        if x.origin is None and x.lf == s['lf']:        # back-fill within the logical file
                            x.origin = orgv
            else:
                e.explicit_origin = orgv
                e.origin = orgv if orgv is not None else (refs[0] if refs else None)
            A_t = A[tkey]
            for p, raw in s.get('kw', {}).items():
                an = A_t['params'].get(p)
                if an is None or an not in A_t['attrs']:
                    continue
                if raw['t'] == 'none' or (raw['t'] == 'ref' and raw['i'] not in objs):
                    continue        # a reference to an object whose creation was rejected is None in the program
                if raw['t'] in ('setup', 'dict'):
                    if raw['value'] is not None:
                        e.assign.setdefault(an, {})['value'] = raw['value']
                    if raw['units'] is not None:
                        e.assign.setdefault(an, {})['units'] = raw['units']
                else:
                    e.assign.setdefault(an, {})['value'] = raw
            if op == 'frame':
                e.assign.setdefault('channels', {})['value'] = s['channels']
            objs[ci] = e
        elif op == 'set_origin' and o[0] == 'ok':
            e = objs.get(s['obj'])
            if e is not None and s['raw'].get('t') == 'int':
                e.origin = s['raw']['v']
        elif op == 'assign' and o[0] == 'ok':
            e = objs.get(s['obj'])
            if e is not None:
                raw = s['raw']
                if raw['t'] == 'ref' and raw['i'] not in objs:
                    raw = {'t': 'none'}     # the rejected creation left no object: the program assigns None
                e.assign.setdefault(s['attr'], {})[s['part']] = raw
    return files


def rejected_first_for_set(prog, outs, only=None):
    """True if some rejected creating call was the FIRST creating call for its (logical file, type, set name): such a call
    leaves its empty set registered (known finding D22). `only`: restrict to one op kind (e.g. 'origin')."""
    seen, hit = set(), False
    for s0, o0 in zip(prog, outs):
        if s0['op'] in ('origin', 'add', 'channel', 'frame'):
            key = (s0.get('lf', 0), s0.get('type') or s0['op'], s0.get('set_name') or None)
            if key not in seen and o0[0] == 'err' and (only is None or s0['op'] == only):
                hit = True
            seen.add(key)
        elif s0['op'] == 'newfile':
            seen = set()
    return hit


def expected_at(prog, outs, step):
    """Expectations for the file written by the (successful) write at index `step`: calls made after it are not in it."""
    files = expected_objects(prog[:step + 1], outs[:step + 1])
    return files[-1] if files else {}


# ---- semantic comparison of an assigned RAW value with decoded values ----

def _flatten(raw):
    if raw['t'] in ('list', 'tuple'):
        out = []
        for x in raw['v']:
            out += _flatten(x)
        return out
    return [raw]


def bits_to_float(b):
    return struct.unpack('>d', struct.pack('>Q', b))[0]


def value_matches(raw, dv, objs, A_attr):
    """One assigned element against one decoded value."""
    t = raw['t']
    kind = dv[0]
    if t == 'ref':
        e = objs.get(raw['i'])
        if e is None:
            return False
        ident = dv[1] if kind == 'name' else dv[2] if kind == 'ref' else None
        if ident is None:
            return False
        if kind == 'ref' and dv[1] != set_types()[e.tkey]:
            return False
        return ident == (e.origin, e.copy, e.name)
    if t == 'enum':
        import dliswriter.utils.enums as en
        return kind == 'text' and dv[1] == getattr(en, raw['cls'])[raw['member']].value
    if t == 'dt':
        if kind != 'dtime':
            return False
        y, mo, d, h, mi, s, us = raw['v']
        x = dtm.datetime(y, mo, d, h, mi, s, us) - dtm.timedelta(minutes=raw['tz'] or 0)
        q, r = divmod(x.microsecond, 1000)
        ms = q if r < 500 else q + 1 if r > 500 else (q if q % 2 == 0 else q + 1)
        return tuple(dv[1]) == (x.year, 2, x.month, x.day, x.hour, x.minute, x.second, min(ms, 999))
    if t in ('int', 'bool'):
        z = int(raw['v'])
        if kind == 'int':
            return dv[1] == z
        if kind == 'bits':
            return abs(z) < 2**53 and bits_to_float(dv[1]) == float(z) and not (z == 0 and dv[1] != 0)
        if kind == 'text':
            return dv[1] == str(raw['v'])
        return False
    if t == 'float':
        if kind == 'bits':
            return dv[1] == raw['bits']
        if kind == 'int':
            f = bits_to_float(raw['bits'])
            return f == f and f not in (float('inf'), float('-inf')) and f == dv[1]
        return False
    if t == 'str':
        s = raw['v']
        if kind == 'text':
            return dv[1] == s
        h = apimodel.str_hint(s)
        if kind == 'dtime' and h and h[0] == 3:
            y, mo, d, hh, mi, ss, us = h[1]
            return tuple(dv[1]) == (y, 2, mo, d, hh, mi, ss, 0)
        if kind == 'int' and h and h[0] == 1:
            return dv[1] == h[1]
        if kind == 'bits' and h and h[0] in (2, 4):
            return dv[1] == h[1]
        if kind == 'bits' and h and h[0] == 1:
            return bits_to_float(dv[1]) == float(h[1])
        if kind == 'int' and s.lower() in ('1', 'true', 't', 'yes', 'y', '0', 'false', 'f', 'no', 'n'):
            return True
        return False
    return False


def attr_matches(exp_assign, dattr, objs, info):
    """Expected {'value': RAW?, 'units': RAW?} against a decoded attribute (DAttr or None)."""
    v = exp_assign.get('value')
    u = exp_assign.get('units')
    if v is not None and v.get('t') == 'none':
        v = None                       # .value = None clears the attribute
        if u is None or u.get('t') == 'none':
            return (dattr is None or not dattr.values), 'cleared'
    if u is not None and u.get('t') == 'none':
        u = None
    if v is None and u is None:
        return dattr is None, 'assigned nothing'
    if dattr is None:
        if v is not None and v['t'] in ('list', 'tuple') and not _flatten(v):
            return True, ''
        return v is None, 'attribute absent although a value was assigned'
    if v is not None:
        want = _flatten(v)
        got = dattr.values or []
        if len(want) != len(got):
            return False, 'number of values %d != %d' % (len(got), len(want))
        if dattr.count != len(want) and not (len(want) == 0 and dattr.count == 0):
            return False, 'count %r but %d values assigned' % (dattr.count, len(want))
        for w, g in zip(want, got):
            if not value_matches(w, g, objs, info):
                return False, 'value %r decoded as %r' % (w, g)
    if u is not None:
        import dliswriter.utils.enums as en
        us = getattr(en, u['cls'])[u['member']].value if u['t'] == 'enum' else u.get('v')
        if (dattr.units or None) != (us or None):
            return False, 'units %r decoded as %r' % (us, dattr.units)
    return True, ''


# write-time defaults the documentation allows (label sets per set type)
DEFAULT_LABELS = {
    'ORIGIN': {'FILE-ID', 'FILE-SET-NUMBER', 'CREATION-TIME', 'FIELD-NAME'},
    'CHANNEL': {'LONG-NAME', 'DIMENSION', 'ELEMENT-LIMIT', 'REPRESENTATION-CODE'},
    'FRAME': {'SPACING', 'INDEX-MIN', 'INDEX-MAX', 'DIRECTION'},
    'PARAMETER': {'DIMENSION'}, 'COMPUTATION': {'DIMENSION'}, 'CALIBRATION-MEASUREMENT': {'DIMENSION'},
}


def find_object(lfrecs, set_type, set_name, ident):
    hits = []
    for r in lfrecs:
        if isinstance(r, filemodel.DSet) and r.type == set_type and (set_name is None or r.name == set_name or True):
            for ob in r.objects:
                if ob.name == ident:
                    hits.append((r, ob))
    return hits


def check_fidelity(ctx, dfile, objs, det):
    """C05 on one decoded file. objs: creation index -> ExpObj of that file."""
    A = specgen.api()
    lfs = dfile.logical_files()
    n = 0
    for e in objs.values():
        if e.lf >= len(lfs):
            ctx.violation('logical-file-missing', {**det, 'object': e.name})
            return n
        st = set_types()[e.tkey]
        hits = [(r, ob) for r, ob in find_object(lfs[e.lf], st, e.set_name, (e.origin, e.copy, e.name)) if (r.name or None) == (e.set_name or None)]
        if len(hits) != 1:
            ctx.violation('object-not-found-exactly-once', {**det, 'object': [st, e.set_name, e.origin, e.copy, e.name], 'found': len(hits)})
            continue
        r, ob = hits[0]
        for an, info in A[e.tkey]['attrs'].items():
            lab = info['label']
            da = ob.attrs.get(lab)
            exp = e.assign.get(an)
            n += 1
            if exp is None:
                if da is not None and lab not in DEFAULT_LABELS.get(st, set()):
                    ctx.violation('attribute-present-although-never-assigned', {**det, 'object': [st, e.name], 'label': lab, 'decoded': repr(da)})
                continue
            if an in ('dimension', 'element_limit') and e.tkey == 'channel':
                continue
            ok, why = attr_matches(exp, da, objs, info)
            if not ok:
                ctx.violation('decoded-attribute-differs-from-assignment', {**det, 'object': [st, e.set_name, e.name, e.copy], 'label': lab,
                                                                          'assigned': exp, 'decoded': repr(da), 'why': why})
    return n


def check_identity_refs(ctx, dfile, det, check_origins=True, check_unique=True):
    """C07 on one decoded file: unique identities per logical file, every reference resolves to exactly one object of
    the same logical file defined before the referring IFLR, origins consistent."""
    for li, recs in enumerate(dfile.logical_files()):
        seen = {}
        origins = set()
        defined = set()
        for r in recs:
            if isinstance(r, filemodel.DSet):
                for ob in r.objects:
                    k = (r.type,) + ob.name
                    if k in seen and check_unique:
                        ctx.violation('two-objects-with-one-identity', {**det, 'logical_file': li, 'identity': k, 'sets': [seen[k], r.name]},
                                      finding_key='D13-named-sets' if seen[k] != r.name else None)
                    seen[k] = r.name
                    if r.type == 'ORIGIN':
                        origins.add(ob.name[0])
        for r in recs:
            if isinstance(r, filemodel.DSet):
                for ob in r.objects:
                    defined.add((r.type,) + ob.name)
                    if check_origins and r.type != 'FILE-HEADER' and origins and ob.name[0] not in origins and not det.get('explicit_origins'):
                        ctx.violation('object-origin-is-not-an-origin-of-the-logical-file', {**det, 'logical_file': li, 'object': (r.type,) + ob.name, 'origins': sorted(origins)})
                    for lab, a in ob.attrs.items():
                        if a is None or not a.values:
                            continue
                        for v in a.values:
                            if v[0] == 'name':
                                cands = [k for k in seen if k[1:] == v[1]]
                                if len(cands) < 1:
                                    ctx.violation('reference-does-not-resolve', {**det, 'logical_file': li, 'from': (r.type,) + ob.name, 'label': lab, 'reference': v[1]})
                            elif v[0] == 'ref':
                                if (v[1],) + v[2] not in seen:
                                    ctx.violation('reference-does-not-resolve', {**det, 'logical_file': li, 'from': (r.type,) + ob.name, 'label': lab, 'reference': (v[1],) + v[2]})
            else:
                _, ty, body = r
                hdr = ctx.model.one([2, 23, body])
                want = 'FRAME' if ty == 0 else 'NO-FORMAT'
                if hdr[0] != 0:
                    ctx.violation('indirect-record-without-reference', {**det, 'logical_file': li, 'type': ty})
                elif (want,) + filemodel._obname(hdr[1][0]) not in defined:
                    ctx.violation('indirect-record-references-undefined-object', {**det, 'logical_file': li, 'type': ty, 'reference': filemodel._obname(hdr[1][0])})


def check_order(ctx, dfile, det, headers, defining=None, defining_finding=None):
    """C09 on one decoded file. headers: per logical file (id, sequence number)."""
    lfs = dfile.logical_files()
    if len(lfs) != len(headers):
        ctx.violation('number-of-logical-files', {**det, 'decoded': len(lfs), 'expected': len(headers)})
        return
    for li, (recs, (hid, seq)) in enumerate(zip(lfs, headers)):
        fh = recs[0]
        if not isinstance(fh, filemodel.DSet) or fh.type != 'FILE-HEADER' or len(fh.objects) != 1:
            ctx.violation('logical-file-does-not-start-with-one-header-object', {**det, 'logical_file': li})
            continue
        o = fh.objects[0]
        sn, idv = o.attrs.get('SEQUENCE-NUMBER'), o.attrs.get('ID')
        if sn is None or idv is None or sn.values != [('text', str(seq).rjust(10))] or idv.values != [('text', hid.ljust(65))]:
            ctx.violation('header-fields-wrong', {**det, 'logical_file': li, 'sequence': repr(sn), 'id': repr(idv)})
        if len(recs) < 2 or not isinstance(recs[1], filemodel.DSet) or recs[1].type != 'ORIGIN':
            ctx.violation('origin-does-not-follow-header', {**det, 'logical_file': li})
            continue
        do = recs[1].objects[0]
        if defining is not None and li < len(defining) and defining[li] is not None and do.name[2] != defining[li]:
            ctx.violation('first-origin-object-is-not-the-defining-origin', {**det, 'logical_file': li, 'first_written': do.name, 'defining': defining[li]},
                          finding_key=defining_finding)
        fid, fsn = do.attrs.get('FILE-ID'), do.attrs.get('FILE-SET-NUMBER')
        if fid is None or fid.values != [('text', hid)]:
            ctx.violation('defining-origin-file-id-differs-from-header-id', {**det, 'logical_file': li, 'file_id': repr(fid)})
        if fsn is None or not fsn.values:
            ctx.violation('defining-origin-without-file-set-number', {**det, 'logical_file': li})
        seen_sets = set()
        in_iflr = False
        origin_done = False
        for r in recs[1:]:
            if isinstance(r, filemodel.DSet):
                if in_iflr:
                    ctx.violation('explicit-record-after-data-record', {**det, 'logical_file': li, 'set': r.type})
                if r.type != 'ORIGIN':
                    origin_done = True
                elif origin_done:
                    ctx.violation('origin-set-after-other-sets', {**det, 'logical_file': li})
                k = (r.type, r.name)
                if k in seen_sets:
                    ctx.violation('set-written-twice', {**det, 'logical_file': li, 'set': k})
                seen_sets.add(k)
                if not r.objects:
                    ctx.violation('empty-set-written', {**det, 'logical_file': li, 'set': k})
            else:
                in_iflr = True


def inventory(dfile):
    """Order-insensitive (across sets) content of a decoded file, per logical file."""
    out = []
    for recs in dfile.logical_files():
        sets = {}
        iflr = []
        for r in recs:
            if isinstance(r, filemodel.DSet):
                sets[(r.type, r.name)] = [(ob.name, tuple((lab, repr(a)) for lab, a in ob.attrs.items())) for ob in r.objects]
            else:
                iflr.append((r[1], bytes(r[2])))
        out.append((sets, iflr))
    return out
