"""phys.py — streams over the physical layer shared by C01, C02, C15 (and used by C10, C16):
S1 segmenter window (exhaustive), S2 synthetic files through DLISWriter, S3 real DLISFile writes with the taps."""
import impl
from common import text

ACCEPTED_VRL_SMALL = list(range(20, 130, 2))


def seg_window(tier):
    """(cap, L) pairs covering every branch of the splitting arithmetic."""
    out = []
    for cap in list(range(12, 66, 2)):
        for L in range(0, 4 * cap + 15):
            out.append((cap, L))
    for cap in [100, 1000, 8184, 16376]:
        Ls = set(range(0, 30))
        for k in range(0, 4):
            for d in range(-13, 14):
                if k * cap + d >= 0:
                    Ls.add(k * cap + d)
        out += [(cap, L) for L in sorted(Ls)]
    return out


def run_seg_cases(ctx, pairs, stream, judge):
    """For each (cap, L): implementation segments, model segments, reader judgement of the implementation's bytes.
    judge(case, impl_outcome, model_reply, reader_reply) reports violations."""
    cases = []
    for k, (cap, L) in enumerate(pairs):
        eflr = (k % 3 == 0)
        ty = [0, 1, 3, 5, 127, 255][k % 6]
        body = impl.pos_bytes(L, salt=k)
        cases.append((cap, eflr, ty, body))
    outs = [impl.outcome(lambda c=c: impl.impl_segments(*c)) for c in cases]
    # the segmenter has no mode: the same call inside high_compatibility_mode() must give the same segments
    from dliswriter import high_compatibility_mode
    with high_compatibility_mode():
        outs_hc = [impl.outcome(lambda c=c: impl.impl_segments(*c)) for c in cases]
    for c, o, oh in zip(cases, outs, outs_hc):
        ctx.stat(stream, 'also-run-in-high-compatibility-mode')
        if (o[0], list(o[1]) if o[0] == 'ok' else o[1]) != (oh[0], list(oh[1]) if oh[0] == 'ok' else oh[1]):
            ctx.violation('segments-depend-on-high-compatibility-mode',
                          {'cap': c[0], 'eflr': c[1], 'type': c[2], 'body_len': len(c[3]), 'body': c[3],
                           'default': [s.hex() for s in o[1]] if o[0] == 'ok' else o,
                           'high_compat': [s.hex() for s in oh[1]] if oh[0] == 'ok' else oh})
    reps = ctx.model_batch([[3, cap, [eflr, ty, body]] for cap, eflr, ty, body in cases])
    rd_req, rd_idx = [], []
    for k, (st, v) in enumerate(outs):
        if st == 'ok':
            rd_req.append([15, b''.join(v)])
            rd_idx.append(k)
    rd = dict(zip(rd_idx, ctx.model.batch(rd_req)))
    for k, (c, o, m) in enumerate(zip(cases, outs, reps)):
        cap, eflr, ty, body = c
        ctx.count(stream, key=(cap, len(body)))
        br = 'short' if len(body) < 12 else 'one' if len(body) <= cap else 'shift' if 0 < (len(body) % cap) < 12 else 'multi'
        ctx.stat(stream, 'branch_' + br)
        if len(ctx.samples) < 4 and k % 997 == 5:
            ctx.sample({'stream': stream, 'cap': cap, 'body_len': len(body), 'impl_segments': [len(s) for s in o[1]] if o[0] == 'ok' else o})
        judge({'cap': cap, 'eflr': eflr, 'type': ty, 'body_len': len(body), 'body': body}, o, m, rd.get(k))


def correspondence_seg(ctx, case, o, m):
    """impl vs model on one segmenter case; returns True when they agree."""
    if o[0] == 'ok' and m[0] == 0:
        if list(o[1]) != list(m[1]):
            ctx.violation('segments-differ-from-model', {**case, 'impl': [s.hex() for s in o[1]], 'model': [s.hex() for s in m[1]]})
            return False
        return True
    if o[0] == 'err' and m[0] == 1:
        return True
    ctx.violation('segmenter-outcome-differs-from-model', {**case, 'impl': o if o[0] == 'err' else 'returned', 'model': m})
    return False


def synth_cases(ctx, n, vrls=None):
    rng = ctx.rng('synth')
    out = []
    vrls = vrls or ([20, 22, 24, 30, 32, 34, 40, 64, 128, 256, 1024, 8192, 16384])
    for i in range(n):
        vrl = rng.choice(vrls)
        cap = vrl - 8
        recs = []
        for j in range(rng.randrange(0, 6)):
            kind = rng.random()
            if kind < 0.15:
                L = rng.randrange(0, 13)
            elif kind < 0.7:
                L = max(0, rng.randrange(0, 4) * cap + rng.randrange(-13, 14))
            else:
                L = rng.randrange(0, 3 * cap + 2)
            L = min(L, 60000)
            recs.append((rng.random() < 0.5, rng.choice([0, 1, 2, 3, 4, 5, 11, 200]), impl.pos_bytes(L, salt=i * 7 + j)))
        ident = ''.join(rng.choice('ABCDEFGHIJKLMNOPQRSTUVWXYZ0123456789-_ abc') for _ in range(rng.choice([0, 1, 17, 59, 60])))
        seq = rng.choice([1, 9, 10, 99, 100, 999, 1000, 9999, rng.randrange(1, 10000)])
        out.append({'seq': seq, 'vrl': vrl, 'ident': ident, 'recs': recs})
    return out


def run_synth(ctx, cases, stream, judge, out_chunk=None):
    outs = []
    for c in cases:
        oc = out_chunk(c) if out_chunk else max(c['vrl'], 4096)
        outs.append(impl.outcome(lambda c=c, oc=oc: impl.write_synthetic(c['seq'], c['vrl'], c['ident'], c['recs'], oc)))
    reqs = [[4, c['seq'], c['vrl'], text(c['ident']), [impl.lrec_tree(r) for r in c['recs']]] for c in cases]
    reps = ctx.model_batch(reqs, sample_every=11)
    rd_req, rd_idx = [], []
    for k, (c, (st, v)) in enumerate(zip(cases, outs)):
        if st == 'ok':
            rd_req.append([8, c['seq'], c['vrl'], text(c['ident']), v['file']])
            rd_idx.append(k)
    rd = dict(zip(rd_idx, ctx.model.batch(rd_req)))
    for k, (c, o, m) in enumerate(zip(cases, outs, reps)):
        ctx.count(stream, key=(c['vrl'], tuple(len(r[2]) for r in c['recs'])))
        ctx.stat(stream, 'records', len(c['recs']))
        if len(ctx.samples) < 6 and k % 41 == 0:
            ctx.sample({'stream': stream, 'vrl': c['vrl'], 'ident': c['ident'], 'body_lengths': [len(r[2]) for r in c['recs']],
                        'file_len': len(o[1]['file']) if o[0] == 'ok' else o})
        judge(c, o, m, rd.get(k))


def case_json(c):
    return {'seq': c['seq'], 'vrl': c['vrl'], 'ident': c['ident'],
            'recs': [{'eflr': r[0], 'type': r[1], 'body_len': len(r[2]), 'body_hex': r[2].hex() if len(r[2]) < 200 else r[2][:200].hex() + '...'} for r in c['recs']]}


def correspondence_file(ctx, c, o, m):
    if o[0] == 'ok' and m[0] == 0:
        if o[1]['file'] != m[1]:
            a, b = o[1]['file'], m[1]
            pos = next((i for i in range(min(len(a), len(b))) if a[i] != b[i]), min(len(a), len(b)))
            ctx.violation('file-differs-from-model', {**case_json(c), 'first_difference_at': pos, 'impl_len': len(a), 'model_len': len(b),
                                                     'impl_around': a[max(0, pos - 8):pos + 24].hex(), 'model_around': b[max(0, pos - 8):pos + 24].hex()})
            return False
        return True
    if o[0] == 'err' and m[0] == 1:
        return True
    ctx.violation('write-outcome-differs-from-model', {**case_json(c), 'impl': o if o[0] == 'err' else 'returned', 'model': m if m[0] else 'OK'})
    return False


def real_cases(ctx, n, vrls=None):
    rng = ctx.rng('real')
    vrls = vrls or [20, 24, 32, 64, 128, 512, 8192, 16384]
    for i in range(n):
        vrl = rng.choice(vrls)
        payloads = []
        for _ in range(rng.randrange(0, 4)):
            L = rng.choice([0, 1, 2, 5, 7, 8, 9, 100, vrl - 8, vrl, 3 * vrl + 1])
            kind = rng.randrange(3)
            b = bytes(rng.getrandbits(8) for _ in range(L))
            payloads.append(b if kind == 0 else bytearray(b) if kind == 1 else ''.join(chr(x % 128) for x in b))
        yield vrl, payloads, rng


def run_real(ctx, n, stream, judge, vrls=None):
    k = 0
    late = ctx.rng('real-late')
    for vrl, payloads, rng in real_cases(ctx, n, vrls):
        ident = 'MAIN-STORAGE-UNIT'
        # a third of the files get their record length through the label after construction, a sixth after a first write
        mode = late.choice(['ctor', 'ctor', 'ctor', 'late', 'late', 'rewrite'])
        other = late.choice([20, 64, 512, 8192, 16384])
        try:
            df, info = impl.simple_file(rng, vrl=vrl, nofmt_payloads=payloads, ident=ident,
                                        first_vrl=other if mode == 'late' else None)
            if mode == 'rewrite':
                df.storage_unit_label.max_record_length = other
                impl.outcome(lambda: impl.write_real(df))
                df.storage_unit_label.max_record_length = vrl
            o = impl.outcome(lambda: impl.write_real(df, in_chunk=rng.choice([None, 1, 2, 3])))
        except Exception as e:  # noqa
            o = ('err', 'build:' + type(e).__name__)
            info = {}
        rd = None
        if o[0] == 'ok':
            rd = ctx.model.one([8, 1, vrl, text(ident), o[1]['file']])
        ctx.count(stream, key=(vrl, k))
        ctx.stat(stream, 'length-given:' + mode)
        if o[0] == 'ok':
            ctx.stat(stream, 'records', len(o[1]['recs']))
            ctx.stat(stream, 'bytes', len(o[1]['file']))
        else:
            ctx.stat(stream, 'raised:' + str(o[1]))
        if len(ctx.samples) < 8 and k % 13 == 0:
            ctx.sample({'stream': stream, 'vrl': vrl, 'payload_lengths': [len(p) for p in payloads],
                        'records': [(e, t, len(b)) for e, t, b in o[1]['recs']][:12] if o[0] == 'ok' else o})
        judge({'vrl': vrl, 'payload_lengths': [len(p) for p in payloads], 'index': k, 'length_given': mode,
               'other_length': other}, o, rd, info)
        k += 1
