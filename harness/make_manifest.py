"""Writes /verif/MANIFEST.json from the table below (kept in one place so that it stays valid)."""
import json, os
VERIF = os.path.dirname(os.path.dirname(os.path.abspath(__file__)))
props = [json.loads(l) for l in open(os.path.join(VERIF, 'properties.jsonl')) if l.strip()]

CLAIMED = {
 'C01': ('7 C01', 'Coq theorems C01_layout / C01_reader_complete / C01_vr_bound over Model/Segment.v for all record lists, body lengths and accepted record lengths; tied to the code by byte-exact K-seg/K-file correspondence and by the strict framing reader applied to every implementation output',
         'proof in Coq (induction over the splitting loop and the record list) + byte-exact correspondence + verified strict reader as oracle'),
 'C02': ('7 C02', 'Coq theorems C02_roundtrip (read_records (write_file recs) = non-empty recs) and C02_bracket (soundness of reassembly for the declarative bracket discipline); tie: K-seg/K-file correspondence, lr-tap bodies vs records read back from real files',
         'proof in Coq (parser/printer inversion, reassembly induction) + correspondence + lr-tap'),
 'C04': ('7 C04', 'Coq theorems C04_grammar (dec_set (enc_set s) succeeds with nothing left over and matches the set: type, name, template labels, per object identity and per attribute ABSATR or count/code/units/values), C04_attribute, C04_value over Model/Eflr.v and the strict component reader Model/EflrReader.v, by structural induction over objects and attributes; tie: K-attr correspondence (Python-side attribute state -> model encoder == tapped EFLR body) and strict reader judgement of every tapped EFLR body, over random specifications of all 22 object types',
         'proof in Coq (parser/printer inversion for the component grammar) + byte-exact correspondence + verified strict component reader as oracle'),
 'C06': ('7 C06', 'Coq theorems C06_roundtrip_<code> and C06_domain_<code> for all 15 codes over their whole value domain (lia with euclidean division); tie: K-prim correspondence on range edges, form boundaries and random values, decoder judgement of every emitted byte string',
         'proof in Coq (lia over Z, per-code round trip and exact domain) + correspondence'),
 'C10': ('7 C10', 'Coq theorems C10_out_invisible / C10_file (buffer invariant by induction over the record list: final file, reported total, every flush snapshot is label ++ prefix of records), C10_in_invisible (chunking is the identity); tie: every output chunk size vrl..file+1 with flush-tap snapshots, input chunk sweep',
         'proof in Coq (state-machine invariant by induction) + exhaustive chunk-size sweep against the model'),
 'C15': ('7 C15', 'Coq theorem C15_total: write_file succeeds for every accepted record length, every valid label and records of any body length (termination of the splitting loop within the supplied fuel is part of the proof); tie: segmenter run for every accepted length x body lengths, size-minimal real files',
         'proof in Coq (totality by induction on the remaining length) + correspondence'),
 'C16': ('7 C16', 'Coq theorems C16_body (dec_nofmt (obname ++ payload) = (obname, payload)), C16_kept, C16_file (order and content through the physical layer, from C02); tie: type-1 records read back from real files vs model nofmt_body',
         'proof in Coq (decoder inversion + C02 round trip) + reader judgement of real files'),
}
NOT_YET = 'model and check for this property are not built yet in this round (planned: DESIGN.md section 8); not claimed at a weaker technique'

checks = []
for p in props:
    pid = p['id']
    if pid in CLAIMED:
        ref, text, tech = CLAIMED[pid]
        checks.append({
            'property_id': pid,
            'quick_cmd': './bin/check %s quick' % pid,
            'thorough_cmd': './bin/check %s thorough' % pid,
            'evidence_file': 'evidence/%s.json' % pid,
            'replay_cmd_template': './bin/check %s --replay {path}' % pid,
            'engine': 'coq-model',
            'level_claimed': {'category': 'proof', 'text': text, 'design_ref': 'DESIGN.md section ' + ref},
            'level_note': 'trusted: Coq 8.16.1 kernel, extraction (ExtrOcamlBasic only) cross-checked with vm_compute, the Python harness, CPython/numpy primitives below the model; the theorem is about the hand-written model, which is tied to /repo by running both on the same inputs on every run (see evidence coverage.trusted_base)',
            'technique': tech,
        })
manifest = {
 'version': 1,
 'setup_cmd': './bin/setup',
 'hooks': {
   'guard': 'WELL_ID_DLISWRITER_VERIF',
   'enable': 'environment variable WELL_ID_DLISWRITER_VERIF=1 (set by bin/check) activates the lr-tap and flush-tap sinks; pure Python, nothing to build',
   'baseline_off_cmd': 'cd /repo && env -u WELL_ID_DLISWRITER_VERIF /venv/bin/python -m pytest -ra -q -p no:cacheprovider --timeout=900 --continue-on-collection-errors',
   'source_commits': ['1a14df5'],
   'add_only': True,
 },
 'engines': [{'name': 'coq-model', 'path': 'coq/', 'serves_properties': sorted(CLAIMED),
              'kind_free_text': 'hand-written Gallina model + Coq proofs (coq/Model, coq/Proofs, coq/Props), extracted to build/dlis_model; Python harness (harness/) runs the implementation and the model on the same inputs'}],
 'checks': checks,
 'not_applicable': [{'property_id': p['id'], 'reason': NOT_YET} for p in props if p['id'] not in CLAIMED],
 'notes': 'fix: commits in /repo are listed in known_findings.txt; see DESIGN.md',
}
json.dump(manifest, open(os.path.join(VERIF, 'MANIFEST.json'), 'w'), indent=1)
print('claimed', sorted(CLAIMED))
