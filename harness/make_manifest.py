"""Writes /verif/MANIFEST.json from the table below (kept in one place so that it stays valid)."""
import json, os
VERIF = os.path.dirname(os.path.dirname(os.path.abspath(__file__)))
props = [json.loads(l) for l in open(os.path.join(VERIF, 'properties.jsonl')) if l.strip()]

CLAIMED = {
 'C01': ('7 C01', 'Coq theorems C01_layout / C01_reader_complete / C01_checker (check_layout <-> Layout) / C01_vr_bound over Model/Segment.v for all record lists, body lengths and accepted record lengths, and C01_api_layout: after ANY sequence of API calls and writes the file returned by the modelled DLISFile.write has the layout (invariants Inv_shape/Inv_struct by induction over operations, every encoder yields bytes); tied to the code by byte-exact K-seg/K-file correspondence and by the strict framing reader applied to every implementation output',
         'proof in Coq (induction over the splitting loop and the record list) + byte-exact correspondence + verified strict reader as oracle'),
 'C02': ('7 C02', 'Coq theorems C02_roundtrip (read_records (write_file recs) = non-empty recs), C02_bracket (soundness of reassembly for the declarative bracket discipline) and C02_api_bracketed (the same for every file the modelled API writes); tie: K-seg/K-file correspondence, lr-tap bodies vs records read back from real files',
         'proof in Coq (parser/printer inversion, reassembly induction) + correspondence + lr-tap'),
 'C04': ('7 C04', 'Coq theorems C04_grammar (dec_set (enc_set s) succeeds with nothing left over and matches the set: type, name, template labels, per object identity and per attribute ABSATR or count/code/units/values), C04_attribute, C04_value, C04_reachable_wf (the count-consistency hypothesis holds in every reachable state) and C04_api_records_decode (every explicitly formatted record of every file the modelled API writes, FILE-HEADER included, decodes under the grammar) over Model/Eflr.v and the strict component reader Model/EflrReader.v, by structural induction over objects and attributes; tie: K-attr correspondence (Python-side attribute state -> model encoder == tapped EFLR body) and strict reader judgement of every tapped EFLR body, over random specifications of all 22 object types',
         'proof in Coq (parser/printer inversion for the component grammar) + byte-exact correspondence + verified strict component reader as oracle'),
 'C03': ('7 C03', 'Coq theorems C03_decode (dec_fdata (fdata_body o n slots) = (o, n, slots), nothing left), C03_rows / C03_count (one type-0 IFLR per row, numbered in input order, never dropped), C03_file (C02 instantiated); values are bit patterns; tie: frames over 8 dtypes x byte order x width x layout x cast x source kind, every frame-data record read back by the strict reader decoded with the declared layout and compared bit for bit with numpy-computed expectations, and with the model encoder',
         'proof in Coq (decoder inversion by induction over slots and elements) + reader judgement of real files + correspondence'),
 'C05': ('7 C05', 'Coq theorems C05_assign_value / C05_assign_units (an assignment stores exactly the converter result in exactly the assigned part; everything else unchanged) and C05_value_readback (stored value -> decoded value), C05_api_frame (no API call touches the attribute state of an existing object except an assignment to it), C05_record_is_the_set (every record decodes to exactly the set of the state the encoder leaves), C05_file_content (end to end: a returned file is one group of records per logical file, every set record decoding to the set as it stands in the state the write leaves; no set shared between logical files) and C05_write_changes_only_defaults (a write, successful or not, in every reachable state changes attribute values / units only at the write-time default sites, and only where nothing or a falsy value was given; the site list is regenerated from the syntax trees of /repo on every run and proved equal to the sites of the theorem in GenFacts/SitesOK.v) over Model/Convert.v + Model/Builder.v + Model/Write.v (schema regenerated from /repo); the composition into the end-to-end claim is checked per run: K-api byte-exact correspondence of whole programs with the model, and every decoded attribute of implementation output compared with the last accepted assignment computed from the operation list; attribute state of every object before / after DLISFile.write compared against the regenerated sites',
         'proof in Coq (frame rules of assignment, of the API and of the write; record = set; value read-back) + byte-exact K-api correspondence + reader judgement against op-list expectations (partial: no single end-to-end theorem)'),
 'C07': ('7 C07', 'Coq theorems C07_identity_in_set / C07_copy_numbers: in every reachable builder state (induction over all operation lists incl. rejected calls) the copy number of an object is the number of earlier same-named objects of its set, hence (name, copy) is injective per set; C07_reference_roundtrip; refuted across named sets (C07_refuted_named_sets = known finding D13); tie: K-api correspondence, decoded identities / references / origins of implementation output',
         'proof in Coq (invariant by induction over operation lists) + K-api correspondence + reader judgement'),
 'C08': ('7 C08', 'Coq theorems C08_descr (code = written dtype, DIMENSION = per-row shape, ELEMENT-LIMIT bounds it, user values kept or rejected), C08_length (record length formula), C08_slicing; tie: decoded CHANNEL/FRAME objects and FDATA lengths of real files vs Model/Data.v channel_setup over casts, widths, user dimension/limit consistent or not, shared / aliased / orphan channels',
         'proof in Coq + reader judgement of real files + correspondence of the descriptor logic'),
 'C09': ('7 C09', 'Coq theorems C09_order (records of a logical file = FILE-HEADER record, then explicit records only, then indirect records only), C09_no_empty_sets and C09_sets_once (in every reachable state the sets a logical file writes have pairwise distinct (type, name): registry invariant by induction over operations) over Model/Write.v lf_records; tie: K-api correspondence and order judgement of the decoded record sequence of implementation output (header fields, defining origin FILE-ID/FILE-SET-NUMBER, each set once, none empty, references defined before use)',
         'proof in Coq (structure of the record generator) + K-api correspondence + reader judgement'),
 'C14': ('7 C14', 'Coq theorems C14_new_file_is_fresh and C14_mode_is_the_only_process_state over the cache-free model; decisive part: in-process histories (several files, reused names, 0.0/-0.0, 1/1.0/True, queries, rewrites) compared byte for byte with the model AND with a fresh subprocess writing the last specification alone; P; write; Q; write against P; Q; write in a fresh process (Q: assignments incl. other kinds of values, origin_reference changes); write; write of an unchanged specification; known finding D9 replayed',
         'proof in Coq (cache-free denotation, process state = mode flag) + differential execution against a fresh subprocess (rewriting one DLISFile with different data: known finding D9)'),
 'C17': ('7 C17', 'Coq theorems C17_restored (any balanced sequence of enter/leave, nested, around any other operations, restores flag and stack: induction on the nesting), C17_only_contexts_change_mode, C17_names_enforced; tie: K-api correspondence of programs with contexts, flag after every program, decoded restrictions of files written in the mode, exception / decorator / nested forms on the real API',
         'proof in Coq (induction over balanced operation sequences) + K-api correspondence + reader judgement'),
 'C18': ('7 C18', 'Coq theorems C18_frames (per-frame numbering from 1) and C18_lf_records; the rejection clause is refuted in the model (C18_refuted_shared_default_sets) and recorded as known finding D12; tie: multi-logical-file programs (distinct / default / partially shared set names, interleaved calls): K-api correspondence and per-logical-file inventories of decoded implementation output',
         'proof in Coq + K-api correspondence + reader judgement (known finding D12 for shared set names)'),
 'C20': ('7 C20', 'Coq theorem C20_reject: every rejected operation (add_* of every type at every rejection point, assignment, add_logical_file) leaves objects, registration lists, no-format data, data dictionary, headers and mode unchanged (only empty sets may appear, and they are invisible: C20_reject_invisible / C20_single_lf_reject_invisible; D22, their registry position, was repaired in /repo: C20_set_position_repaired); C20_copy_numbers; C20_failed_write_keeps_the_specification (a failing write leaves sets, registries, types and every given value / unit untouched, adding at most write-time defaults where nothing was given); tie: K-api correspondence and, for every program with rejected calls, decoded inventory equality with the same history without them',
         'proof in Coq (case analysis of the step function) + K-api correspondence + differential histories'),
 'C11': ('7 C11', 'Coq theorems C11_sources (direct-slice path of a structured source = generic per-channel path), C11_window (loading from the window = loading from pre-sliced arrays), C11_chunks (for every input chunk size the rows produced are exactly rows [from, to) in frame channel order) over Model/Data.v; tie: the same data through inline / dict / structured array / HDF5 with permuted fields, extra datasets, dataset-name mapping, all windows and chunk sizes: byte-identical files, equal to the pre-sliced reference; K-api correspondence of the dict route',
         'proof in Coq (slice/zip algebra by induction) + differential execution across source kinds + K-api correspondence'),
 'C12': ('7 C12', 'Coq theorems C12_physical (whatever the physical writer returns reads back), C12_explicit (whatever the set encoder returns decodes to the set), C12_rejects_ident/text/uvari/unorm (exact domains: over-long, non-ASCII, out-of-range are Err), C12_rejects_incomplete (a successful check_objects implies origin, channels, frames and registered frame channels), C12_rejects_bad_data (a successful frame set-up implies every data set present, supported dtype, at most 2-D), C12_api_returned_file_is_well_formed (whatever the modelled write returns has the layout and is accepted record by record by the complete strict reader), C12_api_returned_file_is_faithful (and its set records decode to the sets of the final specification state); faithfulness of the CONTENT is checked per run: valid programs with ONE injected invalidity and data-level invalid inputs: the write raises, or the returned file is decoded by the strict reader and judged faithful (C05/C07/C09 predicates)',
         'proof in Coq of the components (exact domains, preconditions of a successful write) + malformed-input stream judged by the verified reader (well-formedness of every returned file is a theorem; content faithfulness per run)'),
 'C13': ('7 C13', 'Coq theorem C13_index over exact integer arithmetic (Model/Data.v index_stats): INDEX-MIN/MAX are the attained minimum/maximum; SPACING only for >= 2 rows and only when every difference equals it or lies within (1 - d/s)^2 < 1/1000 of the non-zero median; DIRECTION reflects the monotone sense; single row: neither; tie: decoded FRAME attributes of real files over all dtypes / patterns / windows / user values vs the model statistics; known finding D9 for repeated writes with other data',
         'proof in Coq (exact arithmetic; partial for inexact float data) + reader judgement of real files + K-api correspondence'),
 'C19': ('7 C19', 'PARTIAL. Coq theorem C19_no_caller_write over a hand-abstracted ownership/effect model (Model/Effects.v): effect sequences whose writes target library-allocated buffers leave caller buffers unchanged, and the abstracted pipelines are such sequences; numpy/h5py aliasing itself is below the model. Code-tied part: bit-exact before/after snapshots of every caller-owned buffer (root buffers of views, flags, dict identity, HDF5 hash) on every data-path case incl. failing writes',
         'proof in Coq about an effect abstraction (partial) + runtime snapshot exploration of numpy aliasing'),
 'C06': ('7 C06', 'Coq theorems C06_roundtrip_<code> and C06_domain_<code> for all 15 codes over their whole value domain (lia with euclidean division); tie: K-prim correspondence on range edges, form boundaries and random values, decoder judgement of every emitted byte string',
         'proof in Coq (lia over Z, per-code round trip and exact domain) + correspondence'),
 'C10': ('7 C10', 'Coq theorems C10_out_invisible / C10_file (buffer invariant by induction over the record list: final file, reported total, every flush snapshot is label ++ prefix of records), C10_in_invisible (chunking is the identity); tie: every output chunk size vrl..file+1 with flush-tap snapshots, input chunk sweep',
         'proof in Coq (state-machine invariant by induction) + exhaustive chunk-size sweep against the model'),
 'C15': ('7 C15', 'Coq theorems C15_total: write_file succeeds for every accepted record length, every valid label and records of any body length (termination of the splitting loop within the supplied fuel is part of the proof), and C15_api_total: once the modelled write has produced the records, no size can make it fail; tie: segmenter run for every accepted length x body lengths, size-minimal real files',
         'proof in Coq (totality by induction on the remaining length) + correspondence'),
 'C16': ('7 C16', 'Coq theorems C16_body (dec_nofmt (obname ++ payload) = (obname, payload)), C16_kept, C16_file (order and content through the physical layer, from C02); tie: type-1 records read back from real files vs model nofmt_body',
         'proof in Coq (decoder inversion + C02 round trip) + reader judgement of real files'),
}
NOT_YET = 'not claimed'

checks = []
for p in props:
    pid = p['id']
    if pid in CLAIMED:
        ref, text, tech = CLAIMED[pid]
        checks.append({
            'property_id': pid,
            'quick_cmd': './bin/check %s quick' % pid,
            'thorough_cmd': './bin/check %s thorough' % pid,
            'evidence_file': 'evidence/%s.json' % pid,
            'replay_cmd_template': './bin/check %s --replay {path}' % pid,
            'engine': 'coq-model',
            'level_claimed': {'category': 'proof', 'text': text, 'design_ref': 'DESIGN.md section ' + ref},
            'level_note': 'trusted: Coq 8.16.1 kernel, extraction (ExtrOcamlBasic only) cross-checked with vm_compute, the Python harness, CPython/numpy primitives below the model; the theorem is about the hand-written model, which is tied to /repo by running both on the same inputs on every run (see evidence coverage.trusted_base)',
            'technique': tech,
        })
manifest = {
 'version': 1,
 'setup_cmd': './bin/setup',
 'hooks': {
   'guard': 'WELL_ID_DLISWRITER_VERIF',
   'enable': 'environment variable WELL_ID_DLISWRITER_VERIF=1 (set by bin/check) activates the lr-tap and flush-tap sinks; pure Python, nothing to build',
   'baseline_off_cmd': 'cd /repo && env -u WELL_ID_DLISWRITER_VERIF /venv/bin/python -m pytest -ra -q -p no:cacheprovider --timeout=900 --continue-on-collection-errors',
   'source_commits': ['1a14df5'],
   'add_only': True,
 },
 'engines': [{'name': 'coq-model', 'path': 'coq/', 'serves_properties': sorted(CLAIMED),
              'kind_free_text': 'hand-written Gallina model + Coq proofs (coq/Model, coq/Proofs, coq/Props), extracted to build/dlis_model; Python harness (harness/) runs the implementation and the model on the same inputs'}],
 'checks': checks,
 'not_applicable': [{'property_id': p['id'], 'reason': NOT_YET} for p in props if p['id'] not in CLAIMED],
 'notes': 'fix: commits in /repo are listed in known_findings.txt; see DESIGN.md',
}
json.dump(manifest, open(os.path.join(VERIF, 'MANIFEST.json'), 'w'), indent=1)
print('claimed', sorted(CLAIMED))
