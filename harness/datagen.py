"""datagen.py — frame data for the data-path properties (C03, C08, C11, C13, C19): arrays of the 8 dtypes in either
byte order, scalar or 2-D, several memory layouts, arbitrary bit patterns; expected slot bit patterns computed with
numpy independently of dliswriter."""
import numpy as np

DTYPES = ['int8', 'int16', 'int32', 'uint8', 'uint16', 'uint32', 'float32', 'float64']
CODE = {'int8': 12, 'int16': 13, 'int32': 14, 'uint8': 15, 'uint16': 16, 'uint32': 17, 'float32': 2, 'float64': 7}
SPECIAL = {
    'float32': [0x00000000, 0x80000000, 0x7f800000, 0xff800000, 0x7fc00000, 0x7fc00001, 0xffc12345, 0x00000001, 0x7f7fffff, 0x3f800000],
    'float64': [0, 1 << 63, 0x7ff0000000000000, 0xfff0000000000000, 0x7ff8000000000000, 0x7ff8000000000001, 0xfff8dead0000beef, 1,
                0x7fefffffffffffff, 0x3ff0000000000000],
}


def gen_channel(rng, rows, name, dtype=None, width='rand', order=None, layout=None, cast='rand'):
    dtype = dtype or rng.choice(DTYPES)
    if width == 'rand':
        width = rng.choice([None, None, None, 1, 2, 3, 7])
    order = order or rng.choice(['<', '<', '>'])
    layout = layout or rng.choice(['C', 'C', 'F', 'strided', 'readonly', 'view'])
    if cast == 'rand':
        cast = rng.choice([None, None, None, None, rng.choice(DTYPES)])
    return {'name': name, 'dtype': dtype, 'width': width, 'order': order, 'layout': layout, 'cast': cast, 'seed': rng.randrange(1 << 30),
            'rows': rows}


def logical_array(ch):
    """The logical values (native byte order, C layout)."""
    rs = np.random.RandomState(ch['seed'])
    dt = np.dtype(ch['dtype'])
    shape = (ch['rows'],) if ch['width'] is None else (ch['rows'], ch['width'])
    n = int(np.prod(shape))
    raw = bytearray(rs.bytes(n * dt.itemsize))
    arr = np.frombuffer(bytes(raw), dtype=dt).reshape(shape).copy()
    if ch['dtype'] in SPECIAL and n:
        flat = arr.reshape(-1).view('u%d' % dt.itemsize)
        sp = SPECIAL[ch['dtype']]
        for k in range(min(n, len(sp))):
            if rs.rand() < 0.5:
                flat[rs.randint(n)] = sp[k]
    if dt.kind == 'f':
        # quiet any signalling NaN: casts and copies through the FPU may quiet them (runtime, below the model)
        u = arr.reshape(-1).view('u%d' % dt.itemsize)
        if dt.itemsize == 4:
            m = ((u & 0x7f800000) == 0x7f800000) & ((u & 0x007fffff) != 0)
            u[m] |= 0x00400000
        else:
            m = ((u & 0x7ff0000000000000) == 0x7ff0000000000000) & ((u & 0x000fffffffffffff) != 0)
            u[m] |= 0x0008000000000000
    return arr


def physical_array(ch, arr=None):
    """The array as handed to dliswriter: byte order and memory layout as requested; same logical values."""
    arr = logical_array(ch) if arr is None else arr
    a = arr.astype(arr.dtype.newbyteorder(ch['order'])) if arr.dtype.itemsize > 1 else arr.copy()
    lay = ch['layout']
    if lay == 'F' and a.ndim == 2:
        a = np.asfortranarray(a)
    elif lay == 'strided':
        big = np.zeros(tuple(2 * s + 1 for s in a.shape), dtype=a.dtype)
        view = big[tuple(slice(1, None, 2) for _ in a.shape)]
        view[...] = a
        a = view
    elif lay == 'view':
        big = np.zeros((a.shape[0] + 4,) + a.shape[1:], dtype=a.dtype)
        big[2:-2] = a
        a = big[2:-2]
    elif lay == 'readonly':
        a.setflags(write=False)
    return a


def expected_slots(ch, arr=None, rows=None):
    """Per row: (element size, [bit patterns]) after the declared cast, computed with numpy only."""
    arr = logical_array(ch) if arr is None else arr
    dt = np.dtype(ch['cast'] or ch['dtype'])
    with np.errstate(all='ignore'):
        w = arr.astype(dt) if ch['cast'] else arr
    be = np.ascontiguousarray(w).astype(dt.newbyteorder('>')) if dt.itemsize > 1 else np.ascontiguousarray(w)
    flat = be.reshape(be.shape[0], -1)
    u = flat.view('>u%d' % dt.itemsize) if dt.itemsize > 1 else flat.view('u1')
    out = []
    for i in range(u.shape[0]):
        out.append((dt.itemsize, [int(x) for x in u[i]]))
    return out


def cast_is_value_safe(ch, arr=None):
    """True when the declared cast does not depend on platform-specific out-of-range behaviour."""
    if not ch['cast'] or ch['cast'] == ch['dtype']:
        return True
    arr = logical_array(ch) if arr is None else arr
    src, dst = np.dtype(ch['dtype']), np.dtype(ch['cast'])
    if dst.kind == 'f':
        return True
    if src.kind == 'f':
        finite = np.isfinite(arr)
        if not finite.all():
            return False
        info = np.iinfo(dst)
        return bool(((arr > info.min - 1) & (arr < info.max + 1)).all())
    return True    # int -> int wraps modulo 2^n in numpy, deterministically
