"""specgen.py — abstract specifications (JSON-able op lists), their generator, and the interpreter that applies
them to the dliswriter public API. Objects are referred to by creation index. Also: extraction of the Python-side
attribute state of live objects as model trees (K-attr interface)."""
import ast
import inspect
import struct
import datetime as dtm
import numpy as np
from common import text, U

_API = None


def api():
    """Introspected tables of the 22 object types: add_* method, item/set classes, parameter -> attribute mapping,
    attribute classes and flags. (Harness-side knowledge used to *generate* inputs; never an oracle.)"""
    global _API
    if _API is not None:
        return _API
    import dliswriter.file.file as ff
    from dliswriter.logical_record import eflr_types
    src = inspect.getsource(ff.LogicalFile)
    tree = ast.parse(src)
    cls = tree.body[0]
    types = {}
    for fn in cls.body:
        if not isinstance(fn, ast.FunctionDef) or not fn.name.startswith('add_') or fn.name in ('add_no_format_frame_data',):
            continue
        item_cls = None
        kwmap = {}
        call_kws = []
        posname = None
        for node in ast.walk(fn):
            if isinstance(node, ast.Call) and isinstance(node.func, ast.Attribute) and node.func.attr.endswith('Item') \
                    and isinstance(node.func.value, ast.Name) and node.func.value.id == 'eflr_types':
                item_cls = node.func.attr
                for kw in node.keywords:
                    call_kws.append((kw.arg, kw.value.id if isinstance(kw.value, ast.Name) else None))
                    if isinstance(kw.value, ast.Name):
                        kwmap[kw.value.id] = kw.arg
        if item_cls is None:
            continue
        key = fn.name[4:]
        icls = getattr(eflr_types, item_cls)
        scls = icls.parent_eflr_class
        scratch = scls() if key != 'origin' else scls()
        if key == 'origin':
            it = icls('X', parent=scratch, origin_reference=1, file_set_number=1, creation_time='2000/01/01 00:00:00')
        else:
            it = icls('X', parent=scratch)
        attrs = {}
        for an, a in it.attributes.items():
            attrs[an] = {
                'label': a.label, 'cls': type(a).__name__, 'mv': a.multivalued, 'md': a.multidimensional,
                'rc0': a._representation_code.value if a._representation_code is not None else None,
                'units_settable': a._units_settable,
                'object_class': getattr(a, '_object_class', None),
                'int_only': getattr(a, '_int_only', False),
                'allow_float': getattr(a, '_allow_float', False),
                'has_converter': a._converter is not None,
            }
        params = [p for p in inspect.signature(getattr(ff.LogicalFile, fn.name)).parameters if p not in ('self', 'name', 'set_name', 'origin_reference')]
        types[key] = {'method': fn.name, 'item_cls': icls, 'set_cls': scls, 'set_type': scls.set_type,
                      'params': {p: kwmap.get(p) for p in params}, 'attrs': attrs, 'call_kws': call_kws,
                      'attr_order': list(attrs)}
    _API = types
    return types


# ------------------------------------------------------------------------------------------------
# RAW values

def r_int(v): return {'t': 'int', 'v': int(v)}
def r_bool(v): return {'t': 'bool', 'v': bool(v)}
def r_float(bits): return {'t': 'float', 'bits': int(bits)}
def r_str(s): return {'t': 'str', 'v': s}
def r_ref(i): return {'t': 'ref', 'i': i}
def r_list(l): return {'t': 'list', 'v': list(l)}
def r_dt(fields, tz=None): return {'t': 'dt', 'v': list(fields), 'tz': tz}
def r_enum(cls, member): return {'t': 'enum', 'cls': cls, 'member': member}
def r_setup(value=None, units=None, as_dict=False): return {'t': 'dict' if as_dict else 'setup', 'value': value, 'units': units}


def f_bits(x):
    return struct.unpack('>Q', struct.pack('>d', x))[0]


def bits_f(b):
    return struct.unpack('>d', struct.pack('>Q', b))[0]


def to_py(raw, objs):
    """RAW -> the Python value handed to the API."""
    t = raw['t']
    if t == 'int':
        return raw['v']
    if t == 'bool':
        return raw['v']
    if t == 'float':
        return bits_f(raw['bits'])
    if t == 'str':
        return raw['v']
    if t == 'ref':
        return objs[raw['i']]
    if t == 'list':
        return [to_py(x, objs) for x in raw['v']]
    if t == 'tuple':
        return tuple(to_py(x, objs) for x in raw['v'])
    if t == 'dt':
        tz = None if raw['tz'] is None else dtm.timezone(dtm.timedelta(minutes=raw['tz']))
        return dtm.datetime(*raw['v'], tzinfo=tz)
    if t == 'enum':
        import dliswriter.utils.enums as en
        return getattr(en, raw['cls'])[raw['member']]
    if t == 'setup':
        from dliswriter import AttrSetup
        return AttrSetup(value=None if raw['value'] is None else to_py(raw['value'], objs),
                         units=None if raw['units'] is None else to_py(raw['units'], objs))
    if t == 'dict':
        d = {}
        if raw['value'] is not None:
            d['value'] = to_py(raw['value'], objs)
        if raw['units'] is not None:
            d['units'] = to_py(raw['units'], objs)
        return d
    if t == 'none':
        return None
    if t == 'other':
        return object()
    raise ValueError(t)


# ------------------------------------------------------------------------------------------------
# generator

ASCII_POOL = 'ABCDEFGHIJKLMNOPQRSTUVWXYZabcdefghijklmnopqrstuvwxyz0123456789 _-./:#%()'


def g_text(rng, lens=(0, 1, 5, 20, 60, 127, 128, 200, 300)):
    n = rng.choice(lens)
    return ''.join(rng.choice(ASCII_POOL) for _ in range(n))


def g_ident(rng):
    return g_text(rng, (1, 3, 8, 30, 127, 128, 200, 255))


def g_name(rng):
    return rng.choice(['A', 'B', 'OBJ', 'X-1', 'name with space', 'N' * rng.choice([1, 60, 127, 128, 255]), 'DEPTH', 'TIME', 'Z'])


def g_float_bits(rng):
    k = rng.random()
    if k < 0.5:
        return f_bits(rng.choice([0.0, -0.0, 1.0, -1.5, 0.1, 2.5, 1e10, 1e-10, 123456.789, 3.0, 100.0]))
    if k < 0.6:
        return rng.choice([0x7ff0000000000000, 0xfff0000000000000, 0x7ff8000000000000, 0x7ff8000000000abc, 1, 0x7fefffffffffffff])
    return rng.getrandbits(64)


def g_dt(rng):
    tz = rng.choice([None, None, 0, 60, -300, 330, 840, -1])
    y = rng.choice([1900, 1987, 2000, 2024, 2155, rng.randrange(1901, 2155)])
    if tz is not None and y in (1900, 2155):
        y = 2000
    us = rng.choice([0, 0, 499, 500, 1500, 2500, 999499, 999500, 999999, rng.randrange(0, 10**6)])
    return r_dt([y, rng.randrange(1, 13), rng.randrange(1, 29), rng.randrange(24), rng.randrange(60), rng.randrange(60), us], tz)


def g_dt_str(rng):
    f = rng.choice(['%04d/%02d/%02d %02d:%02d:%02d', '%04d.%02d.%02d %02d:%02d:%02d'])
    return r_str(f % (rng.randrange(1900, 2156), rng.randrange(1, 13), rng.randrange(1, 29), rng.randrange(24), rng.randrange(60), rng.randrange(60)))


INT_RANGES = {12: (-128, 127), 13: (-32768, 32767), 14: (-2**31, 2**31 - 1), 15: (0, 255), 16: (0, 65535), 17: (0, 2**32 - 1), 18: (0, 2**30 - 1)}


def g_number(rng, info):
    rc = info['rc0']
    if info['int_only'] or (rc is not None and 12 <= rc <= 18):
        lo, hi = INT_RANGES.get(rc, (0, 1000))
        v = rng.choice([lo, hi, 0, 1, rng.randrange(lo, hi + 1), rng.randrange(lo, hi + 1)])
        return rng.choice([r_int(v), r_int(v), r_float(f_bits(float(v))) if abs(v) < 2**53 else r_int(v)])
    k = rng.random()
    if k < 0.3:
        return r_int(rng.choice([0, 1, -1, 5, 100, 2**31 - 1, -2**31, 2**40, 12345]))
    return r_float(g_float_bits(rng))


def g_count(rng):
    return rng.choice([0, 1, 1, 2, 2, 3, 5, 127, 128, 200])


ENUMS = {'units': 'Unit', 'index_type': 'FrameIndexType', '_type@equipment': 'EquipmentType', 'location': 'EquipmentLocation',
         'phase': 'CalibrationMeasurementPhase', 'domain': 'ZoneDomain', 'status@process': 'ProcessStatus', 'properties': 'Property'}


def enum_members(name):
    import dliswriter.utils.enums as en
    return list(getattr(en, name).__members__)


def g_enum_or_str(rng, ename, hard):
    mem = rng.choice(enum_members(ename))
    import dliswriter.utils.enums as en
    k = rng.random()
    if k < 0.45:
        return r_enum(ename, mem)
    if k < 0.9 or hard:
        return r_str(getattr(en, ename)[mem].value)
    return r_str(g_ident(rng))


def gen_attr_value(rng, tkey, aname, info, objs_by_type, all_objs):
    """RAW value for one attribute of a new object, or None to leave it unset."""
    c = info['cls']
    if c == 'ReprCodeAttribute':
        return None
    ekey = aname + '@' + tkey if (aname + '@' + tkey) in ENUMS else aname
    if c == 'PropertiesAttribute':
        return r_list([g_enum_or_str(rng, 'Property', True) for _ in range(rng.choice([0, 1, 2, 5]))])
    if c == 'IdentAttribute' and ekey in ENUMS:
        hard = ekey in ('phase', 'domain', 'status@process')
        return g_enum_or_str(rng, ENUMS[ekey], hard)
    if c == 'TextAttribute':
        if info['mv']:
            return r_list([r_str(g_text(rng)) for _ in range(g_count(rng))]) if rng.random() < 0.9 else r_str(g_text(rng))
        return r_str(g_text(rng, (0, 1, 5, 20, 127, 128, 300, 16383, 16384) if rng.random() < 0.05 else (0, 1, 5, 20, 60, 127, 128, 300)))
    if c == 'IdentAttribute':
        return r_str(g_ident(rng))
    if c == 'StatusAttribute':
        return rng.choice([r_int(0), r_int(1), r_bool(True), r_bool(False), r_float(f_bits(1.0))])
    if c == 'DimensionAttribute':
        return rng.choice([r_list([r_int(rng.randrange(1, 6)) for _ in range(rng.choice([1, 1, 2]))]), r_int(rng.randrange(1, 6))])
    if c == 'DTimeAttribute':
        k = rng.random()
        if info['allow_float'] and k < 0.35:
            return rng.choice([r_float(g_float_bits(rng)), r_int(rng.randrange(0, 10**6))])
        return g_dt_str(rng) if k < 0.55 else g_dt(rng)
    if c == 'NumericAttribute':
        if aname == 'encrypted':
            return rng.choice([r_int(0), r_int(1), r_bool(True), r_str('yes'), r_str('N')])
        if info['mv']:
            n = g_count(rng)
            if info['md'] and rng.random() < 0.4:
                w = rng.choice([1, 2, 3])
                if rng.random() < 0.4:
                    w2 = rng.choice([1, 2])
                    return r_list([r_list([r_list([g_number(rng, info) for _ in range(w2)]) for _ in range(w)]) for _ in range(min(n, 4))])
                return r_list([r_list([g_number(rng, info) for _ in range(w)]) for _ in range(min(n, 6))])
            return r_list([g_number(rng, info) for _ in range(n)]) if rng.random() < 0.9 else g_number(rng, info)
        return g_number(rng, info)
    if c in ('EFLRAttribute', 'EFLROrTextAttribute'):
        oc = info['object_class']
        if oc is None or oc.__name__ == 'EFLRSet':
            cands = list(all_objs)
        else:
            cands = objs_by_type.get(oc.__name__, [])
        if c == 'EFLROrTextAttribute' and (not cands or rng.random() < 0.5):
            return r_str(g_text(rng, (1, 10, 60, 200)))
        if not cands:
            return None
        if info['mv']:
            n = rng.choice([0, 1, 1, 2, 3, 130]) if len(cands) > 0 else 0
            return r_list([r_ref(rng.choice(cands)) for _ in range(n)]) if rng.random() < 0.9 else r_ref(rng.choice(cands))
        return r_ref(rng.choice(cands))
    if c == 'Attribute':
        if aname == 'source':          # OBJREF to any object
            return r_ref(rng.choice(all_objs)) if all_objs else None
        # coordinates / values through convert_maybe_numeric
        def one():
            k = rng.random()
            if k < 0.35:
                return r_int(rng.choice([0, 1, -7, 300, 2**31 - 1, -2**31]))
            if k < 0.7:
                return r_float(g_float_bits(rng))
            if k < 0.8:
                return r_str(rng.choice(['12', '-3', '2.5', '1e3', '.5']))
            return r_str(g_text(rng, (1, 4, 30)))
        kind = rng.random()
        n = g_count(rng)
        if kind < 0.5:
            proto = rng.choice(['i', 'f', 's'])
            gen = {'i': lambda: r_int(rng.randrange(-1000, 1000)), 'f': lambda: r_float(g_float_bits(rng)), 's': lambda: r_str(g_text(rng, (0, 3, 40)))}[proto]
            return r_list([gen() for _ in range(n)])
        return r_list([one() for _ in range(n)])
    return None


def _resize(rng, raw, n, gen):
    """Make a list RAW have exactly n elements."""
    if raw is None:
        return None
    inner = raw
    if raw['t'] in ('setup', 'dict'):
        inner = raw['value']
    if inner is None:
        return raw
    if inner['t'] != 'list':
        one = dict(inner)
        inner.clear()
        inner.update({'t': 'list', 'v': [one]})
    v = list(inner['v'])[:n]
    while len(v) < n:
        v.append(gen())
    inner['v'] = v
    return raw


def _inner(raw):
    if raw is not None and raw['t'] in ('setup', 'dict'):
        return raw['value']
    return raw


def sanitize(rng, tkey, kw, A, objs_by_type):
    """Remove the combinations the item-level consistency checks reject (mostly-valid stream)."""
    num = lambda: r_float(g_float_bits(rng))  # noqa
    if tkey in ('parameter', 'computation', 'calibration_measurement', 'channel'):
        kw.pop('axis', None)
        kw.pop('dimension', None)
    if tkey in ('parameter', 'computation'):
        zones = _inner(kw.get('zones'))
        nz = len(zones['v']) if zones is not None and zones['t'] == 'list' else (1 if zones is not None else None)
        if 'values' in kw:
            vals = _inner(kw['values'])
            if vals is not None and vals['t'] == 'list':
                if nz is not None and nz >= 1 and rng.random() < 0.5:
                    # one regular block of numbers per zone: shape [nz, a] or [nz, a, b]
                    a, b = rng.choice([1, 2, 3]), rng.choice([None, None, 2])
                    blk = (lambda: r_list([num() for _ in range(a)])) if b is None else (lambda: r_list([r_list([num() for _ in range(b)]) for _ in range(a)]))
                    vals['v'] = [blk() for _ in range(nz)]
                else:
                    flat_only = [x for x in vals['v'] if x['t'] != 'list']
                    vals['v'] = flat_only
                    proto = (lambda: dict(vals['v'][0])) if vals['v'] else num
                    n = nz if nz is not None else 1
                    _resize(rng, kw['values'], n, proto)
                    if tkey == 'parameter' and len({x['t'] for x in vals['v']}) > 1:
                        vals['v'] = [dict(vals['v'][0]) for _ in vals['v']]
    if tkey == 'calibration_coefficient':
        n = rng.choice([0, 1, 2, 5])
        for a in ('coefficients', 'references', 'plus_tolerances', 'minus_tolerances'):
            if a in kw:
                _resize(rng, kw[a], n, num)
    if tkey == 'calibration_measurement':
        n = rng.choice([1, 2, 3])
        shape = rng.choice([None, None, (2,), (2, 2), (3, 1)])
        def blk():
            if shape is None:
                return num()
            if len(shape) == 1:
                return r_list([num() for _ in range(shape[0])])
            return r_list([r_list([num() for _ in range(shape[1])]) for _ in range(shape[0])])
        for a in ('maximum_deviation', 'standard_deviation', 'standard', 'plus_tolerance', 'minus_tolerance', 'measurement', 'reference'):
            if a in kw:
                inner = _inner(kw[a])
                if inner is None:
                    continue
                if inner['t'] != 'list':
                    one = dict(inner); inner.clear(); inner.update({'t': 'list', 'v': [one]})
                inner['v'] = [blk() for _ in range(n)]
    if tkey == 'splice':
        ic, z = _inner(kw.get('input_channels')), _inner(kw.get('zones'))
        if ic is not None and z is not None and ic['t'] == 'list' and z['t'] == 'list':
            n = min(len(ic['v']), len(z['v']))
            ic['v'], z['v'] = ic['v'][:n], z['v'][:n]
    if tkey == 'zone' and 'domain' in kw:
        mx, mn = _inner(kw.get('maximum')), _inner(kw.get('minimum'))
        d = _inner(kw['domain'])
        is_time = (d.get('member') == 'TIME') or (d.get('v') == 'TIME')
        for key in ('maximum', 'minimum'):
            r = _inner(kw.get(key))
            if r is None:
                continue
            want_dt = is_time and all(_inner(kw.get(k)) is None or _inner(kw.get(k))['t'] in ('dt', 'str') for k in ('maximum', 'minimum'))
            if not want_dt and r['t'] in ('dt', 'str'):
                r.clear()
                r.update(r_float(g_float_bits(rng)))
    for k in list(kw):
        inner = _inner(kw[k])
        an = A[tkey]['params'].get(k)
        if inner is not None and inner['t'] == 'list' and an and A[tkey]['attrs'][an]['cls'] == 'Attribute' and an != 'source':
            if len({x['t'] for x in inner['v']}) > 1 and not all(x['t'] in ('int', 'float') for x in inner['v']):
                inner['v'] = [x for x in inner['v'] if x['t'] == inner['v'][0]['t']]
    return kw


SET_KINDS = ['axis', 'long_name', 'zone', 'equipment', 'parameter', 'computation', 'tool', 'process', 'calibration_coefficient',
             'calibration_measurement', 'calibration', 'splice', 'path', 'group', 'message', 'comment', 'no_format', 'well_reference_point']


def gen_spec(rng, n_objects=None, vrl=None, types=None, multi_set=True, with_units=True, n_frames=1, explicit_origins=None):
    """A mostly-valid single-logical-file specification touching many object types."""
    A = api()
    vrl = vrl or rng.choice([64, 128, 256, 1024, 8192, 8192, 16384])
    if explicit_origins is None:
        explicit_origins = rng.random() < 0.4
    ops = []
    objs_by_type = {}
    all_objs = []
    idx = [0]

    def new_obj(tkey):
        i = idx[0]
        idx[0] += 1
        objs_by_type.setdefault(A[tkey]['set_cls'].__name__, []).append(i)
        all_objs.append(i)
        return i

    def kwargs_for(tkey, density):
        kw = {}
        for p, an in A[tkey]['params'].items():
            if an is None or an not in A[tkey]['attrs']:
                continue
            if rng.random() > density:
                continue
            info = A[tkey]['attrs'][an]
            v = gen_attr_value(rng, tkey, an, info, objs_by_type, all_objs)
            if v is None:
                continue
            if with_units and info['units_settable'] and rng.random() < 0.35:
                u = g_enum_or_str(rng, 'Unit', False)
                v = r_setup(v, u, as_dict=rng.random() < 0.5)
            elif rng.random() < 0.1:
                v = r_setup(v, None, as_dict=rng.random() < 0.5)
            kw[p] = v
        if rng.random() < 0.85:
            sanitize(rng, tkey, kw, A, objs_by_type)
        return kw

    origin_first = rng.random() < 0.7
    def add_origin():
        kw = kwargs_for('origin', rng.choice([0.1, 0.5, 1.0]))
        kw['file_set_number'] = r_int(rng.randrange(1, 2**20))
        kw['creation_time'] = g_dt(rng) if rng.random() < 0.5 else g_dt_str(rng)
        kw.pop('origin_reference', None)
        ref = rng.choice([None, None, 1, 5, 200, 20000])
        while ref is not None and ref in origin_refs:
            ref += 1
        osn = None if (not origin_refs or not named_origin_sets) else rng.choice([None, 'ANCESTORS', 'B-ORIGINS', 'Z'])
        if named_origin_sets and not origin_refs and rng.random() < 0.8:
            osn = rng.choice(['RUN-2', 'M-SET'])
        origin_refs.append(ref if ref is not None else len(origin_refs))
        ops.append({'op': 'origin', 'name': g_name(rng), 'kw': kw, 'origin': ref, 'set_name': osn})
        new_obj('origin')
    named_origin_sets = rng.random() < 0.4
    origin_refs = []
    n_origins = rng.choice([2, 3]) if named_origin_sets else rng.choice([1, 1, 1, 2, 3])
    planned_refs = [rng.choice([3, 7, 40]) for _ in range(2)]
    if origin_first:
        add_origin()
    n_objects = n_objects if n_objects is not None else rng.randrange(0, 14)
    kinds = types or SET_KINDS
    for _ in range(n_objects):
        tkey = rng.choice(kinds)
        kw = kwargs_for(tkey, rng.choice([0.0, 0.3, 0.7, 1.0]))
        sn = rng.choice([None, None, None, 'S1', 'S2', '']) if multi_set else None
        org = None
        if explicit_origins and rng.random() < 0.3:
            org = rng.choice(origin_refs + planned_refs) if (origin_refs or planned_refs) else None
            if org == 0:
                org = None
        ops.append({'op': 'add', 'type': tkey, 'name': g_name(rng), 'kw': kw, 'set_name': sn, 'origin': org})
        new_obj(tkey)
        if len(origin_refs) < n_origins and origin_refs and rng.random() < (0.7 if named_origin_sets else 0.3):
            add_origin()
    # channels and frames
    chans = []
    for f in range(n_frames):
        rows = rng.randrange(1, 6)
        fch = []
        for k in range(rng.randrange(1, 4)):
            dt = rng.choice(['int8', 'int16', 'int32', 'uint8', 'uint16', 'uint32', 'float32', 'float64'])
            w = rng.choice([None, None, 1, 3])
            kw = kwargs_for('channel', rng.choice([0.0, 0.4, 0.9]))
            for bad in ('dimension', 'element_limit', 'data', 'dataset_name', 'cast_dtype'):
                kw.pop(bad, None)
            ops.append({'op': 'channel', 'name': 'CH%d_%d' % (f, k), 'dtype': dt, 'rows': rows, 'width': w, 'seed': rng.randrange(1 << 30), 'kw': kw,
                        'set_name': None, 'origin': None})
            fch.append(new_obj('channel'))
        kw = kwargs_for('frame', rng.choice([0.0, 0.5]))
        for bad in ('channels', 'index_type', 'spacing', 'direction', 'index_min', 'index_max', 'encrypted'):
            kw.pop(bad, None)
        ops.append({'op': 'frame', 'name': 'FR%d' % f, 'channels': fch, 'kw': kw, 'set_name': None, 'origin': None})
        new_obj('frame')
    if not origin_first:
        add_origin()
        if rng.random() < 0.3:
            # a later origin that takes one of the references used explicitly above
            kw = {'file_set_number': r_int(9), 'creation_time': r_str('2021/01/01 00:00:00')}
            r = rng.choice(planned_refs)
            if r not in origin_refs:
                origin_refs.append(r)
                ops.append({'op': 'origin', 'name': 'LATE-ORIGIN', 'kw': kw, 'origin': r, 'set_name': None})
                new_obj('origin')
    # explicit origin references must name an origin of the logical file (input-domain decision, DESIGN 6)
    real = {r for r in origin_refs if r}
    for op in ops:
        if op['op'] != 'origin' and op.get('origin') is not None and op['origin'] not in real:
            op['origin'] = None
    return {'sul': {'ident': 'MAIN-STORAGE-UNIT', 'seq': 1, 'vrl': vrl},
            'lfs': [{'fh_id': rng.choice(['FILE-HEADER', 'H', 'x' * 65, '']), 'fh_seq': rng.choice([1, 7, 9999999999]), 'ops': ops}]}


def make_array(op):
    rs = np.random.RandomState(op['seed'])
    shape = (op['rows'],) if op['width'] is None else (op['rows'], op['width'])
    dt = np.dtype(op['dtype'])
    n = int(np.prod(shape)) * dt.itemsize
    return np.frombuffer(rs.bytes(n), dtype=dt).reshape(shape).copy()


def build(spec, stop_on_error=False):
    """Apply a specification to the API. Returns (DLISFile or None, objs, outcomes) where outcomes[k] is
    ('ok',) or ('err', class name) for each op, in order over all logical files."""
    from dliswriter import DLISFile
    s = spec['sul']
    outcomes = []
    objs = []
    try:
        df = DLISFile(set_identifier=s['ident'], sul_sequence_number=s['seq'], max_record_length=s['vrl'])
    except Exception as e:  # noqa
        return None, objs, [('err', type(e).__name__)]
    A = api()
    lfs = []
    for lfspec in spec['lfs']:
        try:
            lf = df.add_logical_file(fh_id=lfspec['fh_id'], fh_sequence_number=lfspec['fh_seq'])
        except Exception as e:  # noqa
            outcomes.append(('err', type(e).__name__))
            continue
        lfs.append(lf)
        for op in lfspec['ops']:
            try:
                kw = {k: to_py(v, objs) for k, v in op.get('kw', {}).items()}
                o = op['op']
                if o == 'origin':
                    obj = lf.add_origin(op['name'], set_name=op.get('set_name'), origin_reference=op.get('origin'), **kw)
                elif o == 'add':
                    obj = getattr(lf, A[op['type']]['method'])(op['name'], set_name=op.get('set_name'), origin_reference=op.get('origin'), **kw)
                elif o == 'channel':
                    obj = lf.add_channel(op['name'], data=make_array(op) if op.get('inline', True) else None, dataset_name=op.get('dataset_name'),
                                         cast_dtype=getattr(np, op['cast']) if op.get('cast') else None,
                                         set_name=op.get('set_name'), origin_reference=op.get('origin'), **kw)
                elif o == 'frame':
                    obj = lf.add_frame(op['name'], channels=[objs[i] for i in op['channels']], set_name=op.get('set_name'),
                                       origin_reference=op.get('origin'), **kw)
                elif o == 'nofmt_data':
                    p = op['payload']
                    data = bytes.fromhex(p['hex']) if p['kind'] == 'bytes' else bytearray.fromhex(p['hex']) if p['kind'] == 'bytearray' else p['text']
                    lf.add_no_format_frame_data(objs[op['obj']], data)
                    obj = None
                elif o == 'set':
                    target = getattr(objs[op['obj']], op['attr'])
                    setattr(target, op['part'], to_py(op['raw'], objs))
                    obj = None
                elif o == 'query':
                    getattr(lf, op['what'])
                    obj = None
                else:
                    raise ValueError(o)
                if o in ('origin', 'add', 'channel', 'frame'):
                    objs.append(obj)
                outcomes.append(('ok',))
            except Exception as e:  # noqa
                if op['op'] in ('origin', 'add', 'channel', 'frame'):
                    objs.append(None)
                outcomes.append(('err', type(e).__name__))
                if stop_on_error:
                    return df, objs, outcomes
    return df, objs, outcomes


# ------------------------------------------------------------------------------------------------
# Python-side state -> model trees (K-attr)

def aval_tree(v):
    from dliswriter.logical_record.core.eflr import EFLRItem
    if isinstance(v, bool):
        return [1, v]
    if isinstance(v, (int, np.integer)) and not isinstance(v, bool):
        return [0, int(v)]
    if isinstance(v, float):
        return [2, f_bits(float(v))]
    if isinstance(v, str):
        return [3, text(str.__str__(v))]
    if isinstance(v, dtm.datetime):
        off = v.utcoffset() if v.tzinfo is not None else dtm.timedelta(0)
        u = v.replace(tzinfo=None) - off
        return [4, [u.year, u.month, u.day, u.hour, u.minute, u.second, u.microsecond]]
    if isinstance(v, EFLRItem):
        return [5, text(v.parent.set_type), [v.origin_reference, v.copy_number, text(v.name)]]
    return [6]


def nval_tree(v):
    if isinstance(v, (list, tuple)):
        return [1, [nval_tree(x) for x in v]]
    return [0, aval_tree(v)]


def attr_tree(a):
    v = a._value
    if v is None:
        pv = []
    elif isinstance(v, (list, tuple)):
        pv = [1, [nval_tree(x) for x in v]]
    else:
        pv = [0, aval_tree(v)]
    rc0 = a._representation_code
    u = a._units
    return [text(a.label), a.multivalued, a.multidimensional, None if rc0 is None else int(rc0.value),
            [int(c.value) for c in a._valid_repr_codes], type(a).__name__ == 'EFLROrTextAttribute',
            None if u is None else text(str(u)), pv]


def eset_tree(s):
    objs = []
    for it in s.get_all_eflr_items():
        objs.append([[it.origin_reference, it.copy_number, text(it.name)], [attr_tree(a) for a in it.attributes.values()]])
    return [text(s.set_type), None if not s.set_name else text(s.set_name), objs]
