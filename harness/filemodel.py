"""filemodel.py — Python view of what the verified strict reader (Model/FileReader.v, cmd 25) returns for a file."""
from common import text, U


def _txt(b):
    if isinstance(b, U):
        return ''.join(chr(c) for c in b.v)
    return bytes(b).decode('latin1')


def _obname(t):
    o, c, n = t
    return (o if isinstance(o, int) else None, c, _txt(n))


def _dval(t):
    tag = t[0]
    if tag == 0:
        return ('int', t[1])
    if tag == 1:
        return ('bits', t[1])
    if tag == 2:
        return ('text', _txt(t[1]))
    if tag == 3:
        return ('dtime', tuple(t[1]))
    if tag == 4:
        return ('name', _obname(t[1]))
    if tag == 5:
        return ('ref', _txt(t[1]), _obname(t[2]))
    raise ValueError(t)


class DAttr:
    __slots__ = ('count', 'code', 'units', 'values')

    def __init__(self, t):
        self.count, self.code = t[0], t[1]
        self.units = None if t[2] == [] else _txt(t[2])
        self.values = None if t[3] == [] else [_dval(v) for v in t[3][1]]

    def __repr__(self):
        return 'DAttr(count=%r, code=%r, units=%r, values=%r)' % (self.count, self.code, self.units, self.values)


class DObj:
    def __init__(self, t, labels):
        self.name = _obname(t[0])
        self.attrs = {}
        for lab, a in zip(labels, t[1]):
            self.attrs[lab] = None if a == [] else DAttr(a)
        self.n_components = len(t[1])


class DSet:
    def __init__(self, ty, t):
        self.lr_type = ty
        self.type = _txt(t[0])
        self.name = None if t[1] == [] else _txt(t[1])
        self.labels = [_txt(x[0]) for x in t[2]]
        self.template = [DAttr(x[1]) for x in t[2]]
        self.objects = [DObj(o, self.labels) for o in t[3]]
        self.template_ok = bool(t[4])


class DFile:
    """records: list of DSet | ('iflr', type, body)."""

    def __init__(self, reply):
        self.ok = reply[0] == 0
        self.records = []
        if self.ok:
            for r in reply[1]:
                if r[0] == 1:
                    self.records.append(DSet(r[1], r[2]))
                else:
                    self.records.append(('iflr', r[1], r[2]))

    def sets(self, ty=None):
        return [r for r in self.records if isinstance(r, DSet) and (ty is None or r.type == ty)]

    def iflrs(self, ty=None):
        return [r for r in self.records if not isinstance(r, DSet) and (ty is None or r[1] == ty)]

    def logical_files(self):
        """Split at FILE-HEADER records."""
        out = []
        for r in self.records:
            if isinstance(r, DSet) and r.type == 'FILE-HEADER':
                out.append([])
            if not out:
                out.append([])
            out[-1].append(r)
        return out


def read_file(ctx, data, vrl, ident='MAIN-STORAGE-UNIT', seq=1):
    return DFile(ctx.model.one([25, seq, vrl, text(ident), data]))


CODE_SIZE = {12: 1, 13: 2, 14: 4, 15: 1, 16: 2, 17: 4, 2: 4, 7: 8}
