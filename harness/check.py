"""check.py — `bin/check <ID> quick|thorough` and `bin/check <ID> --replay <file>`.

Per run:
 1. (under a file lock) regenerate coq/Gen from /repo, `make` the Coq development, rebuild the extracted model
 2. re-check Props/<ID>.v with coqc, capture `Print Assumptions`, scan the sources for forbidden commands
 3. run the property's correspondence / reader-judgement streams against the implementation in /repo
 4. write evidence/<ID>.json, print KNOWN-FINDING / VIOLATION lines, exit 0 or 1
"""
import os
import sys
import re
import json
import time
import fcntl
import subprocess
import traceback
import importlib

HERE = os.path.dirname(os.path.abspath(__file__))
sys.path.insert(0, HERE)
import common  # noqa: E402
from common import VERIF, COQDIR, BUILD, EVID, REPLAYS  # noqa: E402

FORBIDDEN = re.compile(r'\b(Admitted|admit|Axiom|Axioms|Parameter|Parameters|Conjecture|Conjectures|Hypothesis|Hypotheses|Variable|Variables)\b'
                       r'|Unset\s+Guard|bypass_check|Admit\s+Obligations|type-in-type|impredicative-set|Unset\s+Universe\s+Checking'
                       r'|Unset\s+Positivity')

TRUSTED_BASE = [
    'Coq 8.16.1 kernel (coqc; coqchk in thorough); vm_compute used for finite tables, examples and the extraction cross-check; no native_compute',
    'axioms: none declared; Print Assumptions of every property theorem is captured below and must be "Closed under the global context"',
    'extraction: ExtrOcamlBasic only (Extract Inductive bool/option/unit/list/prod/sumbool/sumor as shipped with Coq); no Extract Constant; OCaml 4.13.1; ocaml/driver.ml generic tree glue; cross-checked against vm_compute on a sample of the requests of this run',
    'harness (Python): generators, mapping of abstract cases to dliswriter API calls, byte comparison',
    'modelled, not verified: CPython struct.pack / str.encode / int / float / round / datetime.astimezone; numpy casting, byteswap, tobytes; h5py; open(..., "wb"/"ab"); dict ordering; functools caches',
    'RP66 V1 facts encoded in Model/Reader.v and Model/Prim.v decoders, transcribed by hand from the standard',
]


class Ctx:
    """What a property module gets: tier, seed, model process, and the reporting interface."""

    def __init__(self, pid, tier, seed):
        self.pid = pid
        self.tier = tier
        self.seed = seed
        self.model = common.Model()
        self.known = common.load_known_findings().get(pid, {})
        self.violations = []          # list of dicts (replay payloads)
        self.known_hits = {}          # key -> count
        self.evaluations = 0
        self.nontrivial = set()
        self.samples = []
        self.streams = {}             # name -> stats dict
        self.notes = []
        self.vm_pairs = []            # (request, reply) sampled for the vm_compute cross-check
        self.t0 = time.time()
        self.budget_s = 100 if tier == 'quick' else 900

    def rng(self, label):
        return common.Rng(self.seed, '%s/%s' % (self.pid, label))

    def time_left(self):
        return self.budget_s - (time.time() - self.t0)

    def count(self, stream, n=1, key=None):
        st = self.streams.setdefault(stream, {'cases': 0})
        st['cases'] += n
        self.evaluations += n
        if key is not None:
            self.nontrivial.add((stream, key))

    def stat(self, stream, name, inc=1):
        st = self.streams.setdefault(stream, {'cases': 0})
        st[name] = st.get(name, 0) + inc

    def sample(self, obj, limit=6):
        if len(self.samples) < limit:
            self.samples.append(obj)

    def violation(self, kind, detail, finding_key=None):
        """Report a failure. If `finding_key` names a listed known finding, it is printed as KNOWN-FINDING instead."""
        if finding_key is not None and finding_key in self.known:
            self.known_hits[finding_key] = self.known_hits.get(finding_key, 0) + 1
            return
        if len(self.violations) < 20:
            self.violations.append({'kind': kind, 'detail': detail})
        else:
            self.violations.append(None)

    def model_batch(self, reqs, sample_every=37):
        reps = self.model.batch(reqs)
        for k in range(0, len(reqs), sample_every):
            if len(self.vm_pairs) < (300 if self.tier == 'quick' else 3000):
                if len(common.tree_str(reqs[k])) + len(common.tree_str(reps[k])) < 6000:   # large literals are slow in coqc
                    self.vm_pairs.append((reqs[k], reps[k]))
        return reps


def run(cmd, timeout, cwd=None):
    p = subprocess.run(cmd, stdout=subprocess.PIPE, stderr=subprocess.STDOUT, timeout=timeout, cwd=cwd)
    return p.returncode, p.stdout.decode(errors='replace')


def build(tier, log):
    """Regenerate Gen, make, rebuild extraction. Returns (ok, message)."""
    os.makedirs(BUILD, exist_ok=True)
    lock = open(os.path.join(BUILD, '.lock'), 'w')
    fcntl.flock(lock, fcntl.LOCK_EX)
    try:
        gen = os.path.join(HERE, 'gen_tables.py')
        if os.path.exists(gen):
            rc, out = run([sys.executable, gen], 300)
            log.append(('gen_tables', rc, out[-2000:]))
            if rc != 0:
                return False, 'gen_tables failed (the source no longer matches what the translator recognises): ' + out[-1500:]
        if not os.path.exists(os.path.join(COQDIR, 'Makefile')):
            rc, out = run(['coq_makefile', '-f', '_CoqProject', '-o', 'Makefile'], 60, cwd=COQDIR)
            if rc != 0:
                return False, 'coq_makefile failed: ' + out[-500:]
        rc, out = run(['timeout', '1500', 'make', '-j16', '-k'], 1600, cwd=COQDIR)
        log.append(('make', rc, out[-3000:]))
        make_ok = rc == 0
        make_msg = '' if make_ok else out[-3000:]
        # extraction -> OCaml binary (only if model.ml is newer than the binary)
        ml = os.path.join(COQDIR, 'model.ml')
        exe = os.path.join(BUILD, 'dlis_model')
        drv = os.path.join(VERIF, 'ocaml', 'driver.ml')
        if os.path.exists(ml) and (not os.path.exists(exe) or os.path.getmtime(ml) > os.path.getmtime(exe)
                                   or os.path.getmtime(drv) > os.path.getmtime(exe)):
            for f in ('model.ml', 'model.mli'):
                with open(os.path.join(COQDIR, f), 'rb') as a, open(os.path.join(BUILD, f), 'wb') as b:
                    b.write(a.read())
            with open(drv, 'rb') as a, open(os.path.join(BUILD, 'driver.ml'), 'wb') as b:
                b.write(a.read())
            rc, out = run(['ocamlfind', 'ocamlopt', '-w', '-a', 'model.mli', 'model.ml', 'driver.ml', '-o', 'dlis_model.new'], 300, cwd=BUILD)
            log.append(('ocaml', rc, out[-1000:]))
            if rc != 0:
                return False, 'OCaml build of the extracted model failed: ' + out[-800:]
            os.replace(os.path.join(BUILD, 'dlis_model.new'), exe)
        if not os.path.exists(exe):
            return False, 'extracted model binary missing (Model/*.v or Extract.v did not compile): ' + make_msg
        return make_ok, make_msg
    finally:
        fcntl.flock(lock, fcntl.LOCK_UN)
        lock.close()


def scan_forbidden():
    hits = []
    for root, _, files in os.walk(COQDIR):
        for f in files:
            if f.endswith('.v'):
                path = os.path.join(root, f)
                txt = open(path).read()
                txt = re.sub(r'\(\*.*?\*\)', '', txt, flags=re.S)
                for m in FORBIDDEN.finditer(txt):
                    hits.append('%s: %s' % (os.path.relpath(path, COQDIR), m.group(0)))
    return hits


def check_props_file(pid, extra_files=()):
    """coqc Props/<pid>.v (+ GenFacts for the property): returns dict with theorems, assumptions, ok, error."""
    res = {'files': [], 'theorems': [], 'assumptions': {}, 'ok': True, 'errors': []}
    files = ['Props/%s.v' % pid] + list(extra_files)
    for rel in files:
        path = os.path.join(COQDIR, rel)
        if not os.path.exists(path):
            res['ok'] = False
            res['errors'].append('%s missing' % rel)
            continue
        src = open(path).read()
        src_nc = re.sub(r'\(\*.*?\*\)', '', src, flags=re.S)
        names = re.findall(r'^\s*(?:Theorem|Lemma|Corollary|Example)\s+([A-Za-z0-9_\']+)', src_nc, flags=re.M)
        rc, out = run(['timeout', '900', 'coqc', '-Q', '.', 'DV', rel], 1000, cwd=COQDIR)
        res['files'].append(rel)
        if rc != 0:
            res['ok'] = False
            m = re.search(r'line (\d+)', out)
            failed_line = int(m.group(1)) if m else 0
            done = []
            for nm in names:
                mm = re.search(r'^\s*(?:Theorem|Lemma|Corollary|Example)\s+%s\b' % re.escape(nm), src, flags=re.M)
                ln = src[:mm.start()].count('\n') + 1 if mm else 0
                if failed_line and ln and ln < failed_line and not (src[mm.start():].split('Qed.')[0].count('\n') + ln >= failed_line):
                    done.append(nm)
            res['theorems'] += [{'name': n, 'file': rel, 'discharged': n in done} for n in names]
            res['errors'].append('%s: %s' % (rel, out[-1200:]))
        else:
            res['theorems'] += [{'name': n, 'file': rel, 'discharged': True} for n in names]
            # Print Assumptions output, in order of the Print Assumptions commands
            pa = re.findall(r'Print Assumptions\s+([A-Za-z0-9_\']+)\s*\.', src_nc)
            blocks = re.split(r'(?=Closed under the global context|Axioms:)', out)
            blocks = [b.strip() for b in blocks if b.strip().startswith(('Closed under', 'Axioms:'))]
            for nm, b in zip(pa, blocks):
                res['assumptions'][nm] = 'Closed under the global context' if b.startswith('Closed') else b[:600]
            if len(pa) != len(blocks):
                res['errors'].append('%s: %d Print Assumptions commands but %d outputs' % (rel, len(pa), len(blocks)))
                res['ok'] = False
    return res


ALLOWED_AXIOMS = ()   # none are needed; any axiom listed by Print Assumptions fails the check


def generic_program(data):
    """The API program recorded in a replay file, if there is one."""
    det = data.get('detail') if isinstance(data, dict) else None
    if isinstance(det, dict):
        for key in ('program', 'history'):
            if isinstance(det.get(key), list) and det[key] and isinstance(det[key][0], dict) and 'op' in det[key][0]:
                return det[key]
    return None


def generic_replay(ctx, prog):
    """Run one recorded program on the implementation and the model; every written file must be accepted by the strict reader
    and decode to what the program says."""
    import apistream
    import judge
    import specgen
    A = specgen.api()
    created = -1
    for s in prog:                       # private fields the generators add (stripped from replay files) are restored
        if s['op'] in ('origin', 'add', 'channel', 'frame'):
            created += 1
        if s['op'] == 'origin' and '_fh_id' not in s:
            lfs = [x['fh_id'].get('v') for x in prog if x['op'] == 'lf']
            li = s.get('lf', 0)
            s['_fh_id'] = lfs[li] if li < len(lfs) and isinstance(lfs[li], str) else 'H'
        if s['op'] == 'assign' and '_type' not in s:
            cr = [x for x in prog if x['op'] in ('origin', 'add', 'channel', 'frame')]
            if s['obj'] < len(cr):
                s['_type'] = cr[s['obj']].get('type') or cr[s['obj']]['op']
    r = apistream.run_one(ctx, prog, 'K-api-replay')
    ctx.count('K-api-replay', key='recorded-program')
    for (step, data, vrl, ident) in r['files']:
        d = apistream.decode(ctx, data, vrl, ident)
        det = {'program': apistream.strip_private(prog), 'write_step': step}
        if not d.ok:
            ctx.violation('file-rejected-by-strict-reader', det)
            continue
        judge.check_fidelity(ctx, d, judge.expected_at(prog, r['outs'], step), det)
        judge.check_identity_refs(ctx, d, det, check_unique=False)


def main():
    if len(sys.argv) < 3:
        print('usage: check <ID> quick|thorough | check <ID> --replay <file>')
        return 2
    pid = sys.argv[1]
    mode = sys.argv[2]
    seed = int(os.environ.get('VERIF_SEED', '20260930'))
    replay = None
    if mode == '--replay':
        replay = sys.argv[3]
        tier = 'quick'
    else:
        tier = mode
    os.environ['VERIF_TIER'] = tier
    t0 = time.time()
    log = []
    os.makedirs(EVID, exist_ok=True)
    os.makedirs(REPLAYS, exist_ok=True)

    proof_broken = []      # messages about obligations that no longer check
    ok, msg = build(tier, log)
    if not ok:
        proof_broken.append('build: ' + msg)

    mod = importlib.import_module('props.%s' % pid.lower())
    extra = getattr(mod, 'EXTRA_COQ_FILES', ())
    pr = check_props_file(pid, extra)
    if not pr['ok']:
        proof_broken += pr['errors']
    bad_ax = {k: v for k, v in pr['assumptions'].items() if not v.startswith('Closed')}
    if bad_ax:
        proof_broken.append('axioms reported by Print Assumptions: %r' % bad_ax)
    forb = scan_forbidden()
    if forb:
        proof_broken.append('forbidden commands in the development: ' + '; '.join(forb[:10]))

    common.setup_impl_env()
    ctx = Ctx(pid, tier, seed)
    crashed = None
    try:
        if replay:
            data = json.load(open(replay))
            prog = generic_program(data)
            if prog is not None:
                generic_replay(ctx, prog)      # the recorded API program alone: model correspondence + strict reader
            mod.replay(ctx, data)              # then the property's own streams (they contain the recorded case when the seed is the same)
        else:
            mod.run(ctx)
    except Exception:
        crashed = traceback.format_exc()

    # extraction cross-check: same requests evaluated by vm_compute inside Coq
    vm_n = vm_bad = 0
    vm_detail = ''
    if ctx.vm_pairs and not replay:
        try:
            vm_n, vm_bad, vm_detail = common.vm_crosscheck(ctx.vm_pairs, pid, jobs=8, per_file=40)
        except Exception as e:  # noqa
            vm_bad, vm_detail = 1, 'vm cross-check failed to run: %r' % (e,)
        if vm_bad:
            proof_broken.append('extracted model disagrees with vm_compute: ' + vm_detail)

    if tier == 'thorough' and not replay:
        rc, out = run(['timeout', '1500', 'coqchk', '-Q', '.', 'DV', '-o', 'DV.Props.%s' % pid], 1600, cwd=COQDIR)
        log.append(('coqchk', rc, out[-1500:]))
        if rc != 0:
            proof_broken.append('coqchk failed: ' + out[-800:])
        coqchk = out[-1500:]
    else:
        coqchk = None

    n_viol = len(ctx.violations)
    lines = []
    for key, n in sorted(ctx.known_hits.items()):
        lines.append('KNOWN-FINDING: property=%s %s [%s] (%d cases)' % (pid, ctx.known[key], key, n))
    exit_code = 0
    replay_paths = []
    if crashed:
        path = os.path.join(REPLAYS, '%s_harness_error.json' % pid)
        common.write_json(path, {'property': pid, 'kind': 'harness-error', 'traceback': crashed})
        lines.append('VIOLATION property=%s replay=%s no-failing-input-found' % (pid, path))
        exit_code = 1
    real = [v for v in ctx.violations if v]
    for k, v in enumerate(real[:5]):
        path = os.path.join(REPLAYS, '%s_%d.json' % (pid, k))
        common.write_json(path, {'property': pid, 'seed': seed, 'tier': tier, **v})
        replay_paths.append(path)
        lines.append('VIOLATION property=%s replay=%s' % (pid, path))
        exit_code = 1
    if proof_broken and not real:
        path = os.path.join(REPLAYS, '%s_obligation.json' % pid)
        common.write_json(path, {'property': pid, 'kind': 'obligation-or-correspondence-broken',
                                 'what_no_longer_checks': proof_broken,
                                 'search': 'the property streams were run against the implementation and judged by the verified reader / deciders; no failing input was found',
                                 'streams': ctx.streams})
        lines.append('VIOLATION property=%s replay=%s no-failing-input-found' % (pid, path))
        exit_code = 1
    elif proof_broken and real:
        common.write_json(os.path.join(REPLAYS, '%s_obligation.json' % pid),
                          {'property': pid, 'what_no_longer_checks': proof_broken})

    obligations = len(pr['theorems'])
    discharged = sum(1 for t in pr['theorems'] if t['discharged'])
    evidence = {
        'property_id': pid,
        'tier': tier,
        'seed': seed,
        'level': 'proof',
        'coverage': {
            'obligations': max(obligations, 1),
            'discharged': discharged if not (forb or bad_ax) else 0,
            'checker_cmd': 'cd /verif/coq && make -j16 && coqc -Q . DV Props/%s.v   # (thorough: coqchk -Q . DV -o DV.Props.%s)' % (pid, pid),
            'trusted_base': TRUSTED_BASE + list(getattr(mod, 'TRUSTED_EXTRA', [])),
            'theorems': pr['theorems'],
            'print_assumptions': pr['assumptions'],
            'forbidden_scan': forb,
            'evaluations': ctx.evaluations,
            'distinct_nontrivial': len(ctx.nontrivial),
            'rule': getattr(mod, 'RULE', ''),
            'samples': ctx.samples,
            'correspondence': ctx.streams,
            'extraction_crosscheck': {'requests_reevaluated_with_vm_compute': vm_n, 'failed_files': vm_bad, 'detail': vm_detail},
            'known_findings_replayed': ctx.known_hits,
            'partial': getattr(mod, 'PARTIAL', ''),
            'notes': ctx.notes,
            'obligations_broken': proof_broken,
            'coqchk': coqchk,
        },
        'assumptions': list(getattr(mod, 'ASSUMPTIONS', [])),
        'wall_s': round(time.time() - t0, 2),
        'violations': n_viol + (1 if (proof_broken or crashed) and not real else 0),
    }
    common.write_json(os.path.join(EVID, '%s.json' % pid), evidence)
    for l in lines:
        print(l)
    print('%s %s: obligations %d/%d, %d cases, %d violations, %.1fs' % (pid, tier, discharged, obligations, ctx.evaluations, evidence['violations'], time.time() - t0))
    return exit_code


if __name__ == '__main__':
    sys.exit(main())
