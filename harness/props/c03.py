"""C03 — channel data round-trips bit-exactly, one numbered record per row. Real writes with inline / dict / structured
data; every IFLR type-0 record read back by the strict reader is decoded with the element sizes and counts of the
specification and compared, bit for bit, with numpy-computed expectations; K-iflr correspondence with Model/Iflr.v."""
import numpy as np
import impl
import datagen
import filemodel
from common import text, U

EXTRA_COQ_FILES = ('GenFacts/ConstantsOK.v',)
RULE = ('frames of 1..4 channels over the 8 dtypes x byte order {<,>} x scalar/width {1,2,3,7,>capacity} x layout {C,F,strided,'
        'read-only,view} x optional cast x rows 1..9 x source kind {inline, dict, structured array (packed / padded), HDF5} x input chunk {None,1,2,3} x '
        'record length {32..16384}, random bit patterns incl. NaN payloads, infinities, signed zeros, integer extremes. '
        'Distinct by (dtype, order, width, layout, cast, rows, source kind).')
ASSUMPTIONS = ['numpy astype/tobytes (the cast and the byte-order conversion) are trusted; signalling NaNs are quieted by the generator',
               'float -> int casts with out-of-range or non-finite values are platform-dependent and excluded from the comparison']
PARTIAL = ''


def build_case(rng, k):
    from dliswriter import DLISFile
    vrl = rng.choice([32, 64, 128, 1024, 8192, 16384])
    kind = rng.choice(['inline', 'dict', 'struct', 'struct_padded', 'hdf5'])
    rows = rng.randrange(1, 10)
    nch = rng.randrange(1, 5)
    chans = []
    for j in range(nch):
        width = 'rand' if rng.random() < 0.9 else rng.choice([vrl // 4 + 3, 40])
        ch = datagen.gen_channel(rng, rows, 'C%d' % j, width=width)
        if kind in ('struct', 'struct_padded') and ch['layout'] in ('F', 'strided', 'view'):
            ch['layout'] = 'C'
        chans.append(ch)
    org = rng.choice([1, 3, 200])
    df = DLISFile(max_record_length=vrl)
    lf = df.add_logical_file()
    lf.add_origin('O', file_set_number=1, origin_reference=org, creation_time='2020/01/01 00:00:00')
    arrays = {c['name']: datagen.physical_array(c) for c in chans}
    items = []
    for c in chans:
        items.append(lf.add_channel(c['name'], data=arrays[c['name']] if kind == 'inline' else None,
                                    cast_dtype=getattr(np, c['cast']) if c['cast'] else None))
    fname = rng.choice(['F', 'FRAME-1', 'f' * 100])
    lf.add_frame(fname, channels=items)
    data = None
    if kind == 'dict':
        data = dict(arrays)
    elif kind in ('struct', 'struct_padded'):
        fields = [(c['name'], arrays[c['name']].dtype) if c['width'] is None else (c['name'], arrays[c['name']].dtype, (c['width'],)) for c in chans]
        if kind == 'struct_padded':
            how = rng.choice(['align', 'view'])
            if how == 'align':
                dt = np.dtype(fields, align=True)
                data = np.zeros(rows, dtype=dt)
            else:
                # a multi-field view of a wider table: keeps the offsets (padding) of the parent
                wide = np.zeros(rows, dtype=np.dtype([('PAD0', 'u1')] + [f for c, f in zip(chans, fields) for f in (f, ('PAD_' + c['name'], 'u1', (3,)))]))
                data = wide[[c['name'] for c in chans]]
        else:
            data = np.zeros(rows, dtype=np.dtype(fields))
        for c in chans:
            data[c['name']] = arrays[c['name']]
    elif kind == 'hdf5':
        import h5py
        data = impl.tmp_path('.h5')
        with h5py.File(data, 'w') as h:
            for c in chans:
                h.create_dataset(c['name'], data=arrays[c['name']])
    return {'vrl': vrl, 'kind': kind, 'rows': rows, 'chans': chans, 'origin': org, 'frame': fname,
            'in_chunk': rng.choice([None, 1, 2, 3])}, df, data


def run(ctx):
    rewrite_cases(ctx)
    long_frame_case(ctx)
    rng = ctx.rng('frames')
    n = 120 if ctx.tier == 'quick' else 1500
    for k in range(n):
        spec, df, data = build_case(rng, k)
        o = impl.outcome(lambda: impl.write_real(df, in_chunk=spec['in_chunk'], data=data))
        if isinstance(data, str):
            import gc
            import os
            gc.collect()
            if os.path.exists(data):
                os.remove(data)
            data = None
        key = tuple((c['dtype'], c['order'], c['width'], c['layout'], c['cast']) for c in spec['chans']) + (spec['rows'], spec['kind'])
        ctx.count('K-fdata', key=key)
        ctx.stat('K-fdata', 'kind_' + spec['kind'])
        for c in spec['chans']:
            ctx.stat('K-fdata', 'dtype_%s%s' % (c['order'] if np.dtype(c['dtype']).itemsize > 1 else '|', c['dtype']))
            ctx.stat('K-fdata', 'layout_' + c['layout'])
            if c['width'] is not None:
                ctx.stat('K-fdata', 'two_dimensional')
            if c['cast']:
                ctx.stat('K-fdata', 'cast')
        det = {'spec': spec}
        if o[0] != 'ok':
            ctx.violation('write-raises-on-valid-frame-data', {**det, 'impl': o})
            continue
        rd = ctx.model.one([8, 1, spec['vrl'], text('MAIN-STORAGE-UNIT'), o[1]['file']])
        if rd[0] != 0:
            ctx.violation('file-rejected-by-strict-reader', det)
            continue
        bodies = [b for e, t, b in rd[1] if not e and t == 0]
        if len(bodies) != spec['rows']:
            ctx.violation('number-of-frame-data-records-differs-from-rows', {**det, 'records': len(bodies)})
            continue
        exp = [datagen.expected_slots(c) for c in spec['chans']]
        safe = [datagen.cast_is_value_safe(c) for c in spec['chans']]
        descr = [[exp[j][0][0], len(exp[j][0][1])] for j in range(len(spec['chans']))]
        dec = ctx.model.batch([[13, descr, b] for b in bodies])
        want_ob = [spec['origin'], 0, spec['frame'].encode()]
        bad = False
        for i, d in enumerate(dec):
            if d[0] != 0:
                ctx.violation('frame-data-record-does-not-decode-with-declared-layout', {**det, 'row': i, 'body_hex': bodies[i][:200].hex(), 'descr': descr})
                bad = True
                break
            ob, num, slots = d[1]
            if ob != want_ob or num != i + 1:
                ctx.violation('frame-reference-or-number-wrong', {**det, 'row': i, 'decoded_reference': ob, 'decoded_number': num})
                bad = True
                break
            for j, (size, vals) in enumerate(slots):
                vals = list(vals.v) if hasattr(vals, 'v') else list(vals)
                if safe[j] and (size != exp[j][i][0] or vals != exp[j][i][1]):
                    ctx.violation('slot-bits-differ-from-input', {**det, 'row': i, 'channel': spec['chans'][j]['name'],
                                                                  'decoded': ['%x' % v for v in vals[:16]], 'expected': ['%x' % v for v in exp[j][i][1][:16]]})
                    bad = True
                    break
            if bad:
                break
        if bad:
            continue
        # correspondence with the model encoder (sampled rows)
        rows_to_check = sorted({0, spec['rows'] - 1})
        reqs = [[12, [spec['origin'], 0, text(spec['frame'])], i + 1,
                 [[exp[j][i][0], __import__('common').U(exp[j][i][1])] for j in range(len(spec['chans']))]] for i in rows_to_check]
        if all(safe):
            reps = ctx.model_batch(reqs, sample_every=3)
            for i, m in zip(rows_to_check, reps):
                if m[0] != 0 or m[1] != bodies[i]:
                    ctx.violation('frame-data-body-differs-from-model', {**det, 'row': i, 'impl': bodies[i][:200].hex(), 'model': m[1][:200].hex() if m[0] == 0 else m})
                    break
        if k % 23 == 0:
            ctx.sample({'stream': 'K-fdata', 'vrl': spec['vrl'], 'kind': spec['kind'], 'rows': spec['rows'],
                        'channels': [(c['dtype'], c['order'], c['width'], c['layout'], c['cast']) for c in spec['chans']]})
        if ctx.tier == 'thorough' and k % 10 == 0:
            dlisio_crosscheck(ctx, spec, df, data)


def long_frame_case(ctx):
    """A frame with more rows than the largest 2-byte frame number (16383): the numbering must go on 16384, 16385, ... in the
    4-byte form, every record decodable and in input order."""
    from dliswriter import DLISFile
    n = 16390 if ctx.tier == 'quick' else 40000
    vals = (np.arange(n) % 251).astype(np.uint8)
    df = DLISFile()
    lf = df.add_logical_file()
    lf.add_origin('O', file_set_number=1, origin_reference=1, creation_time='2020/01/01 00:00:00')
    ch = lf.add_channel('A', data=vals)
    lf.add_frame('F', channels=[ch])
    o = impl.outcome(lambda: impl.write_real(df, in_chunk=4096))
    ctx.count('K-longframe', key=n)
    if o[0] != 'ok':
        ctx.violation('long-frame-write-raises', {'rows': n, 'impl': o})
        return
    # the record bodies as handed to the segmenter (lr-tap); their way through segments and visible records is C02's subject
    bodies = [b for e, t, b in o[1]['recs'] if not e and t == 0]
    if len(bodies) != n:
        ctx.violation('long-frame-record-count', {'rows': n, 'records': len(bodies)})
        return
    # check the records around the form boundaries and a sample exactly: obname (1,0,'F') ++ UVARI(i) ++ value byte
    idxs = sorted(set(list(range(120, 135)) + list(range(16376, 16390)) + [1, 2, n - 1, n]))
    want = ctx.model.batch([[12, [1, 0, text('F')], i, [[1, U([int(vals[i - 1])])]]] for i in idxs])
    for i, w in zip(idxs, want):
        if w[0] != 0 or bodies[i - 1] != w[1]:
            ctx.violation('long-frame-record-differs', {'rows': n, 'frame_number': i, 'record': bodies[i - 1].hex(), 'expected': w[1].hex() if w[0] == 0 else None})
            return


def rewrite_cases(ctx):
    """The same DLISFile written twice with different data of the same shape, and inline data overridden by the dict
    passed to write(): the records must carry the data of THAT write."""
    from dliswriter import DLISFile
    rng = ctx.rng('rewrite')
    for k in range(12 if ctx.tier == 'quick' else 120):
        rows = rng.randrange(1, 6)
        dt = rng.choice(datagen.DTYPES)
        c1 = datagen.gen_channel(rng, rows, 'A', dtype=dt, width=None, order='<', layout='C', cast=None)
        c2 = dict(c1, seed=c1['seed'] + 1)
        c3 = dict(c1, seed=c1['seed'] + 2)
        mode = rng.choice(['two_dicts', 'inline_then_dict', 'inline_twice', 'two_dtypes', 'two_dtypes'])
        if mode == 'two_dtypes':
            # the second write supplies data of ANOTHER dtype: the channel keeps the representation code of the first write (the
            # derived code persists, D9), so the records must hold the new values converted to that code - and be consistent with it
            dt, dt2 = rng.choice([('float64', 'float32'), ('float64', 'int16'), ('int32', 'uint8'), ('int32', 'int16'), ('float32', 'uint16'), ('uint32', 'uint8')])
            c1 = datagen.gen_channel(rng, rows, 'A', dtype=dt, width=None, order='<', layout='C', cast=None)
            c2 = dict(c1, seed=c1['seed'] + 1)
            c3 = dict(datagen.gen_channel(rng, rows, 'A', dtype=dt2, width=None, order='<', layout='C', cast=None), cast=dt)
        df = DLISFile()
        lf = df.add_logical_file()
        lf.add_origin('O', file_set_number=1, origin_reference=1, creation_time='2020/01/01 00:00:00')
        ch = lf.add_channel('A', data=datagen.physical_array(c1) if mode not in ('two_dicts', 'two_dtypes') else None)
        lf.add_frame('F', channels=[ch])
        writes = []
        if mode in ('two_dicts', 'two_dtypes'):
            writes = [({'A': datagen.physical_array(c2)}, c2), ({'A': datagen.physical_array(c3)}, c3)]
        elif mode == 'inline_then_dict':
            writes = [(None, c1), ({'A': datagen.physical_array(c2)}, c2), ({'A': datagen.physical_array(c3)}, c3)]
        else:
            writes = [(None, c1), (None, c1)]
        for wi, (data, cexp) in enumerate(writes):
            o = impl.outcome(lambda: impl.write_real(df, data=data))
            ctx.count('K-rewrite', key=(k, mode, wi))
            det = {'mode': mode, 'write_index': wi, 'dtype': dt, 'rows': rows}
            if o[0] != 'ok':
                ctx.violation('rewrite-raises', {**det, 'impl': o})
                break
            rd = ctx.model.one([8, 1, 8192, text('MAIN-STORAGE-UNIT'), o[1]['file']])
            bodies = [b for e, t, b in rd[1] if not e and t == 0] if rd[0] == 0 else None
            exp = datagen.expected_slots(cexp)
            want = ctx.model.batch([[12, [1, 0, text('F')], i + 1, [[exp[i][0], __import__('common').U(exp[i][1])]]] for i in range(rows)])
            if bodies is None or bodies != [w[1] for w in want]:
                ctx.violation('records-do-not-carry-the-data-of-this-write', det)
                break
            # ... and the CHANNEL object of THIS file declares the representation code the records are written in
            dfile = filemodel.read_file(ctx, o[1]['file'], 8192)
            if dfile.ok:
                chobj = dfile.sets('CHANNEL')[0].objects[0]
                rc = chobj.attrs.get('REPRESENTATION-CODE')
                declared = rc.values[0][1] if rc is not None and rc.values else None
                if declared != datagen.CODE[cexp['cast'] or cexp['dtype']]:
                    ctx.violation('channel-declares-another-code-than-its-records-use', {**det, 'declared': declared,
                                                                                        'records_written_as': cexp['cast'] or cexp['dtype']})
                    break


def dlisio_crosscheck(ctx, spec, df, data):
    import dlisio
    import os
    path = impl.tmp_path()
    try:
        # a fresh equal file is needed (the writer mutates the specification): rebuild deterministically is not possible here,
        # so the same DLISFile is written again; derived attributes are identical for identical data
        df.write(path, output_chunk_size=1 << 16, data=data, input_chunk_size=spec['in_chunk'])
        with dlisio.dlis.load(path) as (f, *rest):
            fr = f.frames[0]
            cur = fr.curves()
            for c in spec['chans']:
                exp = datagen.expected_slots(c)
                got = np.asarray(cur[c['name']])
                dt = np.dtype(c['cast'] or c['dtype'])
                g = np.ascontiguousarray(got).astype(dt.newbyteorder('>')).reshape(got.shape[0], -1).view('>u%d' % dt.itemsize if dt.itemsize > 1 else 'u1')
                if datagen.cast_is_value_safe(c) and [list(map(int, r)) for r in g] != [e[1] for e in exp]:
                    if dt.kind != 'f':      # dlisio converts floats through its own path; NaN payloads may differ
                        ctx.violation('dlisio-curves-differ-from-input', {'spec': spec, 'channel': c['name']})
            ctx.stat('K-fdata', 'dlisio_crosschecked')
    except Exception as e:  # noqa
        ctx.stat('K-fdata', 'dlisio_error:' + type(e).__name__)
    finally:
        if os.path.exists(path):
            os.remove(path)


def replay(ctx, data):
    run(ctx)
