"""C02 — segmentation lossless, ordered, bracketed: the strict reader's reassembly of implementation output must give
back exactly the records handed to the segmenter (synthetic records, and the lr-tap bodies of real writes)."""
import phys

EXTRA_COQ_FILES = ('GenFacts/ConstantsOK.v',)
RULE = ('same streams as C01 (S1 exhaustive (capacity, length) window, S2 synthetic record lists with position-dependent '
        'bytes, S3 real writes with the lr-tap); judged by reassembly: records read back == records given (empty bodies '
        'produce no record). Distinct by (capacity/record length, body lengths).')
ASSUMPTIONS = ['lr-tap hook reports the record bodies at the start of segmentation (guarded instrumentation in /repo)']
PARTIAL = ''


def run(ctx):
    def j1(case, o, m, rd):
        if not phys.correspondence_seg(ctx, case, o, m):
            return
        if o[0] == 'ok':
            want = [[case['eflr'], case['type'], case['body']]] if case['body_len'] else []
            got = rd[2][1] if (rd and rd[0] == 0 and rd[2][0] == 0) else None
            if got is None or [[bool(e), t, b] for e, t, b in got] != want:
                ctx.violation('reassembly-differs-from-record', {**case, 'impl': [s.hex() for s in o[1]], 'reader': rd})
    phys.run_seg_cases(ctx, phys.seg_window(ctx.tier), 'K-seg', j1)

    def j2(c, o, m, rd):
        if o[0] == 'ok':
            want = [[r[0], r[1], r[2]] for r in c['recs'] if len(r[2])]
            got = [[bool(e), t, b] for e, t, b in rd[1]] if rd and rd[0] == 0 else None
            if got != want:
                ctx.violation('records-read-back-differ', {**phys.case_json(c), 'read_back': None if got is None else [(e, t, len(b)) for e, t, b in got]})
                return
        phys.correspondence_file(ctx, c, o, m)
    phys.run_synth(ctx, phys.synth_cases(ctx, 150 if ctx.tier == 'quick' else 2000), 'K-file-synth', j2)

    def j3(case, o, rd, info):
        if o[0] != 'ok':
            return
        want = [[e, t, b] for e, t, b in o[1]['recs'] if len(b)]
        got = [[bool(e), t, b] for e, t, b in rd[1]] if rd and rd[0] == 0 else None
        if got != want:
            ctx.violation('real-file-records-differ-from-tapped-bodies',
                          {**case, 'tapped': [(e, t, len(b)) for e, t, b in want], 'read_back': None if got is None else [(e, t, len(b)) for e, t, b in got]})
    phys.run_real(ctx, 40 if ctx.tier == 'quick' else 400, 'K-file-real', j3)


def replay(ctx, data):
    run(ctx)
