"""C16 — no-format payloads exact and ordered: every IFLR type-1 record read back from implementation output must be
enc_obname(object) ++ payload, in the order of add_no_format_frame_data; K-iflr correspondence with Model/Iflr.v."""
import impl
from common import text

RULE = ('real DLISFile writes with 1..3 NO-FORMAT objects and 0..6 payloads each (bytes / bytearray / str), payload lengths '
        '0,1,2,5..9 around the 12-byte minimum, around one and several record capacities, all byte values; record lengths '
        '20..16384. Type-1 records read back by the strict reader are compared with obname ++ payload and with the model\'s '
        'nofmt_body. Distinct by (record length, payload lengths, kinds).')
ASSUMPTIONS = ['str.encode("ascii") is CPython (trusted)']
PARTIAL = ''


def run(ctx):
    rng = ctx.rng('nofmt')
    n = 60 if ctx.tier == 'quick' else 600
    from dliswriter import DLISFile
    import numpy as np
    for k in range(n):
        vrl = rng.choice([20, 24, 32, 64, 128, 1024, 8192, 16384])
        cap = vrl - 8
        df = DLISFile(max_record_length=vrl)
        lf = df.add_logical_file()
        org = rng.choice([1, 5, 127, 128, 300])
        lf.add_origin('O', file_set_number=3, origin_reference=org, creation_time='2024/01/02 03:04:05')
        ch = lf.add_channel('X', data=np.arange(3, dtype=np.float64))
        lf.add_frame('F', channels=[ch])
        objs = []
        for j in range(rng.randrange(1, 4)):
            name = rng.choice(['N', 'NOFMT-%d' % j, 'N', 'A' * rng.choice([1, 30, 200])])
            copy = sum(1 for o in objs if o[1] == name)
            objs.append((lf.add_no_format(name, consumer_name='C'), name, copy))
        expected = []
        shared = bytearray()
        for _ in range(rng.randrange(0, 7)):
            L = rng.choice([0, 1, 2, 3, 5, 6, 7, 8, 9, 11, 12, 13, cap - 7, cap - 6, cap, cap + 1, 2 * cap + 3, rng.randrange(0, 3 * cap)])
            L = max(0, min(L, 40000))
            kind = rng.randrange(3)
            raw = bytes(rng.getrandbits(8) for _ in range(L))
            if kind == 2:
                raw = bytes(b % 128 for b in raw)
            if kind == 1:
                # ONE buffer per file, refilled before every call: each record holds what the buffer held when it was added
                shared[:] = raw
            p = raw if kind == 0 else shared if kind == 1 else raw.decode('ascii')
            obj, name, copy = rng.choice(objs)
            lf.add_no_format_frame_data(obj, p)
            expected.append(((org, copy, name), kind, raw))
        o = impl.outcome(lambda: impl.write_real(df))
        ctx.count('K-nofmt', key=(vrl, tuple((len(e[2]), e[1]) for e in expected), k))
        det = {'vrl': vrl, 'origin': org, 'objects': [(nm, cp) for _, nm, cp in objs],
               'payloads': [{'object': e[0], 'kind': ['bytes', 'bytearray', 'str'][e[1]], 'len': len(e[2]), 'hex': e[2][:64].hex()} for e in expected]}
        if o[0] != 'ok':
            ctx.violation('write-raises', {**det, 'impl': o})
            continue
        rd = ctx.model.one([8, 1, vrl, text('MAIN-STORAGE-UNIT'), o[1]['file']])
        if rd[0] != 0:
            ctx.violation('file-rejected-by-strict-reader', det)
            continue
        got = [b for e, t, b in rd[1] if not e and t == 1]
        mreq = [[11, [ob[0], ob[1], text(ob[2])], [0 if kind != 2 else 1, raw]] for ob, kind, raw in expected]
        mrep = ctx.model_batch(mreq, sample_every=7) if mreq else []
        want = [m[1] for m in mrep if m[0] == 0]
        ctx.stat('K-nofmt', 'payloads', len(expected))
        ctx.stat('K-nofmt', 'short_bodies', sum(1 for w in want if len(w) < 12))
        if len(want) != len(expected):
            ctx.violation('model-rejects-a-payload-the-implementation-wrote', det)
        elif got != want:
            bad = next((i for i in range(min(len(got), len(want))) if got[i] != want[i]), min(len(got), len(want)))
            ctx.violation('no-format-records-differ', {**det, 'first_bad_record': bad, 'read_back': [g[:80].hex() for g in got[bad:bad + 1]],
                                                       'expected': [w[:80].hex() for w in want[bad:bad + 1]], 'n_read_back': len(got), 'n_expected': len(want)})
        else:
            # independent decode: reference + payload
            dec = ctx.model.batch([[14, g] for g in got])
            for d, (ob, kind, raw) in zip(dec, expected):
                if d[0] != 0 or d[1][1] != raw or d[1][0] != [ob[0], ob[1], ob[2].encode()]:
                    ctx.violation('decoded-payload-differs', {**det, 'decoded': d})
                    break
        if k % 17 == 0:
            ctx.sample({'stream': 'K-nofmt', **{kk: det[kk] for kk in ('vrl', 'origin', 'objects')}, 'payload_lengths': [len(e[2]) for e in expected]})
    # non-ASCII text must raise
    for bad in ['café', 'Ā']:
        df = DLISFile()
        lf = df.add_logical_file()
        lf.add_origin('O', file_set_number=3)
        ch = lf.add_channel('X', data=np.arange(3, dtype=np.float64))
        lf.add_frame('F', channels=[ch])
        nf = lf.add_no_format('N')
        lf.add_no_format_frame_data(nf, bad)
        o = impl.outcome(lambda: impl.write_real(df))
        m = ctx.model.one([11, [1, 0, text('N')], [1, text(bad)]])
        ctx.count('K-nofmt-nonascii', key=bad)
        if o[0] == 'ok' or m[0] == 0:
            ctx.violation('non-ascii-payload-accepted', {'payload': bad, 'impl': o[0], 'model': m})
    run_histories(ctx)


def run_histories(ctx):
    """Whole-API programs with add_no_format_frame_data calls, and write / edit / write histories in which the NO-FORMAT
    object is moved to another origin between the writes: K-api correspondence, and in EVERY written file the type-1 records
    are, in call order, the current identity of the object given in the call followed by exactly the call's payload."""
    import apistream
    import apimodel
    rng = ctx.rng('histories')
    for k in range(14 if ctx.tier == 'quick' else 140):
        if k % 2:
            prog, _fresh = apistream.rewrite_history(rng)
        else:
            prog, _fl = apistream.gen_program(rng, flavor='valid')
            prog = apistream.add_nofmt(rng, prog)
        r = apistream.run_one(ctx, prog, 'K-api-nofmt')
        ctx.count('K-api-nofmt', key=k)
        calls = [s for s in prog if s['op'] == 'nofmt']
        ctx.stat('K-api-nofmt', 'calls', len(calls))
        for (step, data, vrl, ident) in r['files']:
            d = apistream.decode(ctx, data, vrl, ident)
            if not d.ok:
                ctx.violation('file-rejected-by-strict-reader', {'program': apistream.strip_private(prog), 'write_step': step})
                continue
            got = [rec for rec in d.iflrs() if rec[1] == 1]
            done = [s for s, o in zip(prog[:step], r['outs'][:step]) if s['op'] == 'nofmt' and o[0] == 'ok']
            ctx.stat('K-api-nofmt', 'records_checked', len(got))
            if len(got) != len(done):
                ctx.violation('number-of-no-format-records', {'program': apistream.strip_private(prog), 'write_step': step, 'records': len(got), 'accepted_calls': len(done)})
                continue
            for rec, s in zip(got, done):
                p = s['payload']
                want = bytes.fromhex(p['hex']) if 'hex' in p else p['text'].encode('ascii')
                if not bytes(rec[2]).endswith(want) or len(rec[2]) - len(want) < 4:
                    ctx.violation('no-format-record-does-not-end-with-the-payload-of-its-call', {'program': apistream.strip_private(prog), 'write_step': step, 'payload': want.hex()[:80]})
                    break


def replay(ctx, data):
    run(ctx)
