"""C10 — chunk sizes invisible; the file grows by whole records. K-out correspondence with Model/Output.v
(final file, reported total, every flush snapshot read from disk), chunk-size acceptance rule, input chunk sweep."""
import fractions
import impl
import phys
from common import text

EXTRA_COQ_FILES = ('GenFacts/SitesOK.v',)
RULE = ('K-out: small synthetic files written with EVERY output chunk size from the record length to file size + 1 '
        '(plus integral floats), with prior content of several sizes at the target path; the on-disk content after '
        'every physical write (flush-tap) is compared with the model\'s snapshot list. K-chunk-rule: accepted/rejected '
        'output chunk sizes. K-in: real files with rows <= 12 written with input chunk 1..14 and None must be identical, the same under a row window through structured / dict / HDF5 sources, '
        'also across output chunk sizes. Distinct by (case, chunk size).')
ASSUMPTIONS = ["open(path, 'wb'/'ab') semantics are the OS's (trusted)", 'output_chunk_size=None/0 (a 4 GiB buffer) is exercised only in the thorough tier']
PARTIAL = 'crash points are observed as the on-disk state after each physical write; a crash inside one OS write is below the model'


def run(ctx):
    rng = ctx.rng('out')
    base = phys.synth_cases(ctx, 40, vrls=[20, 24, 32, 40, 64])
    base = [c for c in base if sum(len(r[2]) for r in c['recs']) < 300][: (8 if ctx.tier == 'quick' else 30)]
    for ci, c in enumerate(base):
        ref = impl.write_synthetic(c['seq'], c['vrl'], c['ident'], c['recs'], 1 << 16)
        size = len(ref['file'])
        chunks = list(range(c['vrl'], size + 2))
        chunks += [float(chunks[len(chunks) // 2]), float(size), 1 << 20]
        reqs, outs = [], []
        for oc in chunks:
            prior = rng.choice([None, b'', b'OLD' * 5, bytes(rng.getrandbits(8) for _ in range(size + 57))])
            o = impl.outcome(lambda: impl.write_synthetic(c['seq'], c['vrl'], c['ident'], c['recs'], oc, prior=prior))
            outs.append((oc, prior, o))
            reqs.append([16, c['seq'], c['vrl'], text(c['ident']), [impl.lrec_tree(r) for r in c['recs']], int(oc), prior or b''])
        reps = ctx.model_batch(reqs, sample_every=53)
        for (oc, prior, o), m in zip(outs, reps):
            ctx.count('K-out', key=(ci, oc))
            det = {**phys.case_json(c), 'output_chunk_size': oc, 'prior_len': None if prior is None else len(prior)}
            if o[0] != 'ok' or m[0] != 0:
                ctx.violation('buffered-write-outcome', {**det, 'impl': o if o[0] != 'ok' else 'returned', 'model': m if m[0] else 'OK'})
                continue
            r = o[1]
            disk, total, snaps = m[1]
            ctx.stat('K-out', 'flushes', len(r['snaps']))
            if r['file'] != ref['file']:
                ctx.violation('file-depends-on-output-chunk-size', {**det, 'len': len(r['file']), 'reference_len': size})
            elif r['file'] != disk:
                ctx.violation('file-differs-from-model', det)
            elif r['total'] != len(r['file']) or r['total'] != total:
                ctx.violation('reported-total-differs-from-file-size', {**det, 'total': r['total'], 'size': len(r['file'])})
            elif r['snaps'] != list(snaps):
                ctx.violation('flush-snapshots-differ-from-model', {**det, 'impl_snapshot_lengths': [len(s) for s in r['snaps']],
                                                                    'model_snapshot_lengths': [len(s) for s in snaps]})
            elif r['snap_totals'] != [len(s) for s in r['snaps']]:
                ctx.violation('running-total-differs-from-disk-size', {**det, 'totals': r['snap_totals']})
        if ci == 0:
            ctx.sample({'stream': 'K-out', **phys.case_json(c), 'file_len': size, 'chunk_sizes': [chunks[0], '...', chunks[-4]], 'flushes_at_smallest': len(outs[0][2][1]['snaps'])})

    # acceptance rule of the output chunk size
    vals = [19, 20, 21, 31, 32, 33, 32.0, 32.5, 31.999, 1e3, -1, -32, True, 2.0 ** 20, float('inf'), 'x', '64', None.__class__, [64]]
    for vrl in (20, 32):
        for v in vals:
            o = impl.outcome(lambda: impl.write_synthetic(1, vrl, 'ID', [(False, 0, b'abcdefghijklmnop')], v))
            ctx.count('K-chunk-rule', key=(vrl, repr(v)))
            if isinstance(v, bool) or not isinstance(v, (int, float)):
                want_ok = isinstance(v, bool) and int(v) >= vrl
                model_ok = want_ok
            elif v != v or v in (float('inf'), float('-inf')):
                model_ok = None           # nan/inf: outside the model (must raise)
            else:
                fr = fractions.Fraction(v)
                m = ctx.model.one([6, vrl, fr.numerator, fr.denominator])
                model_ok = (m[0] == 0)
            if model_ok is None:
                if o[0] == 'ok':
                    ctx.violation('non-finite-chunk-size-accepted', {'vrl': vrl, 'value': repr(v)})
            elif (o[0] == 'ok') != model_ok:
                ctx.violation('chunk-size-acceptance-differs-from-model', {'vrl': vrl, 'value': repr(v), 'impl': o if o[0] != 'ok' else 'accepted', 'model_accepts': model_ok})

    # input chunk sizes and output chunk sizes on real files
    n_real = 6 if ctx.tier == 'quick' else 40
    # an input chunk size that is not a positive number of rows: refused, or else invisible like every accepted one
    # (C11_chunks needs 0 < chunk: the code has to enforce it; a negative size used to drop rows silently)
    import common as _common
    for k in range(3 if ctx.tier == 'quick' else 12):
        seed = ctx.seed * 1000 + 500 + k
        rows = ctx.rng('nrows%d' % k).randrange(1, 13)
        refo = None
        for ic in [None, 0, -1, -2, -3, -rows, -(rows + 1), True]:
            r = _common.Rng(seed, 'file')
            df, info = impl.simple_file(r, vrl=8192, rows=rows)
            o = impl.outcome(lambda: impl.write_real(df, in_chunk=ic))
            ctx.count('K-in-odd', key=(k, repr(ic)))
            ctx.stat('K-in-odd', 'refused' if o[0] != 'ok' else 'written')
            if ic is None:
                refo = o
                continue
            if o[0] == 'ok' and (refo is None or refo[0] != 'ok' or o[1]['file'] != refo[1]['file']):
                ctx.violation('file-depends-on-chunk-size', {'file_seed': seed, 'rows': rows, 'input_chunk': repr(ic), 'len': len(o[1]['file']),
                                                             'reference_len': len(refo[1]['file']) if refo and refo[0] == 'ok' else None})
    if ctx.tier == 'thorough':
        # once: the library's own default output chunk size (2**32 bytes) gives the file every explicit size gives
        r0 = _common.Rng(ctx.seed * 1000 + 900, 'file')
        df0, _ = impl.simple_file(r0, vrl=8192, rows=9)
        o_def = impl.outcome(lambda: impl.write_real(df0, out_chunk='library-default'))
        r0 = _common.Rng(ctx.seed * 1000 + 900, 'file')
        df1, _ = impl.simple_file(r0, vrl=8192, rows=9)
        o_exp = impl.outcome(lambda: impl.write_real(df1, out_chunk=8192))
        ctx.count('K-in', key=('library-default',))
        if o_def[0] != 'ok' or o_exp[0] != 'ok' or o_def[1]['file'] != o_exp[1]['file']:
            ctx.violation('file-depends-on-chunk-size', {'output_chunk': 'library default (2**32)', 'default': o_def[0], 'explicit': o_exp[0]})
    for k in range(n_real):
        seed = ctx.seed * 1000 + k
        rows = ctx.rng('rows%d' % k).randrange(1, 13)
        vrl = ctx.rng('vrl%d' % k).choice([32, 64, 128, 8192])
        ref = None
        for ic in [None] + list(range(1, 15)):
            for oc in ([None] if ic is not None else [vrl, vrl + 1, 2 * vrl + 3, 1 << 16]):
                import common
                r = common.Rng(seed, 'file')
                df, info = impl.simple_file(r, vrl=vrl, rows=rows, nofmt_payloads=[b'abc'])
                o = impl.outcome(lambda: impl.write_real(df, in_chunk=ic, out_chunk=oc))
                ctx.count('K-in', key=(k, ic, oc))
                if o[0] != 'ok':
                    ctx.violation('write-raises-for-accepted-chunk-size', {'file_seed': seed, 'rows': rows, 'vrl': vrl, 'input_chunk': ic, 'output_chunk': oc, 'impl': o})
                    continue
                if ref is None:
                    ref = o[1]['file']
                elif o[1]['file'] != ref:
                    ctx.violation('file-depends-on-chunk-size', {'file_seed': seed, 'rows': rows, 'vrl': vrl, 'input_chunk': ic, 'output_chunk': oc,
                                                                 'len': len(o[1]['file']), 'reference_len': len(ref)})
                for s in o[1]['snaps']:
                    if not ref.startswith(s):
                        ctx.violation('flush-snapshot-is-not-a-prefix', {'file_seed': seed, 'input_chunk': ic, 'output_chunk': oc})
                        break
    # the same through every source kind under a row window: the window start is absolute, the chunk start relative
    from props import c11
    import datagen
    rngw = ctx.rng('window-chunks')
    for k in range(3 if ctx.tier == 'quick' else 20):
        rows = rngw.randrange(9, 14)
        chans = [datagen.gen_channel(rngw, rows, 'W%d' % j, order='<', layout='C', cast=None) for j in range(rngw.randrange(1, 4))]
        a = rngw.randrange(1, 4)
        b = rngw.choice([None, rows - 1])
        for kind in ('struct', 'dict', 'hdf5'):
            refw = None
            for ic in [None] + list(range(1, 12)):
                dfw, dataw = c11.build(chans, kind, rngw, list(range(len(chans))))
                o = c11.write(dfw, dataw, (a, b), ic, rows)
                ctx.count('K-in-window', key=(k, kind, ic))
                if o[0] != 'ok':
                    ctx.violation('write-raises-for-accepted-chunk-size', {'kind': kind, 'rows': rows, 'window': [a, b], 'input_chunk': ic, 'impl': o})
                    continue
                if refw is None:
                    refw = o[1]['file']
                elif o[1]['file'] != refw:
                    ctx.violation('file-depends-on-chunk-size', {'kind': kind, 'rows': rows, 'window': [a, b], 'input_chunk': ic,
                                                                 'channels': [(c['dtype'], c['width']) for c in chans]})
    # model chunk ranges vs the generator's actual (start, stop) requests
    from dliswriter.utils.source_data_wrappers import DictDataWrapper
    import numpy as np
    for n in range(1, 13):
        for ch in [None] + list(range(1, 15)):
            w = DictDataWrapper({'A': np.arange(n, dtype=np.int32)}, mapping={'A': 'A'})
            calls = []
            orig = w.load_chunk
            w.load_chunk = lambda a, b, orig=orig: (calls.append((a, n if b is None else b)), orig(a, b))[1]
            got = [int(x['A']) for x in w.make_chunked_generator(ch)]
            m = ctx.model.one([7, n, ch])
            ctx.count('K-chunks', key=(n, ch))
            if got != list(range(n)) or [list(c) for c in calls] != [list(x) for x in m]:
                ctx.violation('input-chunk-ranges-differ-from-model', {'rows': n, 'chunk': ch, 'impl_ranges': calls, 'model_ranges': m, 'rows_out': got})
    if ctx.tier == 'thorough':
        o = impl.outcome(lambda: impl.write_synthetic(1, 32, 'ID', [(False, 0, b'abcdefghijklmnop')], None))
        ctx.count('K-chunk-rule', key='None')
        if o[0] != 'ok':
            ctx.violation('default-chunk-size-rejected', {'impl': o})


def replay(ctx, data):
    run(ctx)
