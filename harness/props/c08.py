"""C08 — channel descriptors match the layout of the data records. The file alone (decoded by the strict reader) must
let every frame-data record be sliced: code/dimension/element-limit of the CHANNEL objects vs the written dtype and
per-row shape; record length formula; correspondence of the descriptor logic with Model/Data.v channel_setup."""
import numpy as np
import impl
import datagen
import filemodel
from common import text

EXTRA_COQ_FILES = ('GenFacts/ConstantsOK.v',)
RULE = ('frames of 1..4 channels x dtype x width {None,1,2,3,7} x cast (narrower/wider) x user DIMENSION / ELEMENT-LIMIT '
        '(absent, equal, larger valid limit, inconsistent) x channel shared by two frames x same dataset under two channel '
        'names x channel absent from every frame; decoded CHANNEL/FRAME objects and FDATA record lengths from the file only; slot values in '
        'listed channel order (structured sources with permuted fields); one DLISFile written twice with data of another width / dtype or an '
        'edited DIMENSION: refused or self-consistent. '
        'Distinct by the tuple of per-channel (dtype, width, cast, user dimension, user limit).')
ASSUMPTIONS = ['numpy casts trusted']
PARTIAL = ''


def run(ctx):
    from dliswriter import DLISFile
    rng = ctx.rng('descr')
    n = 100 if ctx.tier == 'quick' else 1200
    for k in range(n):
        vrl = rng.choice([64, 256, 8192])
        rows = rng.randrange(1, 6)
        df = DLISFile(max_record_length=vrl)
        lf = df.add_logical_file()
        lf.add_origin('O', file_set_number=1, creation_time='2020/01/01 00:00:00')
        chans, items = [], []
        arrays_by_name = {}
        src_kind = rng.choice(['inline', 'inline', 'struct', 'dict'])
        nch = rng.randrange(1, 5)
        expect_err = False
        for j in range(nch):
            c = datagen.gen_channel(rng, rows, 'C%d' % j, order='<', layout='C')
            shape = [] if c['width'] is None else [c['width']]
            dim = shape or [1]
            mode = rng.choice(['none', 'none', 'dim_ok', 'elim_ok', 'elim_big', 'dim_bad', 'elim_bad', 'dim_int'])
            kw = {}
            c['udim'] = c['uelim'] = None
            if mode == 'dim_ok':
                kw['dimension'] = list(dim); c['udim'] = list(dim)
            elif mode == 'dim_int' and len(dim) == 1:
                kw['dimension'] = dim[0]; c['udim'] = list(dim)
            elif mode == 'elim_ok':
                kw['element_limit'] = list(dim); c['uelim'] = list(dim)
            elif mode == 'elim_big':
                kw['element_limit'] = [d + rng.randrange(1, 5) for d in dim]; c['uelim'] = kw['element_limit']
            elif mode == 'dim_bad':
                kw['dimension'] = [d + 1 for d in dim]; c['udim'] = kw['dimension']; expect_err = True
            elif mode == 'elim_bad':
                kw['element_limit'] = [max(1, d - 1) for d in dim] if dim != [1] else [1, 1][:0] or None
                if kw['element_limit'] is None:
                    kw.pop('element_limit')
                else:
                    c['uelim'] = kw['element_limit']
                    if kw['element_limit'] != dim:
                        expect_err = True
            c['mode'] = mode
            arr = datagen.physical_array(c)
            arrays_by_name[c['name']] = arr
            items.append(lf.add_channel(c['name'], data=arr if src_kind == 'inline' else None, cast_dtype=getattr(np, c['cast']) if c['cast'] else None, **kw))
            chans.append(c)
        frames = [('F1', list(range(nch)))]
        extra = rng.choice(['none', 'none', 'shared', 'alias', 'orphan']) if src_kind == 'inline' else 'none'
        if extra == 'shared' and nch >= 2:
            frames.append(('F2', [0, nch - 1]))
        for fname, idxs in frames:
            lf.add_frame(fname, channels=[items[i] for i in idxs])
        if extra == 'alias':
            c0 = dict(chans[0]); c0['name'] = 'ALIAS'; c0['udim'] = c0['uelim'] = None
            it = lf.add_channel('ALIAS', cast_dtype=getattr(np, c0['cast']) if c0['cast'] else None)
            it.dataset_name = chans[0]['name']
            lf.add_frame('F3', channels=[it])
            chans.append(c0); frames.append(('F3', [len(chans) - 1]))
        if extra == 'orphan':
            lf.add_channel('ORPHAN', data=np.zeros((rows, 2), dtype=np.uint8))
        wdata = None
        if src_kind == 'dict':
            wdata = dict(arrays_by_name)
        elif src_kind == 'struct':
            order = list(chans)
            rng.shuffle(order)          # the source's field order is NOT the frame's channel order
            fields = [(c['name'], arrays_by_name[c['name']].dtype) if c['width'] is None else (c['name'], arrays_by_name[c['name']].dtype, (c['width'],)) for c in order]
            how = rng.choice(['packed', 'packed', 'aligned', 'view'])        # non-packed layouts: padding must never reach the records
            if how == 'aligned':
                wdata = np.zeros(rows, dtype=np.dtype(fields, align=True))
            elif how == 'view':
                wide = np.zeros(rows, dtype=np.dtype([('PAD0', 'u1')] + [x for c, f in zip(order, fields) for x in (f, ('PAD_' + c['name'], 'u1', (3,)))]))
                wdata = wide[[c['name'] for c in order]]
            else:
                wdata = np.zeros(rows, dtype=np.dtype(fields))
            for c in chans:
                wdata[c['name']] = arrays_by_name[c['name']]
        o = impl.outcome(lambda: impl.write_real(df, data=wdata))
        ctx.stat('K-descr', 'source_' + src_kind)
        ctx.count('K-descr', key=tuple((c['dtype'], c['width'], c['cast'], str(c['udim']), str(c['uelim'])) for c in chans) + (extra,))
        ctx.stat('K-descr', 'extra_' + extra)
        for c in chans:
            ctx.stat('K-descr', 'mode_' + c.get('mode', 'alias'))
        det = {'vrl': vrl, 'rows': rows, 'frames': frames, 'extra': extra,
               'channels': [{kk: c.get(kk) for kk in ('name', 'dtype', 'width', 'cast', 'udim', 'uelim', 'mode')} for c in chans]}
        # model verdict for the descriptors
        mreq = [[30, None if c['udim'] is None else [c['udim']], None if c['uelim'] is None else [c['uelim']],
                 None if not c['cast'] else datagen.CODE[c['cast']], datagen.CODE[c['dtype']], [] if c['width'] is None else [c['width']]] for c in chans]
        mrep = ctx.model_batch(mreq, sample_every=3)
        model_err = any(m[0] != 0 for m in mrep)
        if o[0] != 'ok':
            ctx.stat('K-descr', 'raised')
            if not model_err:
                ctx.violation('write-raises-although-descriptors-are-consistent', {**det, 'impl': o})
            continue
        if model_err:
            ctx.violation('inconsistent-user-descriptor-accepted', {**det, 'model': [m for m in mrep if m[0] != 0][:1]})
            continue
        dfm = filemodel.read_file(ctx, o[1]['file'], vrl)
        if not dfm.ok:
            ctx.violation('file-rejected-by-strict-reader', det)
            continue
        chobjs = {ob.name[2]: ob for s in dfm.sets('CHANNEL') for ob in s.objects}
        bad = False
        descr_by_name = {}
        for c, m in zip(chans, mrep):
            ob = chobjs.get(c['name'])
            if ob is None:
                ctx.violation('channel-object-missing', {**det, 'channel': c['name']}); bad = True; break
            rc, dim, el = ob.attrs.get('REPRESENTATION-CODE'), ob.attrs.get('DIMENSION'), ob.attrs.get('ELEMENT-LIMIT')
            got = (None if rc is None or not rc.values else rc.values[0][1],
                   None if dim is None or not dim.values else [v[1] for v in dim.values],
                   None if el is None or not el.values else [v[1] for v in el.values])
            want = (m[1][0], list(m[1][1]), list(m[1][2]))
            if got != want:
                ctx.violation('channel-descriptor-differs', {**det, 'channel': c['name'], 'decoded': got, 'expected(code,dimension,element_limit)': want})
                bad = True
                break
            descr_by_name[c['name']] = [filemodel.CODE_SIZE[got[0]], int(np.prod(got[1]))]
        if bad:
            continue
        # every frame-data record must decode exactly with the descriptors found in the file
        for fs in dfm.sets('FRAME'):
            for fo in fs.objects:
                chl = fo.attrs.get('CHANNELS')
                names = [v[1][2] for v in chl.values]
                descr = [descr_by_name[nm] for nm in names]
                mine = [b for (_, t, b) in dfm.iflrs(0)]
                dec = ctx.model.batch([[13, descr, b] for b in mine])
                nrec = 0
                for d, b in zip(dec, mine):
                    hdr = ctx.model.one([2, 23, b])     # reference at the front of the record
                    if hdr[0] == 0 and filemodel._obname(hdr[1][0]) == fo.name:
                        nrec += 1
                        if d[0] != 0:
                            ctx.violation('record-length-does-not-match-descriptors', {**det, 'frame': fo.name, 'body_len': len(b), 'descr': descr})
                            bad = True
                            break
                if not bad and nrec != rows:
                    ctx.violation('frame-has-wrong-number-of-records', {**det, 'frame': fo.name, 'records': nrec})
                # ... and, sliced with these descriptors, the slots hold the values of the channels IN THE LISTED ORDER
                if not bad and fo.name[2] == 'F1' and all(datagen.cast_is_value_safe(c) for c in chans[:nch]):
                    exp = [datagen.expected_slots(chans[i]) for i in range(nch)]
                    row = 0
                    for d, b in zip(dec, mine):
                        hdr = ctx.model.one([2, 23, b])
                        if hdr[0] == 0 and filemodel._obname(hdr[1][0]) == fo.name and d[0] == 0:
                            got_slots = [[int(x) for x in (sl[1].v if hasattr(sl[1], 'v') else sl[1])] for sl in d[1][2]]
                            want_slots = [exp[i][row][1] for i in range(nch)]
                            if got_slots != want_slots:
                                ctx.violation('slots-not-in-listed-channel-order', {**det, 'frame': fo.name, 'row': row, 'decoded': got_slots, 'expected': want_slots})
                                bad = True
                                break
                            row += 1
                if bad:
                    break
        if k % 17 == 0:
            ctx.sample({'stream': 'K-descr', **det})
    run_rewrites(ctx)


def records_match_descriptors(ctx, dfm, det):
    """From the file alone: every frame-data record decodes exactly with the code / dimension of the CHANNEL objects its frame lists."""
    chobjs = {ob.name: ob for s in dfm.sets('CHANNEL') for ob in s.objects}
    for fs in dfm.sets('FRAME'):
        for fo in fs.objects:
            descr = []
            for v in fo.attrs['CHANNELS'].values:
                ob = chobjs.get(v[1])
                rc, dim = (ob.attrs.get('REPRESENTATION-CODE'), ob.attrs.get('DIMENSION')) if ob is not None else (None, None)
                if ob is None or rc is None or not rc.values or dim is None or not dim.values:
                    ctx.violation('channel-without-code-or-dimension', {**det, 'frame': fo.name, 'channel': v[1]})
                    return False
                descr.append([filemodel.CODE_SIZE[rc.values[0][1]], int(np.prod([x[1] for x in dim.values]))])
            for (_, t, b) in dfm.iflrs(0):
                hdr = ctx.model.one([2, 23, b])
                if hdr[0] == 0 and filemodel._obname(hdr[1][0]) == fo.name:
                    if ctx.model.one([13, descr, b])[0] != 0:
                        ctx.violation('record-length-does-not-match-descriptors', {**det, 'frame': fo.name, 'body_len': len(b), 'descr': descr})
                        return False
    return True


def run_rewrites(ctx):
    """One DLISFile written twice; between the writes the data change shape or dtype, or DIMENSION is edited: the second
    write is refused, or its file is as self-consistent as the first."""
    from dliswriter import DLISFile
    rng = ctx.rng('rewrite')
    for k in range(18 if ctx.tier == 'quick' else 180):
        rows = rng.randrange(1, 5)
        dt1, w1 = rng.choice(datagen.DTYPES), rng.choice([None, 2, 3])
        change = rng.choice(['width', 'dtype', 'edit_dimension', 'cast_none_dtype', 'nothing'])
        dt2, w2 = dt1, w1
        if change == 'width':
            w2 = rng.choice([x for x in (None, 2, 3, 5) if x != w1])
        elif change in ('dtype', 'cast_none_dtype'):
            dt2 = rng.choice([x for x in datagen.DTYPES if x != dt1])

        def arr(dt, w, seed):
            r = np.random.RandomState(seed)
            shape = (rows,) if w is None else (rows, w)
            return (r.randint(0, 100, size=shape)).astype(dt)
        df = DLISFile()
        lf = df.add_logical_file()
        lf.add_origin('O', file_set_number=1, creation_time='2020/01/01 00:00:00')
        ch = lf.add_channel('A')
        other = lf.add_channel('B')
        lf.add_frame('F', channels=[ch, other])
        det = {'rows': rows, 'first': [dt1, w1], 'second': [dt2, w2], 'change': change}
        o1 = impl.outcome(lambda: impl.write_real(df, data={'A': arr(dt1, w1, 1), 'B': arr('float64', None, 2)}))
        ctx.count('K-descr-rewrite', key=(k, change))
        if o1[0] != 'ok':
            ctx.violation('first-write-raises', {**det, 'impl': o1})
            continue
        if change == 'edit_dimension':
            ch.dimension.value = [7]
        if change == 'cast_none_dtype':
            ch.cast_dtype = None
        o2 = impl.outcome(lambda: impl.write_real(df, data={'A': arr(dt2, w2, 3), 'B': arr('float64', None, 4)}))
        ctx.stat('K-descr-rewrite', 'second_' + ('written' if o2[0] == 'ok' else 'refused'))
        if o2[0] != 'ok':
            if change == 'nothing':
                ctx.violation('second-write-of-unchanged-specification-raises', {**det, 'impl': o2})
            continue
        dfm = filemodel.read_file(ctx, o2[1]['file'], 8192)
        if not dfm.ok:
            ctx.violation('file-rejected-by-strict-reader', det)
            continue
        records_match_descriptors(ctx, dfm, det)
    # two channels of one frame reading the SAME data set (dataset_name) with different effective dtypes (one cast, one not,
    # or two different casts): each is described, and written, with its own
    for k in range(8 if ctx.tier == 'quick' else 60):
        rows = rng.randrange(1, 5)
        dt = rng.choice(['float64', 'int32', 'uint16', 'float32'])
        w = rng.choice([None, 2, 3])
        c1, c2 = rng.sample([None, 'float32', 'float64', 'int16', 'uint8', 'int32'], 2)
        a = np.arange(rows * (w or 1), dtype=dt).reshape((rows,) if w is None else (rows, w)) % 100
        df = DLISFile()
        lf = df.add_logical_file()
        lf.add_origin('O', file_set_number=1, creation_time='2020/01/01 00:00:00')
        i0 = lf.add_channel('I', dataset_name='IDX')
        x1 = lf.add_channel('P', dataset_name='SHARED', **({'cast_dtype': np.dtype(c1).type} if c1 else {}))
        x2 = lf.add_channel('Q', **({'cast_dtype': np.dtype(c2).type} if c2 else {}))
        x2.dataset_name = 'SHARED'
        lf.add_frame('F', channels=[i0, x1, x2])
        o = impl.outcome(lambda: impl.write_real(df, data={'IDX': np.arange(rows, dtype=np.float64), 'SHARED': a.astype(dt)}))
        det = {'case': 'two channels on one data set', 'dtype': dt, 'width': w, 'casts': [c1, c2], 'rows': rows}
        ctx.count('K-shared-dataset', key=(k, dt, w, c1, c2))
        if o[0] != 'ok':
            ctx.violation('write-raises-for-valid-source', {**det, 'impl': list(o)})
            continue
        dfm = filemodel.read_file(ctx, o[1]['file'], 8192)
        if not dfm.ok:
            ctx.violation('file-rejected-by-strict-reader', det)
            continue
        records_match_descriptors(ctx, dfm, det)


def replay(ctx, data):
    run(ctx)
