"""C05 — metadata fidelity. Programs over all object types (keyword / dict / AttrSetup / later assignment routes);
every written file is decoded by the strict reader and each attribute of each object is compared with the last
accepted assignment in the program (expectations from the operation list only); K-api correspondence with the model."""
import apistream
import judge

EXTRA_COQ_FILES = ('GenFacts/SchemaOK.v',)
RULE = ('seeded random programs: all 21 object types x attribute subsets x value domains (ints across code ranges, floats incl. '
        'non-finite and signed zero, strings 0..300 (some >16383) chars, aware/naive datetimes and date strings, enum members and '
        'free strings, single/multi/nested values, units as str or Unit member) x route (keyword, dict, AttrSetup, later .value/.units, '
        're-assignment with a value of another kind (int<->float, text<->object) after a first write, then a second write). '
        'Distinct by (object type, attribute label). Each decoded attribute is compared with the assignment; never-assigned '
        'attributes must be absent except the documented write-time defaults.')
ASSUMPTIONS = ['int()/float()/strptime meaning of strings and datetime arithmetic are CPython (trusted)',
               'ints of magnitude >= 2^53 assigned to float-coded attributes are outside the modelled domain']
PARTIAL = ('proved: assignment frame rule (C05_assign_value/units) and value read-back (C05_value_readback); the end-to-end statement '
           '"decoded attribute = last accepted assignment" is checked per run on implementation output, not proved as one theorem')


def run(ctx):
    rng = ctx.rng('progs')
    n = 70 if ctx.tier == 'quick' else 800
    for k in range(n):
        prog, flavor = apistream.gen_program(rng, flavor=rng.choice(['valid', 'valid', 'assign', 'assign', 'queries', 'rewrite', 'rewrite']))
        r = apistream.run_one(ctx, prog, 'K-api')
        ctx.count('K-api-programs', key=k)
        if not r['files']:
            continue
        step, data, vrl, ident = r['files'][-1]
        objs = judge.expected_at(prog, r['outs'], step)
        d = apistream.decode(ctx, data, vrl, ident)
        det = {'program': apistream.strip_private(prog)}
        if not d.ok:
            ctx.violation('file-rejected-by-strict-reader', det)
            continue
        ncmp = judge.check_fidelity(ctx, d, objs, det)
        ctx.stat('K-fidelity', 'attributes_compared', ncmp)
        for e in objs.values():
            for an in e.assign:
                ctx.count('K-fidelity', 0, key=(e.tkey, an))
        ctx.evaluations += ncmp
        if k % 11 == 0:
            ctx.sample({'stream': 'K-fidelity', 'flavor': flavor, 'objects': [(e.tkey, e.name, e.copy, sorted(e.assign)) for e in list(objs.values())[:6]]})


def replay(ctx, data):
    run(ctx)
