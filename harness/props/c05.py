"""C05 — metadata fidelity. Programs over all object types (keyword / dict / AttrSetup / later assignment routes);
every written file is decoded by the strict reader and each attribute of each object is compared with the last
accepted assignment in the program (expectations from the operation list only); K-api correspondence with the model."""
import apistream
import judge

EXTRA_COQ_FILES = ('GenFacts/SchemaOK.v', 'GenFacts/SitesOK.v')
RULE = ('seeded random programs: all 21 object types x attribute subsets x value domains (ints across code ranges, floats incl. '
        'non-finite and signed zero, strings 0..300 (some >16383) chars, aware/naive datetimes and date strings, enum members and '
        'free strings, single/multi/nested values, units as str or Unit member) x route (keyword, dict, AttrSetup, later .value/.units, '
        're-assignment with a value of another kind (int<->float, text<->object) after a first write, then a second write). '
        'Distinct by (object type, attribute label). Each decoded attribute is compared with the assignment; never-assigned '
        'attributes must be absent except the documented write-time defaults. Plus 50/600 specifications written twice with the attribute state of '
        'every object compared before / after each write against the write-time sites the translator finds in the source (K-write-sites).')
ASSUMPTIONS = ['int()/float()/strptime meaning of strings and datetime arithmetic are CPython (trusted)',
               'ints of magnitude >= 2^53 assigned to float-coded attributes are outside the modelled domain']
PARTIAL = ('proved end to end for explicitly formatted records (C05_file_content: every set record of a returned file decodes to the '
           'set as it stands in the state the write leaves, which differs from the state it found only by write-time defaults where '
           'nothing was given; hypothesis: no set shared between logical files = known finding D12 excluded) on top of the assignment / '
           'API frame rules; what remains outside the theorems is the CPython meaning of raw values (int/float/str/datetime conversion, '
           'trusted and cross-checked per run) and the shared-set configurations of D12')


def run(ctx):
    rng = ctx.rng('progs')
    n = 70 if ctx.tier == 'quick' else 800
    for k in range(n):
        prog, flavor = apistream.gen_program(rng, flavor=rng.choice(['valid', 'valid', 'assign', 'assign', 'queries', 'rewrite', 'rewrite']))
        r = apistream.run_one(ctx, prog, 'K-api')
        ctx.count('K-api-programs', key=k)
        if not r['files']:
            continue
        step, data, vrl, ident = r['files'][-1]
        objs = judge.expected_at(prog, r['outs'], step)
        d = apistream.decode(ctx, data, vrl, ident)
        det = {'program': apistream.strip_private(prog)}
        if not d.ok:
            ctx.violation('file-rejected-by-strict-reader', det)
            continue
        ncmp = judge.check_fidelity(ctx, d, objs, det)
        ctx.stat('K-fidelity', 'attributes_compared', ncmp)
        for e in objs.values():
            for an in e.assign:
                ctx.count('K-fidelity', 0, key=(e.tkey, an))
        ctx.evaluations += ncmp
        if k % 11 == 0:
            ctx.sample({'stream': 'K-fidelity', 'flavor': flavor, 'objects': [(e.tkey, e.name, e.copy, sorted(e.assign)) for e in list(objs.values())[:6]]})
    write_sites(ctx)


def _fp(v):
    """Fingerprint of an attribute value that survives comparison (NaN-safe, objects by identity)."""
    import numpy as np
    from dliswriter.logical_record.core.eflr import EFLRItem
    if isinstance(v, (list, tuple)):
        return ('l',) + tuple(_fp(x) for x in v)
    if isinstance(v, EFLRItem):
        return ('item', id(v))
    if isinstance(v, (float, np.floating)):
        return ('f', float(v).hex())
    if isinstance(v, np.ndarray):
        return ('a', str(v.dtype), v.shape, v.tobytes())
    return (type(v).__name__, repr(v))


def _falsy(v):
    try:
        return not v
    except Exception:  # noqa  (ambiguous truth value of an array)
        return False


def _snapshot(df, cls_key):
    from dliswriter.logical_record.core.eflr import EFLRSet
    snap = {}
    for x in df.generator([[] for _ in df.logical_files]):
        if isinstance(x, EFLRSet):
            for it in x.get_all_eflr_items():
                tk = cls_key.get(type(it).__name__)
                if tk is None:
                    continue
                snap[id(it)] = (tk, it.name, {an: (_fp(a._value), a._units, _falsy(a._value)) for an, a in it.attributes.items()})
    return snap


def write_sites(ctx):
    """Tie of C05_write_changes_only_defaults to the implementation: the attribute state of every object before and after
    DLISFile.write (successful or not) differs only at the sites the translator found in the source (= the sites of the
    theorem, GenFacts/SitesOK.v), and there only where no (or a falsy) value / no units had been given."""
    import impl
    import specgen
    import gen_tables
    sites = gen_tables.compute_sites()
    A = specgen.api()
    cls_key = {A[t]['item_cls'].__name__: t for t in A}
    rng = ctx.rng('write-sites')
    n = 50 if ctx.tier == 'quick' else 600
    direct = impl.indexed_frame_spec

    for k in range(n + 24):
        if k < n:
            spec = specgen.gen_spec(rng, vrl=rng.choice([1024, 8192]), n_frames=rng.choice([1, 1, 2]))
            df, objs, outs = specgen.build(spec)
        else:
            spec = {'direct': k - n}
            df = direct(k - n)
        if df is None:
            continue
        for rnd in (1, 2):         # the second write starts from the state the first one left
            before = _snapshot(df, cls_key)
            w = impl.outcome(lambda: impl.write_real(df))
            after = _snapshot(df, cls_key)
            ctx.count('K-write-sites', key=(k, rnd))
            ctx.stat('K-write-sites', 'write_' + (w[0] if w[0] == 'ok' else 'raised:' + str(w[1])))
            for key, (tk, name, attrs) in before.items():
                if key not in after:
                    ctx.violation('object-disappeared-during-write', {'spec': spec, 'type': tk, 'name': name})
                    continue
                for an, (fp0, u0, falsy0) in attrs.items():
                    fp1, u1, _ = after[key][2][an]
                    ctx.evaluations += 1
                    if fp1 != fp0:
                        ctx.stat('K-write-sites', 'value_set:%s.%s' % (tk, an))
                        derived = (tk, an) == ('channel', 'representation_code')
                        if (tk, an, False) not in sites or not (falsy0 or derived):
                            ctx.violation('write-changed-a-value-it-may-not-change',
                                          {'spec': spec, 'type': tk, 'name': name, 'attribute': an, 'before': repr(fp0)[:200], 'after': repr(fp1)[:200],
                                           'is_default_site': (tk, an, False) in sites, 'write': w[0] if w[0] == 'ok' else list(w), 'round': rnd})
                    if u1 != u0:
                        ctx.stat('K-write-sites', 'units_set:%s.%s' % (tk, an))
                        if (tk, an, True) not in sites or u0 is not None:
                            ctx.violation('write-changed-units-it-may-not-change',
                                          {'spec': spec, 'type': tk, 'name': name, 'attribute': an, 'before': str(u0), 'after': str(u1), 'round': rnd})
            if w[0] != 'ok':
                break


def replay(ctx, data):
    run(ctx)
