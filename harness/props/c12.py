"""C12 — fail-closed. Every way a specification or its data can be invalid, each combined with otherwise arbitrary valid
content: the write must raise, or the file it returns must be decoded by the strict reader and be faithful to the
specification (C05 / C07 / C09 judgements on the decoded content, frame data decoded with the declared layout).
K-api correspondence with the model decides raise-versus-return where the input is inside the modelled domain."""
import copy
import numpy as np
import impl
import apistream
import apimodel
import specgen
import judge
import filemodel
import datagen

EXTRA_COQ_FILES = ('GenFacts/SchemaOK.v', 'GenFacts/ConstantsOK.v')
RULE = ('a valid random program plus ONE injected invalidity: names / set names / header id / units / labels longer than 255, non-ASCII '
        'text in names, values, units, set names, header and storage-set identifiers, integers outside their code range (UVARI, UNORM, USHORT '
        'attributes, origin references, copy-forcing names), no origin / no channels / no frames, frame with channels of unequal row counts, '
        'unsupported dtypes (int64, float16, bool, complex, str), 3-D data, zero rows, missing data sets, empty value lists, huge strings; '
        'direct data-level cases outside the program language. Distinct by (invalidity kind, program index).')
ASSUMPTIONS = ['inputs outside the modelled domain (reported as outside_model) are judged by the strict reader only']
PARTIAL = ('end to end over the modelled API: a returned file is well-formed (C12_api_returned_file_is_well_formed) and faithful to the '
           'final specification state (C12_api_returned_file_is_faithful; shared sets of D12 excluded); that every invalid input of the '
           'property text is among those the model rejects is established per run by the malformed stream, not by one theorem')
R = specgen


def invalidate(rng, prog):
    """One invalidity injected into a copy of the program. Returns (program, kind, must_raise)."""
    prog = copy.deepcopy(prog)
    kinds = ['long_name', 'nonascii_name', 'long_set_name', 'nonascii_value', 'nonascii_units', 'long_units', 'int_range', 'no_origin',
             'no_frames', 'no_channels', 'empty_list', 'huge_text', 'nonascii_header', 'origin_range', 'nonascii_set_name']
    kind = rng.choice(kinds)
    adds = [s for s in prog if s['op'] == 'add']
    tgt = rng.choice(adds) if adds else None
    must = True
    if kind == 'long_name' and tgt:
        tgt['name'] = R.r_str('N' * rng.choice([256, 300, 70000]))
    elif kind == 'nonascii_name' and tgt:
        tgt['name'] = R.r_str(rng.choice(['café', 'Ω', 'naïve-name', '\x80']))
    elif kind == 'long_set_name' and tgt:
        tgt['set_name'] = 'S' * rng.choice([256, 1000])
    elif kind == 'nonascii_set_name' and tgt:
        tgt['set_name'] = 'sét'
    elif kind == 'nonascii_value':
        prog.insert(-1, {'op': 'add', 'lf': 0, 'type': 'comment', 'name': R.r_str('C'), 'set_name': None, 'origin': None, 'kw': {'text': R.r_list([R.r_str('ok'), R.r_str('nö')])}})
    elif kind == 'nonascii_units':
        prog.insert(-1, {'op': 'add', 'lf': 0, 'type': 'axis', 'name': R.r_str('AXU'), 'set_name': None, 'origin': None, 'kw': {'spacing': R.r_setup(R.r_float(R.f_bits(1.0)), R.r_str('µm'))}})
    elif kind == 'long_units':
        prog.insert(-1, {'op': 'add', 'lf': 0, 'type': 'axis', 'name': R.r_str('AXU'), 'set_name': None, 'origin': None, 'kw': {'spacing': R.r_setup(R.r_float(R.f_bits(1.0)), R.r_str('u' * 256))}})
    elif kind == 'int_range':
        which = rng.choice([('origin', 'descent_number', 70000), ('origin', 'file_number', 2**30), ('origin', 'name_space_version', -1),
                            ('origin', 'run_number', -5), ('frame', 'encrypted', 1)])
        for s in prog:
            if s['op'] == which[0]:
                s.setdefault('kw', {})[which[1]] = R.r_int(which[2])
                break
        must = which[1] != 'encrypted'
    elif kind == 'no_origin':
        prog = [s for s in prog if s['op'] != 'origin']
    elif kind == 'no_frames':
        prog = [s for s in prog if s['op'] != 'frame']
    elif kind == 'no_channels':
        prog = [s for s in prog if s['op'] not in ('frame', 'channel')]
    elif kind == 'empty_list':
        prog.insert(-1, {'op': 'add', 'lf': 0, 'type': 'axis', 'name': R.r_str('EMPTY'), 'set_name': None, 'origin': None, 'kw': {'coordinates': R.r_list([])}})
        prog.insert(-1, {'op': 'add', 'lf': 0, 'type': 'long_name', 'name': R.r_str('EMPTY'), 'set_name': None, 'origin': None, 'kw': {'conditions': R.r_list([])}})
        must = False
    elif kind == 'huge_text':
        prog.insert(-1, {'op': 'add', 'lf': 0, 'type': 'comment', 'name': R.r_str('BIG'), 'set_name': None, 'origin': None, 'kw': {'text': R.r_list([R.r_str('x' * 20000)])}})
        must = False
    elif kind == 'nonascii_header':
        for s in prog:
            if s['op'] == 'lf':
                s['fh_id'] = R.r_str('hëader')
        for s in prog:
            if s['op'] == 'origin':
                s['_fh_id'] = 'hëader'
    elif kind == 'origin_range':
        for s in prog:
            if s['op'] == 'origin':
                s['origin'] = R.r_int(rng.choice([2**30, 2**31]))
                break
    else:
        must = False
    # refs may have shifted when steps were removed
    if kind in ('no_origin', 'no_frames', 'no_channels'):
        old = 0
        m = {}
        new = 0
        for s in copy.deepcopy(prog):
            pass
        # recompute creation indices
        created = [s for s in prog if s['op'] in ('origin', 'add', 'channel', 'frame')]
        # original indices are lost; mark references to removed objects as dangling by dropping ref-bearing kwargs
        for s in prog:
            if 'kw' in s:
                s['kw'] = {k: v for k, v in s['kw'].items() if 'ref' not in repr(v)}
            if s['op'] == 'frame':
                pass
        if kind == 'no_origin':
            # indices shift by one for every removed origin: rebuild frame channel references by position
            idx = -1
            chans = []
            for s in prog:
                if s['op'] in ('origin', 'add', 'channel', 'frame'):
                    idx += 1
                    if s['op'] == 'channel':
                        chans.append(idx)
                    if s['op'] == 'frame':
                        s['channels'] = R.r_list([R.r_ref(i) for i in chans[-max(1, len(s['channels']['v'])):]])
    return prog, kind, must


def data_level_cases(ctx):
    """Invalid data outside the program language: unequal rows, unsupported dtypes, 3-D, zero rows, missing data set."""
    from dliswriter import DLISFile
    rng = ctx.rng('data')
    # a data set that is missing must raise also when an EARLIER, rejected add_channel carried an array for that name
    for bad_kw in ({'cast_dtype': np.int64}, {'units': 5}, {'dimension': 'wide'}):
        df = DLISFile()
        lf = df.add_logical_file()
        lf.add_origin('O', file_set_number=1, creation_time='2020/01/01 00:00:00')
        rej = impl.outcome(lambda: lf.add_channel('RPM', data=np.arange(5, dtype=np.float64) + 700, **bad_kw))
        a = lf.add_channel('DEPTH', data=np.arange(5, dtype=np.float64))
        b = lf.add_channel('RPM')
        lf.add_frame('F', channels=[a, b])
        o = impl.outcome(lambda: impl.write_real(df))
        ctx.count('K-data-invalid', key=('missing_after_rejected_call', str(sorted(bad_kw))))
        if rej[0] == 'ok':
            ctx.stat('K-data-invalid', 'rejection_expected_but_accepted')
        elif o[0] == 'ok':
            ctx.violation('missing-data-set-accepted', {'history': 'add_channel(RPM, data=..., %s) rejected; add_channel(RPM) without data; write() without data' % sorted(bad_kw)})
    cases = []
    for bad in ['rows_longer', 'rows_shorter', 'rows_one', 'int64', 'float16', 'bool', 'complex', 'str', 'three_d', 'zero_rows', 'missing', 'object']:
        for kind in ['inline', 'dict']:
            cases.append((bad, kind))
    for bad, kind in cases:
        rows = 5
        arrays = {'A': np.arange(rows, dtype=np.float64), 'B': np.arange(rows * 2, dtype=np.int32).reshape(rows, 2), 'C': np.arange(rows, dtype=np.uint8)}
        if bad == 'rows_longer':
            arrays['B'] = np.arange(18, dtype=np.int32).reshape(9, 2)
        elif bad == 'rows_shorter':
            arrays['C'] = np.arange(3, dtype=np.uint8)
        elif bad == 'rows_one':
            arrays['C'] = np.arange(1, dtype=np.uint8)
        elif bad in ('int64', 'float16', 'bool', 'complex'):
            arrays['C'] = np.arange(rows).astype({'int64': np.int64, 'float16': np.float16, 'bool': np.bool_, 'complex': np.complex128}[bad])
        elif bad == 'str':
            arrays['C'] = np.array(['a'] * rows)
        elif bad == 'object':
            arrays['C'] = np.array([None] * rows, dtype=object)
        elif bad == 'three_d':
            arrays['B'] = np.zeros((rows, 2, 2), dtype=np.float32)
        elif bad == 'zero_rows':
            arrays = {k: v[:0] for k, v in arrays.items()}
        df = DLISFile()
        lf = df.add_logical_file()
        lf.add_origin('O', file_set_number=1, creation_time='2020/01/01 00:00:00')
        def build():
            items = [lf.add_channel(n, data=arrays[n] if kind == 'inline' else None) for n in ('A', 'B', 'C')]
            lf.add_frame('F', channels=items)
            data = None
            if kind == 'dict':
                data = dict(arrays)
                if bad == 'missing':
                    data.pop('B')
            elif bad == 'missing':
                return ('skip',)
            return impl.write_real(df, data=data)
        o = impl.outcome(build)
        ctx.count('K-bad-data', key=(bad, kind))
        if o[0] == 'ok' and o[1] != ('skip',):
            # returned: must then be faithful — decode and compare rows
            d = filemodel.read_file(ctx, o[1]['file'], 8192)
            ctx.violation('invalid-data-written-instead-of-rejected', {'invalidity': bad, 'source': kind, 'file_decodes': d.ok,
                                                                     'frame_records': len(d.iflrs(0)) if d.ok else None})
        else:
            ctx.stat('K-bad-data', 'raised')


def run(ctx):
    rng = ctx.rng('bad')
    n = 90 if ctx.tier == 'quick' else 1000
    data_level_cases(ctx)
    # header arguments of add_logical_file that cannot be represented: sequence numbers that are no positive integer of at most ten
    # digits (0, negative, 10^10, a float, a str, a bool - str(True) is not a number), identifiers over 65 characters
    R0 = specgen
    bad_heads = [(R0.r_str('H'), R0.r_int(0)), (R0.r_str('H'), R0.r_int(-3)), (R0.r_str('H'), R0.r_int(10 ** 10)), (R0.r_str('H'), R0.r_bool(True)),
                 (R0.r_str('H'), R0.r_bool(False)), (R0.r_str('H'), R0.r_float(R0.f_bits(1.0))), (R0.r_str('H'), R0.r_str('1')),
                 (R0.r_str('x' * 66), R0.r_int(1)), (R0.r_int(5), R0.r_int(1))]
    for k, (hid, seq) in enumerate(bad_heads):
        prog = [{'op': 'newfile', 'ident': 'MAIN-STORAGE-UNIT', 'seq': 1, 'vrl': 8192}, {'op': 'lf', 'fh_id': hid, 'fh_seq': seq}]
        r = apistream.run_one(ctx, prog, 'K-api-header-args')
        ctx.count('K-malformed', key=('header_args', k))
        if r['outs'][1][0] == 'ok':
            ctx.violation('unrepresentable-header-argument-accepted', {'program': apistream.strip_private(prog)})
    # integers outside their code's range inside value lists of any length (the value layer above write_struct): must raise
    for k in range(16 if ctx.tier == 'quick' else 200):
        prog, info = apistream.gen_value_lists(rng, bad=rng.choice([2 ** 31, -2 ** 31 - 1, 2 ** 32 + 5]))
        r = apistream.run_one(ctx, prog, 'K-api-int-lists')
        ctx.count('K-malformed', key=('int_in_list', k, info['count']))
        if r['files'] and info['attribute'] == 'coordinates':
            ctx.violation('integer-outside-its-code-was-written', {'program': apistream.strip_private(prog), **info})
    # the other half of the property on VALID data of every source kind (inline / dict / structured packed and padded / HDF5, with casts):
    # whatever write returns is accepted by the strict reader and every frame-data record decodes with the descriptors in the file
    from props import c03 as _c03, c08 as _c08
    import os
    for k in range(20 if ctx.tier == 'quick' else 200):
        spec, df, data = _c03.build_case(rng, k)
        o = impl.outcome(lambda: impl.write_real(df, in_chunk=spec['in_chunk'], data=data))
        if isinstance(data, str) and os.path.exists(data):
            import gc
            gc.collect()
            os.remove(data)
        ctx.count('K-valid-sources', key=(k, spec['kind']))
        if o[0] != 'ok':
            continue
        det = {'kind': spec['kind'], 'rows': spec['rows'], 'channels': [(c['dtype'], c['width'], c['cast']) for c in spec['chans']]}
        dfm = filemodel.read_file(ctx, o[1]['file'], spec['vrl'])
        if not dfm.ok:
            ctx.violation('returned-file-is-rejected-by-the-strict-reader', det)
        else:
            _c08.records_match_descriptors(ctx, dfm, det)
    for k in range(n):
        base, _ = apistream.base_program(rng, vrl=rng.choice([128, 8192]), explicit_origins=False)
        for s in base:
            if s['op'] == 'origin':
                s['_fh_id'] = next(x['fh_id']['v'] for x in base if x['op'] == 'lf')
        base.append({'op': 'write'})
        prog, kind, must = invalidate(rng, base)
        r = apistream.run_one(ctx, prog, 'K-api')
        ctx.count('K-malformed', key=(kind, k))
        ctx.stat('K-malformed', 'kind_' + kind)
        wrote = bool(r['files'])
        ctx.stat('K-malformed', 'returned' if wrote else 'raised')
        det = {'program': apistream.strip_private(prog), 'invalidity': kind}
        if not wrote:
            continue
        step, data, vrl, ident = r['files'][-1]
        d = apistream.decode(ctx, data, vrl, ident)
        if not d.ok:
            ctx.violation('returned-file-is-rejected-by-the-strict-reader', det)
            continue
        exp = judge.expected_at(prog, r['outs'], step)
        if exp:
            judge.check_fidelity(ctx, d, exp, det)
        judge.check_identity_refs(ctx, d, det, check_unique=False)
        hs = [(s['fh_id']['v'], s['fh_seq']['v']) for s, o in zip(prog, r['outs']) if s['op'] == 'lf' and o[0] == 'ok']
        judge.check_order(ctx, d, det, hs)
        if must and kind not in ('int_range',):
            # the invalid element must not be in the file in altered form: it was accepted, so fidelity above decides;
            # kinds that cannot be represented at all must have raised
            if kind in ('long_name', 'nonascii_name', 'long_set_name', 'nonascii_set_name', 'nonascii_value', 'nonascii_units', 'long_units',
                        'no_origin', 'no_frames', 'no_channels', 'nonascii_header', 'origin_range'):
                accepted = all(o[0] == 'ok' for o in r['outs'])
                if accepted:
                    ctx.violation('unrepresentable-input-accepted-and-written', det)
        if k % 13 == 0:
            ctx.sample({'stream': 'K-malformed', 'invalidity': kind, 'outcome': 'returned' if wrote else 'raised'})


def replay(ctx, data):
    run(ctx)
