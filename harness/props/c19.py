"""C19 — writing never alters the caller's data (partial). Every caller-owned buffer (inline channel arrays, dict values,
the structured array, the HDF5 file, the dict object itself) is snapshotted bit for bit before a write and compared
after, for successful and failing writes, over dtypes, byte orders, layouts (read-only arrays, views into larger
buffers, strided, Fortran order), casts, chunk sizes, windows and index statistics."""
import hashlib
import os
import numpy as np
import impl
import datagen

RULE = ('frames of 1..4 channels x 8 dtypes x byte order x layout {C, F, strided, read-only, view} x cast x source kind {inline, dict, '
        'structured, hdf5} x input chunk x window x indexed or not x successful / failing writes (missing dataset, unequal rows, bad '
        'window) x non-finite float samples under an integer cast x follow-up (add_channel with data on the written specification, second write). Snapshot = bytes of the root buffer of every caller array (incl. the parts outside a view), flags, dtype, shape, strides, '
        'dict keys and value identities, SHA-256 of the HDF5 file. Distinct by (layouts, kind, chunk, window, failure kind).')
ASSUMPTIONS = ['numpy copy-versus-view semantics are below the model; this check observes them on every case instead']
PARTIAL = ('the Coq theorem C19_no_caller_write is about a hand-abstracted effect model; the code is tied to the property only by these '
           'runtime snapshots (exploration of the aliasing behaviour), not by a proof about numpy')


def root_of(a):
    while isinstance(getattr(a, 'base', None), np.ndarray):
        a = a.base
    return a


def snap_array(a):
    r = root_of(a)
    return (r.tobytes(), a.tobytes(), a.flags.writeable, r.flags.writeable, str(a.dtype), a.shape, a.strides)


def run(ctx):
    from dliswriter import DLISFile
    rng = ctx.rng('alias')
    n = 120 if ctx.tier == 'quick' else 1500
    for k in range(n):
        rows = rng.randrange(1, 9)
        nch = rng.randrange(1, 5)
        kind = rng.choice(['inline', 'dict', 'struct', 'hdf5'])
        chans = [datagen.gen_channel(rng, rows, 'C%d' % j) for j in range(nch)]
        if kind == 'struct':
            for c in chans:
                if c['layout'] in ('F', 'strided'):
                    c['layout'] = 'C'
        fail = rng.choice([None, None, None, 'missing', 'rows', 'window', 'cast3d'])
        arrays = {c['name']: datagen.physical_array(c) for c in chans}
        special = k % 4 == 0
        if special:
            # non-finite samples under an integer cast (a "sanitising" in-place step would show up in the caller's array)
            for c in chans:
                if c['dtype'] in ('float32', 'float64') and arrays[c['name']].size and c['layout'] != 'read-only' and arrays[c['name']].flags.writeable:
                    a = arrays[c['name']]
                    flat_idx = rng.randrange(a.size)
                    a[np.unravel_index(flat_idx, a.shape)] = rng.choice([np.nan, np.inf, -np.inf])
                    c['cast'] = rng.choice(['int16', 'int32', 'uint8', 'uint16'])
        if fail == 'rows' and nch > 1 and kind in ('inline', 'dict'):
            a = arrays[chans[-1]['name']]
            arrays[chans[-1]['name']] = np.concatenate([a, a])
        df = DLISFile()
        lf = df.add_logical_file()
        lf.add_origin('O', file_set_number=1, creation_time='2020/01/01 00:00:00')
        items = [lf.add_channel(c['name'], data=arrays[c['name']] if kind == 'inline' else None,
                                cast_dtype=getattr(np, c['cast']) if c['cast'] else None) for c in chans]
        indexed = rng.random() < 0.4 and chans[0]['width'] is None
        lf.add_frame('F', channels=items, index_type='TIME' if indexed else None)
        data = None
        h5 = None
        if kind == 'dict':
            data = dict(arrays)
            if fail == 'missing':
                data.pop(chans[-1]['name'])
        elif kind == 'struct':
            dt = np.dtype([(c['name'], arrays[c['name']].dtype) if c['width'] is None else (c['name'], arrays[c['name']].dtype, (c['width'],)) for c in chans])
            data = np.zeros(rows, dtype=dt)
            for c in chans:
                data[c['name']] = arrays[c['name']][:rows]
            if rng.random() < 0.3:
                data.setflags(write=False)
        elif kind == 'hdf5':
            import h5py
            h5 = impl.tmp_path('.h5')
            with h5py.File(h5, 'w') as h:
                for c in chans:
                    if not (fail == 'missing' and c is chans[-1]):
                        h.create_dataset(c['name'], data=arrays[c['name']])
            data = h5
        kw = {}
        if fail == 'window':
            kw = {'from_idx': rows + 3}
        elif rng.random() < 0.4:
            a = rng.randrange(0, rows)
            kw = {'from_idx': a, 'to_idx': rng.randrange(a + 1, rows + 1)}
        # snapshots
        before = {nm: snap_array(a) for nm, a in arrays.items()}
        dict_before = None if not isinstance(data, dict) else [(k2, id(v)) for k2, v in data.items()]
        struct_before = snap_array(data) if isinstance(data, np.ndarray) else None
        h5_before = hashlib.sha256(open(h5, 'rb').read()).hexdigest() if h5 else None
        o = impl.outcome(lambda: impl.write_real(df, in_chunk=rng.choice([None, 1, 2, 5]), data=data, **kw))
        ctx.count('K-alias', key=(tuple((c['dtype'], c['order'], c['layout'], c['cast'], c['width']) for c in chans), kind, fail, tuple(sorted(kw.items()))))
        ctx.stat('K-alias', 'kind_' + kind)
        ctx.stat('K-alias', 'write_' + ('ok' if o[0] == 'ok' else 'raised'))
        for c in chans:
            ctx.stat('K-alias', 'layout_' + c['layout'])
        det = {'channels': [{kk: c[kk] for kk in ('name', 'dtype', 'order', 'layout', 'cast', 'width', 'seed', 'rows')} for c in chans], 'kind': kind,
               'failure_injected': fail, 'options': kw, 'indexed': indexed, 'write': o[0] if o[0] == 'ok' else o}
        for nm, a in arrays.items():
            if snap_array(a) != before[nm]:
                b2 = snap_array(a)
                what = [lab for lab, x, y in zip(('root buffer', 'array bytes', 'writeable', 'root writeable', 'dtype', 'shape', 'strides'), before[nm], b2) if x != y]
                ctx.violation('caller-array-changed', {**det, 'array': nm, 'changed': what})
        if dict_before is not None and [(k2, id(v)) for k2, v in data.items()] != dict_before:
            ctx.violation('caller-dict-changed', {**det, 'keys_before': [x[0] for x in dict_before], 'keys_after': list(data)})
        if struct_before is not None and snap_array(data) != struct_before:
            ctx.violation('caller-structured-array-changed', det)
        if h5:
            import gc
            gc.collect()
            if hashlib.sha256(open(h5, 'rb').read()).hexdigest() != h5_before:
                ctx.violation('hdf5-file-changed', det)
        # the caller's objects stay the caller's AFTER the write as well: later API calls on the same specification and a second write
        if k % 3 == 0:
            late = np.arange(rows, dtype=np.float64)
            late_before = late.tobytes()
            o3 = impl.outcome(lambda: lf.add_channel('LATE-CHANNEL', data=late))
            o4 = impl.outcome(lambda: impl.write_real(df, in_chunk=None, data=data, **kw))
            ctx.stat('K-alias', 'followup_' + ('ok' if o4[0] == 'ok' else 'raised'))
            det2 = {**det, 'after': 'add_channel(data=...) and a second write'}
            for nm, a in arrays.items():
                if snap_array(a) != before[nm]:
                    ctx.violation('caller-array-changed', {**det2, 'array': nm})
            if late.tobytes() != late_before:
                ctx.violation('caller-array-changed', {**det2, 'array': 'LATE-CHANNEL'})
            if dict_before is not None and [(k2, id(v)) for k2, v in data.items()] != dict_before:
                ctx.violation('caller-dict-changed', {**det2, 'keys_before': [x[0] for x in dict_before], 'keys_after': list(data)})
            if struct_before is not None and snap_array(data) != struct_before:
                ctx.violation('caller-structured-array-changed', det2)
            if h5:
                import gc
                gc.collect()
                if hashlib.sha256(open(h5, 'rb').read()).hexdigest() != h5_before:
                    ctx.violation('hdf5-file-changed', det2)
        if h5:
            os.remove(h5)
        if k % 17 == 0:
            ctx.sample({'stream': 'K-alias', **{kk: det[kk] for kk in ('kind', 'failure_injected', 'options', 'write')},
                        'layouts': [(c['dtype'], c['order'], c['layout'], c['cast']) for c in chans]})


def replay(ctx, data):
    run(ctx)
