"""C04 — every EFLR decodes under the component grammar. K-attr correspondence (Python-side attribute state ->
Model/Eflr.v enc_set == bytes of the set) and strict component-grammar judgement (Model/EflrReader.v dec_set) of
every EFLR body the implementation hands to the segmenter (lr-tap) and of the bodies reassembled from the file."""
import impl
import specgen
from common import text

EXTRA_COQ_FILES = ('GenFacts/SchemaOK.v', 'GenFacts/ConstantsOK.v')
RULE = ('[plus 12/120 write-edit-write histories through the public API, every file decoded; every second specification written again after in-place edits (append / pop) of the value lists its attributes hand out; 40/400 valid programs with one non-ASCII character in a text leaf: refused, or the file decodes] ' + 'seeded random specifications over all 22 object types: attribute subsets by density 0/0.3/0.7/1, value multiplicities '
        '0,1,2,3,5,127,128,200, nested lists, units (str/Unit member, AttrSetup/dict), named and unnamed sets, repeated names; '
        'every EFLR body tapped before segmentation is (a) parsed by the strict component reader, (b) compared with the model '
        'encoder applied to the Python-side attribute state. Distinct by (set type, number of objects, body length).')
ASSUMPTIONS = ['lr-tap hook', 'int -> binary64 conversion modelled exactly for |z| < 2^53 only (larger ints under FDOUBL are outside the model)']
PARTIAL = ''


def sets_in_order(df):
    from dliswriter.logical_record.core.eflr import EFLRSet
    out = []
    for x in df.generator([[] for _ in df.logical_files]):
        if isinstance(x, EFLRSet):
            out.append(x)
    return out


def run(ctx):
    rng = ctx.rng('specs')
    rng_e = ctx.rng('inplace')
    n = 60 if ctx.tier == 'quick' else 700
    from dliswriter.logical_record.eflr_types import FileHeaderSet
    built = written = 0
    for k in range(n):
        spec = specgen.gen_spec(rng, vrl=rng.choice([128, 1024, 8192, 16384]))
        df, objs, outs = specgen.build(spec)
        if df is None:
            continue
        built += 1
        ctx.stat('K-attr', 'ops', len(outs))
        ctx.stat('K-attr', 'ops_rejected', sum(1 for o in outs if o[0] == 'err'))
        def check_write(w, edits):
            if w[0] != 'ok':
                ctx.stat('K-attr', 'write_raised:' + w[1])
                return None
            recs = w[1]['recs']
            eflr_bodies = [b for e, t, b in recs if e]
            sets = sets_in_order(df)
            if len(sets) != len(eflr_bodies):
                ctx.violation('number-of-EFLR-records-differs-from-number-of-sets', {'spec': spec, 'edited_in_place': edits, 'sets': len(sets), 'records': len(eflr_bodies)})
                return None
            # (a) strict component grammar on every body
            nonempty = [(s, b) for s, b in zip(sets, eflr_bodies) if b]
            dec = ctx.model.batch([[23, b] for s, b in nonempty])
            reqs = []
            for (s, b), d in zip(nonempty, dec):
                ctx.count('K-attr', key=(s.set_type, s.n_items, len(b)))
                ctx.stat('K-attr', 'type_' + s.set_type)
                det = {'spec': spec, 'edited_in_place': edits, 'set_type': s.set_type, 'set_name': s.set_name, 'body_hex': b[:3000].hex(), 'body_len': len(b)}
                if d[0] != 0:
                    ctx.violation('EFLR-body-rejected-by-strict-component-reader', det)
                    continue
                ty, nm, tmpl, dobjs, tok = d[1]
                if not tok:
                    ctx.violation('template-labels-empty-or-duplicated', {**det, 'labels': [bytes(t[0]).decode('latin1') for t in tmpl]})
                if len(dobjs) != s.n_items or any(len(o[1]) != len(tmpl) for o in dobjs):
                    ctx.violation('objects-or-attribute-components-do-not-match-template', {**det, 'objects': len(dobjs), 'items': s.n_items})
                if isinstance(s, FileHeaderSet):
                    it = s.get_all_eflr_items()[0]
                    reqs.append([24, [it.origin_reference, it.copy_number, text(it.name)], it.sequence_number, text(it.header_id)])
                else:
                    reqs.append([20, specgen.eset_tree(s)])
            # (b) correspondence with the model encoder
            if len(reqs) == len(nonempty):
                reps = ctx.model_batch(reqs, sample_every=5)
                for (s, b), m in zip(nonempty, reps):
                    if m[0] != 0:
                        if m[1] == 8:      # outside the modelled domain (e.g. |int| >= 2^53 under FDOUBL)
                            ctx.stat('K-attr', 'outside_model')
                            continue
                        ctx.violation('model-rejects-a-set-the-implementation-wrote', {'spec': spec, 'edited_in_place': edits, 'set_type': s.set_type, 'model': m})
                    elif m[1] != b:
                        pos = next((i for i in range(min(len(b), len(m[1]))) if b[i] != m[1][i]), min(len(b), len(m[1])))
                        ctx.violation('EFLR-body-differs-from-model', {'spec': spec, 'edited_in_place': edits, 'set_type': s.set_type, 'first_difference_at': pos,
                                                                       'impl_around': b[max(0, pos - 16):pos + 32].hex(), 'model_around': m[1][max(0, pos - 16):pos + 32].hex()})
            return nonempty

        w = impl.outcome(lambda: impl.write_real(df))
        ctx.count('K-attr-files', key=k)
        nonempty = check_write(w, None)
        if nonempty is None:
            continue
        written += 1
        if k % 2 == 0:
            # the lists the attributes hand out are the user's to edit in place: the count written with the next
            # write is the number of values then held (a count remembered from the first write is not)
            edits = []
            for s_ in sets_in_order(df):
                if isinstance(s_, FileHeaderSet):
                    continue
                for it in s_.get_all_eflr_items():
                    for a in it.attributes.values():
                        v = a.value
                        if isinstance(v, list) and v and not isinstance(v[-1], list) and a.multivalued and rng_e.random() < 0.4:
                            if rng_e.random() < 0.7 or len(v) < 2:
                                v.append(v[-1])
                                edits.append((s_.set_type, it.name, a.label, '+1'))
                            else:
                                v.pop()
                                edits.append((s_.set_type, it.name, a.label, '-1'))
            if edits:
                ctx.stat('K-attr', 'in_place_edits', len(edits))
                w2 = impl.outcome(lambda: impl.write_real(df))
                ctx.count('K-attr-files', key=(k, 'rewritten'))
                check_write(w2, edits[:20])
        if k % 9 == 0:
            ctx.sample({'stream': 'K-attr', 'sets': [(s.set_type, s.set_name, s.n_items, len(b)) for s, b in nonempty][:12]})
    ctx.notes.append('specifications built: %d, written: %d' % (built, written))
    # histories: write, edit the specification (values of other kinds, origin references, the header item), write again:
    # every file of the history must decode under the grammar (K-api correspondence with the model on the way)
    import apistream
    rng2 = ctx.rng('rewrite')
    for k in range(12 if ctx.tier == 'quick' else 120):
        hist, _fresh = apistream.rewrite_history(rng2)
        r = apistream.run_one(ctx, hist, 'K-api-rewrite')
        ctx.count('K-api-rewrite', key=k)
        for (step, data, vrl, ident) in r['files']:
            d = apistream.decode(ctx, data, vrl, ident)
            ctx.stat('K-api-rewrite', 'files_decoded')
            if not d.ok:
                ctx.violation('file-of-a-rewrite-history-rejected-by-the-strict-reader', {'program': apistream.strip_private(hist), 'write_step': step})
    # text outside ASCII: the call or the write is refused, or the file still decodes (a transliteration that keeps the
    # character count of the original as the length prefix does not)
    rng3 = ctx.rng('nonascii')
    for k in range(40 if ctx.tier == 'quick' else 400):
        prog, info = apistream.nonascii_program(rng3)
        if prog is None:
            continue
        r = apistream.run_one(ctx, prog, 'K-api-nonascii')
        ctx.count('K-api-nonascii', key=k)
        ctx.stat('K-api-nonascii', 'char_U+%04X' % ord(info['char'][0]))
        ctx.stat('K-api-nonascii', 'files_written', len(r['files']))
        for (step, data, vrl, ident) in r['files']:
            d = apistream.decode(ctx, data, vrl, ident)
            if not d.ok:
                ctx.violation('file-with-non-ASCII-text-rejected-by-the-strict-reader',
                              {'program': apistream.strip_private(prog), 'write_step': step, 'where': list(info['where']), 'char': info['char']})


def replay(ctx, data):
    run(ctx)
