"""C11 — all data sources equivalent; the row window selects exactly its rows. The same logical data are supplied inline,
as a dict, as a structured array and as an HDF5 file (dataset-name mapping, leading slash, extra unused datasets, permuted
source fields); all windows 0 <= from < to <= rows and open-ended; chunk sizes: files must be byte-identical to one
another and to the file written from the pre-sliced arrays; K-api correspondence of the dict route with the model."""
import os
import numpy as np
import impl
import datagen
import apistream
import apimodel
import specgen

EXTRA_COQ_FILES = ('GenFacts/SitesOK.v',)
RULE = ('[plus windows reaching outside the data (to_idx beyond the rows, negative from_idx): refused, or the rows arr[a:b] selects] frames of 1..4 channels (8 dtypes, scalar or 2-D, with or without a cast dtype incl. narrowing integer casts of out-of-range values), rows 1..10; for each: 4 source kinds x all windows (from, to) incl. open end x '
        'input chunk {None,1,2,3,7} (sampled in quick, exhaustive windows in thorough) x permutation of source fields / datasets x '
        'extra unused datasets x dataset_name mapping. Distinct by (frame index, kind, window, chunk).')
ASSUMPTIONS = ['h5py / numpy structured-array semantics are trusted']
PARTIAL = ''


def build(chans, kind, rng, perm, sliced=None, vrl=8192):
    """A fresh DLISFile for the frame, data supplied through `kind`; sliced=(a,b): arrays pre-sliced."""
    from dliswriter import DLISFile
    df = DLISFile(max_record_length=vrl)
    lf = df.add_logical_file()
    lf.add_origin('O', file_set_number=1, creation_time='2020/01/01 00:00:00')
    arrays = {}
    for c in chans:
        a = datagen.physical_array(c)
        if sliced:
            a = a[sliced[0]:sliced[1]]
        arrays[c['name']] = a
    items = []
    for c in chans:
        dsn = c.get('dataset')
        items.append(lf.add_channel(c['name'], data=arrays[c['name']] if kind == 'inline' else None, dataset_name=dsn,
                                    **({'cast_dtype': np.dtype(c['cast'])} if c.get('cast') else {})))
    lf.add_frame('F', channels=items)
    data = None
    extra = rng.random() < 0.5
    order = [chans[i] for i in perm]
    key = lambda c: c.get('dataset') or c['name']  # noqa
    if kind == 'dict':
        data = {}
        if extra:
            data['UNUSED-FIRST'] = np.zeros(3)
        for c in order:
            data[key(c)] = arrays[c['name']]
        if extra:
            data['UNUSED'] = np.zeros((2, 2))
    elif kind == 'struct':
        fields = [(key(c), arrays[c['name']].dtype) if c['width'] is None else (key(c), arrays[c['name']].dtype, (c['width'],)) for c in order]
        if extra:
            fields.append(('UNUSED', 'f4'))
        n = len(next(iter(arrays.values())))
        data = np.zeros(n, dtype=np.dtype(fields))
        for c in order:
            data[key(c)] = arrays[c['name']]
    elif kind == 'hdf5':
        import h5py
        path = impl.tmp_path('.h5')
        with h5py.File(path, 'w') as h:
            if extra:
                h.create_dataset('UNUSED', data=np.zeros(4))
            for c in order:
                h.create_dataset(key(c), data=arrays[c['name']])
        data = path
    return df, data


def write(df, data, window, chunk, rows):
    a, b = window
    kw = {}
    if a:
        kw['from_idx'] = a
    if b is not None:
        kw['to_idx'] = b
    try:
        return impl.outcome(lambda: impl.write_real(df, in_chunk=chunk, data=data, **kw))
    finally:
        if isinstance(data, str) and os.path.exists(data):
            import gc
            gc.collect()
            os.remove(data)


def run(ctx):
    rng = ctx.rng('frames')
    nframes = 12 if ctx.tier == 'quick' else 120
    for k in range(nframes):
        rows = rng.randrange(1, 11)
        nch = rng.randrange(1, 5)
        chans = []
        for j in range(nch):
            c = datagen.gen_channel(rng, rows, 'CH%d' % j, order='<', layout='C', cast='rand' if rng.random() < 0.6 else None)
            if c['cast'] and not datagen.cast_is_value_safe(c):
                c['cast'] = None       # float -> int out of range: platform behaviour, not compared
            if rng.random() < 0.3:
                c['dataset'] = rng.choice(['data/sub/%d' % j, 'DS%d' % j, '/rooted%d' % j])
            chans.append(c)
        windows = [(a, b) for a in range(rows) for b in list(range(a + 1, rows + 1)) + [None]]
        if ctx.tier == 'quick':
            rng.shuffle(windows)
            windows = [(0, None)] + windows[:5]
        for (a, b) in windows:
            to_ = rows if b is None else b
            perm = list(range(nch))
            # reference: pre-sliced arrays supplied inline, whole
            dfr, _ = build(chans, 'inline', rng, perm, sliced=(a, to_))
            ref = impl.outcome(lambda: impl.write_real(dfr))
            if ref[0] != 'ok':
                ctx.violation('reference-write-failed', {'channels': chans, 'window': (a, b), 'impl': ref})
                continue
            for kind in ['inline', 'dict', 'struct', 'hdf5']:
                if kind == 'struct' and any('/' in (c.get('dataset') or '') for c in chans):
                    continue
                for chunk in ([None, 1, 2, 3, 7] if ctx.tier == 'thorough' else [rng.choice([None, 1, 2, 3, 7])]):
                    rng.shuffle(perm)
                    ch2 = [dict(c) for c in chans]
                    if kind == 'hdf5':
                        for c in ch2:
                            if c.get('dataset') and rng.random() < 0.5:
                                c['dataset'] = c['dataset'].lstrip('/') if c['dataset'].startswith('/') else '/' + c['dataset']
                    df, data = build(ch2 if kind == 'hdf5' else chans, kind, rng, perm)
                    o = write(df, data, (a, b), chunk, rows)
                    ctx.count('K-sources', key=(k, kind, a, b, chunk))
                    ctx.stat('K-sources', 'kind_' + kind)
                    det = {'channels': [{kk: c.get(kk) for kk in ('name', 'dtype', 'width', 'seed', 'rows', 'dataset', 'cast')} for c in chans], 'kind': kind,
                           'window': [a, b], 'input_chunk': chunk, 'source_order': perm}
                    if o[0] != 'ok':
                        ctx.violation('write-raises-for-valid-source', {**det, 'impl': o})
                    elif o[1]['file'] != ref[1]['file']:
                        x, y = o[1]['file'], ref[1]['file']
                        pos = next((i for i in range(min(len(x), len(y))) if x[i] != y[i]), min(len(x), len(y)))
                        ctx.violation('file-differs-from-presliced-reference', {**det, 'first_difference_at': pos, 'len': len(x), 'reference_len': len(y)})
        # windows reaching outside the data: refused, or else the file of the rows Python slicing selects (arr[a:b]) — never
        # rows that are not there (a one-row remainder used to be broadcast over the whole requested window)
        outside = [(rows - 1, rows + 1), (rows - 1, rows + 4), (0, rows + 1), (-1, None), (-rows, None), (rows // 2, rows + 3), (-1, rows)]
        for (a, b) in (outside if ctx.tier == 'thorough' else [rng.choice(outside[:2]), rng.choice(outside[2:])]):
            kind = rng.choice(['inline', 'dict', 'struct', 'hdf5'])
            if kind == 'struct' and any('/' in (c.get('dataset') or '') for c in chans):
                kind = 'dict'
            perm = list(range(nch))
            df, data = build(chans, kind, rng, perm)
            o = write(df, data, (a, b), rng.choice([None, 1, 2]), rows)
            ctx.count('K-outside', key=(k, kind, a, b))
            ctx.stat('K-outside', 'refused' if o[0] != 'ok' else 'written')
            if o[0] == 'ok':
                sl = slice(a, b)
                lo, hi, _ = sl.indices(rows)
                okr = None
                if hi > lo:
                    dfr, _ = build(chans, 'inline', rng, perm, sliced=(lo, hi))
                    okr = impl.outcome(lambda: impl.write_real(dfr))
                if okr is None or okr[0] != 'ok' or okr[1]['file'] != o[1]['file']:
                    ctx.violation('window-outside-the-data-written-with-rows-that-are-not-there',
                                  {'channels': [{kk: c.get(kk) for kk in ('name', 'dtype', 'width', 'seed', 'rows', 'dataset', 'cast')} for c in chans],
                                   'kind': kind, 'window': [a, b], 'rows': rows, 'file_len': len(o[1]['file']),
                                   'presliced_len': len(okr[1]['file']) if okr and okr[0] == 'ok' else None})
        if k % 3 == 0:
            ctx.sample({'stream': 'K-sources', 'rows': rows, 'channels': [(c['dtype'], c['width'], c.get('dataset')) for c in chans], 'windows': len(windows)})
    # the dict route against the model (window and chunking inside Model/Write.v)
    for k in range(10 if ctx.tier == 'quick' else 100):
        rows = rng.randrange(2, 9)
        a = rng.randrange(0, rows)
        b = rng.choice([None] + list(range(a + 1, rows + 1)))
        if k % 4 == 3:      # outside the data: both sides must refuse
            a, b = rng.choice([(rows - 1, rows + 2), (0, rows + 1), (-1, None), (-2, rows)])
        prog = [{'op': 'newfile', 'ident': 'MAIN-STORAGE-UNIT', 'seq': 1, 'vrl': 8192},
                {'op': 'lf', 'fh_id': specgen.r_str('H'), 'fh_seq': specgen.r_int(1)},
                {'op': 'origin', 'lf': 0, 'name': specgen.r_str('O'), 'set_name': None, 'origin': None, '_fh_id': 'H',
                 'kw': {'file_set_number': specgen.r_int(1), 'creation_time': specgen.r_str('2020/01/01 00:00:00')}}]
        nch = rng.randrange(1, 4)
        for j in range(nch):
            prog.append({'op': 'channel', 'lf': 0, 'name': specgen.r_str('C%d' % j), 'set_name': None, 'origin': None, 'kw': {}, 'inline': rng.random() < 0.5,
                         'data': {'dtype': rng.choice(datagen.DTYPES), 'rows': rows, 'width': rng.choice([None, 2]), 'seed': rng.randrange(1 << 20)}})
        prog.append({'op': 'frame', 'lf': 0, 'name': specgen.r_str('F'), 'set_name': None, 'origin': None, 'kw': {},
                     'channels': specgen.r_list([specgen.r_ref(1 + j) for j in range(nch)])})
        prog.append({'op': 'write', 'data': 'dict', 'from': a, 'to': b, 'in_chunk': rng.choice([None, 1, 2, 3])})
        apistream.run_one(ctx, prog, 'K-api-window')
        ctx.count('K-api-window', key=(k, a, b))


def replay(ctx, data):
    run(ctx)
