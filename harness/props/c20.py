"""C20 — a rejected call leaves no trace. For every program with rejected calls, the same program with the rejected
calls removed is run on a fresh DLISFile: the decoded inventories (objects with identities, copy numbers, origins,
attributes, data records) must be equal; K-api correspondence with the model, whose rejections are proved traceless."""
import copy
import apistream
import judge
import filemodel

EXTRA_COQ_FILES = ('GenFacts/SchemaOK.v',)
RULE = ('seeded random programs in which add_* / assignment calls of every kind of rejection are injected (bad attribute value of '
        'every attribute class, value outside an enumeration, invalid reference, non-str name, bad origin reference type, duplicate '
        'dataset name, unsupported cast dtype, non-array data, bad frame channel lists) before and between valid calls of the same '
        'name; a rejected add_origin (with and without explicit reference) as the first origin call, objects around it, then the defining origin; compared with the history without the rejected calls. Distinct by (program index, number of rejected calls).')
ASSUMPTIONS = []
PARTIAL = ('failed WRITES: the model shows which mutations a failed write leaves (derived attributes, merged data); the clause '
           '"once the cause is removed the same file as a fresh specification" is exercised by correspondence only')


def without_rejected(prog, outs):
    """The program with the rejected creating / assigning calls removed (references re-indexed)."""
    new = []
    old2new = {}
    created_old = created_new = 0
    for s, o in zip(prog, outs):
        s = copy.deepcopy(s)
        if s['op'] in ('origin', 'add', 'channel', 'frame'):
            if o[0] == 'ok':
                old2new[created_old] = created_new
                created_new += 1
                apistream.remap_refs({k: v for k, v in s.items() if k in ('kw', 'channels')}, old2new)
                new.append(s)
            created_old += 1
        elif s['op'] in ('assign', 'nofmt'):
            if o[0] == 'ok':
                if s['op'] == 'assign':
                    s['obj'] = old2new.get(s['obj'], s['obj'])
                    apistream.remap_refs(s['raw'], old2new)
                else:
                    apistream.remap_refs(s['obj'], old2new)
                new.append(s)
        elif s['op'] == 'newfile':
            old2new = {}
            created_old = created_new = 0
            new.append(s)
        else:
            new.append(s)
    return new


def run(ctx):
    rng = ctx.rng('progs')
    n = 70 if ctx.tier == 'quick' else 800
    import specgen
    sweep = []
    for tkey in specgen.SET_KINDS:
        for inner in (apistream.reject_kinds(tkey) or [None])[: (2 if ctx.tier == 'quick' else 50)]:
            sweep.append(apistream.gen_sandwich(rng, tkey, inner)[0])
    sweep.append(apistream.d22_witness())
    for explicit in (None, 40, 1):
        for before in (True, False):
            for second in (None, 7):
                sweep.append(apistream.gen_origin_sandwich(rng, explicit, before, second))
    for k in range(n + len(sweep)):
        if k < len(sweep):
            prog, flavor = sweep[k], 'sandwich'
        else:
            prog, flavor = apistream.gen_program(rng, flavor=rng.choice(['rejects', 'rejects', 'mixed']))
        r = apistream.run_one(ctx, prog, 'K-api')
        nrej = sum(1 for s, o in zip(prog, r['outs']) if o[0] == 'err' and s['op'] != 'write')
        ctx.count('K-api-programs', key=(k, nrej))
        ctx.stat('K-reject', 'rejected_calls', nrej)
        if nrej == 0:
            continue
        clean = without_rejected(prog, r['outs'])
        if not r['files']:
            # the history with rejected calls could not be written: the history without them must fail as well
            r2 = apistream.run_one(ctx, clean, 'K-api-clean')
            if r2['files']:
                ctx.violation('write-fails-only-because-of-earlier-rejected-calls', {'program': apistream.strip_private(prog)})
            continue
        r2 = apistream.run_one(ctx, clean, 'K-api-clean')
        det = {'program': apistream.strip_private(prog), 'rejected_steps': [i for i, (s, o) in enumerate(zip(prog, r['outs'])) if o[0] == 'err']}
        if not r2['files']:
            ctx.violation('write-succeeds-only-because-of-earlier-rejected-calls', {**det, 'outs': [o[0] if o[0] == 'ok' else o for o in r2['outs']]})
            continue
        if any(o[0] == 'err' for s, o in zip(clean, r2['outs']) if s['op'] != 'write'):
            ctx.violation('call-accepted-after-rejections-is-rejected-without-them', det)
            continue
        a = apistream.decode(ctx, r['files'][-1][1], r['files'][-1][2], r['files'][-1][3])
        b = apistream.decode(ctx, r2['files'][-1][1], r2['files'][-1][2], r2['files'][-1][3])
        if not (a.ok and b.ok):
            ctx.violation('file-rejected-by-strict-reader', det)
            continue
        ia, ib = judge.inventory(a), judge.inventory(b)
        ctx.stat('K-reject', 'histories_compared')
        if ia != ib:
            diff = []
            for (sa, fa), (sb, fb) in zip(ia, ib):
                for key in set(sa) | set(sb):
                    if sa.get(key) != sb.get(key):
                        diff.append({'set': key, 'with_rejected_calls': [x[0] for x in sa.get(key, [])], 'without': [x[0] for x in sb.get(key, [])]})
            ctx.violation('rejected-call-left-a-trace', {**det, 'differences': diff[:5]})
        # since the repair of D22 (3577635) the ORDER of the sets is as if the rejected calls had never been made, too
        oa = [[(s.type, s.name) for s in lf if isinstance(s, filemodel.DSet)] for lf in a.logical_files()]
        ob = [[(s.type, s.name) for s in lf if isinstance(s, filemodel.DSet)] for lf in b.logical_files()]
        if oa != ob:
            ctx.violation('rejected-call-changed-the-order-of-the-sets', {**det, 'with_rejected_calls': oa[:2], 'without': ob[:2]})
        if k % 11 == 0:
            ctx.sample({'stream': 'K-reject', 'rejected_calls': nrej,
                        'rejected': [(s['op'], s.get('type'), o[1]) for s, o in zip(prog, r['outs']) if o[0] == 'err'][:6]})


def replay(ctx, data):
    run(ctx)
