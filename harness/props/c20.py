"""C20 — a rejected call leaves no trace. For every program with rejected calls, the same program with the rejected
calls removed is run on a fresh DLISFile: the decoded inventories (objects with identities, copy numbers, origins,
attributes, data records) must be equal; K-api correspondence with the model, whose rejections are proved traceless."""
import copy
import apistream
import impl
import judge
import filemodel

EXTRA_COQ_FILES = ('GenFacts/SchemaOK.v',)
RULE = ('seeded random programs in which add_* / assignment calls of every kind of rejection are injected (bad attribute value of '
        'every attribute class, value outside an enumeration, invalid reference, non-str name, bad origin reference type, duplicate '
        'dataset name, unsupported cast dtype, non-array data, bad frame channel lists) before and between valid calls of the same '
        'name; a rejected add_origin (with and without explicit reference) as the first origin call, objects around it, then the defining origin; compared with the history without the rejected calls. Distinct by (program index, number of rejected calls).')
ASSUMPTIONS = []
PARTIAL = ('failed WRITES: proved that a failing write leaves sets, registries, object types and every given value / unit untouched and '
           'can only add write-time defaults where nothing was given (C20_failed_write_keeps_the_specification); the clause "once the '
           'cause is removed the same file as a fresh specification" is then checked by differential execution (K-failed-write: 5 causes '
           'of failure, retry vs fresh specification) — derived values surviving into a later write with other data are known finding D9')


def _drop_dangling(x, rejected):
    """References to objects whose creation was rejected are None in the program as it ran: make that explicit, so that the
    program without the rejected calls assigns None as well (instead of whatever object now has that index)."""
    if isinstance(x, dict):
        if x.get('t') == 'ref' and x.get('i') in rejected:
            x.clear()
            x['t'] = 'none'
        else:
            for v in x.values():
                _drop_dangling(v, rejected)
    elif isinstance(x, list):
        for v in x:
            _drop_dangling(v, rejected)


def without_rejected(prog, outs):
    """The program with the rejected creating / assigning calls removed (references re-indexed)."""
    new = []
    old2new = {}
    created_old = created_new = 0
    rejected = set()
    for s, o in zip(prog, outs):
        s = copy.deepcopy(s)
        _drop_dangling({k: v for k, v in s.items() if k in ('kw', 'channels', 'raw')}, rejected)
        if s['op'] == 'newfile':
            rejected = set()
        if s['op'] in ('origin', 'add', 'channel', 'frame'):
            if o[0] != 'ok':
                rejected.add(created_old)
            if o[0] == 'ok':
                old2new[created_old] = created_new
                created_new += 1
                apistream.remap_refs({k: v for k, v in s.items() if k in ('kw', 'channels')}, old2new)
                new.append(s)
            created_old += 1
        elif s['op'] in ('assign', 'nofmt'):
            if o[0] == 'ok':
                if s['op'] == 'assign':
                    s['obj'] = old2new.get(s['obj'], s['obj'])
                    apistream.remap_refs(s['raw'], old2new)
                else:
                    apistream.remap_refs(s['obj'], old2new)
                new.append(s)
        elif s['op'] == 'newfile':
            old2new = {}
            created_old = created_new = 0
            new.append(s)
        else:
            new.append(s)
    return new


def rejected_call_then_other_logical_file(ctx):
    """A rejected add_* call in logical file 0 under a set name that only logical file 1 uses afterwards: the inventory of every
    logical file must be what it is without the rejected call (known finding D30: the empty set the call left registered for
    logical file 0 is the set logical file 1 then fills, so logical file 0 lists logical file 1's objects)."""
    import numpy as np
    from dliswriter import DLISFile
    import filemodel
    for tk, bad in [('channel', dict(units=5)), ('axis', dict(coordinates='x')), ('zone', dict(domain='NOWHERE'))]:
        invs = []
        for with_rejected in (True, False):
            df = DLISFile()
            lf0 = df.add_logical_file(fh_id='LF0')
            lf0.add_origin('O0', file_set_number=1, set_name='A', creation_time='2020/01/01 00:00:00')
            c0 = lf0.add_channel('C0', data=np.arange(3.0), set_name='A')
            lf0.add_frame('F0', channels=[c0], set_name='A')
            if with_rejected:
                try:
                    getattr(lf0, 'add_' + tk)('X', set_name='B', **bad)
                    ctx.notes.append('D30 witness: the call meant to be rejected was accepted (%s)' % tk)
                except Exception:  # noqa
                    pass
            lf1 = df.add_logical_file(fh_id='LF1')
            lf1.add_origin('O1', file_set_number=1, set_name='B', creation_time='2020/01/01 00:00:00')
            c1 = lf1.add_channel('C1', data=np.arange(3.0), set_name='B')
            lf1.add_frame('F1', channels=[c1], set_name='B')
            getattr(lf1, 'add_' + tk)('Y', set_name='B') if tk != 'channel' else None
            o = impl.outcome(lambda: impl.write_real(df))
            if o[0] != 'ok':
                invs.append(('raised', o[1]))
                continue
            d = filemodel.read_file(ctx, o[1]['file'], 8192)
            invs.append([sorted((r.type, ob.name) for r in lfd if isinstance(r, filemodel.DSet) for ob in r.objects) for lfd in d.logical_files()] if d.ok else 'unreadable')
        ctx.count('K-reject-other-lf', key=tk)
        if invs[0] != invs[1]:
            ctx.violation('rejected-call-changes-the-inventory-of-a-logical-file',
                          {'type': tk, 'rejected_arguments': {k: repr(v) for k, v in bad.items()}, 'with_rejected_call': invs[0], 'without': invs[1]},
                          finding_key='D30-rejected-call-set-adopted')


def run(ctx):
    rejected_call_then_other_logical_file(ctx)
    rng = ctx.rng('progs')
    n = 70 if ctx.tier == 'quick' else 800
    import specgen
    sweep = []
    for tkey in specgen.SET_KINDS:
        for inner in (apistream.reject_kinds(tkey) or [None])[: (2 if ctx.tier == 'quick' else 50)]:
            sweep.append(apistream.gen_sandwich(rng, tkey, inner)[0])
        sweep.append(apistream.gen_sandwich(rng, tkey, 'origin_type')[0])     # rejected on the origin reference's type
    sweep.append(apistream.d22_witness())
    for explicit in (None, 40, 1):
        for before in (True, False):
            for second in (None, 7):
                sweep.append(apistream.gen_origin_sandwich(rng, explicit, before, second))
    for k in range(n + len(sweep)):
        if k < len(sweep):
            prog, flavor = sweep[k], 'sandwich'
        else:
            prog, flavor = apistream.gen_program(rng, flavor=rng.choice(['rejects', 'rejects', 'mixed']))
        r = apistream.run_one(ctx, prog, 'K-api')
        nrej = sum(1 for s, o in zip(prog, r['outs']) if o[0] == 'err' and s['op'] != 'write')
        ctx.count('K-api-programs', key=(k, nrej))
        ctx.stat('K-reject', 'rejected_calls', nrej)
        if nrej == 0:
            continue
        clean = without_rejected(prog, r['outs'])
        if not r['files']:
            # the history with rejected calls could not be written: the history without them must fail as well
            r2 = apistream.run_one(ctx, clean, 'K-api-clean')
            if r2['files']:
                ctx.violation('write-fails-only-because-of-earlier-rejected-calls', {'program': apistream.strip_private(prog)})
            continue
        r2 = apistream.run_one(ctx, clean, 'K-api-clean')
        det = {'program': apistream.strip_private(prog), 'rejected_steps': [i for i, (s, o) in enumerate(zip(prog, r['outs'])) if o[0] == 'err']}
        if not r2['files']:
            ctx.violation('write-succeeds-only-because-of-earlier-rejected-calls', {**det, 'outs': [o[0] if o[0] == 'ok' else o for o in r2['outs']]})
            continue
        if any(o[0] == 'err' for s, o in zip(clean, r2['outs']) if s['op'] != 'write'):
            ctx.violation('call-accepted-after-rejections-is-rejected-without-them', det)
            continue
        a = apistream.decode(ctx, r['files'][-1][1], r['files'][-1][2], r['files'][-1][3])
        b = apistream.decode(ctx, r2['files'][-1][1], r2['files'][-1][2], r2['files'][-1][3])
        if not (a.ok and b.ok):
            ctx.violation('file-rejected-by-strict-reader', det)
            continue
        ia, ib = judge.inventory(a), judge.inventory(b)
        ctx.stat('K-reject', 'histories_compared')
        if ia != ib:
            diff = []
            for (sa, fa), (sb, fb) in zip(ia, ib):
                for key in set(sa) | set(sb):
                    if sa.get(key) != sb.get(key):
                        diff.append({'set': key, 'with_rejected_calls': [x[0] for x in sa.get(key, [])], 'without': [x[0] for x in sb.get(key, [])]})
            ctx.violation('rejected-call-left-a-trace', {**det, 'differences': diff[:5]})
        # since the repair of D22 (3577635) the ORDER of the sets is as if the rejected calls had never been made, too
        oa = [[(s.type, s.name) for s in lf if isinstance(s, filemodel.DSet)] for lf in a.logical_files()]
        ob = [[(s.type, s.name) for s in lf if isinstance(s, filemodel.DSet)] for lf in b.logical_files()]
        if oa != ob:
            ctx.violation('rejected-call-changed-the-order-of-the-sets', {**det, 'with_rejected_calls': oa[:2], 'without': ob[:2]})
        if k % 11 == 0:
            ctx.sample({'stream': 'K-reject', 'rejected_calls': nrej,
                        'rejected': [(s['op'], s.get('type'), o[1]) for s, o in zip(prog, r['outs']) if o[0] == 'err'][:6]})
    failed_write_histories(ctx)
    odd_argument_calls(ctx)


def odd_argument_calls(ctx):
    """Calls with argument types the program language of the model does not cover (a non-str dataset name, a path object, an
    arbitrary object as units ...). Whatever the library does with them: IF the call raises, the file written afterwards must be the
    file of the same history without that call."""
    import pathlib
    import numpy as np
    import impl
    from dliswriter import DLISFile

    def build(odd):
        df = DLISFile()
        lf = df.add_logical_file()
        lf.add_origin('ORIGIN', file_set_number=1, creation_time='2020/01/01 00:00:00')
        a = lf.add_channel('DEPTH', data=np.arange(4, dtype=np.float64))
        raised = None
        if odd is not None:
            try:
                odd(lf)
            except Exception as e:  # noqa
                raised = type(e).__name__
        b = lf.add_channel('RPM', data=np.arange(4, dtype=np.float32))
        lf.add_frame('F', channels=[a, b])
        lf.add_zone('Z')
        return df, raised
    odds = {
        'channel dataset_name=int': lambda lf: lf.add_channel('RPM', data=np.arange(4.0), dataset_name=5),
        'channel dataset_name=Path': lambda lf: lf.add_channel('RPM', data=np.arange(4.0), dataset_name=pathlib.PurePosixPath('/x/RPM')),
        'channel units=object': lambda lf: lf.add_channel('RPM', data=np.arange(4.0), units=object()),
        'channel data=list': lambda lf: lf.add_channel('RPM', data=[1, 2, 3, 4]),
        'channel cast_dtype=str': lambda lf: lf.add_channel('RPM', data=np.arange(4.0), cast_dtype='float32'),
        'zone name=bytes': lambda lf: lf.add_zone(b'Z'),
        'zone domain=object': lambda lf: lf.add_zone('Z', domain=object()),
        'frame channels=generator': lambda lf: lf.add_frame('G', channels=(c for c in [])),
        'axis coordinates=set': lambda lf: lf.add_axis('AX', coordinates={1, 2}),
    }
    ref = impl.outcome(lambda: impl.write_real(build(None)[0]))
    for label, odd in odds.items():
        df, raised = build(odd)
        ctx.count('K-odd-arguments', key=label)
        ctx.stat('K-odd-arguments', 'raised' if raised else 'accepted')
        if not raised:
            continue
        o = impl.outcome(lambda: impl.write_real(df))
        if o[0] != ref[0] or (o[0] == 'ok' and o[1]['file'] != ref[1]['file']):
            ctx.violation('rejected-call-with-an-odd-argument-left-a-trace', {'call': label, 'raised': raised, 'write': o[0] if o[0] == 'ok' else o,
                                                                              'len': len(o[1]['file']) if o[0] == 'ok' else None,
                                                                              'reference_len': len(ref[1]['file']) if ref[0] == 'ok' else None})


def failed_write_histories(ctx):
    """The last clause: a write that raises leaves the specification able to produce, once the cause is removed, the same file as a
    fresh specification. Causes: missing data set, data sets of different lengths, a row window outside the data, non-uniform index in
    the high-compatibility mode, signed integer data in that mode. The retry must give byte for byte the file of a fresh specification."""
    import numpy as np
    import impl
    from dliswriter import DLISFile
    from dliswriter.utils.high_compatibility_mode import high_compatibility_mode
    rng = ctx.rng('failed-writes')

    def spec(indexed, second_frame, value_dim=None):
        df = DLISFile()
        lf = df.add_logical_file()
        lf.add_origin('ORIGIN', file_set_number=1, creation_time='2020/01/01 00:00:00')
        a = lf.add_channel('DEPTH', units='m')
        b = lf.add_channel('VALUE', **({'dimension': value_dim} if value_dim else {}))
        lf.add_frame('MAIN', channels=[a, b], index_type='BOREHOLE-DEPTH' if indexed else None)
        if second_frame:
            c = lf.add_channel('OTHER')
            lf.add_frame('SECOND', channels=[c])
        return df

    for k in range(24 if ctx.tier == 'quick' else 240):
        cause = rng.choice(['missing', 'lengths', 'window', 'hc_nonuniform', 'hc_signed', 'hc_nonuniform', 'dimension', 'dimension'])
        indexed = cause == 'hc_nonuniform' or rng.random() < 0.5
        second = rng.random() < 0.5
        hc = cause.startswith('hc_')
        n = rng.randrange(3, 8)
        lo = rng.randrange(0, 50)
        good = {'DEPTH': np.arange(lo, lo + n, dtype=np.float64), 'VALUE': np.arange(n, dtype=np.float32) * 0.5, 'OTHER': np.arange(n + 2, dtype=np.uint16)}
        bad = dict(good)
        kw_bad, kw_good = {}, {}
        if cause == 'missing':
            bad.pop(rng.choice(['VALUE', 'OTHER'] if second else ['VALUE']))
        elif cause == 'lengths':
            bad['VALUE'] = np.arange(n + 3, dtype=np.float32)
        elif cause == 'window':
            kw_bad = {'from_idx': n + 5}
        elif cause == 'hc_nonuniform':
            d = np.arange(lo, lo + n, dtype=np.float64)
            d[1] += 0.4                              # monotonic, same first and last value, not uniform
            bad['DEPTH'] = d
        elif cause == 'hc_signed':
            bad['VALUE'] = np.arange(n, dtype=np.int16)
        vdim = None
        if cause == 'dimension':
            # a 2-D channel with a user-supplied DIMENSION: data wider than declared is refused, data of the declared width accepted
            vdim = [3]
            good['VALUE'] = np.arange(n * 3, dtype=np.float32).reshape(n, 3)
            bad = dict(good)
            bad['VALUE'] = np.arange(n * 4, dtype=np.float32).reshape(n, 4)

        def go(df, data, kw):
            if hc:
                with high_compatibility_mode():
                    return impl.outcome(lambda: impl.write_real(df, data=data, **kw))
            return impl.outcome(lambda: impl.write_real(df, data=data, **kw))
        df = spec(indexed, second, vdim)
        o1 = go(df, bad, kw_bad)
        ctx.count('K-failed-write', key=(k, cause, indexed, second))
        ctx.stat('K-failed-write', 'cause_' + cause)
        det = {'cause': cause, 'indexed': indexed, 'second_frame': second, 'rows': n}
        if o1[0] == 'ok':
            ctx.stat('K-failed-write', 'first_write_did_not_fail')
            continue
        o2 = go(df, good, kw_good)
        of = go(spec(indexed, second, vdim), good, kw_good)
        if o2[0] != of[0] or (o2[0] == 'ok' and o2[1]['file'] != of[1]['file']):
            a, b = (o2[1]['file'] if o2[0] == 'ok' else b''), (of[1]['file'] if of[0] == 'ok' else b'')
            pos = next((j for j in range(min(len(a), len(b))) if a[j] != b[j]), min(len(a), len(b)))
            ctx.violation('retry-after-a-failed-write-differs-from-fresh-specification',
                          {**det, 'first_write': o1, 'retry': o2[0] if o2[0] == 'ok' else o2, 'fresh': of[0] if of[0] == 'ok' else of,
                           'first_difference_at': pos, 'retry_around': a[max(0, pos - 16):pos + 32].hex(), 'fresh_around': b[max(0, pos - 16):pos + 32].hex()})


def replay(ctx, data):
    run(ctx)
