"""C17 — high-compatibility mode: K-api correspondence of programs that enter / leave the context (nested, around
building and writing) with the model (C17_restored etc.), the flag value after every program, decoded restrictions of
files written inside the context, soft acceptance outside it, and the exception / decorator forms on the real API."""
import apistream
import judge
import filemodel
import re

EXTRA_COQ_FILES = ('GenFacts/ConstantsOK.v',)
RULE = ('seeded random programs: object / header names matching [A-Z0-9_-]+ or not, signed-integer channels, channels in 0/1/2 frames, '
        'units / equipment type / location / index type inside or outside their enumerations (incl. variants of standard values differing only by letter case or blanks), file-set numbers given or defaulted, with the context '
        'entered and left at random points (nested), later assignments of units / equipment type / location / index type made in the mode current at that time '
        '(objects created in the other mode). Plus: nested / recursive / raising decorator forms, exception inside the context, decorator form, nested contexts on the real API. '
        'Distinct by program index.')
ASSUMPTIONS = ['uniform spacing of indexed frames in the mode is covered by C13 (index statistics are below this model)']
PARTIAL = ''
HC = re.compile(r'[A-Z0-9_-]+')


def run(ctx):
    from dliswriter.configuration import global_config
    from dliswriter.utils.high_compatibility_mode import high_compatibility_mode, high_compatibility_mode_decorator
    rng = ctx.rng('progs')
    n = 120 if ctx.tier == 'quick' else 1200
    for k in range(n):
        prog = apistream.gen_hc(rng)
        before = global_config.high_compat_mode
        r = apistream.run_one(ctx, prog, 'K-api')
        ctx.count('K-api-programs', key=k)
        det = {'program': apistream.strip_private(prog)}
        if global_config.high_compat_mode != before:
            ctx.violation('mode-flag-leaked-after-balanced-program', {**det, 'flag': global_config.high_compat_mode})
            global_config.high_compat_mode = before
        # flag according to the model at the end
        if r['agree'] and r['model'] and r['model'][-1][0] == 99 and bool(r['model'][-1][1]):
            ctx.violation('model-flag-on-after-balanced-program', det)
        # files written while the context was active must satisfy the restrictions
        depth = 0
        for i, (s, o) in enumerate(zip(prog, r['outs'])):
            if s['op'] == 'hc_enter':
                depth += 1
            elif s['op'] == 'hc_exit' and depth:
                depth -= 1
            elif s['op'] == 'write' and o[0] == 'ok' and depth > 0:
                d = apistream.decode(ctx, o[1]['file'], 8192, prog[0]['ident'])
                ctx.stat('K-hc', 'files_written_in_mode')
                if not d.ok:
                    ctx.violation('file-rejected-by-strict-reader', det)
                    continue
                # objects created while the mode was on have conforming names (objects created outside may not)
                depth2 = 0
                created_in_mode = set()
                for s2, o2 in zip(prog[:i], r['outs'][:i]):
                    if s2['op'] == 'hc_enter':
                        depth2 += 1
                    elif s2['op'] == 'hc_exit' and depth2:
                        depth2 -= 1
                    elif s2['op'] in ('origin', 'add', 'channel', 'frame') and o2[0] == 'ok' and depth2 > 0:
                        created_in_mode.add(s2['name']['v'])
                for nm in created_in_mode:
                    if not HC.fullmatch(nm):
                        ctx.violation('non-conforming-name-accepted-in-mode', {**det, 'name': nm})
                chan_sets = d.sets('CHANNEL')
                for cs in chan_sets:
                    for ob in cs.objects:
                        rc = ob.attrs.get('REPRESENTATION-CODE')
                        if rc is not None and rc.values and rc.values[0][1] in (12, 13, 14):
                            ctx.violation('signed-integer-channel-written-in-mode', {**det, 'channel': ob.name})
                used = {}
                for fs in d.sets('FRAME'):
                    for ob in fs.objects:
                        for v in (ob.attrs['CHANNELS'].values or []):
                            used[v[1]] = used.get(v[1], 0) + 1
                for cs in chan_sets:
                    for ob in cs.objects:
                        if used.get(ob.name, 0) != 1:
                            ctx.violation('channel-not-in-exactly-one-frame-written-in-mode', {**det, 'channel': ob.name, 'frames': used.get(ob.name, 0)})
        if k % 17 == 0:
            ctx.sample({'stream': 'K-hc', 'ops': [s['op'] + (':' + s['name']['v'] if 'name' in s else '') for s in prog][:16],
                        'outcomes': [o[0] if o[0] == 'ok' else o[1] for o in r['outs']][:16]})

    # context manager forms on the real API
    def probe(label, f, expect_flag=False):
        ctx.count('K-context', key=label)
        global_config.high_compat_mode = False
        try:
            f()
        except ZeroDivisionError:
            pass
        if global_config.high_compat_mode != expect_flag:
            ctx.violation('mode-not-restored', {'form': label, 'flag': global_config.high_compat_mode})
        global_config.high_compat_mode = False

    def by_exception():
        with high_compatibility_mode():
            assert global_config.high_compat_mode
            1 / 0

    def nested():
        with high_compatibility_mode():
            with high_compatibility_mode():
                assert global_config.high_compat_mode
            if not global_config.high_compat_mode:
                raise AssertionError('inner exit switched the mode off')
            try:
                with high_compatibility_mode():
                    1 / 0
            except ZeroDivisionError:
                pass
            if not global_config.high_compat_mode:
                raise AssertionError('inner exception switched the mode off')

    @high_compatibility_mode_decorator
    def decorated():
        assert global_config.high_compat_mode

    @high_compatibility_mode_decorator
    def decorated_raises():
        1 / 0

    def rejected_inside():
        from dliswriter import DLISFile
        with high_compatibility_mode():
            df = DLISFile()
            lf = df.add_logical_file()
            try:
                lf.add_axis('lower case')
            except ValueError:
                return
            raise AssertionError('name accepted in the mode')

    # decorator form, nested: a decorated function calling decorated functions (returning, raising, recursing)
    @high_compatibility_mode_decorator
    def inner_ok():
        assert global_config.high_compat_mode

    @high_compatibility_mode_decorator
    def inner_raises():
        1 / 0

    @high_compatibility_mode_decorator
    def outer_calls_inner():
        inner_ok()
        if not global_config.high_compat_mode:
            raise AssertionError('return of an inner decorated call switched the mode off')
        try:
            inner_raises()
        except ZeroDivisionError:
            pass
        if not global_config.high_compat_mode:
            raise AssertionError('exception in an inner decorated call switched the mode off')

    @high_compatibility_mode_decorator
    def recursive(n=3):
        if n:
            recursive(n - 1)
        if not global_config.high_compat_mode:
            raise AssertionError('recursion switched the mode off')

    def decorated_inside_with():
        with high_compatibility_mode():
            inner_ok()
            if not global_config.high_compat_mode:
                raise AssertionError('a decorated call inside the context switched the mode off')

    def with_inside_decorated():
        outer_calls_inner()
        if global_config.high_compat_mode:
            raise AssertionError('mode still on after the outermost decorated call returned')
        with high_compatibility_mode():
            pass
        if global_config.high_compat_mode:
            raise AssertionError('mode on after a context following decorated calls')

    # uniform spacing in the mode cannot be bypassed by supplying SPACING explicitly, nor by a spacing stored at an earlier write
    def nonuniform_with_explicit_spacing():
        import numpy as np
        import impl
        from dliswriter import DLISFile
        for explicit in (True, False):
            with high_compatibility_mode():
                df = DLISFile()
                lf = df.add_logical_file()
                lf.add_origin('O', file_set_number=1, creation_time='2020/01/01 00:00:00')
                ch = lf.add_channel('DEPTH')
                lf.add_frame('F', channels=[ch], index_type='BOREHOLE-DEPTH', **({'spacing': 1.0} if explicit else {}))
                if not explicit:
                    o0 = impl.outcome(lambda: impl.write_real(df, data={'DEPTH': np.arange(6, dtype=np.float64)}))
                    if o0[0] != 'ok':
                        raise AssertionError('uniform index refused in the mode: %r' % (o0,))
                o = impl.outcome(lambda: impl.write_real(df, data={'DEPTH': np.array([0.0, 1.0, 2.0, 10.0, 11.0, 30.0])}))
                if o[0] == 'ok':
                    raise AssertionError('non-uniform index written in the mode (%s)' % ('explicit spacing' if explicit else 'spacing stored by an earlier write'))

    for label, f in [('nonuniform-spacing', nonuniform_with_explicit_spacing), ('exception', by_exception), ('nested', nested), ('decorator', decorated), ('decorator-exception', decorated_raises),
                     ('rejected-inside', rejected_inside), ('decorator-nested', outer_calls_inner), ('decorator-recursive', recursive),
                     ('decorator-inside-with', decorated_inside_with), ('with-after-decorated', with_inside_decorated)]:
        try:
            probe(label, f)
        except AssertionError as e:
            ctx.violation('context-form-misbehaves', {'form': label, 'error': str(e)})


def replay(ctx, data):
    run(ctx)
