"""C07 — identity unique, references resolve, origins consistent. Programs with shared targets, repeated names, several
origins, explicit origin references, objects before/after the origin; decoded files are judged: identities unique per
logical file, every OBNAME/OBJREF and every IFLR reference resolves to an object of the same logical file (the one the
program passed: checked through C05-style expectations), origins are origins of the logical file."""
import apistream
import judge

EXTRA_COQ_FILES = ('GenFacts/SchemaOK.v',)
RULE = ('seeded random programs (valid, with rejected calls, with assignments, several logical files with distinct set names); '
        'every reference attribute of every type may point to any admissible earlier object; names repeat; origin first or '
        'last; explicit origin references. Distinct by program index; references and identities counted per decoded file.')
ASSUMPTIONS = ['explicit origin_reference values are expected to name an origin of the same logical file (input-domain decision, DESIGN 6)']
PARTIAL = ('identity is proved unique within a set (C07_identity_in_set); across two sets of one type with different set names it is '
           'refuted (C07_refuted_named_sets, known finding D13); reference resolution across logical files sharing sets is D12')


def run(ctx):
    rng = ctx.rng('progs')
    n = 60 if ctx.tier == 'quick' else 700
    nrw = 15 if ctx.tier == 'quick' else 150
    nsw = 10 if ctx.tier == 'quick' else 100
    import specgen as _sg
    for k in range(n + nrw + nsw):
        if k >= n + nrw:
            # same-named objects of one set around a rejected call (rejected on its origin reference's type, its name, or an attribute):
            # the accepted ones must still get distinct copy numbers
            tk = rng.choice(_sg.SET_KINDS)
            kinds = [None, 'origin_type'] + (apistream.reject_kinds(tk) or [])[:2]
            prog, _pat = apistream.gen_sandwich(rng, tk, rng.choice(kinds))
            flavor = 'sandwich'
        elif k >= n:
            # write, re-originate objects (incl. NO-FORMAT objects with data and frames) and edit values, write again:
            # the second file must be as consistent as the first
            prog, _fresh = apistream.rewrite_history(rng)
            flavor = 'rewrite-with-origin-changes'
        elif k % 4 == 3:
            prog, naming = apistream.gen_multi_lf(rng, naming='distinct')
            flavor = 'multi-lf'
        else:
            prog, flavor = apistream.gen_program(rng, flavor=rng.choice(['valid', 'rejects', 'assign', 'mixed']))
        r = apistream.run_one(ctx, prog, 'K-api')
        ctx.count('K-api-programs', key=k)
        if not r['files']:
            continue
        step, data, vrl, ident = r['files'][-1]
        d = apistream.decode(ctx, data, vrl, ident)
        det = {'program': apistream.strip_private(prog), 'flavor': flavor,
               'explicit_origins': any(s.get('origin') is not None and s['op'] != 'origin' for s in prog)}
        if not d.ok:
            ctx.violation('file-rejected-by-strict-reader', det)
            continue
        nobj = sum(len(s.objects) for s in d.sets())
        nref = sum(1 for s in d.sets() for ob in s.objects for a in ob.attrs.values() if a is not None and a.values
                   for v in a.values if v[0] in ('name', 'ref'))
        ctx.stat('K-identity', 'objects', nobj)
        ctx.stat('K-identity', 'references', nref)
        ctx.stat('K-identity', 'iflr_records', len(d.iflrs()))
        ctx.count('K-identity', key=(k, nobj, nref))
        judge.check_identity_refs(ctx, d, det)
        exp = judge.expected_at(prog, r['outs'], step)
        if exp:
            judge.check_fidelity(ctx, d, exp, det)       # references decode to the object the program passed
        if k % 13 == 0:
            ctx.sample({'stream': 'K-identity', 'flavor': flavor, 'objects': nobj, 'references': nref})
    # the known finding D13: same name in two named sets of one type
    prog = [{'op': 'newfile', 'ident': 'MAIN-STORAGE-UNIT', 'seq': 1, 'vrl': 8192},
            {'op': 'lf', 'fh_id': {'t': 'str', 'v': 'H'}, 'fh_seq': {'t': 'int', 'v': 1}},
            {'op': 'origin', 'lf': 0, 'name': {'t': 'str', 'v': 'O'}, 'set_name': None, 'origin': None, '_fh_id': 'H',
             'kw': {'file_set_number': {'t': 'int', 'v': 1}, 'creation_time': {'t': 'str', 'v': '2020/01/01 00:00:00'}}},
            {'op': 'add', 'lf': 0, 'type': 'axis', 'name': {'t': 'str', 'v': 'A'}, 'set_name': 'S1', 'origin': None, 'kw': {}},
            {'op': 'add', 'lf': 0, 'type': 'axis', 'name': {'t': 'str', 'v': 'A'}, 'set_name': 'S2', 'origin': None, 'kw': {}},
            {'op': 'channel', 'lf': 0, 'name': {'t': 'str', 'v': 'C'}, 'set_name': None, 'origin': None, 'kw': {},
             'data': {'dtype': 'float64', 'rows': 2, 'width': None, 'seed': 1}},
            {'op': 'frame', 'lf': 0, 'name': {'t': 'str', 'v': 'F'}, 'set_name': None, 'origin': None, 'kw': {},
             'channels': {'t': 'list', 'v': [{'t': 'ref', 'i': 3}]}},
            {'op': 'write'}]
    r = apistream.run_one(ctx, prog, 'K-known')
    ctx.count('K-known', key='D13')
    if r['files']:
        step, data, vrl, ident = r['files'][-1]
        d = apistream.decode(ctx, data, vrl, ident)
        judge.check_identity_refs(ctx, d, {'program': apistream.strip_private(prog)})


def replay(ctx, data):
    run(ctx)
