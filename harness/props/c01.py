"""C01 — physical layout. Correspondence K-seg / K-file with Model/Segment.v and strict framing judgement
(Model/Reader.v parse_file) of every file the implementation writes."""
import phys

EXTRA_COQ_FILES = ('GenFacts/ConstantsOK.v',)
RULE = ('S1: every (capacity, body length) with capacity even 12..64 and length 0..4*cap+14, plus lengths k*cap+d (|d|<=13, k<=3) '
        'for capacities 100, 1000, 8184, 16376; S2: seeded random synthetic record lists written through DLISWriter under '
        'accepted record lengths 20..16384 (thorough: every accepted even length once); S3: real DLISFile writes, the record length given to the constructor, assigned to the label afterwards, or changed between two writes (the strict reader is given the length the label holds at the write). '
        'Distinct by (capacity/record length, body lengths). Every implementation output is parsed by the strict framing reader.')
ASSUMPTIONS = ['str(int) for the label fields and open()/write() are CPython (trusted)']
PARTIAL = ''


def run(ctx):
    def j1(case, o, m, rd):
        if not phys.correspondence_seg(ctx, case, o, m):
            return
        if o[0] == 'ok':
            if rd is None or rd[0] != 0:
                ctx.violation('segments-not-well-formed', {**case, 'impl': [s.hex() for s in o[1]]})
            elif any(len(s) > case['cap'] + 4 for s in o[1]):
                ctx.violation('segment-exceeds-capacity', {**case, 'impl': [len(s) for s in o[1]]})
    phys.run_seg_cases(ctx, phys.seg_window(ctx.tier), 'K-seg', j1)

    def j2(c, o, m, rd):
        if o[0] == 'ok' and (rd is None or rd[0] != 0):
            ctx.violation('file-rejected-by-strict-framing-reader', phys.case_json(c))
            return
        phys.correspondence_file(ctx, c, o, m)
    n = 150 if ctx.tier == 'quick' else 1500
    phys.run_synth(ctx, phys.synth_cases(ctx, n), 'K-file-synth', j2)
    if ctx.tier == 'thorough':
        phys.run_synth(ctx, phys.synth_cases(ctx, 8183, vrls=None) if False else
                       [dict(c, vrl=v) for v, c in zip(range(20, 16386, 2), phys.synth_cases(ctx, 8183))], 'K-file-all-vrl', j2)

    def j3(case, o, rd, info):
        if o[0] == 'ok' and (rd is None or rd[0] != 0):
            ctx.violation('real-file-rejected-by-strict-framing-reader', case)
    phys.run_real(ctx, 40 if ctx.tier == 'quick' else 400, 'K-file-real', j3)


def replay(ctx, data):
    run(ctx)
