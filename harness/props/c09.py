"""C09 — mandated order per logical file: FILE-HEADER (one object, justified fields), ORIGIN set(s) with the defining
origin first (FILE-ID = header id, FILE-SET-NUMBER present), other sets each once and never empty, all explicit records
before data records, referenced frame / channel / no-format objects before the data that refers to them."""
import apistream
import judge

RULE = ('seeded random programs with permuted creation orders (origin first or last, named sets, several origins, rejected calls '
        'creating empty sets, queries), single and several logical files (distinct set names); the sequence of records decoded '
        'by the strict reader is checked. Distinct by program index and record count.')
ASSUMPTIONS = []
PARTIAL = 'for logical files that share sets (same set names, D12) the order clauses about "its own origin" are a known finding of C18'


def headers_of(prog, outs):
    hs = []
    for s, o in zip(prog, outs):
        if s['op'] == 'newfile':
            hs = []
        if s['op'] == 'lf' and o[0] == 'ok':
            hs.append((s['fh_id']['v'], s['fh_seq']['v']))
    return hs


def defining_of(prog, outs):
    d = {}
    for s, o in zip(prog, outs):
        if s['op'] == 'newfile':
            d = {}
        if s['op'] == 'origin' and o[0] == 'ok' and s['lf'] not in d:
            d[s['lf']] = s['name']['v']
    return [d.get(i) for i in range(max(d) + 1)] if d else []


def run(ctx):
    rng = ctx.rng('progs')
    n = 70 if ctx.tier == 'quick' else 800
    nrw = 12 if ctx.tier == 'quick' else 120
    for k in range(n + 1 + nrw):
        if k > n:
            # write, move objects (NO-FORMAT objects with data, frames) to another origin, write again: in the second file,
            # too, every object must precede the data records that refer to it (under its CURRENT identity)
            prog, _fresh = apistream.rewrite_history(rng)
            flavor = 'rewrite-with-origin-changes'
        elif k == n:
            prog, flavor = apistream.d22_witness(), 'D22-witness'
        elif k % 3 == 2:
            prog, flavor = apistream.gen_multi_lf(rng, naming='distinct')
        else:
            prog, flavor = apistream.gen_program(rng, flavor=rng.choice(['valid', 'rejects', 'queries', 'mixed']))
        r = apistream.run_one(ctx, prog, 'K-api')
        ctx.count('K-api-programs', key=k)
        if not r['files']:
            continue
        step, data, vrl, ident = r['files'][-1]
        d = apistream.decode(ctx, data, vrl, ident)
        det = {'program': apistream.strip_private(prog), 'flavor': flavor}
        if not d.ok:
            ctx.violation('file-rejected-by-strict-reader', det)
            continue
        ctx.count('K-order', key=(k, len(d.records)))
        ctx.stat('K-order', 'records', len(d.records))
        ctx.stat('K-order', 'logical_files', len(d.logical_files()))
        d22 = None      # D22 (empty set left by a rejected first add_origin) was repaired in /repo (3577635): any recurrence is a violation
        if flavor != 'rewrite-with-origin-changes':
            judge.check_order(ctx, d, det, headers_of(prog, r['outs']), defining_of(prog, r['outs']), defining_finding=d22)
        judge.check_identity_refs(ctx, d, det, check_origins=False, check_unique=False)
        if k % 13 == 0:
            ctx.sample({'stream': 'K-order', 'flavor': flavor,
                        'records': [(x.type, x.name, len(x.objects)) if not isinstance(x, tuple) else ('IFLR', x[1], len(x[2])) for x in d.records][:14]})


def replay(ctx, data):
    run(ctx)
