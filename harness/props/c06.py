"""C06 — primitive encodings: K-prim correspondence (write_struct and helpers vs Model/Prim.v) and
decoder judgement of every byte string the implementation returns."""
import struct
import datetime as dtm
import types
import numpy as np
from common import text, U

EXTRA_COQ_FILES = ('GenFacts/ConstantsOK.v',)
RULE = ('per representation code: every range edge +-2, UVARI form boundaries, string lengths around 127/128, 255/256, '
        '16383/16384, non-ASCII text, DTIME microsecond rounding boundaries and time zones, OBNAME/OBJREF field edges, '
        'plus seeded random values; executed in a seeded random order with equal-but-distinct cache keys interleaved '
        '(1/True, 0.0/-0.0). A case is non-trivial and distinct by (code, value); every returned byte string is also '
        'decoded by the standard decoder of Model/Prim.v and must give back the value and consume all bytes.')
ASSUMPTIONS = ['float <-> bit pattern conversion is CPython struct.pack (trusted); signalling NaN patterns are not used for FSINGL',
               'datetime.astimezone is CPython (trusted); expected UTC fields are computed by the harness with timedelta arithmetic']
PARTIAL = ''

CODES = dict(FSINGL=2, FDOUBL=7, SSHORT=12, SNORM=13, SLONG=14, USHORT=15, UNORM=16, ULONG=17, UVARI=18, IDENT=19,
             ASCII=20, DTIME=21, OBNAME=23, OBJREF=24, STATUS=26)
INT_RANGES = {'USHORT': (0, 255), 'UNORM': (0, 65535), 'ULONG': (0, 2**32 - 1), 'SSHORT': (-128, 127),
              'SNORM': (-32768, 32767), 'SLONG': (-2**31, 2**31 - 1), 'UVARI': (0, 2**30 - 1)}


def utc_fields(d):
    """UTC broken-down fields of a datetime, without using astimezone."""
    off = d.utcoffset() if d.tzinfo is not None else dtm.timedelta(0)   # TZ=UTC in the harness
    u = d.replace(tzinfo=None) - off
    return [u.year, u.month, u.day, u.hour, u.minute, u.second, u.microsecond]


def gen_cases(ctx):
    rng = ctx.rng('prim')
    thorough = ctx.tier == 'thorough'
    cases = []   # (codename, impl_value, model_value_tree, key)

    def add(code, iv, mv, key=None):
        cases.append((code, iv, mv, key if key is not None else repr(iv)))

    for code, (lo, hi) in INT_RANGES.items():
        pts = set()
        for e in (lo, hi, 0):
            pts.update(range(e - 3, e + 4))
        if code == 'UVARI':
            for e in (127, 128, 16383, 16384, 2**30 - 1):
                pts.update(range(e - 3, e + 4))
            pts.update([-1, -2**31, 2**31, 2**32, 2**62])
        pts.update([2**31, 2**32, 2**32 + 1, -2**31 - 1, 2**64])
        for _ in range(400 if thorough else 60):
            span = rng.choice([2**8, 2**16, 2**31, 2**33])
            pts.add(rng.randrange(-span, span))
            pts.add(rng.randrange(lo, hi + 1))
        for v in sorted(pts):
            add(code, v, v)
        add(code, True, 1, 'True')
        add(code, False, 0, 'False')
    # floats as bit patterns
    f64 = [0, 1 << 63, 0x7ff0000000000000, 0xfff0000000000000, 0x7ff8000000000000, 0x7ff8000000000001, 0xfff8dead0000beef,
           0x7ff0000000000001, 1, 0x000fffffffffffff, 0x0010000000000000, 0x7fefffffffffffff, 0x3ff0000000000000,
           0xbff0000000000000, 0x4005bf0a8b145769]
    f64 += [rng.getrandbits(64) for _ in range(3000 if thorough else 300)]
    for b in f64:
        x = struct.unpack('>d', struct.pack('>Q', b))[0]
        add('FDOUBL', x, b, 'bits%x' % b)
    f32 = [0, 1 << 31, 0x7f800000, 0xff800000, 0x7fc00000, 0xffc00001, 1, 0x007fffff, 0x00800000, 0x7f7fffff, 0x3f800000]
    f32 += [rng.getrandbits(32) for _ in range(3000 if thorough else 300)]
    for b in f32:
        if (b & 0x7f800000) == 0x7f800000 and (b & 0x007fffff) and not (b & 0x00400000):
            b |= 0x00400000          # quiet the NaN: the double->single conversion is the C cast (trusted)
        x = float(np.frombuffer(struct.pack('<I', b), dtype='<f4')[0])
        add('FSINGL', x, b, 'bits%x' % b)
    add('FSINGL', 1e39, None, 'overflow')      # too large for single: struct raises OverflowError
    # text
    lens = [0, 1, 2, 126, 127, 128, 129, 254, 255, 256, 257, 300, 16383, 16384, 16385]
    if thorough:
        lens += list(range(3, 126, 7)) + [1000, 20000, 70000]
    for n in lens:
        s = ''.join(chr(rng.randrange(32, 127)) for _ in range(n))
        add('IDENT', s, text(s), 'len%d' % n)
        add('ASCII', s, text(s), 'len%d' % n)
    for s in ['\x00', '\x7f', '\x80', 'café', 'aĀ', '\U0001f600x', 'A' * 127 + 'ÿ', ' ', 'a b\tc\n']:
        add('IDENT', s, text(s))
        add('ASCII', s, text(s))
    # STATUS
    for v in [0, 1, 2, -1, 255, 256, True, False]:
        add('STATUS', v, int(v), repr(v))
    # DTIME
    us_pts = [0, 1, 499, 500, 501, 999, 1000, 1499, 1500, 1501, 2499, 2500, 2501, 3500, 499999, 500000, 500500, 998499,
              998500, 998501, 999499, 999500, 999501, 999999]
    us_pts += [rng.randrange(0, 10**6) for _ in range(2000 if thorough else 150)]
    us_pts += [1000 * q + 500 for q in (rng.randrange(0, 1000) for _ in range(300 if thorough else 40))]
    tzs = [None, dtm.timezone.utc, dtm.timezone(dtm.timedelta(hours=5, minutes=30)), dtm.timezone(dtm.timedelta(hours=-11)),
           dtm.timezone(dtm.timedelta(hours=14)), dtm.timezone(dtm.timedelta(minutes=-1)), dtm.timezone(dtm.timedelta(seconds=86399))]
    for us in us_pts:
        y = rng.choice([1900, 1901, 1987, 2000, 2024, 2154, 2155, rng.randrange(1900, 2156)])
        d = dtm.datetime(y, rng.randrange(1, 13), rng.randrange(1, 29), rng.randrange(24), rng.randrange(60), rng.randrange(60), us,
                         tzinfo=rng.choice(tzs))
        add('DTIME', d, utc_fields(d), d.isoformat())
    edge = [dtm.datetime(1899, 12, 31, 23, 59, 59, 999999), dtm.datetime(1900, 1, 1), dtm.datetime(2155, 12, 31, 23, 59, 59, 999999),
            dtm.datetime(2156, 1, 1), dtm.datetime(1900, 1, 1, 0, 30, tzinfo=dtm.timezone(dtm.timedelta(hours=1))),
            dtm.datetime(2155, 12, 31, 23, 30, tzinfo=dtm.timezone(dtm.timedelta(hours=-1))), dtm.datetime(2000, 2, 29, 12, 0, 0, 500),
            dtm.datetime(1800, 6, 1), dtm.datetime(3000, 6, 1)]
    for d in edge:
        add('DTIME', d, utc_fields(d), d.isoformat())
    # OBNAME / OBJREF through stub objects exposing the attributes write_struct_obname reads
    good_names = ['A', '', 'CHANNEL-1', 'x' * 127, 'x' * 128, 'x' * 255, 'DEPTH', 'a b']
    good_origins = [0, 1, 127, 128, 16383, 16384, 2**30 - 1, 5, 77]
    good_copies = [0, 1, 255, 7]
    combos = [(o, c, n) for o in good_origins for c in good_copies for n in good_names]
    rng.shuffle(combos)
    bad = [(None, 0, 'A'), (2**30, 0, 'A'), (-1, 0, 'A'), (1, 256, 'A'), (1, -1, 'A'), (1, 0, 'x' * 256), (1, 0, 'café'),
           (None, 256, 'x' * 300)]
    for o, c, n in combos[:(len(combos) if thorough else 100)] + bad:
        add('OBNAME', (o, c, n), [o, c, text(n)], repr((o, c, n)))
    for o, c, n in combos[:(150 if thorough else 40)] + bad:
        for t in ['CHANNEL', 'T' * 255, 'FRAME', '']:
            add('OBJREF', (t, o, c, n), [text(t), [o, c, text(n)]], repr((t, o, c, n)))
    for t in ['T' * 256, 'é']:
        add('OBJREF', (t, 1, 0, 'A'), [text(t), [1, 0, text('A')]], repr((t, 1, 0, 'A')))
    rng.shuffle(cases)
    # interleave equal-but-distinct cache keys
    extra = []
    for code, a, b, ma, mb in [('FDOUBL', 0.0, -0.0, 0, 1 << 63), ('FDOUBL', -0.0, 0.0, 1 << 63, 0), ('FSINGL', -0.0, 0.0, 1 << 31, 0),
                               ('FDOUBL', 1, 1.0, 0x3ff0000000000000, 0x3ff0000000000000), ('SLONG', 1, True, 1, 1)]:
        extra.append((code, a, ma, 'hist:' + repr(a)))
        extra.append((code, b, mb, 'hist:' + repr(b)))
    return extra + cases + extra[::-1]


def impl_encode(code, iv):
    from dliswriter.utils.internal.struct_writer import write_struct, write_struct_obname
    from dliswriter.utils.internal.internal_enums import RepresentationCode as RC
    rc = RC[code]
    if code == 'OBNAME':
        o, c, n = iv
        obj = types.SimpleNamespace(origin_reference=o, copy_number=c, name=n)
        return write_struct_obname(obj)
    if code == 'OBJREF':
        t, o, c, n = iv
        obj = types.SimpleNamespace(origin_reference=o, copy_number=c, name=n, parent=types.SimpleNamespace(set_type=t))
        obj.obname = write_struct_obname(obj)
        from dliswriter.utils.internal.struct_writer import write_struct_objref
        return write_struct_objref(obj)
    return write_struct(rc, iv)


def expected_decoded(code, iv, mv):
    """What the standard decoder must return for the emitted bytes (model reply format of prim_dec)."""
    if code == 'DTIME':
        y, mo, d, h, mi, s, us = mv
        q, r = divmod(us, 1000)
        ms = q if r < 500 else q + 1 if r > 500 else (q if q % 2 == 0 else q + 1)
        return [y, 2, mo, d, h, mi, s, min(ms, 999)]
    if code in ('IDENT', 'ASCII'):
        return bytes(mv.v) if all(0 <= c < 256 for c in mv.v) else mv
    if code == 'OBNAME':
        return [mv[0], mv[1], bytes(mv[2].v)]
    if code == 'OBJREF':
        return [bytes(mv[0].v), [mv[1][0], mv[1][1], bytes(mv[1][2].v)]]
    return mv


def run(ctx, cases=None):
    cases = cases if cases is not None else gen_cases(ctx)
    impl = []
    for code, iv, mv, key in cases:
        try:
            b = impl_encode(code, iv)
            impl.append(('ok', bytes(b)))
        except Exception as e:  # noqa
            impl.append(('err', type(e).__name__))
    reqs = []
    for code, iv, mv, key in cases:
        reqs.append([1, CODES[code], mv if mv is not None else [[]]])
    reps = ctx.model_batch(reqs)
    dec_reqs = []
    dec_idx = []
    tail = b'\xa5\x5a'
    for k, ((code, iv, mv, key), (st, b)) in enumerate(zip(cases, impl)):
        if st == 'ok':
            dec_reqs.append([2, CODES[code], b + tail])
            dec_idx.append(k)
    dec = dict(zip(dec_idx, ctx.model.batch(dec_reqs)))
    for k, ((code, iv, mv, key), (st, b), rep) in enumerate(zip(cases, impl, reps)):
        ctx.count('K-prim/' + code, key=key)
        m_ok = rep[0] == 0
        if mv is None:                 # typed rejection expected (e.g. float overflow)
            m_ok = False
        if len(ctx.samples) < 6 and k % 97 == 0:
            ctx.sample({'code': code, 'value': repr(iv)[:80], 'impl': (st, b.hex() if st == 'ok' else b), 'model': 'OK' if m_ok else 'Err'})
        detail = {'code': code, 'value': repr(iv)[:200], 'model_input': mv, 'impl': [st, b.hex() if st == 'ok' else b],
                  'model': rep, 'position_in_history': k}
        if st == 'ok':
            d = dec[k]
            want = expected_decoded(code, iv, mv) if mv is not None else None
            good = (d[0] == 0 and mv is not None and d[1][0] == want and d[1][1] == len(b))
            if not good:
                ctx.stat('K-prim/' + code, 'decoder_rejects')
                detail['decoder'] = d
                detail['expected_decoded'] = want
                ctx.violation('impl-bytes-do-not-decode-to-the-value', detail)
                continue
            if not m_ok:
                ctx.violation('impl-accepts-a-value-the-model-rejects', detail)
            elif rep[1] != b:
                ctx.violation('impl-and-model-bytes-differ', detail)
        else:
            ctx.stat('K-prim/' + code, 'raised')
            ctx.stat('K-prim/errors', b)
            if m_ok:
                ctx.violation('impl-rejects-a-representable-value', detail)
    run_lists(ctx)


def run_lists(ctx):
    """The same codes through the attribute layer: lists of n integers with or without one value outside the code's range,
    written through the public API; the write must raise exactly when the model's does, and a written file must hold the values."""
    import apistream
    import judge
    rng = ctx.rng('lists')
    for k in range(40 if ctx.tier == 'quick' else 500):
        prog, info = apistream.gen_value_lists(rng)
        r = apistream.run_one(ctx, prog, 'K-api-lists')
        ctx.count('K-api-lists', key=(k, info['count'], info['out_of_range']))
        ctx.stat('K-api-lists', 'written' if r['files'] else 'raised')
        if info['out_of_range'] and r['files'] and info['attribute'] == 'coordinates':      # ints stay ints there (SLONG); the numeric attributes store floats
            ctx.violation('value-outside-its-code-was-written', {'program': apistream.strip_private(prog), **info})
        if r['files']:
            step, data, vrl, ident = r['files'][-1]
            d = apistream.decode(ctx, data, vrl, ident)
            if not d.ok:
                ctx.violation('file-rejected-by-strict-reader', {'program': apistream.strip_private(prog), **info})
            else:
                judge.check_fidelity(ctx, d, judge.expected_at(prog, r['outs'], step), {'program': apistream.strip_private(prog), **info})


def replay(ctx, data):
    ctx.notes.append('replay re-runs the full deterministic stream for the recorded seed')
    run(ctx)
