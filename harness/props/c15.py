"""C15 — writability never hinges on byte sizes: the implementation must write whatever Model/Segment.v's total
write_file writes (theorem C15_total), for every accepted record length and every body length."""
import phys
import impl
import numpy as np

EXTRA_COQ_FILES = ('GenFacts/ConstantsOK.v',)
RULE = ('S1: for every accepted record length in 20..128 (thorough: all 8183 even lengths 20..16384) the segmenter is run on body '
        'lengths 0..40 and k*cap+d (|d|<=13); S2: synthetic files; S3: size-minimal real specifications (one 1-byte channel, '
        'name lengths 1..255, payload lengths 0..) under small and large record lengths. Any exception is a violation. '
        'Distinct by (record length, body length).')
ASSUMPTIONS = []
PARTIAL = ''


def run(ctx):
    vrls = phys.ACCEPTED_VRL_SMALL + [256, 1000, 8192, 16382, 16384] if ctx.tier == 'quick' else list(range(20, 16386, 2))
    pairs = []
    for vrl in vrls:
        cap = vrl - 8
        Ls = set(range(0, 41)) if vrl <= 128 or ctx.tier == 'quick' else set(range(0, 14))
        for k in range(1, 3):
            for d in (range(-13, 14) if vrl <= 128 else (-12, -1, 0, 1, 11, 12)):
                Ls.add(k * cap + d)
        pairs += [(cap, L) for L in sorted(Ls) if L >= 0]

    def j1(case, o, m, rd):
        if o[0] != 'ok':
            ctx.violation('segmenter-raises-on-valid-record', {**case, 'impl': o})
            return
        phys.correspondence_seg(ctx, case, o, m)
    phys.run_seg_cases(ctx, pairs, 'K-seg-all-lengths', j1)

    def j2(c, o, m, rd):
        if o[0] != 'ok':
            ctx.violation('write-raises-on-valid-records', {**phys.case_json(c), 'impl': o})
            return
        phys.correspondence_file(ctx, c, o, m)
    phys.run_synth(ctx, phys.synth_cases(ctx, 100 if ctx.tier == 'quick' else 1000), 'K-file-synth', j2)

    # size-minimal real specifications
    rng = ctx.rng('minimal')
    specs = []
    for vrl in [20, 22, 24, 30, 32, 8192] + ([] if ctx.tier == 'quick' else [26, 28, 34, 64, 16384]):
        for namelen in [1, 2, 11, 127, 128, 255]:
            specs.append((vrl, namelen, [b'', 'ab', b'x']))
    for vrl, namelen, payloads in specs:
        name = 'C' * namelen
        def build():
            df, info = impl.simple_file(rng, vrl=vrl, n_channels=1, rows=rng.choice([1, 2, 5]), dtypes=['uint8'], width=None,
                                        names=[name], nofmt_payloads=payloads, extra=False)
            return impl.write_real(df)
        o = impl.outcome(build)
        ctx.count('K-file-minimal', key=(vrl, namelen))
        if o[0] != 'ok':
            ctx.violation('minimal-specification-not-writable', {'vrl': vrl, 'channel_name_length': namelen, 'payloads': [len(p) for p in payloads], 'impl': o})
        else:
            ctx.stat('K-file-minimal', 'min_record_body', min(len(b) for _, _, b in o[1]['recs']))
    ctx.sample({'stream': 'K-file-minimal', 'specs': specs[:4]})


def replay(ctx, data):
    run(ctx)
