"""C13 — frame index metadata truthful. Indexed and non-indexed frames over every dtype (incl. unsigned and narrow
integers), increasing / decreasing / constant / non-monotonic / nearly uniform / single-row index channels, row windows,
user-supplied values; the decoded FRAME attributes are compared with the exact statistics of Model/Data.v index_stats
(theorem C13_index) computed on the rows actually written; K-api correspondence of the derived attributes."""
import struct
import numpy as np
import impl
import filemodel
import apistream
import specgen
import datagen
from common import U

EXTRA_COQ_FILES = ('GenFacts/ConstantsOK.v',)
RULE = ('index channels of all 8 dtypes with integer-valued data: patterns increasing / decreasing / constant / non-monotonic / uniform / '
        'nearly uniform increasing and decreasing (deviation <= 2%% or >= 5%%, away from the 3.16%% threshold) / single row / wrapping-prone (uint8 descending, int8 '
        'large steps); windows; index type present or absent; user-supplied index_min / index_max / spacing / direction (one or two of them, incl. 0 and values contradicting the data, as plain values, AttrSetup with / without units, dict). Distinct by '
        '(dtype, pattern, rows, window, user values).')
ASSUMPTIONS = ['float index data off the exactly representable grid or within 1e-9 of the tolerance threshold are below the model (numpy float arithmetic)']
PARTIAL = ('sequences of writes of one DLISFile with different data: values derived at the first write persist (INDEX-MIN/MAX, SPACING, '
           'DIRECTION, units): known finding D9')


def fbits(x):
    return struct.unpack('>Q', struct.pack('>d', float(x)))[0]


def gen_index(rng, dtype, rows):
    info = np.iinfo(dtype) if np.dtype(dtype).kind in 'iu' else None
    lo, hi = (info.min, info.max) if info else (-2**20, 2**20)
    pat = rng.choice(['inc', 'dec', 'const', 'nonmono', 'uniform', 'uniform_dec', 'near', 'far', 'near_dec', 'far_dec', 'wrap'])
    def clamp(v):
        return [max(lo, min(hi, int(x))) for x in v]
    start = rng.randrange(max(lo, -50), min(hi, 50) + 1)
    if pat == 'const':
        v = [start] * rows
    elif pat == 'uniform':
        st = rng.choice([1, 2, 3, 10])
        v = [start + st * i for i in range(rows)]
    elif pat == 'uniform_dec':
        st = rng.choice([1, 2, 5])
        v = [min(hi, 100) - st * i for i in range(rows)]
    elif pat == 'inc':
        acc, v = start, []
        for i in range(rows):
            v.append(acc); acc += rng.choice([1, 2, 9])
    elif pat == 'dec':
        acc, v = min(hi, 120), []
        for i in range(rows):
            v.append(acc); acc -= rng.choice([1, 3, 8])
    elif pat == 'nonmono':
        v = [rng.randrange(max(lo, -100), min(hi, 100) + 1) for _ in range(rows)]
    elif pat == 'near':       # within 2% of a step of 100: only for wide types
        v, acc = [], 0
        for i in range(rows):
            v.append(acc); acc += 100 + rng.choice([-2, -1, 0, 1, 2])
    elif pat in ('near_dec', 'far_dec'):      # decreasing, nearly uniform / clearly not uniform
        v, acc = [], min(hi, 5000)
        for i in range(rows):
            v.append(acc); acc -= 100 + rng.choice([-2, -1, 0, 1, 2] if pat == 'near_dec' else [-9, -6, 0, 6, 9])
    elif pat == 'far':
        v, acc = [], 0
        for i in range(rows):
            v.append(acc); acc += 100 + rng.choice([-9, -6, 0, 6, 9])
    else:                     # wrap-prone
        v = [hi - (hi - lo) // max(1, rows - 1) * i for i in range(rows)] if rows > 1 else [hi]
    v = clamp(v)
    return pat, v


def run(ctx):
    from dliswriter import DLISFile
    rng = ctx.rng('index')
    n = 150 if ctx.tier == 'quick' else 2000
    for k in range(n):
        dtype = rng.choice(datagen.DTYPES)
        rows = rng.choice([1, 1, 2, 3, 4, 5, 8])
        pat, vals = gen_index(rng, dtype, rows)
        a = rng.randrange(0, rows)
        b = rng.choice([None, None] + list(range(a + 1, rows + 1)))
        indexed = rng.random() < 0.85
        user = {}
        routes = {}
        if rng.random() < 0.4:
            for pick in rng.sample(['index_min', 'index_max', 'spacing', 'direction'], rng.choice([1, 1, 2])):
                user[pick] = rng.choice(['INCREASING', 'DECREASING']) if pick == 'direction' else float(rng.choice([-5, 0, 0, 7.5, -0.25, 1000]))
                routes[pick] = 'plain' if pick == 'direction' else rng.choice(['plain', 'AttrSetup', 'AttrSetup-units', 'dict'])
        df = DLISFile()
        lf = df.add_logical_file()
        lf.add_origin('O', file_set_number=1, creation_time='2020/01/01 00:00:00')
        units = rng.choice([None, 'm', 's'])
        # a cast dtype on the index channel: the statistics are those of the rows WRITTEN (after the cast), e.g. 0.7, 1.7, .. cast to
        # int32 is written as 0, 1, .. and INDEX-MIN is 0, not 0.7
        src = np.array(vals, dtype=dtype)
        cast = None
        if rng.random() < 0.3:
            cast = rng.choice(datagen.DTYPES)
            if np.dtype(dtype).kind == 'f' and np.dtype(cast).kind in 'iu':
                src = src + np.dtype(dtype).type(rng.choice([0.7, 0.25, 0.5]))
            tr = np.trunc(src.astype(np.float64))
            if np.dtype(cast).kind in 'iu':
                ok_cast = bool((tr >= np.iinfo(cast).min).all() and (tr <= np.iinfo(cast).max).all())
            else:
                ok_cast = bool((src.astype(cast).astype(np.float64) == src.astype(np.float64)).all())
            if not ok_cast or cast == dtype:
                cast, src = None, np.array(vals, dtype=dtype)
        written = src if cast is None else src.astype(cast)
        if cast is not None:
            vals = [int(x) if float(x) == int(x) else float(x) for x in written.tolist()]
        if not indexed and rng.random() < 0.5:
            # without an index type the first channel is an ordinary one: several samples per row must not count as rows
            src = np.stack([src] * rng.choice([2, 3, 4]), axis=1)
            ctx.stat('K-index', 'unindexed_2d_first_channel')
        ch = lf.add_channel('IDX', data=src, units=units, **({'cast_dtype': np.dtype(cast).type} if cast else {}))
        ch2 = lf.add_channel('OTHER', data=np.arange(rows, dtype=np.float64))
        from dliswriter import AttrSetup

        def routed(key):
            v, r = user[key], routes[key]
            return v if r == 'plain' else AttrSetup(v) if r == 'AttrSetup' else AttrSetup(v, 'm') if r == 'AttrSetup-units' else {'value': v}
        fr = lf.add_frame('F', channels=[ch, ch2], index_type='BOREHOLE-DEPTH' if indexed else None, **{key: routed(key) for key in user})
        kw = {'from_idx': a}
        if b is not None:
            kw['to_idx'] = b
        o = impl.outcome(lambda: impl.write_real(df, **kw))
        win = vals[a:(rows if b is None else b)]
        ctx.count('K-index', key=(dtype, pat, rows, a, b, indexed, tuple(sorted(user))))
        ctx.stat('K-index', 'pattern_' + pat)
        ctx.stat('K-index', 'dtype_' + dtype)
        ctx.stat('K-index', 'index_cast_' + str(cast))
        det = {'dtype': dtype, 'cast': cast, 'source_values': src.tolist(), 'pattern': pat, 'index_values': vals, 'window': [a, b], 'index_type': indexed, 'user': user, 'routes': routes, 'units': units}
        if o[0] != 'ok':
            ctx.violation('write-raises-for-valid-index-data', {**det, 'impl': o})
            continue
        d = filemodel.read_file(ctx, o[1]['file'], 8192)
        if not d.ok:
            ctx.violation('file-rejected-by-strict-reader', det)
            continue
        fo = d.sets('FRAME')[0].objects[0]
        def val(lab):
            at = fo.attrs.get(lab)
            return None if at is None or not at.values else at.values[0]
        got = {lab: val(lab) for lab in ('INDEX-MIN', 'INDEX-MAX', 'SPACING', 'DIRECTION')}
        want = {}
        if not indexed:
            want = {'INDEX-MIN': ('bits', fbits(1)), 'INDEX-MAX': ('bits', fbits(len(win))), 'SPACING': ('bits', fbits(1)), 'DIRECTION': None}
        else:
            m = ctx.model_batch([[31, U(win)]], sample_every=1)[0]
            mn, mx, sp, dr = m[1]
            want['INDEX-MIN'] = ('bits', fbits(mn))
            want['INDEX-MAX'] = ('bits', fbits(mx))
            want['SPACING'] = None if sp == [] else ('bits', fbits(sp[0] / 2.0))
            want['DIRECTION'] = None if (sp != [] or dr == []) else ('text', 'INCREASING' if dr[0] else 'DECREASING')
        for key, lab in (('index_min', 'INDEX-MIN'), ('index_max', 'INDEX-MAX'), ('spacing', 'SPACING'), ('direction', 'DIRECTION')):
            if key in user:
                want[lab] = ('text', user[key]) if key == 'direction' else ('bits', fbits(user[key]))
        if got != want:
            ctx.violation('index-metadata-differs-from-rows-written', {**det, 'rows_written': win, 'decoded': {k2: repr(v) for k2, v in got.items()},
                                                                      'expected': {k2: repr(v) for k2, v in want.items()}})
        if indexed and units:
            for key, lab in (('index_min', 'INDEX-MIN'), ('index_max', 'INDEX-MAX')):
                want_units = 'm' if routes.get(key) == 'AttrSetup-units' else units       # units the user gave are kept
                if fo.attrs[lab].units != want_units:
                    ctx.violation('index-units-not-taken-from-index-channel', {**det, 'label': lab, 'decoded_units': fo.attrs[lab].units, 'expected_units': want_units})
        if k % 19 == 0:
            ctx.sample({'stream': 'K-index', **det, 'decoded': {k2: repr(v) for k2, v in got.items()}})

    # K-api: derived attributes against the model (statistics from Model/Data.v are fed to Model/Write.v)
    for k in range(15 if ctx.tier == 'quick' else 150):
        dtype = rng.choice(['int32', 'uint8', 'int8', 'float64', 'uint16'])
        rows = rng.choice([1, 2, 4, 6])
        pat, vals = gen_index(rng, dtype, rows)
        m = ctx.model.one([31, U(vals)])
        mn, mx, sp, dr = m[1]
        ix = [fbits(mn), fbits(mx), None if sp == [] else fbits(sp[0] / 2.0), [] if dr == [] else [bool(dr[0])], True]
        prog = [{'op': 'newfile', 'ident': 'MAIN-STORAGE-UNIT', 'seq': 1, 'vrl': 8192},
                {'op': 'lf', 'fh_id': specgen.r_str('H'), 'fh_seq': specgen.r_int(1)},
                {'op': 'origin', 'lf': 0, 'name': specgen.r_str('O'), 'set_name': None, 'origin': None, '_fh_id': 'H',
                 'kw': {'file_set_number': specgen.r_int(1), 'creation_time': specgen.r_str('2020/01/01 00:00:00')}},
                {'op': 'channel', 'lf': 0, 'name': specgen.r_str('IDX'), 'set_name': None, 'origin': None, 'kw': {'units': specgen.r_str('m')},
                 'data': {'dtype': dtype, 'rows': rows, 'width': None, 'seed': 0, 'values': vals}},
                {'op': 'frame', 'lf': 0, 'name': specgen.r_str('F'), 'set_name': None, 'origin': None,
                 'kw': {'index_type': specgen.r_str('BOREHOLE-DEPTH')}, 'channels': specgen.r_list([specgen.r_ref(1)])},
                {'op': 'write', 'index': {2: ix}}]
        apistream.run_one(ctx, prog, 'K-api-index')
        ctx.count('K-api-index', key=(k, dtype, pat))

    # a value the user assigns AFTER a write is written unchanged by the next write (nothing derived earlier, nothing derived now, may replace it)
    from dliswriter import AttrSetup
    for k in range(16 if ctx.tier == 'quick' else 160):
        indexed = rng.random() < 0.7
        n = rng.randrange(2, 7)
        vals = [10 + 3 * i for i in range(n)] if rng.random() < 0.5 else [100 - 2 * i for i in range(n)]
        df = DLISFile()
        lf = df.add_logical_file()
        lf.add_origin('O', file_set_number=1, creation_time='2020/01/01 00:00:00')
        ch = lf.add_channel('IDX', units='m')
        fr = lf.add_frame('F', channels=[ch], index_type='BOREHOLE-DEPTH' if indexed else None)
        data = {'IDX': np.array(vals, dtype=np.float64)}
        o1 = impl.outcome(lambda: impl.write_real(df, data=data))
        pick = rng.choice(['index_min', 'index_max', 'spacing'])
        newv = float(rng.choice([-5, 0, 7.5, 1234]))
        how = rng.choice(['value', 'AttrSetup-like value+units'])
        getattr(fr, pick).value = newv
        if how != 'value':
            getattr(fr, pick).units = 's'
        o2 = impl.outcome(lambda: impl.write_real(df, data=data))
        ctx.count('K-user-edit', key=(k, pick, indexed))
        det = {'indexed': indexed, 'index_values': vals, 'assigned_after_first_write': {pick: newv}, 'how': how}
        if o1[0] != 'ok' or o2[0] != 'ok':
            ctx.violation('rewrite-after-user-edit-raises', {**det, 'first': o1[0], 'second': o2 if o2[0] != 'ok' else 'ok'})
            continue
        d2 = filemodel.read_file(ctx, o2[1]['file'], 8192)
        at = d2.sets('FRAME')[0].objects[0].attrs.get({'index_min': 'INDEX-MIN', 'index_max': 'INDEX-MAX', 'spacing': 'SPACING'}[pick]) if d2.ok else None
        got = None if at is None or not at.values else at.values[0]
        if got != ('bits', fbits(newv)) or (how != 'value' and at.units != 's'):
            ctx.violation('value-assigned-by-the-user-after-a-write-is-not-written', {**det, 'decoded': repr(got), 'units': getattr(at, 'units', None)})
    # the tolerance rule is RELATIVE: scaling the index by a power of two (exact in binary64) scales SPACING and changes nothing else
    for k in range(12 if ctx.tier == 'quick' else 120):
        rows = rng.choice([3, 4, 6, 8])
        pat, vals = gen_index(rng, 'int32', rows)
        outs = []
        for scale in (1.0, 2.0 ** -30, 2.0 ** -40, 2.0 ** 20):
            df = DLISFile()
            lf = df.add_logical_file()
            lf.add_origin('O', file_set_number=1, creation_time='2020/01/01 00:00:00')
            ch = lf.add_channel('IDX', data=np.array(vals, dtype=np.float64) * scale)
            lf.add_frame('F', channels=[ch], index_type='BOREHOLE-DEPTH')
            o = impl.outcome(lambda: impl.write_real(df))
            if o[0] != 'ok':
                outs.append(('raised', None, None))
                continue
            dd = filemodel.read_file(ctx, o[1]['file'], 8192)
            fo = dd.sets('FRAME')[0].objects[0]
            sp = fo.attrs.get('SPACING')
            di = fo.attrs.get('DIRECTION')
            spv = None if sp is None or not sp.values else struct.unpack('>d', struct.pack('>Q', sp.values[0][1]))[0] / scale
            outs.append(('ok', spv, None if di is None or not di.values else di.values[0][1]))
        ctx.count('K-scale', key=(k, pat, rows))
        if len(set(outs)) != 1:
            ctx.violation('spacing-decision-depends-on-the-scale-of-the-index', {'pattern': pat, 'index_values': vals,
                                                                               'scales': ['1', '2^-30', '2^-40', '2^20'], 'spacing/scale_and_direction': [repr(x) for x in outs]})
    # known finding D9: a second write of the same DLISFile with other data repeats the first write's derived values
    df = DLISFile()
    lf = df.add_logical_file()
    lf.add_origin('O', file_set_number=1, creation_time='2020/01/01 00:00:00')
    ch = lf.add_channel('IDX')
    lf.add_frame('F', channels=[ch], index_type='BOREHOLE-DEPTH')
    o1 = impl.outcome(lambda: impl.write_real(df, data={'IDX': np.arange(0.0, 5.0)}))
    o2 = impl.outcome(lambda: impl.write_real(df, data={'IDX': np.arange(10.0, 30.0, 2.0)}))
    ctx.count('K-rewrite', key='D9')
    if o1[0] == 'ok' and o2[0] == 'ok':
        d2 = filemodel.read_file(ctx, o2[1]['file'], 8192)
        fo = d2.sets('FRAME')[0].objects[0]
        got = [fo.attrs[l].values[0][1] for l in ('INDEX-MIN', 'INDEX-MAX', 'SPACING')]
        if got != [fbits(10), fbits(28), fbits(2)]:
            ctx.violation('second-write-repeats-first-writes-index-metadata', {'first_data': '0..4', 'second_data': '10..28 step 2',
                                                                            'decoded_min_max_spacing': [struct.unpack('>d', struct.pack('>Q', g))[0] for g in got]},
                          finding_key='D9-derived-persist')


def replay(ctx, data):
    run(ctx)
