"""C18 — frames and logical files isolated. Several frames: each frame's data records carry its own rows numbered from 1.
Several logical files with set names specific to each: every object, reference, origin and data row is decoded in the
logical file it was added to, in creation order, each opening with its own header. Shared set names: known finding D12."""
import apistream
import judge
import filemodel
import datagen

EXTRA_COQ_FILES = ('GenFacts/SchemaOK.v',)
RULE = ('programs with 1..2 frames per logical file and 2..3 logical files; set names distinct per logical file, default for all, '
        'partially shared, or only the ORIGIN set shared; add_* calls of the logical files interleaved or not; single logical files with '
        '2..3 frames whose channels repeat the same names (kept apart by CHANNEL set names or copy numbers), own data and own row counts. '
        ' Decoded per-logical-file inventories are compared '
        'with the objects the program added to that logical file. Distinct by (naming, program index).')
ASSUMPTIONS = []
PARTIAL = ('the clause "a configuration that would share a set between logical files is rejected" is refuted on the current tree '
           '(C18_refuted_shared_default_sets): recorded as known finding D12; isolation is checked for distinct set names')


def run(ctx):
    # every number of logical files 1..9 (thorough: ..16), each with the minimum of objects, with 0 or 2 extra objects: writable
    # whatever the count (the progress bar's record count used to leave the file headers out and refuse e.g. exactly five)
    for n_lf in range(1, 10 if ctx.tier == 'quick' else 17):
        for extra in (0, 2):
            prog = apistream.gen_many_lf(n_lf, rows=1 + n_lf % 3, extra=extra)
            r = apistream.run_one(ctx, prog, 'K-api-many-lf')
            ctx.count('K-many-lf', key=(n_lf, extra))
            if r['outs'][-1][0] != 'ok':
                ctx.violation('valid-specification-with-%d-logical-files-refused' % n_lf,
                              {'program': apistream.strip_private(prog), 'impl': list(r['outs'][-1])})
    # the number of records generate_logical_records ANNOUNCES (what the progress bar is told) is the number it yields
    # (C18_records_per_logical_file: header + sets + no-format calls + rows, per logical file)
    import numpy as np
    from dliswriter import DLISFile
    for n_lf in range(1, 8):
        for extra in (0, 3):
            df = DLISFile()
            for li in range(n_lf):
                lf = df.add_logical_file(fh_id='LF-%d' % li)
                lf.add_origin('O', file_set_number=1, set_name='S%d' % li)
                ch = lf.add_channel('CH', data=np.arange(float(2 + li % 3)), set_name='S%d' % li)
                lf.add_frame('FR', channels=[ch], set_name='S%d' % li)
                for a in range(extra):
                    lf.add_axis('AX%d' % a, set_name='S%d' % li)
                if li % 2:
                    nf = lf.add_no_format('NF', set_name='S%d' % li)
                    lf.add_no_format_frame_data(nf, b'ab')
            recs = df.generate_logical_records(chunk_size=None)
            announced, actual = len(recs), sum(1 for _ in recs)
            ctx.count('K-record-count', key=(n_lf, extra))
            if announced != actual:
                ctx.violation('announced-number-of-records-differs-from-the-records-yielded',
                              {'logical_files': n_lf, 'extra_objects': extra, 'announced': announced, 'yielded': actual})
    rng = ctx.rng('progs')
    n = 60 if ctx.tier == 'quick' else 600
    nsame = 12 if ctx.tier == 'quick' else 120
    for k in range(n + nsame):
        if k >= n:
            prog, naming = apistream.gen_frames_same_names(rng), 'frames_same_names'
        else:
            prog, naming = apistream.gen_multi_lf(rng)
        r = apistream.run_one(ctx, prog, 'K-api')
        ctx.count('K-api-programs', key=(naming, k))
        ctx.stat('K-lf', 'naming_' + naming)
        if not r['files']:
            ctx.stat('K-lf', 'not_written_' + naming)
            continue
        step, data, vrl, ident = r['files'][-1]
        d = apistream.decode(ctx, data, vrl, ident)
        det = {'program': apistream.strip_private(prog), 'naming': naming}
        if not d.ok:
            ctx.violation('file-rejected-by-strict-reader', det)
            continue
        exp = judge.expected_at(prog, r['outs'], step)
        lfs = d.logical_files()
        n_lf = sum(1 for s in prog if s['op'] == 'lf')
        if len(lfs) != n_lf:
            ctx.violation('number-of-logical-files', {**det, 'decoded': len(lfs), 'expected': n_lf})
            continue
        # which (type, set name) pairs are used by more than one logical file in this program?
        users = {}
        for e in exp.values():
            users.setdefault((e.tkey, e.set_name), set()).add(e.lf)
        shared = {k2 for k2, v in users.items() if len(v) > 1}
        for li, recs in enumerate(lfs):
            hdr = recs[0]
            want_id = 'LF-%d' % li if naming != 'frames_same_names' else 'H'
            if not isinstance(hdr, filemodel.DSet) or hdr.type != 'FILE-HEADER' or hdr.objects[0].attrs['ID'].values != [('text', want_id.ljust(65))]:
                ctx.violation('logical-files-out-of-creation-order', {**det, 'logical_file': li})
            got = {}
            for rset in recs:
                if isinstance(rset, filemodel.DSet) and rset.type != 'FILE-HEADER':
                    for ob in rset.objects:
                        got.setdefault((rset.type, rset.name), []).append(ob.name[1:])
            want = {}
            for e in sorted(exp.values(), key=lambda x: x.idx):
                if e.lf == li:
                    want.setdefault((judge.set_types()[e.tkey], e.set_name), []).append((e.copy, e.name))
            if got != want:
                leaked = any((tk, sn) in shared for (tk, sn) in users)
                bad = [key for key in set(got) | set(want) if got.get(key) != want.get(key)]
                ctx.violation('logical-file-inventory-differs-from-what-was-added-to-it',
                              {**det, 'logical_file': li, 'sets_that_differ': [str(b) for b in bad][:6],
                               'decoded': {str(b): got.get(b) for b in bad[:3]}, 'expected': {str(b): want.get(b) for b in bad[:3]}},
                              finding_key='D12-shared-sets' if shared else None)
        if shared:
            ctx.violation('shared-set-configuration-was-written-instead-of-rejected', {**det, 'shared': [str(x) for x in shared]},
                          finding_key='D12-shared-sets')
        else:
            judge.check_identity_refs(ctx, d, det, check_unique=False)
        # frames: records of each frame numbered from 1 with its own row count
        for li, recs in enumerate(lfs):
            counts = {}
            for rec in recs:
                if not isinstance(rec, filemodel.DSet) and rec[1] == 0:
                    hdr = ctx.model.one([2, 23, rec[2]])
                    if hdr[0] != 0:
                        continue
                    ob = filemodel._obname(hdr[1][0])
                    rest = rec[2][hdr[1][1]:]
                    num = ctx.model.one([2, 18, rest])
                    counts.setdefault(ob, []).append(num[1][0] if num[0] == 0 else None)
            for ob, nums in counts.items():
                if nums != list(range(1, len(nums) + 1)):
                    ctx.violation('frame-numbers-not-1..N-per-frame', {**det, 'logical_file': li, 'frame': ob, 'numbers': nums[:20]})
            # each frame has its OWN row count: the number of its records is the number of rows of its own channels' data
            created = [s0 for s0 in prog if s0['op'] in ('origin', 'add', 'channel', 'frame')]
            for e in exp.values():
                if e.tkey == 'frame' and e.lf == li and not shared:
                    fs = created[e.idx]
                    refs = [x['i'] for x in fs['channels']['v'] if x.get('t') == 'ref']
                    rows = [created[i]['data']['rows'] for i in refs if i < len(created) and isinstance(created[i].get('data'), dict)]
                    if not rows or len(set(rows)) != 1:
                        continue
                    got_n = [len(v) for ob, v in counts.items() if ob == (e.origin, e.copy, e.name)]
                    ctx.stat('K-lf', 'frames_checked')
                    if got_n != [rows[0]]:
                        ctx.violation('frame-has-not-its-own-number-of-rows', {**det, 'logical_file': li, 'frame': e.name, 'records': got_n, 'rows_of_its_channels': rows[0]})
        if k % 9 == 0:
            ctx.sample({'stream': 'K-lf', 'naming': naming, 'logical_files': len(lfs), 'shared_sets': [str(x) for x in shared][:4]})


def replay(ctx, data):
    run(ctx)
