"""C14 — output depends only on the current specification. In-process histories (several DLISFile objects built and
written one after another, names reused with other origins / copies / types / values, 1 / 1.0 / True and 0.0 / -0.0,
mode toggles, queries, rewrites) are compared (a) with the model, which has no caches, and (b) with a FRESH SUBPROCESS
that builds and writes only the final specification."""
import json
import os
import subprocess
import sys
import apistream
import apimodel
import specgen

EXTRA_COQ_FILES = ('GenFacts/SchemaOK.v', 'GenFacts/SitesOK.v')
RULE = ('histories of 2..3 files per process from the valid / assign / rejects program generators, some files written twice, plus '
        'targeted histories (same names with different origins and copy numbers, 0.0 vs -0.0 and 1 vs 1.0 vs True attribute values, '
        'queries before building); the last file of each history is rebuilt and written alone in a fresh subprocess and compared '
        'byte for byte; P; write; Q; write against P; Q; write in a fresh process (Q: assignments incl. other kinds of values, origin_reference '
        'changes to a second origin), and write; write of an unchanged specification, incl. 30/300 specifications with PARAMETER / COMPUTATION / CALIBRATION-MEASUREMENT objects whose axes agree or not with a given or derived dimension (K-write-twice). Distinct by history index.')
ASSUMPTIONS = ['item.name is a plain attribute without setter: renaming an object after creation is not part of the public API and is not generated']
PARTIAL = ('proved: a new DLISFile starts from the empty specification, only the mode flag is process state, a write leaves the specification it found plus write-time defaults where nothing was given (C14_a_write_leaves_the_specification), a checked object passes the axis check again and the whole per-object step is idempotent for every type (C14_checks_and_defaults_are_idempotent, D23 repaired); the composition to identical BYTES of a second write is per run. Re-writing the SAME DLISFile '
           'with DIFFERENT data keeps values derived at the first write (known finding D9, replayed here); edits between writes are compared '
           'with a fresh process for assignments and origin_reference changes')

CHILD = r'''
import sys, json
sys.path.insert(0, %r)
import common; common.setup_impl_env()
import apimodel
prog = json.load(open(sys.argv[1]))
im = apimodel.Impl()
outs = im.run(prog)
files = [o[1]['file'].hex() for s, o in zip(prog, outs) if s['op'] == 'write' and o[0] == 'ok']
json.dump({'outs': [o[0] for o in outs], 'files': files}, open(sys.argv[2], 'w'))
'''


def fresh_run(prog):
    import common
    d = common.scratch_dir()
    pin = os.path.join(d, 'prog_%d.json' % os.getpid())
    pout = os.path.join(d, 'out_%d.json' % os.getpid())
    json.dump(prog, open(pin, 'w'))
    code = CHILD % (os.path.dirname(os.path.abspath(common.__file__)),)
    p = subprocess.run([sys.executable, '-c', code, pin, pout], stdout=subprocess.PIPE, stderr=subprocess.PIPE, timeout=300)
    if p.returncode != 0:
        raise RuntimeError('fresh subprocess failed: ' + p.stderr.decode()[-400:])
    r = json.load(open(pout))
    os.remove(pin)
    os.remove(pout)
    return r


def last_file_program(prog):
    idx = max(i for i, s in enumerate(prog) if s['op'] == 'newfile')
    return prog[idx:]


def targeted(rng):
    R = specgen
    def f(vals, origin, name='P', extra_first=None):
        p = [{'op': 'newfile', 'ident': 'MAIN-STORAGE-UNIT', 'seq': 1, 'vrl': 8192},
             {'op': 'lf', 'fh_id': R.r_str('H'), 'fh_seq': R.r_int(1)}]
        if extra_first:
            p.append({'op': 'query', 'lf': 0, 'what': extra_first})
        p += [{'op': 'origin', 'lf': 0, 'name': R.r_str('O'), 'set_name': None, 'origin': R.r_int(origin) if origin else None, '_fh_id': 'H',
               'kw': {'file_set_number': R.r_int(5), 'creation_time': R.r_str('2020/01/01 00:00:00')}},
              {'op': 'add', 'lf': 0, 'type': 'axis', 'name': R.r_str(name), 'set_name': None, 'origin': None, 'kw': {'coordinates': R.r_list(vals)}},
              {'op': 'add', 'lf': 0, 'type': 'axis', 'name': R.r_str(name), 'set_name': None, 'origin': None, 'kw': {}},
              {'op': 'add', 'lf': 0, 'type': 'parameter', 'name': R.r_str(name), 'set_name': None, 'origin': None, 'kw': {'values': R.r_list(vals[:1]), 'axis': R.r_list([R.r_ref(1)])}},
              {'op': 'channel', 'lf': 0, 'name': R.r_str('C'), 'set_name': None, 'origin': None, 'kw': {}, 'data': {'dtype': 'float64', 'rows': 2, 'width': None, 'seed': 3}},
              {'op': 'frame', 'lf': 0, 'name': R.r_str('F'), 'set_name': None, 'origin': None, 'kw': {}, 'channels': R.r_list([R.r_ref(4)])},
              {'op': 'write'}]
        return p
    z, nz = R.r_float(R.f_bits(0.0)), R.r_float(R.f_bits(-0.0))
    one_i, one_f, one_b = R.r_int(1), R.r_float(R.f_bits(1.0)), R.r_bool(True)
    nested_hc = ([{'op': 'hc_enter'}, {'op': 'hc_enter'}] + f([one_i], 1, name='UPPER') + [{'op': 'hc_exit'}] + f([one_f], 1, name='UPPER-2') + [{'op': 'hc_exit'}]
                 + f([one_i], 1, name='lower case name'))
    return [nested_hc, f([z, one_f], 1) + f([nz, one_f], 1), f([nz], 1) + f([z], 1), f([one_i], 1) + f([one_f], 1) + f([one_i], 1),
            f([one_f], 3) + f([one_i], 7, name='P'), f([one_i], 1, name='Q') + f([one_i], 2, name='Q'),
            f([one_i], 1, extra_first='frames') , f([one_i], 1) + f([one_i], 1, extra_first='channels')]


def run(ctx):
    rng = ctx.rng('hist')
    n = 25 if ctx.tier == 'quick' else 300
    hists = targeted(rng) + [apistream.gen_history(rng) for _ in range(n)]
    for k, prog in enumerate(hists):
        r = apistream.run_one(ctx, prog, 'K-api-history')
        ctx.count('K-history', key=k)
        ctx.stat('K-history', 'files_in_history', sum(1 for s in prog if s['op'] == 'newfile'))
        if not r['files']:
            continue
        last = last_file_program(prog)
        start = len(prog) - len(last)
        mine = [f for f in r['files'] if f[0] >= start]
        if not mine:
            continue
        try:
            fr = fresh_run(last)
        except Exception as e:  # noqa
            ctx.violation('fresh-subprocess-failed', {'error': str(e)[:300]})
            continue
        ctx.stat('K-history', 'compared_with_fresh_process')
        got = [f[1].hex() for f in mine]
        if got != fr['files']:
            which = next((i for i in range(min(len(got), len(fr['files']))) if got[i] != fr['files'][i]), min(len(got), len(fr['files'])))
            a = bytes.fromhex(got[which]) if which < len(got) else b''
            b = bytes.fromhex(fr['files'][which]) if which < len(fr['files']) else b''
            pos = next((j for j in range(min(len(a), len(b))) if a[j] != b[j]), min(len(a), len(b)))
            ctx.violation('output-depends-on-process-history', {'history': apistream.strip_private(prog), 'write_index': which, 'first_difference_at': pos,
                                                                'in_history': a[max(0, pos - 16):pos + 32].hex(), 'fresh_process': b[max(0, pos - 16):pos + 32].hex()})
        if k % 7 == 0:
            ctx.sample({'stream': 'K-history', 'files': sum(1 for s in prog if s['op'] == 'newfile'), 'writes': sum(1 for s in prog if s['op'] == 'write'),
                        'steps': len(prog)})
    run_rewrites(ctx)


def run_rewrites(ctx):
    rng = ctx.rng('rewrite')
    n = 25 if ctx.tier == 'quick' else 250
    for k in range(n):
        hist, fresh = apistream.rewrite_history(rng)
        r = apistream.run_one(ctx, hist, 'K-api-rewrite')
        ctx.count('K-rewrite', key=k)
        det = {'history': apistream.strip_private(hist), 'fresh_program': apistream.strip_private(fresh)}
        widx = [i for i, s in enumerate(hist) if s['op'] == 'write']
        o1, o2 = r['outs'][widx[0]], r['outs'][widx[1]]
        if o1[0] != 'ok':
            ctx.stat('K-rewrite', 'first_write_failed')
            continue
        # an immediate second write of the unchanged specification must repeat the first
        plain = hist[:widx[0] + 1] + [{'op': 'write'}]
        rp = apimodel.Impl().run(plain)
        if rp[-1][0] != 'ok' or rp[-1][1]['file'] != rp[-2][1]['file']:
            ctx.violation('second-write-of-unchanged-specification-differs',
                          {'program': apistream.strip_private(plain), 'second': rp[-1][0] if rp[-1][0] == 'ok' else rp[-1]})
        try:
            fr = fresh_run(fresh)
        except Exception as e:  # noqa
            ctx.violation('fresh-subprocess-failed', {'error': str(e)[:300]})
            continue
        q_hist = [o[0] for s, o in zip(hist, r['outs']) if s['op'] in ('assign', 'set_origin', 'set_header')]
        q_fresh = [o for s, o in zip(fresh, fr['outs']) if s['op'] in ('assign', 'set_origin', 'set_header')]
        if q_hist != q_fresh:
            ctx.violation('edit-accepted-only-before-or-only-after-a-write', {**det, 'after_write': q_hist, 'fresh': q_fresh})
            continue
        ctx.stat('K-rewrite', 'compared_with_fresh_process')
        ctx.stat('K-rewrite', 'origin_changes', sum(1 for s in hist if s['op'] == 'set_origin'))
        f2 = o2[1]['file'].hex() if o2[0] == 'ok' else None
        ff = fr['files'][-1] if fr['files'] and fr['outs'][-1] == 'ok' else None
        if f2 != ff:
            a = bytes.fromhex(f2) if f2 else b''
            b = bytes.fromhex(ff) if ff else b''
            pos = next((j for j in range(min(len(a), len(b))) if a[j] != b[j]), min(len(a), len(b)))
            ctx.violation('rewritten-file-differs-from-fresh-process', {**det, 'second_write': o2[0] if o2[0] == 'ok' else o2,
                                                                       'fresh_write': fr['outs'][-1], 'first_difference_at': pos,
                                                                       'in_history': a[max(0, pos - 16):pos + 32].hex(), 'fresh_process': b[max(0, pos - 16):pos + 32].hex()})
    # objects with axes whose number / coordinate counts agree or not with a given or DERIVED dimension, written twice: the second
    # write must do what the first did (a check made before the dimension is derived passes once and fails the next time)
    rng_ax = ctx.rng('axes')
    for k in range(30 if ctx.tier == 'quick' else 300):
        prog = apistream.gen_axis_dimension(rng_ax)
        r = apistream.run_one(ctx, prog, 'K-write-twice')
        ctx.count('K-write-twice', key=k)
        o1, o2 = r['outs'][-2], r['outs'][-1]
        ctx.stat('K-write-twice', 'first_' + (o1[0] if o1[0] == 'ok' else str(o1[1])))
        if (o1[0] == 'ok') != (o2[0] == 'ok') or (o1[0] == 'ok' and o1[1]['file'] != o2[1]['file']):
            ctx.violation('second-write-of-unchanged-specification-differs',
                          {'program': apistream.strip_private(prog), 'first': o1[0] if o1[0] == 'ok' else list(o1),
                           'second': o2[0] if o2[0] == 'ok' else list(o2)})
    # indexed frames (index channel with or without units, uniform or not, user-given index values / units or none), written three
    # times: every write gives the file of the first (a default added at the first write must not make room for another one at
    # the next: e.g. units for a SPACING that only exists since the first write)
    import impl as _impl
    for k in range(24):
        df = _impl.indexed_frame_spec(k)
        outs3 = [_impl.outcome(lambda: _impl.write_real(df)) for _ in range(3)]
        ctx.count('K-write-twice', key=('indexed', k))
        ctx.stat('K-write-twice', 'indexed_first_' + (outs3[0][0] if outs3[0][0] == 'ok' else str(outs3[0][1])))
        if outs3[0][0] == 'ok':
            for n_, o_ in enumerate(outs3[1:], 2):
                if o_[0] != 'ok' or o_[1]['file'] != outs3[0][1]['file']:
                    a_, b_ = outs3[0][1]['file'], (o_[1]['file'] if o_[0] == 'ok' else b'')
                    pos = next((j for j in range(min(len(a_), len(b_))) if a_[j] != b_[j]), min(len(a_), len(b_)))
                    ctx.violation('second-write-of-unchanged-specification-differs',
                                  {'specification': 'impl.indexed_frame_spec(%d)' % k, 'write': n_, 'outcome': o_[0] if o_[0] == 'ok' else list(o_),
                                   'first_difference_at': pos, 'first': a_[max(0, pos - 16):pos + 32].hex(), 'this': b_[max(0, pos - 16):pos + 32].hex()})
                    break
        else:
            if any(o_[0] == 'ok' for o_ in outs3[1:]):
                ctx.violation('second-write-of-unchanged-specification-differs',
                              {'specification': 'impl.indexed_frame_spec(%d)' % k, 'first': list(outs3[0]), 'later': [o_[0] for o_ in outs3[1:]]})
    # data handed to write() as ONE structured array / a dict of big-endian arrays, and used for two writes of the same DLISFile and for
    # an equal specification built afterwards: all three files identical (nothing is done to the caller's arrays that a later write sees)
    import numpy as np
    import impl
    from dliswriter import DLISFile

    def src_spec():
        df0 = DLISFile()
        lf0 = df0.add_logical_file()
        lf0.add_origin('O', file_set_number=1, creation_time='2020/01/01 00:00:00')
        a0 = lf0.add_channel('DEPTH')
        b0 = lf0.add_channel('IMG')
        lf0.add_frame('F', channels=[a0, b0])
        return df0
    for order in ('<', '>'):
        for kind in ('struct', 'dict'):
            d = np.arange(6, dtype=np.dtype(order + 'f8')) * 0.5
            img = (np.arange(18).reshape(6, 3) * 1000).astype(np.dtype(order + 'i4'))
            if kind == 'struct':
                data = np.zeros(6, dtype=np.dtype([('DEPTH', d.dtype), ('IMG', img.dtype, (3,))]))
                data['DEPTH'], data['IMG'] = d, img
            else:
                data = {'DEPTH': d, 'IMG': img}
            dfh = src_spec()
            outs3 = [impl.outcome(lambda: impl.write_real(dfh, data=data)), impl.outcome(lambda: impl.write_real(dfh, data=data)),
                     impl.outcome(lambda: impl.write_real(src_spec(), data=data))]
            ctx.count('K-rewrite', key=('same-source-twice', order, kind))
            if any(o[0] != 'ok' for o in outs3) or len({o[1]['file'] for o in outs3}) != 1:
                ctx.violation('writes-from-the-same-source-object-differ', {'byte_order': order, 'kind': kind,
                                                                           'outcomes': [o[0] for o in outs3],
                                                                           'distinct_files': len({o[1]['file'] for o in outs3 if o[0] == 'ok'})})
    # the cast dtype of a channel changed through its public setter between two writes: the second file is the file of a fresh
    # specification created with that cast (no encoded attribute bytes, no representation code kept from the first write)

    def cast_spec(cast, width):
        df0 = DLISFile()
        lf0 = df0.add_logical_file()
        lf0.add_origin('O', file_set_number=1, creation_time='2020/01/01 00:00:00')
        shape = (4,) if width is None else (4, width)
        c0 = lf0.add_channel('A', data=(np.arange(int(np.prod(shape))).reshape(shape) * 1.5).astype(np.float64), cast_dtype=cast)
        c1 = lf0.add_channel('B', data=np.arange(4, dtype=np.int32))
        lf0.add_frame('F', channels=[c0, c1])
        return df0, c0
    for first, second in ((None, np.float32), (np.float32, np.float64), (None, np.int32), (np.int16, np.uint8), (np.float32, None)):
        for width in (None, 3):
            dfh, ch = cast_spec(first, width)
            w1 = impl.outcome(lambda: impl.write_real(dfh))
            if second is None:
                continue            # cast_dtype = None after a write re-adopts the source dtype: the derived code persists (D9 family), not compared
            ch.cast_dtype = second
            w2 = impl.outcome(lambda: impl.write_real(dfh))
            wf = impl.outcome(lambda: impl.write_real(cast_spec(second, width)[0]))
            ctx.count('K-rewrite', key=('cast', str(first), str(second), width))
            if w1[0] != 'ok' or w2[0] != wf[0] or (w2[0] == 'ok' and w2[1]['file'] != wf[1]['file']):
                ctx.violation('file-after-a-cast-dtype-change-differs-from-fresh-specification',
                              {'first_cast': str(first), 'second_cast': str(second), 'width': width, 'second_write': w2[0], 'fresh': wf[0]})
    # known finding D9 (also listed under C13): the same DLISFile written again with OTHER data keeps the index metadata of the first write

    def spec():
        df = DLISFile()
        lf = df.add_logical_file()
        lf.add_origin('O', file_set_number=1, creation_time='2020/01/01 00:00:00')
        ch = lf.add_channel('IDX')
        lf.add_frame('F', channels=[ch], index_type='BOREHOLE-DEPTH')
        return df
    df = spec()
    impl.outcome(lambda: impl.write_real(df, data={'IDX': np.arange(0.0, 5.0)}))
    o2 = impl.outcome(lambda: impl.write_real(df, data={'IDX': np.arange(10.0, 30.0, 2.0)}))
    of = impl.outcome(lambda: impl.write_real(spec(), data={'IDX': np.arange(10.0, 30.0, 2.0)}))
    ctx.count('K-rewrite', key='D9')
    if o2[0] != 'ok' or of[0] != 'ok' or o2[1]['file'] != of[1]['file']:
        ctx.violation('rewrite-with-other-data-differs-from-fresh-specification', {'first_data': '0..4', 'second_data': '10..28 step 2'},
                      finding_key='D9-derived-persist')


def replay(ctx, data):
    run(ctx)
