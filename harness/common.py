"""common.py — shared plumbing of the verification harness.

* environment: the implementation is imported from /repo/src (the working tree), never from site-packages
* tree codec and the extracted model process (build/dlis_model)
* evidence / replay / known-findings helpers
"""
import os
import sys
import json
import time
import random
import hashlib
import subprocess
import resource
import tempfile
import shutil
import atexit

VERIF = os.path.dirname(os.path.dirname(os.path.abspath(__file__)))
REPO = os.environ.get('VERIF_REPO', '/repo')
BUILD = os.path.join(VERIF, 'build')
COQDIR = os.path.join(VERIF, 'coq')
EVID = os.path.join(VERIF, 'evidence')
REPLAYS = os.path.join(VERIF, 'replays')
GUARD = 'WELL_ID_DLISWRITER_VERIF'


def setup_impl_env():
    """Make `import dliswriter` resolve to /repo/src and silence the progress bar / logging."""
    os.environ[GUARD] = '1'
    os.environ.setdefault('PYTHONHASHSEED', '0')
    os.environ['TZ'] = 'UTC'
    time.tzset()
    src = os.path.join(REPO, 'src')
    if src not in sys.path:
        sys.path.insert(0, src)
    import logging
    logging.disable(logging.CRITICAL)
    import warnings
    warnings.filterwarnings('ignore')
    import dliswriter  # noqa
    assert os.path.realpath(dliswriter.__file__).startswith(os.path.realpath(src)), dliswriter.__file__
    # progressbar writes to stderr: keep the real thing (its max_value check can make a write FAIL: defect D27 was hidden for as
    # long as this harness replaced it by the identity) and only send its drawing to the null device
    import dliswriter.file.writer as w
    import functools
    _null = open(os.devnull, 'w')
    w.progressbar = functools.partial(w.progressbar, fd=_null)


_scratch = None


def scratch_dir():
    """A scratch directory outside /repo and /verif, removed at exit."""
    global _scratch
    if _scratch is None:
        base = '/dev/shm' if os.path.isdir('/dev/shm') and os.access('/dev/shm', os.W_OK) else None
        _scratch = tempfile.mkdtemp(prefix='dvverif_', dir=base)
        atexit.register(lambda: shutil.rmtree(_scratch, ignore_errors=True))
    return _scratch


# ------------------------------------------------------------------------------------------------
# tree codec

class U:
    """A TB node whose elements are arbitrary integers (text as code points)."""
    __slots__ = ('v',)

    def __init__(self, v):
        self.v = tuple(v)

    def __eq__(self, o):
        return isinstance(o, U) and self.v == o.v

    def __hash__(self):
        return hash(self.v)

    def __repr__(self):
        return 'U%r' % (self.v,)


def text(s):
    """str -> TB of code points."""
    return U(ord(c) for c in s)


def enc_tree(t, out):
    if t is None:
        out.append('()')
    elif isinstance(t, bool):
        out.append('1' if t else '0')
    elif isinstance(t, int):
        out.append(str(t))
    elif isinstance(t, (bytes, bytearray)):
        out.append('#' + bytes(t).hex())
    elif isinstance(t, U):
        if all(0 <= x < 256 for x in t.v):
            out.append('#' + bytes(t.v).hex())
        else:
            out.append('u(' + ' '.join(str(x) for x in t.v) + ')')
    elif isinstance(t, (list, tuple)):
        out.append('(')
        for k, x in enumerate(t):
            if k:
                out.append(' ')
            enc_tree(x, out)
        out.append(')')
    else:
        raise TypeError('cannot encode %r' % (t,))


def tree_str(t):
    out = []
    enc_tree(t, out)
    return ''.join(out)


def parse_tree(s):
    i = 0
    n = len(s)

    def skip():
        nonlocal i
        while i < n and s[i] in ' \t\r':
            i += 1

    def tree():
        nonlocal i
        skip()
        c = s[i]
        if c == '(':
            i += 1
            items = []
            while True:
                skip()
                if s[i] == ')':
                    i += 1
                    return items
                items.append(tree())
        if c == '#':
            j = i + 1
            while j < n and s[j] in '0123456789abcdef':
                j += 1
            b = bytes.fromhex(s[i + 1:j])
            i = j
            return b
        if c == 'u':
            i += 1
            skip()
            l = tree()
            return U(l)
        j = i + 1
        while j < n and s[j].isdigit():
            j += 1
        v = int(s[i:j])
        i = j
        return v

    if s.startswith('!'):
        raise RuntimeError('model driver: ' + s)
    t = tree()
    return t


class Model:
    """The extracted model as a line-oriented co-process."""

    def __init__(self):
        exe = os.path.join(BUILD, 'dlis_model')
        if not os.path.exists(exe):
            raise RuntimeError('model binary missing: run bin/setup')

        def pre():
            try:
                resource.setrlimit(resource.RLIMIT_STACK, (resource.RLIM_INFINITY, resource.RLIM_INFINITY))
            except Exception:
                pass
        self.exe = exe
        self.pre = pre
        self.calls = 0

    def batch(self, requests):
        """Evaluate a list of request trees; returns the list of reply trees."""
        if not requests:
            return []
        data = '\n'.join(tree_str(r) for r in requests) + '\n'
        p = subprocess.run([self.exe], input=data.encode(), stdout=subprocess.PIPE, stderr=subprocess.PIPE,
                           preexec_fn=self.pre, timeout=3600)
        if p.returncode != 0:
            raise RuntimeError('model binary failed: %s' % p.stderr.decode()[-500:])
        lines = p.stdout.decode().split('\n')
        if lines and lines[-1] == '':
            lines.pop()
        if len(lines) != len(requests):
            raise RuntimeError('model binary: %d replies for %d requests' % (len(lines), len(requests)))
        self.calls += len(requests)
        return [parse_tree(l) for l in lines]

    def one(self, request):
        return self.batch([request])[0]


def coq_term(t):
    """Request tree as a Gallina term (for the vm_compute cross-check of the extraction)."""
    if t is None:
        return '(TL [])'
    if isinstance(t, bool):
        return '(TI %d)' % (1 if t else 0)
    if isinstance(t, int):
        return '(TI (%d))' % t
    if isinstance(t, (bytes, bytearray)):
        return '(TB [%s])' % '; '.join(str(x) for x in bytes(t))
    if isinstance(t, U):
        return '(TB [%s])' % '; '.join('(%d)' % x for x in t.v)
    if isinstance(t, (list, tuple)):
        return '(TL [%s])' % '; '.join(coq_term(x) for x in t)
    raise TypeError(t)


def vm_crosscheck(pairs, label, jobs=8, per_file=200, timeout=600):
    """Evaluate dispatch on each request with vm_compute inside Coq and compare with the extracted binary's
    replies. Returns (n_checked, n_failed_files, detail)."""
    if not pairs:
        return 0, 0, ''
    d = tempfile.mkdtemp(prefix='vmx_', dir=scratch_dir())
    files = []
    for k in range(0, len(pairs), per_file):
        chunk = pairs[k:k + per_file]
        name = 'X%s_%d' % (label, k // per_file)
        path = os.path.join(d, name + '.v')
        with open(path, 'w') as f:
            f.write('From DV Require Import Model.Dispatch.\nOpen Scope Z_scope.\n')
            f.write('Definition cases : list (tree * tree) := [\n')
            f.write(';\n'.join('(%s, %s)' % (coq_term(a), coq_term(b)) for a, b in chunk))
            f.write('].\n')
            f.write('Definition bad := filter (fun \'(i, o) => negb (tree_eqb (dispatch i) o)) cases.\n')
            f.write('Goal length bad = 0%nat. Proof. vm_compute. reflexivity. Qed.\n')
        files.append(path)
    procs = []
    failed = []
    import concurrent.futures as cf

    def run(path):
        p = subprocess.run(['coqc', '-Q', COQDIR, 'DV', path], stdout=subprocess.PIPE, stderr=subprocess.STDOUT,
                           timeout=timeout, cwd=d)
        return path, p.returncode, p.stdout.decode()[-400:]
    with cf.ThreadPoolExecutor(max_workers=jobs) as ex:
        for path, rc, out in ex.map(run, files):
            if rc != 0:
                failed.append((os.path.basename(path), out))
    shutil.rmtree(d, ignore_errors=True)
    return len(pairs), len(failed), '; '.join('%s: %s' % f for f in failed[:3])


# ------------------------------------------------------------------------------------------------
# evidence, replays, known findings

def write_json(path, obj):
    os.makedirs(os.path.dirname(path), exist_ok=True)
    tmp = path + '.tmp%d' % os.getpid()
    with open(tmp, 'w') as f:
        json.dump(obj, f, indent=1, default=_json_default)
        f.write('\n')
    os.replace(tmp, path)


def _json_default(o):
    if isinstance(o, (bytes, bytearray)):
        return {'hex': bytes(o).hex()}
    if isinstance(o, U):
        return {'codepoints': list(o.v)}
    if isinstance(o, set):
        return sorted(o)
    try:
        import numpy as np
        if isinstance(o, np.generic):
            return o.item()
        if isinstance(o, np.ndarray):
            return {'dtype': str(o.dtype), 'shape': list(o.shape), 'hex': o.tobytes().hex()}
    except Exception:
        pass
    return repr(o)


def load_known_findings():
    """known_findings.txt: lines `finding: property=<id> key=<key> <description>` and `fixed: property=<id> <commit> <what>`."""
    path = os.path.join(VERIF, 'known_findings.txt')
    out = {}
    if os.path.exists(path):
        for line in open(path):
            line = line.strip()
            if line.startswith('finding:'):
                parts = line[len('finding:'):].split()
                kv = dict(p.split('=', 1) for p in parts[:2])
                out.setdefault(kv['property'], {})[kv['key']] = ' '.join(parts[2:])
    return out


class Rng(random.Random):
    """One PRNG per check run, derived from VERIF_SEED and a label."""

    def __init__(self, seed, label=''):
        h = hashlib.sha256(('%d/%s' % (seed, label)).encode()).digest()
        super().__init__(int.from_bytes(h[:8], 'big'))
