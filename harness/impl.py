"""impl.py — driving the implementation in /repo: segmenter, synthetic writer runs, taps, real file builds."""
import os
import contextlib
import numpy as np
from common import scratch_dir, text

_counter = [0]


def tmp_path(suffix='.dlis'):
    _counter[0] += 1
    return os.path.join(scratch_dir(), 'f%d_%d%s' % (os.getpid(), _counter[0], suffix))


def outcome(f):
    """('ok', value) or ('err', exception class name)."""
    try:
        return ('ok', f())
    except Exception as e:  # noqa
        return ('err', type(e).__name__)


def pos_bytes(n, salt=0):
    """Position-dependent body: a moved, dropped or duplicated byte changes the reassembly."""
    return bytes(((i * 7 + salt) % 251) for i in range(n))


def impl_segments(cap, eflr, ty, body):
    from dliswriter.logical_record.core.logical_record.logical_record_bytes import LogicalRecordBytes
    lrb = LogicalRecordBytes(bytes(body), bytes([ty]), eflr)
    out = []
    for seg, size in lrb.make_segments(cap):
        if size != len(seg):
            raise AssertionError('declared size %d != %d' % (size, len(seg)))
        out.append(bytes(seg))
    return out


class FakeLR:
    def __init__(self, eflr, ty, body):
        self.eflr, self.ty, self.body = eflr, ty, bytes(body)

    def represent_as_bytes(self):
        from dliswriter.logical_record.core.logical_record.logical_record_bytes import LogicalRecordBytes
        return LogicalRecordBytes(self.body, bytes([self.ty]), self.eflr)


@contextlib.contextmanager
def lr_tap():
    import dliswriter.logical_record.core.logical_record.logical_record_bytes as m
    got = []
    sink = lambda eflr, ty, bts: got.append((bool(eflr), bytes(ty), bytes(bts)))  # noqa
    m._VERIF_LR_SINKS.append(sink)
    try:
        yield got
    finally:
        m._VERIF_LR_SINKS.remove(sink)


@contextlib.contextmanager
def flush_tap():
    """Records the on-disk content after every physical write."""
    import dliswriter.file.writer as m
    got = []

    def sink(filename, total):
        with open(filename, 'rb') as f:
            got.append((total, f.read()))
    m._VERIF_FLUSH_SINKS.append(sink)
    try:
        yield got
    finally:
        m._VERIF_FLUSH_SINKS.remove(sink)


def write_synthetic(seq, vrl, ident, recs, out_chunk, prior=None, path=None):
    """DLISWriter driven directly with synthetic logical records.
    Returns dict(file=bytes, total=int, snaps=[bytes...])."""
    from dliswriter.file.writer import DLISWriter
    from dliswriter.logical_record.misc import StorageUnitLabel
    path = path or tmp_path()
    if prior is not None:
        with open(path, 'wb') as f:
            f.write(prior)
    elif os.path.exists(path):
        os.remove(path)
    try:
        with flush_tap() as snaps:
            w = DLISWriter(path, visible_record_length=vrl)
            sul = StorageUnitLabel(ident, sequence_number=seq, max_record_length=vrl)
            w.write_storage_unit_label(sul)
            w.write_logical_records([FakeLR(*r) for r in recs], output_chunk_size=out_chunk)
        with open(path, 'rb') as f:
            data = f.read()
        return dict(file=data, total=w._byte_writer.total_size, snaps=[s for _, s in snaps], snap_totals=[t for t, _ in snaps])
    finally:
        if os.path.exists(path):
            os.remove(path)


def lrec_tree(r):
    eflr, ty, body = r
    return [bool(eflr), ty, bytes(body)]


DTYPES = ['int8', 'int16', 'int32', 'uint8', 'uint16', 'uint32', 'float32', 'float64']


def simple_file(rng, vrl=8192, n_channels=None, rows=None, nofmt_payloads=(), names=None, width=None, dtypes=None,
                ident='MAIN-STORAGE-UNIT', extra=True, first_vrl=None):
    """A small real DLISFile: origin, channels with inline data, one frame, optional no-format data and a few other
    objects. Returns (dlis_file, info)."""
    from dliswriter import DLISFile
    vrl, vrl_final = (first_vrl if first_vrl is not None else vrl), vrl
    if rng.random() < 0.4:
        from dliswriter.logical_record.misc import StorageUnitLabel
        df = DLISFile(storage_unit_label=StorageUnitLabel(ident, sequence_number=1, max_record_length=vrl))
    else:
        df = DLISFile(set_identifier=ident, max_record_length=vrl)
    if first_vrl is not None:     # the label is a public, mutable object: the length in force is the one it holds at write
        df.storage_unit_label.max_record_length = vrl_final
    lf = df.add_logical_file(fh_id='H-%d' % rng.randrange(1000))
    lf.add_origin('ORIGIN', file_set_number=rng.randrange(1, 1000), creation_time='2024/01/02 03:04:05')
    n_channels = n_channels or rng.randrange(1, 5)
    rows = rows or rng.randrange(1, 8)
    chans = []
    for k in range(n_channels):
        dt = (dtypes[k] if dtypes else rng.choice(DTYPES))
        w = width if width is not None else rng.choice([None, None, 1, 2, 5])
        shape = (rows,) if w is None else (rows, w)
        nbytes = int(np.prod(shape)) * np.dtype(dt).itemsize
        arr = np.frombuffer(bytes(rng.getrandbits(8) for _ in range(nbytes)), dtype=dt).reshape(shape).copy()
        if k == 0:
            arr = np.arange(rows).astype(dt) if w is None else arr
        nm = names[k] if names else 'CH%d' % k
        chans.append(lf.add_channel(nm, data=arr))
    lf.add_frame('FRAME', channels=chans)
    info = {'nofmt': []}
    if nofmt_payloads:
        nf = lf.add_no_format('NF', consumer_name='X')
        for p in nofmt_payloads:
            lf.add_no_format_frame_data(nf, p)
            info['nofmt'].append(((1, 0, 'NF'), p))
    if extra and rng.random() < 0.7:
        lf.add_axis('AX', coordinates=[rng.random() for _ in range(rng.randrange(1, 4))])
        lf.add_parameter('PAR', values=[rng.randrange(100)])
        lf.add_axis('AX2', coordinates=[float(i) for i in range(rng.randrange(1, 200))], spacing=0.5)
        lf.add_comment('CMT', text=['x' * rng.randrange(0, 300)])
    return df, info


def write_real(df, out_chunk=None, in_chunk=None, data=None, path=None, **kw):
    """DLISFile.write with the taps on; returns dict(file, recs=[(eflr, ty, body)...], snaps)."""
    path = path or tmp_path()
    vrl = df.storage_unit_label.max_record_length
    # out_chunk None: a small explicit buffer (the library's own default of 2**32 bytes allocates 4 GiB per write: it is used once,
    # in the thorough tier of C10, through out_chunk='library-default')
    if out_chunk == 'library-default':
        okw = {}
    else:
        okw = {'output_chunk_size': out_chunk if out_chunk is not None else max(vrl, 1 << 16)}
    try:
        with lr_tap() as recs, flush_tap() as snaps:
            df.write(path, input_chunk_size=in_chunk, data=data, **okw, **kw)
        with open(path, 'rb') as f:
            data_b = f.read()
        return dict(file=data_b, recs=[(e, t[0] if t else -1, b) for e, t, b in recs], snaps=[s for _, s in snaps],
                    snap_totals=[t for t, _ in snaps])
    finally:
        if os.path.exists(path):
            os.remove(path)

def indexed_frame_spec(k):
    """Hand-made specifications reaching the sites random specifications rarely reach: FILE-ID left to the write, indexed
    frames with / without the user's own index values and units, uniform and non-uniform (direction) index data."""
    import numpy as np
    from dliswriter import DLISFile
    df = DLISFile()
    lf = df.add_logical_file(fh_id='HDR-%d' % k)
    o = lf.add_origin('O', file_set_number=3) if k % 2 else lf.add_origin('O', file_set_number=3, field_name='F')
    if k % 2 == 0:
        o.file_id.value = 'HDR-%d' % k
    idx = np.array([0.0, 1.0, 2.0, 3.0]) if k % 3 else np.array([0.0, 1.0, 5.0, 6.5])
    if k % 5 == 4:
        idx = idx[::-1].copy()
    c0 = lf.add_channel('DEPTH', data=idx, units='m' if k % 4 else None)
    c1 = lf.add_channel('X', data=np.arange(4, dtype=np.int32))
    # a user-given ELEMENT-LIMIT that is valid but larger than the data (kept as given), 2-D data
    c2 = lf.add_channel('IMG', data=np.arange(4 * 3, dtype=np.float32).reshape(4, 3), **({'element_limit': [5]} if k % 3 == 1 else {}))
    kw = {}
    if k % 7 == 3:
        kw = {'index_min': {'value': -1.5, 'units': 'ft'}, 'spacing': 0.25}
    if k % 7 == 5:
        kw = {'direction': 'DECREASING', 'index_max': 99}
    lf.add_frame('FR', channels=[c0, c1, c2], index_type='BOREHOLE-DEPTH' if k % 6 else None, **kw)
    return df
