"""apimodel.py — programs over the public API: the same abstract step list drives the implementation (one small
interpreter) and the Coq model (Model/ApiDispatch.v run_program, cmd 40). K-api correspondence."""
import datetime as dtm
import numpy as np
import specgen
import datagen
import impl
from common import text, U

TYPE_ORDER = ['origin', 'axis', 'long_name', 'channel', 'frame', 'zone', 'parameter', 'equipment', 'tool', 'computation', 'process',
              'calibration_measurement', 'calibration_coefficient', 'calibration', 'group', 'splice', 'path', 'well_reference_point',
              'message', 'comment', 'no_format']
ENUMS = ['Unit', 'FrameIndexType', 'EquipmentType', 'EquipmentLocation', 'CalibrationMeasurementPhase', 'ZoneDomain', 'ProcessStatus', 'Property']


def str_hint(s):
    """Meaning of a string under the converters' parsers, computed with CPython (trusted)."""
    for f in ("%Y/%m/%d %H:%M:%S", "%Y.%m.%d %H:%M:%S"):
        try:
            d = dtm.datetime.strptime(s, f)
            return [3, [d.year, d.month, d.day, d.hour, d.minute, d.second, d.microsecond]]
        except ValueError:
            pass
    try:
        if '.' in s:
            return [2, specgen.f_bits(float(s))]
        return [1, int(s)]
    except ValueError:
        pass
    try:
        return [4, specgen.f_bits(float(s))]      # e.g. '1e3': float(value) works (DTime/allow_float) but convert_numeric keeps the string
    except ValueError:
        return []


def raw_tree(raw, idxmap):
    t = raw['t']
    if t == 'none':
        return [0]
    if t == 'int':
        return [1, raw['v']]
    if t == 'bool':
        return [2, raw['v']]
    if t == 'float':
        return [3, raw['bits']]
    if t == 'str':
        h = str_hint(raw['v'])
        if h and h[0] == 1 and '.' not in raw['v']:
            pass
        return [4, text(raw['v']), h]
    if t == 'dt':
        y, mo, d, h, mi, s, us = raw['v']
        x = dtm.datetime(y, mo, d, h, mi, s, us) - dtm.timedelta(minutes=raw['tz'] or 0)
        return [5, [x.year, x.month, x.day, x.hour, x.minute, x.second, x.microsecond]]
    if t == 'ref':
        m = idxmap.get(raw['i'])
        return [0] if m is None else [6, m]
    if t in ('list', 'tuple'):
        return [7, [raw_tree(x, idxmap) for x in raw['v']]]
    if t == 'enum':
        return [8, ENUMS.index(raw['cls']), specgen.enum_members(raw['cls']).index(raw['member'])]
    if t == 'other':
        return [9]
    raise ValueError(t)


def praw_tree(raw, idxmap):
    if raw['t'] in ('setup', 'dict'):
        v = [] if raw['value'] is None else [raw_tree(raw['value'], idxmap)]
        u = [] if raw['units'] is None else [raw_tree(raw['units'], idxmap)]
        if raw['t'] == 'setup':
            # AttrSetup(value=None) sets nothing: a reference to an object whose creation was REJECTED reaches the call as None
            # (a dict {'value': None} is different: the library passes None to the converter)
            v = [] if v == [[0]] else v
            u = [] if u == [[0]] else u
        return [1, v, u]
    return [0, raw_tree(raw, idxmap)]


def kw_tree(tkey, kw, idxmap, extra=None):
    """Keyword arguments in the order of the item constructor call inside add_<type>, as (attribute index, praw)."""
    A = specgen.api()[tkey]
    out = []
    extra = extra or {}
    for kwarg, param in A['call_kws']:
        if kwarg in extra:
            raw = extra[kwarg]
        elif param is not None and param in kw:
            raw = kw[param]
        else:
            continue
        if kwarg not in A['attrs']:
            continue
        # EFLRItem.__init__ drops keyword arguments that are None
        if raw['t'] == 'none' or (raw['t'] == 'ref' and idxmap.get(raw['i']) is None):
            continue
        out.append([A['attr_order'].index(kwarg), praw_tree(raw, idxmap)])
    return out


def name_tree(n):
    return raw_tree(n if isinstance(n, dict) else specgen.r_str(n), {})


def chdata_tree(d):
    return [datagen.CODE[d['dtype']], [] if d['width'] is None else [d['width']], d['rows']]


def chan_array(d):
    if d.get('values') is not None:
        arr = np.array(d['values'], dtype=d['dtype'])
        return arr, {'values': d['values']}
    ch = {'name': 'x', 'dtype': d['dtype'], 'width': d['width'], 'order': '<', 'layout': 'C', 'cast': None, 'seed': d['seed'], 'rows': d['rows']}
    return datagen.physical_array(ch), ch


class Impl:
    """Interpreter of a program against the real API. Records per-step outcomes and the written files."""

    def __init__(self):
        self.df = None
        self.lfs = []
        self.objs = []
        self.sul = None
        self.pending_data = {}     # dataset name -> array for channels without inline data
        self.hc_stack = []
        self.chan_specs = {}       # creation index -> channel step

    def step(self, s):
        from dliswriter import DLISFile
        from dliswriter.utils.high_compatibility_mode import high_compatibility_mode
        A = specgen.api()
        o = s['op']
        if o == 'newfile':
            if s.get('via_sul'):
                from dliswriter.logical_record.misc import StorageUnitLabel
                self.df = DLISFile(storage_unit_label=StorageUnitLabel(s['ident'], sequence_number=s['seq'], max_record_length=s['vrl']))
            else:
                self.df = DLISFile(set_identifier=s['ident'], sul_sequence_number=s['seq'], max_record_length=s['vrl'])
            self.lfs, self.objs, self.sul, self.pending_data, self.chan_specs = [], [], s, {}, {}
            return None
        if o == 'hc_enter':
            cm = high_compatibility_mode()
            cm.__enter__()
            self.hc_stack.append(cm)
            return None
        if o == 'hc_exit':
            self.hc_stack.pop().__exit__(None, None, None)
            return None
        if o == 'lf':
            lf = self.df.add_logical_file(fh_id=specgen.to_py(s['fh_id'], self.objs), fh_sequence_number=specgen.to_py(s['fh_seq'], self.objs))
            self.lfs.append(lf)
            return None
        lf = self.lfs[s['lf']] if 'lf' in s else None
        kw = {k: specgen.to_py(v, self.objs) for k, v in s.get('kw', {}).items()}
        name = specgen.to_py(s['name'], self.objs) if 'name' in s else None
        org = specgen.to_py(s['origin'], self.objs) if s.get('origin') is not None else None
        if o in ('origin', 'add', 'channel', 'frame'):
            self.objs.append(None)
            slot = len(self.objs) - 1
        if o == 'origin':
            obj = lf.add_origin(name, set_name=s.get('set_name'), origin_reference=org, **kw)
        elif o == 'add':
            obj = getattr(lf, A[s['type']]['method'])(name, set_name=s.get('set_name'), origin_reference=org, **kw)
        elif o == 'channel':
            d = s.get('data')
            arr = None
            if d == 'bad':
                arr = [1, 2, 3]
            elif d is not None and s.get('inline', True):
                arr = chan_array(d)[0]
            cast = s.get('cast')
            cast_py = None if cast is None else ('int64' if cast == 'bad' else getattr(np, cast))
            if cast == 'bad':
                cast_py = np.int64
            obj = lf.add_channel(name, data=arr, dataset_name=s.get('dataset_name'), cast_dtype=cast_py,
                                 set_name=s.get('set_name'), origin_reference=org, **kw)
            self.chan_specs[slot] = s
            if d not in (None, 'bad') and not s.get('inline', True):
                self.pending_data[obj.dataset_name] = chan_array(d)[0]
        elif o == 'frame':
            obj = lf.add_frame(name, channels=specgen.to_py(s['channels'], self.objs), set_name=s.get('set_name'), origin_reference=org, **kw)
        elif o == 'assign':
            target = getattr(self.objs[s['obj']], s['attr'])
            setattr(target, s['part'], specgen.to_py(s['raw'], self.objs))
            return None
        elif o == 'set_origin':
            self.objs[s['obj']].origin_reference = specgen.to_py(s['raw'], self.objs)
            return None
        elif o == 'set_label':
            setattr(self.df.storage_unit_label, {'vrl': 'max_record_length', 'ident': 'set_identifier', 'seq': 'sequence_number'}[s['field']], s['value'])
            return None
        elif o == 'set_header':
            setattr(lf.file_header, 'header_id' if s['field'] == 'id' else 'sequence_number', specgen.to_py(s['raw'], self.objs))
            return None
        elif o == 'nofmt':
            p = s['payload']
            data = bytes.fromhex(p['hex']) if p['kind'] == 'bytes' else bytearray.fromhex(p['hex']) if p['kind'] == 'bytearray' else p.get('text', 5)
            lf.add_no_format_frame_data(specgen.to_py(s['obj'], self.objs), data)
            return None
        elif o == 'query':
            getattr(lf, s['what'])
            return None
        elif o == 'write':
            data = dict(self.pending_data) if s.get('data') == 'dict' else None
            r = impl.write_real(self.df, in_chunk=s.get('in_chunk'), data=data, from_idx=s.get('from', 0), to_idx=s.get('to'))
            return r
        else:
            raise ValueError(o)
        self.objs[slot] = obj
        return obj

    def run(self, program):
        outs = []
        for s in program:
            try:
                r = self.step(s)
                outs.append(('ok', r))
            except Exception as e:  # noqa
                outs.append(('err', type(e).__name__))
        while self.hc_stack:
            self.hc_stack.pop().__exit__(None, None, None)
        return outs


def program_trees(program, outs):
    """Model request for the program, using the implementation's outcomes only to align object indices."""
    A = specgen.api()
    trees = []
    idxmap = {}        # creation index (per file) -> model item index
    created = 0        # creation ops so far in this file
    nitems = 0         # accepted items so far in this file (model index)
    sul = None
    chan_specs = {}
    frames = {}
    pending = {}
    for s, out in zip(program, outs):
        o = s['op']
        if o == 'newfile':
            trees.append([20])
            idxmap, created, nitems, sul, chan_specs, frames, pending = {}, 0, 0, s, {}, {}, {}
            continue
        if o == 'hc_enter':
            trees.append([8]); continue
        if o == 'hc_exit':
            trees.append([9]); continue
        if o == 'lf':
            trees.append([0, raw_tree(s['fh_id'], idxmap), raw_tree(s['fh_seq'], idxmap)]); continue
        sn = None if s.get('set_name') is None else text(s['set_name'])
        org = [0] if s.get('origin') is None else raw_tree(s['origin'], idxmap)
        if o == 'origin':
            extra = {'file_id': specgen.r_str(s['_fh_id'])}
            trees.append([2, s['lf'], raw_tree(s['name'], idxmap), sn, org, kw_tree('origin', s['kw'], idxmap, extra)])
        elif o == 'add':
            trees.append([1, s['lf'], TYPE_ORDER.index(s['type']), raw_tree(s['name'], idxmap), sn, org, kw_tree(s['type'], s['kw'], idxmap)])
        elif o == 'channel':
            d = s.get('data')
            cast = s.get('cast')
            trees.append([3, s['lf'], raw_tree(s['name'], idxmap), sn, org, kw_tree('channel', s['kw'], idxmap), d == 'bad',
                          [] if (d in (None, 'bad') or not s.get('inline', True)) else [chdata_tree(d)],
                          [] if s.get('dataset_name') is None else [text(s['dataset_name'])],
                          [] if cast is None else ([[]] if cast == 'bad' else [[datagen.CODE[cast]]])])
            chan_specs[created] = s
        elif o == 'frame':
            trees.append([4, s['lf'], raw_tree(s['name'], idxmap), sn, org, raw_tree(s['channels'], idxmap), kw_tree('frame', s['kw'], idxmap)])
            frames[created] = s
        elif o == 'assign':
            tkey = s['_type']
            trees.append([5, idxmap.get(s['obj'], 10**6), A[tkey]['attr_order'].index(s['attr']), s['part'] == 'units', raw_tree(s['raw'], idxmap)])
        elif o == 'set_origin':
            trees.append([11, idxmap.get(s['obj'], 10**6), raw_tree(s['raw'], idxmap)])
        elif o == 'set_label':
            sul = dict(sul, **{s['field']: s['value']})       # reaches the model with the next write
            trees.append([13])
        elif o == 'set_header':
            trees.append([12, s['lf'], s['field'] == 'id', raw_tree(s['raw'], idxmap)])
        elif o == 'nofmt':
            p = s['payload']
            pt = [0, bytes.fromhex(p['hex'])] if p['kind'] in ('bytes', 'bytearray') else ([1, text(p['text'])] if 'text' in p else [2])
            trees.append([6, s['lf'], raw_tree(s['obj'], idxmap), pt])
        elif o == 'query':
            trees.append([7, s['lf']])
        elif o == 'write':
            wframes = []
            for ci, fs in frames.items():
                if idxmap.get(ci) is None:
                    continue
                refs = [r['i'] for r in fs['channels']['v'] if r['t'] == 'ref']
                rows = None
                cols = []
                okf = True
                for ri in refs:
                    cs = chan_specs.get(ri)
                    if cs is None or cs.get('data') in (None, 'bad'):
                        okf = False
                        break
                    d = cs['data']
                    ch = {'name': 'x', 'dtype': d['dtype'], 'width': d['width'], 'order': '<', 'layout': 'C',
                          'cast': cs.get('cast') if cs.get('cast') not in (None, 'bad') else None, 'seed': d['seed'], 'rows': d['rows']}
                    if d.get('values') is not None:
                        arr = np.array(d['values'], dtype=d['dtype'])
                        cols.append(datagen.expected_slots(ch, arr=arr))
                    else:
                        cols.append(datagen.expected_slots(ch))
                if not okf or not cols:
                    wframes.append([idxmap[ci], [], []])
                    continue
                nrows = min(len(c) for c in cols)
                rws = [[[c[i][0], U(c[i][1])] for c in cols] for i in range(nrows)]
                ix = (s.get('index') or {}).get(ci)
                wframes.append([idxmap[ci], rws, [] if ix is None else [ix]])
            data = None
            if s.get('data') == 'dict':
                data = [[[text(k), chdata_tree(v)] for k, v in pending.items()]]
            trees.append([10, [[] if data is None else data, s.get('from', 0), s.get('to'), wframes, sul['seq'], sul['vrl'], text(sul['ident'])]])
        else:
            raise ValueError(o)
        if o in ('origin', 'add', 'channel', 'frame'):
            if out[0] == 'ok':
                idxmap[created] = nitems
                nitems += 1
                if o == 'channel' and s.get('data') not in (None, 'bad') and not s.get('inline', True):
                    pending[s.get('dataset_name') or s['name']['v']] = s['data']
            created += 1
    return trees


def from_spec(spec, write=True):
    """specgen specification -> program."""
    prog = [{'op': 'newfile', **spec['sul'], 'via_sul': (sum(map(ord, repr(spec['sul']))) + len(spec['lfs'][0]['ops'])) % 3 == 0}]
    for li, lf in enumerate(spec['lfs']):
        prog.append({'op': 'lf', 'fh_id': specgen.r_str(lf['fh_id']), 'fh_seq': specgen.r_int(lf['fh_seq'])})
        for op in lf['ops']:
            o = dict(op)
            o['lf'] = li
            o['name'] = specgen.r_str(op['name']) if isinstance(op.get('name'), str) else op.get('name')
            if o.get('origin') is not None and not isinstance(o['origin'], dict):
                o['origin'] = specgen.r_int(o['origin'])
            if o['op'] == 'origin':
                o['_fh_id'] = lf['fh_id']
            if o['op'] == 'channel':
                o['data'] = {'dtype': op['dtype'], 'rows': op['rows'], 'width': op['width'], 'seed': op['seed']}
            if o['op'] == 'frame':
                o['channels'] = specgen.r_list([specgen.r_ref(i) for i in op['channels']])
            prog.append(o)
    if write:
        prog.append({'op': 'write'})
    return prog
