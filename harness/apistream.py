"""apistream.py — K-api: generators of programs over the public API (valid, with rejected calls, several logical
files, high-compatibility contexts, later assignments, queries, several writes, several files in one process) and the
runner that executes each program on the implementation and on the Coq model and compares them step by step."""
import copy
import json
import specgen
import apimodel
import filemodel
from common import text

R = specgen


def base_program(rng, **kw):
    spec = specgen.gen_spec(rng, **kw)
    return apimodel.from_spec(spec, write=False), spec


BAD_VALUES = [R.r_int(5), R.r_str('not-a-member-of-anything'), R.r_float(specgen.f_bits(2.5)), {'t': 'other'}, R.r_list([R.r_int(1), R.r_str('x')]),
              R.r_bool(True), {'t': 'none'}]


def remap_refs(x, m):
    """Rewrite {'t': 'ref', 'i': old} -> new creation index, in place, through nested RAW / step structures."""
    if isinstance(x, dict):
        if x.get('t') == 'ref' and 'i' in x:
            x['i'] = m.get(x['i'], x['i'])
        else:
            for v in x.values():
                remap_refs(v, m)
    elif isinstance(x, list):
        for v in x:
            remap_refs(v, m)


def inject_rejects(rng, prog):
    """Insert add_*/assignment calls that should be rejected (and some that are merely unusual) at random positions."""
    A = specgen.api()
    out = []
    ncreated = 0
    nold = 0
    old2new = {}
    types_created = []
    prog = copy.deepcopy(prog)
    for s in prog:
        remap_refs({k: v for k, v in s.items() if k in ('kw', 'channels', 'obj', 'raw')}, old2new)
        if s['op'] == 'assign':
            s['obj'] = old2new.get(s['obj'], s['obj'])
        out.append(s)
        if s['op'] in ('origin', 'add', 'channel', 'frame'):
            types_created.append(s.get('type') or s['op'])
            old2new[nold] = ncreated
            nold += 1
            ncreated += 1
        if s['op'] in ('lf',) or rng.random() > 0.35 or 'lf' not in s:
            continue
        kind = rng.choice(['bad_attr', 'bad_attr', 'bad_name', 'bad_origin', 'dup_dataset', 'bad_cast', 'bad_data', 'bad_frame', 'bad_enum', 'same_name', 'bad_origin_op'])
        lf = s['lf']
        tkey = rng.choice(specgen.SET_KINDS)
        name = R.r_str(rng.choice(['Z', 'A', 'OBJ', 'X-1']))
        if kind == 'bad_attr':
            params = [p for p, an in A[tkey]['params'].items() if an in A[tkey]['attrs']]
            if not params:
                continue
            p = rng.choice(params)
            new = {'op': 'add', 'lf': lf, 'type': tkey, 'name': name, 'set_name': rng.choice([None, None, 'S1']), 'origin': None,
                   'kw': {p: copy.deepcopy(rng.choice(BAD_VALUES))}}
        elif kind == 'bad_enum':
            tk, p = rng.choice([('zone', 'domain'), ('process', 'status'), ('calibration_measurement', 'phase'), ('computation', 'properties')])
            v = R.r_str('NOT-A-MEMBER') if p != 'properties' else R.r_list([R.r_str('NOT-A-PROPERTY')])
            new = {'op': 'add', 'lf': lf, 'type': tk, 'name': name, 'set_name': None, 'origin': None, 'kw': {p: v}}
        elif kind == 'bad_name':
            new = {'op': 'add', 'lf': lf, 'type': tkey, 'name': rng.choice([R.r_int(7), {'t': 'none'}, R.r_list([R.r_str('a')]), {'t': 'other'}]),
                   'set_name': None, 'origin': None, 'kw': {}}
        elif kind == 'bad_origin':
            new = {'op': 'add', 'lf': lf, 'type': tkey, 'name': name, 'set_name': None,
                   'origin': rng.choice([R.r_str('x'), R.r_float(specgen.f_bits(1.5)), R.r_list([R.r_int(1)])]), 'kw': {}}
        elif kind == 'dup_dataset':
            new = {'op': 'channel', 'lf': lf, 'name': R.r_str('DUP'), 'set_name': None, 'origin': None, 'kw': {},
                   'data': {'dtype': 'float64', 'rows': 3, 'width': None, 'seed': 1}, 'dataset_name': 'CH0_0'}
        elif kind == 'bad_cast':
            new = {'op': 'channel', 'lf': lf, 'name': R.r_str('BADCAST'), 'set_name': None, 'origin': None, 'kw': {},
                   'data': {'dtype': 'float64', 'rows': 3, 'width': None, 'seed': 1}, 'cast': 'bad'}
        elif kind == 'bad_data':
            new = {'op': 'channel', 'lf': lf, 'name': R.r_str('BADDATA'), 'set_name': None, 'origin': None, 'kw': {}, 'data': 'bad'}
        elif kind == 'bad_frame':
            new = {'op': 'frame', 'lf': lf, 'name': R.r_str('BADFRAME'), 'set_name': None, 'origin': None, 'kw': {},
                   'channels': rng.choice([R.r_list([]), R.r_str('x'), R.r_list([R.r_int(3)]),
                                           R.r_list([R.r_ref(rng.randrange(ncreated))]) if ncreated else R.r_list([])])}
        elif kind == 'bad_origin_op':
            new = {'op': 'origin', 'lf': lf, 'name': R.r_str('REJECTED-ORIGIN'), 'set_name': None, 'origin': R.r_int(rng.choice([7, 3, 40])), '_fh_id': 'x',
                   'kw': {'file_set_number': R.r_int(2), 'creation_time': R.r_str('not a date')}}
        else:   # same_name: a valid object repeating a name (copy numbers)
            new = {'op': 'add', 'lf': lf, 'type': tkey, 'name': name, 'set_name': None, 'origin': None, 'kw': {}}
        out.append(new)
        if new['op'] in ('origin', 'add', 'channel', 'frame'):
            types_created.append(new.get('type') or new['op'])
            ncreated += 1
    return out


def add_assignments(rng, prog):
    """Later .value / .units assignments on created objects."""
    A = specgen.api()
    out = []
    created = []
    for s in prog:
        out.append(s)
        if s['op'] in ('origin', 'add', 'channel', 'frame'):
            created.append(s.get('type') or s['op'])
        if created and rng.random() < 0.25:
            i = rng.randrange(len(created))
            tkey = created[i]
            attrs = [a for a, info in A[tkey]['attrs'].items() if info['cls'] not in ('ReprCodeAttribute',) and a not in
                     ('channels', 'dimension', 'element_limit', 'file_set_number', 'axis', 'index_type', 'spacing', 'index_min', 'index_max',
                      'direction', 'encrypted', 'zones', 'values', 'file_id')]
            if not attrs:
                continue
            an = rng.choice(attrs)
            info = A[tkey]['attrs'][an]
            if rng.random() < 0.3 and info['units_settable']:
                out.append({'op': 'assign', 'obj': i, '_type': tkey, 'attr': an, 'part': 'units', 'raw': specgen.g_enum_or_str(rng, 'Unit', False)})
            else:
                by_type = {}
                v = specgen.gen_attr_value(rng, tkey, an, info, by_type, list(range(len(created))))
                if v is None or rng.random() < 0.15:
                    v = copy.deepcopy(rng.choice(BAD_VALUES))
                out.append({'op': 'assign', 'obj': i, '_type': tkey, 'attr': an, 'part': 'value', 'raw': v})
    return out


def _other_kind(rng, raw, info, longnames):
    """A value of another kind (int <-> float, text <-> object, text -> number) for an attribute whose representation
    code is inferred from the value; None if there is none."""
    t = raw['t']
    if t in ('list', 'tuple'):
        vs = [_other_kind(rng, x, info, longnames) for x in raw['v']]
        if not vs or any(v is None for v in vs):
            return None
        return {'t': t, 'v': vs}
    if t == 'int':
        return R.r_float(specgen.f_bits(raw['v'] + 0.5)) if abs(raw['v']) < 2 ** 40 else None
    if t == 'float':
        return R.r_int(rng.choice([3, -70000, 200]))
    if info['cls'] == 'EFLROrTextAttribute':
        if t == 'str':
            return R.r_ref(rng.choice(longnames)) if longnames else None
        if t == 'ref':
            return R.r_str('TEXT-NOW')
    if t == 'str' and info['cls'] == 'Attribute':
        return R.r_int(7)
    if t == 'dt' and info.get('allow_float'):
        return R.r_float(specgen.f_bits(12.5))
    return None


def rekind_assignments(rng, prog, limit=8):
    """Assignments that give attributes with an inferred representation code a value of another kind than the one they
    were created with (the history a cached / stale code would need)."""
    A = specgen.api()
    created = []
    for s in prog:
        if s['op'] in ('origin', 'add', 'channel', 'frame'):
            created.append(s)
    longnames = [i for i, s in enumerate(created) if s.get('type') == 'long_name']
    out = []
    for i, s in enumerate(created):
        tkey = s.get('type') or s['op']
        A_t = A[tkey]
        for p, raw in s.get('kw', {}).items():
            an = A_t['params'].get(p)
            info = A_t['attrs'].get(an) if an else None
            if info is None or info['rc0'] is not None or info['int_only']:
                continue
            if info['cls'] not in ('NumericAttribute', 'Attribute', 'EFLROrTextAttribute', 'DTimeAttribute') or an in ('dimension', 'element_limit'):
                continue
            v = raw.get('value') if raw['t'] in ('setup', 'dict') else raw
            if v is None:
                continue
            w = _other_kind(rng, v, info, longnames)
            if w is not None:
                out.append({'op': 'assign', 'obj': i, '_type': tkey, 'attr': an, 'part': 'value', 'raw': w})
    rng.shuffle(out)
    return out[:limit]


def add_queries(rng, prog):
    out = []
    for s in prog:
        out.append(s)
        if 'lf' in s and rng.random() < 0.2:
            out.append({'op': 'query', 'lf': s['lf'], 'what': rng.choice(['channels', 'frames', 'origins', 'defining_origin', 'default_origin_reference'])})
    return out


def add_nofmt(rng, prog):
    """add_no_format_frame_data calls for the NO-FORMAT objects of the program (payloads as bytes / bytearray / text, sizes
    0 .. several visible records), placed anywhere after the object's creation."""
    created = -1
    nf = []          # (position in prog, creation index, logical file)
    for pos, s in enumerate(prog):
        if s['op'] in ('origin', 'add', 'channel', 'frame'):
            created += 1
            if s.get('type') == 'no_format':
                nf.append((pos, created, s.get('lf', 0)))
        elif s['op'] == 'newfile':
            created = -1
            nf = []
    if not nf:
        return prog
    out = list(prog)
    end = max(i for i, s in enumerate(out) if s['op'] != 'write') + 1
    inserts = []
    for pos, ci, lf in nf:
        for _ in range(rng.choice([0, 1, 2, 3])):
            n = rng.choice([0, 1, 5, 11, 12, 100, 300, 9000])
            kind = rng.choice(['bytes', 'bytes', 'bytearray', 'text'])
            if kind == 'text':
                pl = {'kind': 'text', 'text': ''.join(rng.choice('abcXYZ 019-_') for _ in range(min(n, 400)))}
            else:
                pl = {'kind': kind, 'hex': bytes(rng.randrange(256) for _ in range(n)).hex()}
            inserts.append((rng.randrange(pos + 1, end + 1), {'op': 'nofmt', 'lf': lf, 'obj': R.r_ref(ci), 'payload': pl}))
    for at, step in sorted(inserts, key=lambda x: -x[0]):
        out.insert(at, step)
    return out


def gen_program(rng, flavor=None, vrl=None):
    flavor = flavor or rng.choice(['valid', 'valid', 'rejects', 'rejects', 'assign', 'queries', 'mixed', 'rewrite'])
    prog, spec = base_program(rng, vrl=vrl or rng.choice([128, 1024, 8192]))
    for s0 in prog:
        if s0['op'] == 'origin':
            s0['_fh_id'] = spec['lfs'][0]['fh_id']
    if rng.random() < 0.6:
        prog = add_nofmt(rng, prog)
    if flavor in ('rejects', 'mixed'):
        prog = inject_rejects(rng, prog)
    if flavor in ('assign', 'mixed'):
        prog = add_assignments(rng, prog)
    if flavor in ('queries', 'mixed'):
        prog = add_queries(rng, prog)
    prog.append({'op': 'write'})
    if flavor == 'rewrite':
        # assign other kinds of values after the first write, then write the same DLISFile again
        tail = add_assignments(rng, [s for s in prog if s['op'] != 'write'])
        extra = [s for s in tail if s['op'] == 'assign'][:4] + rekind_assignments(rng, [s for s in prog if s['op'] != 'write'])
        prog += extra + [{'op': 'write'}]
    return prog, flavor


def strip_private(prog):
    return [{k: v for k, v in s.items() if not k.startswith('_')} for s in prog]


class LabelIdent(str):
    """The set identifier of the label in force at a write, carrying the label's sequence number with it (decode() hands
    both to the strict reader)."""
    seq = 1


def run_one(ctx, prog, stream='K-api'):
    """Execute on implementation and model. Returns dict(outs, model, agree, files=[(step index, bytes, vrl)])."""
    im = apimodel.Impl()
    outs = im.run(prog)
    trees = apimodel.program_trees(prog, outs)
    rep = ctx.model_batch([[40, trees]], sample_every=1)[0]
    agree = True
    files = []
    vrl = None
    ident = None
    seq = 1
    for i, (s, o) in enumerate(zip(prog, outs)):
        r = rep[i] if i < len(rep) else [2]
        if s['op'] == 'newfile':
            vrl, ident, seq = s['vrl'], s['ident'], s['seq']
            continue
        if s['op'] == 'set_label':
            seq = s['value'] if s['field'] == 'seq' else seq
            vrl = s['value'] if s['field'] == 'vrl' else vrl
            ident = s['value'] if s['field'] == 'ident' else ident
        ctx.stat(stream, 'op_' + s['op'])
        if o[0] == 'err':
            ctx.stat(stream, 'rejected_' + s['op'])
            ctx.stat(stream + '/errors', o[1])
        m_ok = (r[0] == 0)
        if r == [2]:
            ctx.violation('model-did-not-understand-the-program', {'program': strip_private(prog), 'step': i})
            return {'outs': outs, 'model': rep, 'agree': False, 'files': files}
        if (o[0] == 'ok') != m_ok:
            if not m_ok and r[1] == 8:
                ctx.stat(stream, 'outside_model')       # EOther: outside the modelled input domain
                return {'outs': outs, 'model': rep, 'agree': None, 'files': files}
            agree = False
            ctx.violation('step-outcome-differs-from-model', {'program': strip_private(prog), 'step': i, 'op': strip_private([s])[0],
                                                              'impl': o[0] if o[0] == 'ok' else o, 'model': r})
            break
        if s['op'] == 'write' and o[0] == 'ok':
            a, b = o[1]['file'], r[1]
            lid = LabelIdent(ident)
            lid.seq = seq
            files.append((i, a, vrl, lid))
            if a != b:
                agree = False
                pos = next((j for j in range(min(len(a), len(b))) if a[j] != b[j]), min(len(a), len(b)))
                ctx.violation('file-differs-from-model', {'program': strip_private(prog), 'step': i, 'first_difference_at': pos, 'impl_len': len(a),
                                                          'model_len': len(b), 'impl_around': a[max(0, pos - 16):pos + 32].hex(),
                                                          'model_around': b[max(0, pos - 16):pos + 32].hex()})
                break
    return {'outs': outs, 'model': rep, 'agree': agree, 'files': files}


def decode(ctx, data, vrl, ident):
    return filemodel.read_file(ctx, data, vrl, ident, seq=getattr(ident, 'seq', 1))


def shift_refs(ops, off):
    ops = copy.deepcopy(ops)
    m = {}
    class _M(dict):
        def get(self, k, d=None):
            return k + off
    remap_refs(ops, _M())
    for s in ops:
        if s['op'] == 'assign':
            s['obj'] += off
    return ops


def gen_multi_lf(rng, naming=None, n_lf=None, vrl=None):
    """Several logical files in one DLISFile. naming: 'distinct' (every set name is specific to its logical file),
    'default' (all use the default names: shared sets, D12), 'partial' (only some shared), 'origin_only' (only the ORIGIN
    set is shared: refused at write because the shared defining origin's FILE-ID cannot equal both header ids)."""
    naming = naming or rng.choice(['distinct', 'distinct', 'default', 'partial', 'origin_only'])
    n_lf = n_lf or rng.choice([2, 2, 3, 4, 5])
    vrl = vrl or rng.choice([128, 8192])
    prog = [{'op': 'newfile', 'ident': 'MAIN-STORAGE-UNIT', 'seq': 1, 'vrl': vrl}]
    per_lf = []
    off = 0
    # channel names: specific to their logical file, or (a third of the 'distinct' programs) the same in every logical file —
    # each logical file keeps its own arrays under those names
    same_channel_names = (naming == 'distinct' and rng.random() < 0.35)
    for li in range(n_lf):
        spec = specgen.gen_spec(rng, vrl=vrl, n_objects=rng.randrange(0, 6), multi_set=False, n_frames=rng.choice([1, 1, 2]))
        p = apimodel.from_spec(spec, write=False)
        head = dict(p[1])
        head['fh_id'] = specgen.r_str('LF-%d' % li)
        head['fh_seq'] = specgen.r_int(rng.choice([li + 1, n_lf - li, n_lf - li, 1, 7, 9999999999 - li]))     # not monotonic: creation order is what counts
        ops = shift_refs(p[2:], off)
        n_created = sum(1 for s in ops if s['op'] in ('origin', 'add', 'channel', 'frame'))
        for s in ops:
            s['lf'] = li
            if s['op'] == 'origin':
                s['_fh_id'] = 'LF-%d' % li
            if s['op'] in ('origin', 'add', 'channel', 'frame'):
                if naming == 'origin_only':
                    s['set_name'] = None if s['op'] == 'origin' else 'LF%d' % li     # only the ORIGIN set is shared
                elif naming == 'distinct' or (naming == 'partial' and rng.random() < 0.6):
                    s['set_name'] = 'LF%d' % li
                else:
                    s['set_name'] = None
                if s['op'] == 'channel' and not same_channel_names:
                    s['name'] = specgen.r_str('L%d_%s' % (li, s['name']['v']))    # dataset names are per logical file anyway
        off += n_created
        per_lf.append((head, ops))
    for head, _ in per_lf:
        prog.append(head)
    # interleave the logical files' operations, keeping each file's own order
    queues = [list(ops) for _, ops in per_lf]
    if rng.random() < 0.5:
        for q in queues:
            prog += q
    else:
        # interleaving changes creation indices: remap references afterwards
        order = []
        idx = [0] * n_lf
        base = [0] * n_lf
        b = 0
        for li, q in enumerate(queues):
            base[li] = b
            b += sum(1 for s in q if s['op'] in ('origin', 'add', 'channel', 'frame'))
        newidx = {}
        created = 0
        seen_per = [0] * n_lf
        while any(idx[i] < len(queues[i]) for i in range(n_lf)):
            li = rng.choice([i for i in range(n_lf) if idx[i] < len(queues[i])])
            s = queues[li][idx[li]]
            idx[li] += 1
            if s['op'] in ('origin', 'add', 'channel', 'frame'):
                newidx[base[li] + seen_per[li]] = created
                seen_per[li] += 1
                created += 1
            order.append(s)
        remap_refs(order, newidx)
        for s in order:
            if s['op'] == 'assign':
                s['obj'] = newidx.get(s['obj'], s['obj'])
        prog += order
    # half of the writes pass a dict for `data` (empty when every channel carries its array): the arrays attached to the
    # channels of one logical file must not reach another one through it
    prog.append({'op': 'write', 'data': 'dict'} if rng.random() < 0.5 else {'op': 'write'})
    return prog, naming


def gen_many_lf(n_lf, rows=3, extra=0):
    """n_lf logical files with their own set names, each the minimum a logical file needs (origin, one channel with data, one
    frame) plus `extra` axes: whether a file can be written does not depend on HOW MANY logical files / objects it has."""
    R0 = specgen
    prog = [{'op': 'newfile', 'ident': 'MAIN-STORAGE-UNIT', 'seq': 1, 'vrl': 8192}]
    for li in range(n_lf):
        prog.append({'op': 'lf', 'fh_id': R0.r_str('LF-%d' % li), 'fh_seq': R0.r_int(li + 1)})
    created = 0
    for li in range(n_lf):
        sn = 'LF%d' % li
        prog.append({'op': 'origin', 'lf': li, 'name': R0.r_str('O'), 'set_name': sn, 'origin': None, '_fh_id': 'LF-%d' % li,
                     'kw': {'file_set_number': R0.r_int(1), 'creation_time': R0.r_str('2020/01/01 00:00:00')}})
        prog.append({'op': 'channel', 'lf': li, 'name': R0.r_str('CH'), 'set_name': sn, 'origin': None, 'kw': {},
                     'data': {'dtype': 'float64', 'rows': rows, 'width': None, 'seed': 7 + li}})
        prog.append({'op': 'frame', 'lf': li, 'name': R0.r_str('FR'), 'set_name': sn, 'origin': None, 'kw': {},
                     'channels': R0.r_list([R0.r_ref(created + 1)])})
        created += 3
        for a in range(extra):
            prog.append({'op': 'add', 'lf': li, 'type': 'axis', 'name': R0.r_str('AX%d' % a), 'set_name': sn, 'origin': None, 'kw': {}})
            created += 1
    prog.append({'op': 'write'})
    return prog


def gen_frames_same_names(rng):
    """One logical file, two or three frames whose channels repeat the same names, kept apart by CHANNEL set names (or by
    copy numbers in one set), each channel with its own inline data and each frame with its own row count."""
    R0 = specgen
    prog = [{'op': 'newfile', 'ident': 'MAIN-STORAGE-UNIT', 'seq': 1, 'vrl': rng.choice([128, 8192])},
            {'op': 'lf', 'fh_id': R0.r_str('H'), 'fh_seq': R0.r_int(1)},
            {'op': 'origin', 'lf': 0, 'name': R0.r_str('O'), 'set_name': None, 'origin': None, '_fh_id': 'H',
             'kw': {'file_set_number': R0.r_int(1), 'creation_time': R0.r_str('2020/01/01 00:00:00')}}]
    created = 1
    nfr = rng.choice([2, 2, 3])
    names = rng.sample(['DEPTH', 'VAL', 'AMP', 'T'], rng.choice([1, 2, 3]))
    named_sets = rng.random() < 0.7
    for f in range(nfr):
        rows = 3 + 2 * f + rng.randrange(0, 2)
        chans = []
        for nm in names:
            prog.append({'op': 'channel', 'lf': 0, 'name': R0.r_str(nm), 'set_name': ('CS%d' % f) if named_sets else None, 'origin': None, 'kw': {},
                         'data': {'dtype': rng.choice(['float64', 'int32', 'uint8']), 'rows': rows, 'width': rng.choice([None, None, 2]),
                                  'seed': rng.randrange(1 << 20)}})
            chans.append(created)
            created += 1
        prog.append({'op': 'frame', 'lf': 0, 'name': R0.r_str('FRAME-%d' % f), 'set_name': None, 'origin': None, 'kw': {},
                     'channels': R0.r_list([R0.r_ref(i) for i in chans])})
        created += 1
    prog.append({'op': 'write'})
    return prog


HC_OK_NAMES = ['A', 'CH-1', 'DEPTH', 'X_2', 'TOOL-9', '0', 'Z']
HC_BAD_NAMES = ['a', 'name with space', 'Ch', 'x.y', '', 'É']


def gen_hc(rng):
    """Programs exercising the high-compatibility context: nested contexts, restricted aspects violated or not."""
    vrl = 8192
    prog = [{'op': 'newfile', 'ident': rng.choice(['MAIN-STORAGE-UNIT', 'SET-1']), 'seq': 1, 'vrl': vrl}]
    depth = 0

    def maybe_ctx():
        nonlocal depth
        k = rng.random()
        if k < 0.3:
            prog.append({'op': 'hc_enter'})
            depth += 1
        elif k < 0.45 and depth:
            prog.append({'op': 'hc_exit'})
            depth -= 1
    maybe_ctx()
    hid = rng.choice(['FILE-1', 'HEADER', 'file one', 'H'])
    prog.append({'op': 'lf', 'fh_id': specgen.r_str(hid), 'fh_seq': specgen.r_int(1)})
    lf_ok = True
    maybe_ctx()
    prog.append({'op': 'origin', 'lf': 0, 'name': specgen.r_str(rng.choice(HC_OK_NAMES + HC_BAD_NAMES[:2])), 'set_name': None, 'origin': None,
                 '_fh_id': hid, 'kw': {'file_set_number': specgen.r_int(7), 'creation_time': specgen.r_str('2020/01/01 00:00:00')} if (rng.random() < 0.5 or not depth)
                 else {'creation_time': specgen.r_str('2020/01/01 00:00:00')}})
    created = 1
    nch = rng.randrange(1, 4)
    chans = []
    for j in range(nch):
        maybe_ctx()
        dt = rng.choice(['uint8', 'uint16', 'uint32', 'float32', 'float64', 'float64', 'int16', 'int32'])
        units = rng.choice([None, specgen.r_str('m'), specgen.r_enum('Unit', 'METER'), specgen.r_str('furlongs-per-fortnight'), specgen.r_str('M'), specgen.r_str(' m'), specgen.r_str('FT')])
        kw = {} if units is None else {'units': units}
        prog.append({'op': 'channel', 'lf': 0, 'name': specgen.r_str(rng.choice(HC_OK_NAMES + HC_BAD_NAMES[:3]) + str(j)), 'set_name': None, 'origin': None,
                     'kw': kw, 'data': {'dtype': dt, 'rows': 4, 'width': rng.choice([None, None, 2]), 'seed': rng.randrange(1 << 20)}})
        chans.append(created)
        created += 1
    maybe_ctx()
    frame_ch = chans if rng.random() < 0.8 else chans[:-1] or chans
    prog.append({'op': 'frame', 'lf': 0, 'name': specgen.r_str(rng.choice(HC_OK_NAMES)), 'set_name': None, 'origin': None, 'kw': {},
                 'channels': specgen.r_list([specgen.r_ref(i) for i in frame_ch])})
    created += 1
    if rng.random() < 0.25:
        prog.append({'op': 'frame', 'lf': 0, 'name': specgen.r_str('F2'), 'set_name': None, 'origin': None, 'kw': {},
                     'channels': specgen.r_list([specgen.r_ref(chans[0])])})
        created += 1
    for _ in range(rng.randrange(0, 4)):
        maybe_ctx()
        tk = rng.choice(['equipment', 'zone', 'axis', 'tool', 'message'])
        kw = {}
        if tk == 'equipment':
            kw = {'eq_type': rng.choice([specgen.r_str('Tool'), specgen.r_str('not-a-type'), specgen.r_enum('EquipmentType', 'TOOL'), specgen.r_str('TOOL'), specgen.r_str('tool ')]),
                  'location': rng.choice([specgen.r_str('Well'), specgen.r_str('elsewhere'), specgen.r_str('WELL'), specgen.r_str('well')]), 'serial_number': specgen.r_str(rng.choice(['SN-1', 'sn 1']))}
        prog.append({'op': 'add', 'lf': 0, 'type': tk, 'name': specgen.r_str(rng.choice(HC_OK_NAMES + HC_BAD_NAMES)), 'set_name': None, 'origin': None, 'kw': kw})
        created += 1
    # later assignments of restricted aspects, in whatever mode is current THEN (objects may have been created in the other mode)
    objs_t = [(i, s0.get('type') or s0['op']) for i, s0 in enumerate([x for x in prog if x['op'] in ('origin', 'add', 'channel', 'frame')])]
    for _ in range(rng.randrange(0, 4)):
        maybe_ctx()
        i, tk = rng.choice(objs_t)
        if tk == 'channel':
            a = {'attr': 'units', 'part': 'value', 'raw': rng.choice([specgen.r_str('m'), specgen.r_str('furlongs-per-fortnight'), specgen.r_enum('Unit', 'METER'), specgen.r_str('M'), specgen.r_str('Ft')])}
        elif tk == 'equipment':
            a = rng.choice([{'attr': '_type', 'part': 'value', 'raw': rng.choice([specgen.r_str('Tool'), specgen.r_str('not-a-type'), specgen.r_str('TOOL')])},
                            {'attr': 'location', 'part': 'value', 'raw': rng.choice([specgen.r_str('Well'), specgen.r_str('elsewhere'), specgen.r_str('well ')])},
                            {'attr': 'height', 'part': 'units', 'raw': rng.choice([specgen.r_str('m'), specgen.r_str('cubits')])}])
        elif tk == 'frame':
            a = {'attr': 'index_type', 'part': 'value', 'raw': rng.choice([specgen.r_str('BOREHOLE-DEPTH'), specgen.r_str('sideways'), specgen.r_str('borehole-depth'), specgen.r_str(' BOREHOLE-DEPTH')])}
        elif tk == 'zone':
            a = {'attr': 'maximum', 'part': 'units', 'raw': rng.choice([specgen.r_str('m'), specgen.r_str('cubits')])}
        else:
            continue
        prog.append({'op': 'assign', 'obj': i, '_type': tk, **a})
    maybe_ctx()
    prog.append({'op': 'write'})
    while depth:
        prog.append({'op': 'hc_exit'})
        depth -= 1
    if rng.random() < 0.5:
        prog.append({'op': 'add', 'lf': 0, 'type': 'axis', 'name': specgen.r_str('lower case after the context'), 'set_name': None, 'origin': None, 'kw': {}})
    return prog


def rewrite_history(rng):
    """P; write; Q; write in one process, against P; Q; write in a fresh process. Q only edits the specification:
    assignments (incl. values of another kind) and origin_reference changes to another origin of the logical file."""
    prog, _ = gen_program(rng, flavor='valid')
    body = [s for s in prog if s['op'] != 'write']
    fh = next((s.get('_fh_id') for s in body if s['op'] == 'origin'), 'H')
    body.append({'op': 'origin', 'lf': 0, 'name': specgen.r_str('ORIGIN-77'), 'set_name': None, 'origin': specgen.r_int(77), '_fh_id': fh,
                 'kw': {'file_set_number': specgen.r_int(3), 'creation_time': specgen.r_str('2020/01/01 00:00:00')}})
    created = [s for s in body if s['op'] in ('origin', 'add', 'channel', 'frame')]
    if not any(s['op'] == 'nofmt' for s in body):
        # make sure there is a NO-FORMAT object with data records: its identity opens every one of them
        body.append({'op': 'add', 'lf': 0, 'type': 'no_format', 'name': specgen.r_str('NF-DATA'), 'set_name': None, 'origin': None,
                     'kw': {'consumer_name': specgen.r_str('X')}})
        ci = len(created)
        created.append(body[-1])
        for pl in ({'kind': 'bytes', 'hex': '00ff10'}, {'kind': 'text', 'text': 'second packet'}):
            body.append({'op': 'nofmt', 'lf': 0, 'obj': specgen.r_ref(ci), 'payload': pl})
    q = rekind_assignments(rng, body, limit=4)
    tail = [s for s in add_assignments(rng, body) if s['op'] == 'assign' and s not in body
            and s['_type'] not in ('calibration_measurement', 'parameter', 'computation', 'channel', 'frame')]
    q += tail[:3]
    # an arbitrary Python object is written through str(): its repr holds a memory address, which differs between processes
    q = [x for x in q if '"other"' not in json.dumps(x.get('raw'))]
    movable = [i for i, s in enumerate(created) if s['op'] != 'origin' and s.get('lf', 0) == 0]
    rng.shuffle(movable)
    # objects that open indirectly formatted records (NO-FORMAT objects with data, frames) first: their identity is in the data records too
    movable.sort(key=lambda i: 0 if (created[i].get('type') == 'no_format' or created[i]['op'] == 'frame') else 1)
    for i in movable[:rng.choice([1, 1, 2, 3])]:
        q.append({'op': 'set_origin', 'obj': i, 'raw': specgen.r_int(77)})
    # the header item is edited after construction (plain attributes: nothing is validated before the next write)
    if rng.random() < 0.5:
        if rng.random() < 0.7:
            q.append({'op': 'set_header', 'lf': 0, 'field': 'seq', 'raw': specgen.r_int(rng.choice([2, 7, 9999999999, 20261001123, 12345678901]))})
        else:
            q.append({'op': 'set_header', 'lf': 0, 'field': 'id', 'raw': specgen.r_str(rng.choice([fh, fh, 'OTHER-ID', 'x' * 66, 'y' * 79]))})
    # the storage unit label is a plain object too: its fields are what they are at the write
    if rng.random() < 0.5:
        f = rng.choice(['vrl', 'vrl', 'ident', 'seq'])
        q.append({'op': 'set_label', 'field': f,
                  'value': {'vrl': rng.choice([20, 64, 128, 256, 8192, 16384, 18, 21, 16386]),
                            'ident': rng.choice(['OTHER-UNIT', '', 'u' * 60, 'v' * 61]),
                            'seq': rng.choice([2, 9999, 10000, 0])}[f]})
    rng.shuffle(q)
    return body + [{'op': 'write'}] + q + [{'op': 'write'}], body + q + [{'op': 'write'}]



NON_ASCII = ['\u00e9', '\u00b0', '\u00df', '\u03a9', '\u00b5', '\u00bd', '\u4e2d', '\x80', '\xff', 'e\u0301', '\ufb01']


def nonascii_program(rng):
    """A valid program in which ONE text leaf of an add_*/assignment argument holds a character outside ASCII (accented
    letter, degree sign, ligature, CJK...). Such a character has no encoding under ASCII/IDENT/UNITS: the call or the write
    is refused, or else whatever is written must still announce exactly the bytes that follow."""
    for _ in range(50):
        prog, _m = gen_program(rng, flavor='valid')
        leaves = []

        def walk(raw, where):
            if isinstance(raw, dict):
                if raw.get('t') == 'str' and isinstance(raw.get('v'), str):
                    leaves.append((raw, where))
                for k in ('v', 'value', 'units'):
                    x = raw.get(k)
                    if isinstance(x, dict):
                        walk(x, where)
                    elif isinstance(x, list):
                        for y in x:
                            walk(y, where)
        for s_ in prog:
            if s_['op'] in ('origin', 'add', 'channel', 'frame'):
                for k, raw in s_.get('kw', {}).items():
                    walk(raw, (s_['op'], s_.get('type'), k))
            elif s_['op'] == 'assign':
                walk(s_.get('raw'), ('assign', s_.get('_type'), s_.get('attr')))
        if not leaves:
            continue
        prog = copy.deepcopy(prog) if False else prog
        leaf, where = rng.choice(leaves)
        c = rng.choice(NON_ASCII)
        v = leaf['v']
        pos = rng.randrange(len(v) + 1)
        leaf['v'] = v[:pos] + c * rng.choice([1, 1, 2]) + v[pos:]
        return prog, {'where': where, 'char': c}
    return None, None


def gen_axis_dimension(rng):
    """PARAMETER / COMPUTATION / CALIBRATION-MEASUREMENT objects with axes: the number of axes and their coordinate counts agree
    or disagree with the dimension, which is given, or left to be derived from the values at write time. Written twice."""
    R0 = specgen
    prog = [{'op': 'newfile', 'ident': 'MAIN-STORAGE-UNIT', 'seq': 1, 'vrl': rng.choice([128, 8192])},
            {'op': 'lf', 'fh_id': R0.r_str('H'), 'fh_seq': R0.r_int(1)},
            {'op': 'origin', 'lf': 0, 'name': R0.r_str('O'), 'set_name': None, 'origin': None, '_fh_id': 'H',
             'kw': {'file_set_number': R0.r_int(1), 'creation_time': R0.r_str('2020/01/01 00:00:00')}},
            {'op': 'channel', 'lf': 0, 'name': R0.r_str('CH'), 'set_name': None, 'origin': None, 'kw': {},
             'data': {'dtype': 'float64', 'rows': 3, 'width': None, 'seed': rng.randrange(1 << 20)}},
            {'op': 'frame', 'lf': 0, 'name': R0.r_str('FR'), 'set_name': None, 'origin': None, 'kw': {},
             'channels': R0.r_list([R0.r_ref(1)])}]
    created = 3
    n_ax = rng.choice([1, 2, 3])
    counts = []
    for i in range(n_ax):
        c = rng.choice([None, 1, 2, 3])
        counts.append(c)
        kw = {} if c is None else {'coordinates': R0.r_list([R0.r_float(R0.f_bits(float(j))) for j in range(c)])}
        prog.append({'op': 'add', 'lf': 0, 'type': 'axis', 'name': R0.r_str('AX%d' % i), 'set_name': None, 'origin': None, 'kw': kw})
    ax0 = created
    created += n_ax
    for _ in range(rng.choice([1, 1, 2])):
        tk = rng.choice(['parameter', 'computation', 'calibration_measurement'])
        shape = rng.choice([[], [], [2], [3], [2, 3]])

        def val():
            def mk(sh):
                if not sh:
                    return R0.r_float(R0.f_bits(float(rng.randrange(-5, 6))))
                return R0.r_list([mk(sh[1:]) for _ in range(sh[0])])
            return mk(shape)
        nvals = 1 if tk == 'parameter' else rng.choice([1, 2])
        vals = R0.r_list([val() for _ in range(nvals)])
        k_ax = rng.choice([0, 1, len(shape) or 1, len(shape) or 1, n_ax])
        k_ax = min(k_ax, n_ax)
        kw = {'axis': R0.r_list([R0.r_ref(ax0 + j) for j in range(k_ax)])} if k_ax else {}
        if tk == 'calibration_measurement':
            for an in rng.sample(['standard', 'maximum_deviation', 'plus_tolerance'], rng.choice([1, 2])):
                kw[an] = vals
        else:
            kw['values'] = vals
        if rng.random() < 0.3:
            kw['dimension'] = R0.r_list([R0.r_int(x) for x in rng.choice([shape or [1], [1], [2], [2, 3]])])
        prog.append({'op': 'add', 'lf': 0, 'type': tk, 'name': R0.r_str('P'), 'set_name': None, 'origin': None, 'kw': kw})
        created += 1
    prog += [{'op': 'write'}, {'op': 'write'}]
    return prog


def gen_value_lists(rng, n=None, bad=None):
    """Multivalued integer attributes holding n values (1 .. 130, around 15/16/17), all in the range of their code or with
    ONE value outside it at a random position: the value layer above write_struct must neither wrap nor drop it."""
    R0 = specgen
    n = n or rng.choice([1, 2, 15, 16, 17, 40, 130])
    bad = rng.choice([None, None, 2 ** 31, -2 ** 31 - 1, 2 ** 32 + 5, 2 ** 40]) if bad is None else bad
    vals = [rng.randrange(-2 ** 31, 2 ** 31) for _ in range(n)]
    if rng.random() < 0.3:
        vals = [rng.choice([-2, -1, 0, 1]) for _ in range(n)]
    pos = None
    if bad:
        pos = rng.randrange(n)
        vals[pos] = bad
    tk, par = rng.choice([('axis', 'coordinates'), ('calibration_coefficient', 'coefficients'), ('calibration_coefficient', 'references')])
    prog = [{'op': 'newfile', 'ident': 'MAIN-STORAGE-UNIT', 'seq': 1, 'vrl': rng.choice([128, 8192])},
            {'op': 'lf', 'fh_id': R0.r_str('H'), 'fh_seq': R0.r_int(1)},
            {'op': 'origin', 'lf': 0, 'name': R0.r_str('O'), 'set_name': None, 'origin': None, '_fh_id': 'H',
             'kw': {'file_set_number': R0.r_int(1), 'creation_time': R0.r_str('2020/01/01 00:00:00')}},
            {'op': 'add', 'lf': 0, 'type': tk, 'name': R0.r_str('V'), 'set_name': None, 'origin': None,
             'kw': {par: R0.r_list([R0.r_int(v) for v in vals])}},
            {'op': 'channel', 'lf': 0, 'name': R0.r_str('CH'), 'set_name': None, 'origin': None, 'kw': {},
             'data': {'dtype': 'float64', 'rows': 2, 'width': None, 'seed': 9}},
            {'op': 'frame', 'lf': 0, 'name': R0.r_str('F'), 'set_name': None, 'origin': None, 'kw': {}, 'channels': R0.r_list([R0.r_ref(2)])},
            {'op': 'write'}]
    return prog, {'type': tk, 'attribute': par, 'count': n, 'out_of_range': bad, 'position': pos}


def gen_history(rng, n_files=None):
    """Several DLISFile objects built and written one after another in one process, reusing names."""
    n_files = n_files or rng.choice([2, 3])
    prog = []
    for k in range(n_files):
        p, _ = gen_program(rng, flavor=rng.choice(['valid', 'valid', 'assign', 'rejects']), vrl=rng.choice([128, 8192]))
        prog += p
        if rng.random() < 0.3:
            prog.append({'op': 'write'})      # write the same DLISFile again
    return prog


def reject_kinds(tkey):
    """Keyword arguments that make add_<tkey> raise AFTER the item registered itself (bad attribute values)."""
    A = specgen.api()[tkey]
    out = []
    for p, an in A['params'].items():
        if an is None or an not in A['attrs']:
            continue
        cls = A['attrs'][an]['cls']
        if cls == 'TextAttribute':
            out.append({p: R.r_int(5)})
        elif cls in ('NumericAttribute', 'DimensionAttribute'):
            out.append({p: R.r_str('not a number')})
        elif cls == 'StatusAttribute':
            out.append({p: R.r_int(7)})
        elif cls in ('EFLRAttribute', 'EFLROrTextAttribute'):
            out.append({p: R.r_int(3) if not A['attrs'][an]['mv'] else R.r_list([R.r_int(3)])})
        elif cls == 'DTimeAttribute':
            out.append({p: R.r_str('yesterday')})
        elif cls == 'PropertiesAttribute':
            out.append({p: R.r_list([R.r_str('NOT-A-PROPERTY')])})
        elif cls == 'IdentAttribute' and A['attrs'][an]['has_converter'] and an in ('domain', 'phase', 'status'):
            out.append({p: R.r_str('NOT-A-MEMBER')})
    return out


def d22_witness():
    """The recorded history of known finding D22: a rejected add_origin (non-str name) leaves the unnamed ORIGIN set
    registered; origin A goes to a named set, origin B (reference 7) to the unnamed one, which now comes first."""
    R0 = specgen
    return [{'op': 'newfile', 'ident': 'MAIN-STORAGE-UNIT', 'seq': 1, 'vrl': 8192},
            {'op': 'lf', 'fh_id': R0.r_str('H'), 'fh_seq': R0.r_int(1)},
            {'op': 'origin', 'lf': 0, 'name': R0.r_int(3), 'set_name': None, 'origin': None, '_fh_id': 'H', 'kw': {}},
            {'op': 'origin', 'lf': 0, 'name': R0.r_str('A'), 'set_name': 'S', 'origin': None, '_fh_id': 'H',
             'kw': {'file_set_number': R0.r_int(1), 'creation_time': R0.r_str('2020/01/01 00:00:00')}},
            {'op': 'origin', 'lf': 0, 'name': R0.r_str('B'), 'set_name': None, 'origin': R0.r_int(7), '_fh_id': 'H',
             'kw': {'file_set_number': R0.r_int(1), 'creation_time': R0.r_str('2020/01/01 00:00:00')}},
            {'op': 'add', 'lf': 0, 'type': 'zone', 'name': R0.r_str('Z'), 'set_name': None, 'origin': None, 'kw': {}},
            {'op': 'channel', 'lf': 0, 'name': R0.r_str('CH'), 'set_name': None, 'origin': None, 'kw': {},
             'data': {'dtype': 'float64', 'rows': 3, 'width': None, 'seed': 9}},
            {'op': 'frame', 'lf': 0, 'name': R0.r_str('F'), 'set_name': None, 'origin': None, 'kw': {}, 'channels': R0.r_list([R0.r_ref(4)])},
            {'op': 'write'}]


def gen_origin_sandwich(rng, explicit=None, objects_before=True, second_explicit=None):
    """A rejected add_origin (rejected after registration: bad CREATION-TIME) as the FIRST origin call of the logical
    file, objects without an origin reference before / after it, then the accepted (defining) origin, more objects,
    channel, frame, write."""
    def obj(tk, nm):
        return {'op': 'add', 'lf': 0, 'type': tk, 'name': R.r_str(nm), 'set_name': None, 'origin': None, 'kw': {}}
    prog = [{'op': 'newfile', 'ident': 'MAIN-STORAGE-UNIT', 'seq': 1, 'vrl': 8192},
            {'op': 'lf', 'fh_id': R.r_str('H'), 'fh_seq': R.r_int(1)}]
    n = 0
    if objects_before:
        prog.append(obj('zone', 'Z0')); n += 1
    prog.append({'op': 'origin', 'lf': 0, 'name': R.r_str('REJECTED-ORIGIN'), 'set_name': None,
                 'origin': None if explicit is None else R.r_int(explicit), '_fh_id': 'H',
                 'kw': {'file_set_number': R.r_int(2), 'creation_time': R.r_str('not a date')}}); n += 1
    prog.append(obj('zone', 'Z1')); n += 1
    prog.append(obj(rng.choice(['axis', 'tool', 'comment']), 'X1')); n += 1
    prog.append({'op': 'origin', 'lf': 0, 'name': R.r_str('O'), 'set_name': None,
                 'origin': None if second_explicit is None else R.r_int(second_explicit), '_fh_id': 'H',
                 'kw': {'file_set_number': R.r_int(1), 'creation_time': R.r_str('2020/01/01 00:00:00')}}); n += 1
    prog.append(obj('zone', 'Z2')); n += 1
    prog.append({'op': 'channel', 'lf': 0, 'name': R.r_str('CH'), 'set_name': None, 'origin': None, 'kw': {},
                 'data': {'dtype': 'float64', 'rows': 3, 'width': None, 'seed': 9}})
    ch = n; n += 1
    prog.append({'op': 'frame', 'lf': 0, 'name': R.r_str('F'), 'set_name': None, 'origin': None, 'kw': {}, 'channels': R.r_list([R.r_ref(ch)])})
    prog.append({'op': 'write'})
    return prog


def gen_sandwich(rng, tkey=None, inner=None):
    """accepted N, rejected N (after registration), accepted N ... in ONE set, then channels / frame and a write; also a
    rejected add_channel carrying data followed by an accepted channel of that name without data."""
    tkey = tkey or rng.choice(specgen.SET_KINDS)
    kinds = reject_kinds(tkey) or [None]
    bad = rng.choice(kinds) if inner is None else inner
    nm = R.r_str(rng.choice(['N', 'ZONE-1', 'A']))
    sn = rng.choice([None, None, 'S1'])
    prog = [{'op': 'newfile', 'ident': 'MAIN-STORAGE-UNIT', 'seq': 1, 'vrl': 8192},
            {'op': 'lf', 'fh_id': R.r_str('H'), 'fh_seq': R.r_int(1)},
            {'op': 'origin', 'lf': 0, 'name': R.r_str('O'), 'set_name': None, 'origin': None, '_fh_id': 'H',
             'kw': {'file_set_number': R.r_int(1), 'creation_time': R.r_str('2020/01/01 00:00:00')}}]
    pattern = rng.choice(['ARA', 'ARARA', 'RA', 'AARA', 'ARRA'])
    for c in pattern:
        step = {'op': 'add', 'lf': 0, 'type': tkey, 'name': nm, 'set_name': sn, 'origin': None, 'kw': {}}
        if c == 'R':
            if bad == 'origin_type':
                step['origin'] = rng.choice([R.r_list([R.r_int(1)]), R.r_str('one'), R.r_float(specgen.f_bits(1.5))])   # rejected BEFORE anything else of the item exists
            elif bad is None:
                step['name'] = R.r_int(3)
            else:
                step['kw'] = copy.deepcopy(bad)
        prog.append(step)
    ncreated = 1 + len(pattern)
    # channels: a rejected one carrying data, then (sometimes) an accepted one of the same name without data
    rej_ch = {'op': 'channel', 'lf': 0, 'name': R.r_str('CH'), 'set_name': None, 'origin': None,
              'kw': {rng.choice(['minimum_value', 'maximum_value']): R.r_str('x')},
              'data': {'dtype': 'float64', 'rows': 3, 'width': None, 'seed': 5}}
    if rng.random() < 0.5:
        rej_ch['cast'] = 'bad'
        rej_ch['kw'] = {}
    prog.append(rej_ch)
    ncreated += 1
    second_has_data = rng.random() < 0.5
    prog.append({'op': 'channel', 'lf': 0, 'name': R.r_str('CH'), 'set_name': None, 'origin': None, 'kw': {},
                 'data': {'dtype': 'float64', 'rows': 3, 'width': None, 'seed': 9} if second_has_data else None})
    ch = ncreated
    ncreated += 1
    prog.append({'op': 'frame', 'lf': 0, 'name': R.r_str('F'), 'set_name': None, 'origin': None, 'kw': {}, 'channels': R.r_list([R.r_ref(ch)])})
    prog.append({'op': 'write'})
    return prog, (tkey, pattern)
