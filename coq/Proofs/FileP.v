(* FileP.v — composition: every file the API model writes is accepted by the complete strict reader.
   Inv (shape + structure) holds in every reachable state, is preserved by the mutations a write performs, makes every
   explicitly formatted record decodable under the component grammar (EflrP.enc_set_dec) and every record body a
   list of bytes (BytesP), so that the framing theorems (SegmentP) apply to the output of Write.write. *)
From DV Require Import Model.ApiDispatch Model.FileReader Proofs.BaseP Proofs.PrimP Proofs.SegmentP Proofs.IflrP
     Proofs.EflrP Proofs.BuilderP Proofs.WriteP Proofs.BytesP Proofs.StructP.
From Coq Require Import Lia ZifyBool.

Definition Inv (st : bstate) : Prop := Inv_shape st /\ Inv_struct st.

Theorem reachable_inv ops ps : Inv (bstate_of (run_ops ps b_init ops)).
Proof. split; [apply run_ops_inv_shape, inv_shape_init | apply run_ops_inv_struct, inv_struct_init]. Qed.

(* ---------- item updates that keep type, attribute count and shape ---------- *)
Definition iid (it : item) : list Z * option Z * Z := (i_name it, i_origin it, i_copy it).
Definition item_ext (it it' : item) : Prop := isig it' = isig it /\ (item_shape_ok it -> item_shape_ok it') /\ iid it' = iid it.

Lemma item_ext_refl it : item_ext it it.
Proof. repeat split; auto. Qed.
Lemma item_ext_trans a b c : item_ext a b -> item_ext b c -> item_ext a c.
Proof. intros (E1 & S1 & I1) (E2 & S2 & I2). split; [congruence|]. split; [auto | congruence]. Qed.

Definition mv_at (it : item) (idx : nat) : bool := ad_mv (nth idx (td_attrs (tdef_at (i_ty it))) dummy_adef).
Definition not_list (v : spv) : Prop := match v with SPList _ => False | _ => True end.

Lemma put_value_ext it idx v : (mv_at it idx = false -> not_list v) -> item_ext it (put_value it idx v).
Proof.
  intros Hv. split; [|split; [|reflexivity]].
  - unfold isig, put_value. cbn [i_ty i_attrs]. rewrite length_upd. reflexivity.
  - intros Hok. unfold item_shape_ok, put_value. cbn [i_ty i_attrs]. apply shape_upd_value; [exact Hok | exact Hv | right; exact I].
Qed.

Lemma put_units_ext it idx u : item_ext it (put_units it idx u).
Proof.
  split; [|split; [|reflexivity]].
  - unfold isig, put_units. cbn [i_ty i_attrs]. rewrite length_upd. reflexivity.
  - intros Hok. unfold item_shape_ok, put_units. cbn [i_ty i_attrs]. apply shape_upd_value; [exact Hok | | right; exact I].
    intros Hmv. apply (Hok idx Hmv).
Qed.

Lemma put_cast_ext it c : item_ext it (put_cast it c).
Proof. split; [reflexivity | split; [intros H; exact H | reflexivity]]. Qed.

Lemma assign_value_if_none_ext it idx v : (mv_at it idx = false -> not_list v) -> item_ext it (assign_value_if_none it idx v).
Proof. intros Hv. unfold assign_value_if_none. destruct (fst (get_attr it idx)); [apply put_value_ext; exact Hv | apply item_ext_refl | apply item_ext_refl]. Qed.

Lemma assign_units_if_none_ext it idx u : item_ext it (assign_units_if_none it idx u).
Proof. unfold assign_units_if_none. destruct (snd (get_attr it idx)); [apply item_ext_refl|]. destruct u; [apply put_units_ext | apply item_ext_refl]. Qed.

Lemma mv_at_sig it it' idx : isig it' = isig it -> mv_at it' idx = mv_at it idx.
Proof. intros E. unfold mv_at. apply (f_equal fst) in E. cbn in E. rewrite E. reflexivity. Qed.

(* ---------- state updates ---------- *)
Lemma set_item_inv st i it : Inv st -> item_ext (item_at st i) it -> Inv (set_item st i it).
Proof.
  intros [Hs Ht] (E & S & _). split.
  - apply inv_shape_set_item; [exact Hs|]. apply S. apply Hs.
  - apply set_item_struct; assumption.
Qed.

Lemma set_lf_inv' st l f : Inv st -> Inv (set_lf st l f).
Proof. intros [Hs Ht]. split; [eapply inv_shape_same_items; [|exact Hs]; reflexivity | apply set_lf_struct; exact Ht]. Qed.

(* the facts about other items that write-time code reads are not needed: only the updated item matters *)

(* ---------- schema facts used by the write-time defaults (finite table, regenerated from /repo) ---------- *)
Definition mv_of (ty : nat) (n : list Z) : bool := ad_mv (nth (aidx ty n) (td_attrs (tdef_at ty)) dummy_adef).
Lemma mv_chan_dim : mv_of T_CHANNEL n_dimension = true.      Proof. vm_compute. reflexivity. Qed.
Lemma mv_chan_el : mv_of T_CHANNEL n_element_limit = true.   Proof. vm_compute. reflexivity. Qed.
Lemma mv_par_dim : mv_of T_PARAMETER n_dimension = true.     Proof. vm_compute. reflexivity. Qed.
Lemma mv_comp_dim : mv_of T_COMPUTATION n_dimension = true.  Proof. vm_compute. reflexivity. Qed.
Lemma mv_calm_dim : mv_of T_CALMEAS n_dimension = true.      Proof. vm_compute. reflexivity. Qed.

Lemma mv_at_of it n : mv_at it (aidx (i_ty it) n) = mv_of (i_ty it) n.
Proof. reflexivity. Qed.

Lemma put_mv_ext it n v : mv_of (i_ty it) n = true -> item_ext it (put_value it (aidx (i_ty it) n) v).
Proof. intros H. apply put_value_ext. rewrite mv_at_of, H. discriminate. Qed.

Lemma put_scalar_ext it idx v : item_ext it (put_value it idx (SPScalar v)).
Proof. apply put_value_ext. intros _. exact I. Qed.

Lemma cosd_ext it v it' :
  mv_of (i_ty it) n_dimension = true -> check_or_set_dimensionality it v = OK it' -> item_ext it it'.
Proof.
  intros Hmv. unfold check_or_set_dimensionality.
  destruct v; [intros H; inv H; apply item_ext_refl | |];
    (destruct (shape_tail _) as [dim|]; [|discriminate]);
    (destruct (fst (get_attr it (aidx (i_ty it) n_dimension))) eqn:Ed;
     [intros H; inv H; apply put_mv_ext; exact Hmv | |]);
    (destruct (int_list_of _) as [dl|]; [|discriminate]);
    (match goal with |- (if ?c then _ else _) = _ -> _ => destruct c end; intros H; inv H; apply item_ext_refl).
Qed.

Lemma run_checks_ext st it it' : run_checks st it = OK it' -> item_ext it it'.
Proof.
  unfold run_checks. cbv zeta.
  destruct (Nat.eqb_spec (i_ty it) T_ORIGIN) as [Ho|_].
  { intros H. inv H. destruct (fst (get_attr it _)); [apply put_scalar_ext | apply item_ext_refl | apply item_ext_refl]. }
  destruct (Nat.eqb_spec (i_ty it) T_CHANNEL) as [Hc|_].
  { intros H. bind_inv H. rename a into it1, H0 into H1. bind_inv H.
    assert (E1 : item_ext it it1).
    { revert H1.
      repeat match goal with
             | |- (if ?c then _ else _) = OK _ -> _ => destruct c
             | |- match ?c with Some _ => _ | None => _ end = OK _ -> _ => destruct c
             end; intros H1; inv H1; try apply item_ext_refl; apply put_mv_ext; rewrite Hc; [exact mv_chan_el | exact mv_chan_dim]. }
    apply OK_inj_ in H. subst it'. eapply item_ext_trans; [exact E1|].
    match goal with |- item_ext _ (if ?c then _ else _) => destruct c end; [apply item_ext_refl | apply put_scalar_ext]. }
  destruct (Nat.eqb (i_ty it) T_PARAMETER || Nat.eqb (i_ty it) T_COMPUTATION) eqn:Epc.
  { assert (Hmv : mv_of (i_ty it) n_dimension = true).
    { apply orb_prop in Epc. destruct Epc as [E|E]; apply Nat.eqb_eq in E; rewrite E; [exact mv_par_dim | exact mv_comp_dim]. }
    intros H. bind_inv H. bind_inv H. rename a0 into it1, H1 into H2. cbv zeta in H. bind_inv H. apply OK_inj_ in H. subst it'.
    pose proof (cosd_ext _ _ _ Hmv H2) as E1. eapply item_ext_trans; [exact E1|].
    match goal with |- item_ext _ (if ?c then _ else _) => destruct c end; [|apply item_ext_refl].
    assert (Et : i_ty it1 = i_ty it) by (destruct E1 as [Es _]; apply (f_equal fst) in Es; exact Es).
    rewrite <- Et. apply put_mv_ext. rewrite Et. exact Hmv. }
  destruct (Nat.eqb (i_ty it) T_ZONE).
  { repeat match goal with
           | |- match ?c with _ => _ end = OK _ -> _ => destruct c
           | |- (if ?c then _ else _) = OK _ -> _ => destruct c
           end; intros H; inv H; apply item_ext_refl. }
  destruct (Nat.eqb (i_ty it) T_CALCOEF).
  { destruct (counts_equal _ _); intros H; inv H. apply item_ext_refl. }
  destruct (Nat.eqb_spec (i_ty it) T_CALMEAS) as [Hm|_].
  { intros H. destruct (negb (counts_equal _ _)); [discriminate|]. bind_inv H. rename a into itm, H0 into Hfold. bind_inv H. apply OK_inj_ in H. subst it'.
    assert (G : forall names a0 b, item_ext it a0 ->
              fold_left (fun acc n => do a <- acc; check_or_set_dimensionality a (fst (get_attr a (aidx (i_ty it) n)))) names (OK a0) = OK b ->
              item_ext it b).
    { induction names as [|n names IH]; intros a0 b E0 Hf; [inv Hf; exact E0|].
      cbn [fold_left bind] in Hf.
      destruct (check_or_set_dimensionality a0 (fst (get_attr a0 (aidx (i_ty it) n)))) as [a1|e] eqn:Ec.
      - apply (IH a1 b); [|exact Hf]. eapply item_ext_trans; [exact E0|]. eapply cosd_ext; [|exact Ec].
        destruct E0 as [Es _]. apply (f_equal fst) in Es. cbn in Es. rewrite Es, Hm. exact mv_calm_dim.
      - exfalso. clear -Hf. induction names as [|x xs IHx]; cbn in Hf; [discriminate | auto]. }
    eapply G; [apply item_ext_refl | exact Hfold]. }
  destruct (Nat.eqb (i_ty it) T_SPLICE).
  { repeat match goal with
           | |- match ?c with _ => _ end = OK _ -> _ => destruct c
           | |- (if ?c then _ else _) = OK _ -> _ => destruct c
           end; intros H; inv H; apply item_ext_refl. }
  intros H. inv H. apply item_ext_refl.
Qed.

Lemma sync_repr_code_ext it : item_ext it (sync_repr_code it).
Proof.
  unfold sync_repr_code. destruct (Nat.eqb (i_ty it) T_CHANNEL); [|apply item_ext_refl].
  apply put_value_ext. intros _. destruct (i_cast it); exact I.
Qed.

(* ---------- the mutations of a write keep the invariant ---------- *)
Lemma check_objects_inv hc st l f st' : check_objects hc st l f = OK st' -> Inv st -> Inv st'.
Proof.
  unfold check_objects. destruct (lf_origins st f) as [|o os]; [discriminate|].
  repeat match goal with |- (if ?c then _ else _) = OK _ -> _ => destruct c; [discriminate|] end.
  cbv zeta. destruct (fst (get_attr (item_at st o) _)) as [|[]|] eqn:E; try discriminate.
  - intros H Hi. inv H. apply set_item_inv; [exact Hi | apply put_scalar_ext].
  - destruct (list_eqb _ _); intros H Hi; inv H; exact Hi.
Qed.

Lemma fold_err {A B} (f : res A -> B -> res A) (Hf : forall e b, f (Err e) b = Err e) : forall l e, fold_left f l (Err e) = Err e.
Proof. induction l as [|b l IH]; intros e; [reflexivity|]. cbn [fold_left]. rewrite Hf. apply IH. Qed.

Lemma setup_channel_inv st c d st' : setup_channel st c d = OK st' -> Inv st -> Inv st'.
Proof.
  unfold setup_channel. cbv zeta. destruct (Nat.eqb_spec (i_ty (item_at st c)) T_CHANNEL) as [Hc|]; [|discriminate]. cbn [negb].
  intros H Hi. bind_inv H. rename a into it1, H0 into H1. bind_inv H. rename a into it2, H0 into H2. inv H.
  apply set_item_inv; [exact Hi|].
  assert (E1 : item_ext (item_at st c) it1).
  { revert H1.
    repeat match goal with
           | |- (if ?c then _ else _) = OK _ -> _ => destruct c
           | |- match ?c with _ => _ end = OK _ -> _ => destruct c
           end; intros H1; inv H1; try apply item_ext_refl;
      change (aidx T_CHANNEL n_dimension) with (aidx T_CHANNEL n_dimension); rewrite <- Hc; apply put_mv_ext; rewrite Hc; exact mv_chan_dim. }
  assert (Et : i_ty it1 = T_CHANNEL) by (destruct E1 as [Es _]; apply (f_equal fst) in Es; cbn in Es; congruence).
  assert (E2 : item_ext it1 it2).
  { revert H2.
    repeat match goal with
           | |- (if ?c then _ else _) = OK _ -> _ => destruct c
           | |- match ?c with _ => _ end = OK _ -> _ => destruct c
           end; intros H2; inv H2; try apply item_ext_refl;
      rewrite <- Et; apply put_mv_ext; rewrite Et; exact mv_chan_el. }
  eapply item_ext_trans; [exact E1|]. eapply item_ext_trans; [exact E2|].
  destruct (i_cast it2); [apply item_ext_refl | apply put_cast_ext].
Qed.

Lemma setup_channels_inv : forall cds st st',
  fold_left (fun acc '(c, d) => do s <- acc; setup_channel s c d) cds (OK st) = OK st' -> Inv st -> Inv st'.
Proof.
  induction cds as [|[c d] cds IH]; intros st st' H Hi; [inv H; exact Hi|].
  cbn [fold_left bind] in H. destruct (setup_channel st c d) as [s1|e] eqn:E.
  - eapply IH; [exact H|]. eapply setup_channel_inv; eassumption.
  - rewrite fold_err in H; [discriminate|]. intros e0 [c0 d0]. reflexivity.
Qed.

Lemma setup_frame_inv hc st l w wf st' rows : setup_frame hc st l w wf = OK (st', rows) -> Inv st -> Inv st'.
Proof.
  unfold setup_frame. destruct (lf_at st l) as [f|]; [|discriminate]. cbv zeta.
  intros H Hi. bind_inv H. rename a into infos. clear H0.
  destruct (negb (distinct _)); [discriminate|]. destruct infos as [|d0 infos']; [discriminate|].
  repeat match type of H with (if ?c then _ else _) = OK _ => destruct c; [discriminate|] end.
  bind_inv H. rename a into st2, H0 into Hch. bind_inv H. rename a into fi', H0 into Hfi. inv H.
  assert (Hi1 : Inv (set_lf st l (set_ldata f (data_merge (l_data f) match w_data w with Some d => d | None => [] end)))) by (apply set_lf_inv'; exact Hi).
  assert (Hi2 : Inv st2) by (eapply setup_channels_inv; eassumption).
  apply set_item_inv; [exact Hi2|]. clear Hch Hi Hi1.
  revert Hfi.
  repeat match goal with
         | |- (if ?c then _ else _) = OK _ -> _ => destruct c
         | |- match ?c with _ => _ end = OK _ -> _ => destruct c
         end; intros Hfi; inv Hfi; try apply item_ext_refl;
    try match goal with |- item_ext _ (match ?c with _ => _ end) => destruct c end;
    repeat first [ apply item_ext_refl
                 | eapply item_ext_trans; [|apply assign_value_if_none_ext; intros _; exact I]
                 | eapply item_ext_trans; [|apply assign_units_if_none_ext] ].
Qed.

(* ---------- one object as the encoder sees it ---------- *)
Lemma combine_attr_labels st : forall tds attrs, length attrs = length tds ->
  map a_label (map (fun '(ad, vu) => to_attr st ad vu) (combine tds attrs)) = map ad_label tds.
Proof.
  induction tds as [|ad tds IH]; intros [|vu attrs] Hl; try discriminate; [reflexivity|].
  cbn [combine map]. f_equal. apply IH. cbn in Hl. lia.
Qed.

Lemma sig_nth st i : nth i (map isig (b_items st)) (isig dummy_item) = isig (item_at st i).
Proof. unfold item_at. apply (map_nth isig). Qed.

Definition obj_ok (ty : nat) (o : obj) : Prop :=
  length (o_attrs o) = length (td_attrs (tdef_at ty)) /\ Forall wf_attr (o_attrs o)
  /\ map a_label (o_attrs o) = map ad_label (td_attrs (tdef_at ty)).

Lemma obj_of_ok st i : Inv st -> (i < length (b_items st))%nat -> obj_ok (i_ty (item_at st i)) (obj_of st i).
Proof.
  intros [Hs Ht] Hi. pose proof (inv_item_len st i Ht Hi) as Hl. unfold item_len_ok, sig_len_ok, isig in Hl. cbn [fst snd] in Hl.
  unfold obj_ok, obj_of. cbn [o_attrs]. set (it := item_at st i) in *. set (tds := td_attrs (tdef_at (i_ty it))) in *.
  split; [rewrite map_length, combine_length, Hl; apply Nat.min_id|].
  split; [|apply combine_attr_labels; exact Hl].
  apply Forall_forall. intros a Ha. apply in_map_iff in Ha. destruct Ha as ([ad vu] & <- & Hin).
  destruct (In_nth _ _ (dummy_adef, (SPNone, None)) Hin) as (n & Hn & En).
  rewrite combine_nth in En by (symmetry; exact Hl). injection En as <- <-.
  apply wf_attr_of_shape. apply (Hs i n).
Qed.

Lemma tmpl_labels : forall l1 l2, map a_label l1 = map a_label l2 -> enc_list enc_attr_tmpl l1 = enc_list enc_attr_tmpl l2.
Proof.
  induction l1 as [|a l1 IH]; intros [|b l2] H; try discriminate; [reflexivity|].
  cbn [map] in H. injection H as Hab Hr. cbn [enc_list]. unfold enc_attr_tmpl at 1 3. rewrite Hab, (IH _ Hr). reflexivity.
Qed.

Lemma set_item_sigs st i it : isig it = isig (item_at st i) -> map isig (b_items (set_item st i it)) = map isig (b_items st).
Proof.
  intros E. cbn [set_item b_items]. apply upd_map_same. intros y Hy. rewrite E. unfold item_at.
  rewrite (nth_error_nth _ _ dummy_item Hy). reflexivity.
Qed.

Definition in_set_ty (sigs : list (nat * nat)) (ty : nat) (i : nat) : Prop :=
  (i < length sigs)%nat /\ fst (nth i sigs (isig dummy_item)) = ty.

(* the per-item loop of EFLRSet._make_body_bytes *)
Definition obj_step (acc : res (bstate * bytes)) (i : nat) : res (bstate * bytes) :=
  do (st1, bs) <- acc;
  do it <- run_checks st1 (sync_repr_code (item_at st1 i));
  let st2 := set_item st1 i it in
  do b <- enc_obj (obj_of st2 i);
  OK (st2, bs ++ b).

Lemma obj_step_err e i : obj_step (Err e) i = Err e.
Proof. reflexivity. Qed.

Lemma fold_objs ty : forall items st bs0 st' bs,
  fold_left obj_step items (OK (st, bs0)) = OK (st', bs) ->
  Inv st -> Forall (in_set_ty (map isig (b_items st)) ty) items ->
  Inv st' /\ map isig (b_items st') = map isig (b_items st) /\
  exists os b', bs = bs0 ++ b' /\ enc_list enc_obj os = OK b' /\ length os = length items /\ Forall (obj_ok ty) os.
Proof.
  induction items as [|i items IH]; intros st bs0 st' bs H Hi Hall.
  - inv H. split; [exact Hi|]. split; [reflexivity|]. exists [], []. rewrite app_nil_r. repeat split; constructor.
  - cbn [fold_left] in H. unfold obj_step at 2 in H. cbn [bind] in H.
    destruct (run_checks st (sync_repr_code (item_at st i))) as [it|e] eqn:Erc; cbn [bind] in H; [|rewrite fold_err in H by apply obj_step_err; discriminate].
    destruct (enc_obj (obj_of (set_item st i it) i)) as [b|e] eqn:Eo; cbn [bind] in H; [|rewrite fold_err in H by apply obj_step_err; discriminate].
    assert (Ext : item_ext (item_at st i) it) by (eapply item_ext_trans; [apply sync_repr_code_ext | eapply run_checks_ext; exact Erc]).
    assert (Hi2 : Inv (set_item st i it)) by (apply set_item_inv; assumption).
    assert (Es : map isig (b_items (set_item st i it)) = map isig (b_items st)) by (apply set_item_sigs; apply Ext).
    apply Forall_cons_iff in Hall. destruct Hall as [[Hlt Hty] Hrest].
    destruct (IH _ _ _ _ H Hi2) as (Hi' & Es' & os & b' & -> & Hos & Hlen & Hok); [rewrite Es; exact Hrest|].
    split; [exact Hi'|]. split; [congruence|].
    exists (obj_of (set_item st i it) i :: os), (b ++ b'). rewrite app_assoc. split; [reflexivity|].
    split; [cbn [enc_list]; rewrite Eo, Hos; reflexivity|]. split; [cbn; lia|].
    constructor; [|exact Hok].
    assert (Hlt2 : (i < length (b_items (set_item st i it)))%nat) by (rewrite <- (map_length isig), Es; exact Hlt).
    pose proof (obj_of_ok _ _ Hi2 Hlt2) as Ho.
    replace (i_ty (item_at (set_item st i it) i)) with ty in Ho; [exact Ho|].
    rewrite <- Hty, <- Es, sig_nth. reflexivity.
Qed.

(* ---------- one set: the record is bytes and decodes under the component grammar ---------- *)
Lemma schema_lrtypes : forallb (fun td => is_byte (td_lrtype td)) schema = true.
Proof. vm_compute. reflexivity. Qed.

Lemma lrtype_byte ty : is_byte (td_lrtype (tdef_at ty)) = true.
Proof.
  unfold tdef_at. destruct (Nat.lt_ge_cases ty (length schema)) as [H|H].
  - pose proof schema_lrtypes as Hs. rewrite forallb_forall in Hs. apply Hs. apply nth_In. exact H.
  - rewrite nth_overflow by exact H. reflexivity.
Qed.

Lemma labels_nonnil ty : Forall (fun l => l <> []) (map ad_label (td_attrs (tdef_at ty))).
Proof.
  apply Forall_forall. intros l Hl. apply in_map_iff in Hl. destruct Hl as (ad & <- & Hin).
  assert (Htd : In (tdef_at ty) schema \/ tdef_at ty = dummy_tdef).
  { unfold tdef_at. destruct (Nat.lt_ge_cases ty (length schema)); [left; apply nth_In; assumption | right; apply nth_overflow; assumption]. }
  destruct Htd as [Htd|Htd]; [|rewrite Htd in Hin; destruct Hin].
  pose proof schema_codes_ok as H. rewrite forallb_forall in H. specialize (H _ Htd). rewrite forallb_forall in H. specialize (H _ Hin).
  unfold adef_codes_ok in H. apply andb_prop in H. destruct H as [_ H]. destruct (ad_label ad); [discriminate | discriminate].
Qed.

Definition rec_ok (r : lrec) : Prop :=
  wf_rec r = true /\ (lr_eflr r = true -> lr_body r = [] \/ exists d, dec_set (lr_body r) = Some d).

Lemma enc_sset_ok st sid st' r : enc_sset st sid = OK (st', r) -> Inv st -> Inv st' /\ rec_ok r.
Proof.
  unfold enc_sset. cbv zeta. intros H Hi.
  set (s := set_at st sid) in *. set (ty := s_ty s) in *.
  change (fun (acc : res (bstate * bytes)) (i : nat) => _) with obj_step in H.
  bind_inv H. destruct a as [st1 objs]. rename H0 into Hfold.
  assert (Hall : Forall (in_set_ty (map isig (b_items st)) ty) (s_items s)).
  { destruct Hi as [_ [_ Hsets _]]. unfold s, ty, set_at.
    destruct (Nat.lt_ge_cases sid (length (b_sets st))) as [Hlt|Hge].
    - rewrite Forall_forall in Hsets. exact (proj1 (Hsets _ (nth_In _ _ Hlt))).
    - rewrite nth_overflow by exact Hge. constructor. }
  destruct (fold_objs ty _ _ _ _ _ Hfold Hi Hall) as (Hi1 & Es & os & b' & -> & Hos & Hlen & Hok).
  cbn [app] in *.
  destruct (s_items s) as [|i0 rest] eqn:Eit.
  { inv H. split; [exact Hi1|]. split; [unfold wf_rec; cbn [lr_type lr_body]; rewrite lrtype_byte; reflexivity | intros _; left; reflexivity]. }
  bind_inv H. rename a into sc, H0 into Hsc. bind_inv H. rename a into tb, H0 into Htb. inv H.
  split; [exact Hi1|].
  destruct os as [|o0 os']; [discriminate|].
  (* the template written from the first item before its checks equals the template of the first encoded object *)
  apply Forall_cons_iff in Hall. destruct Hall as [[Hlt0 Hty0] _].
  assert (Hi0 : (i0 < length (b_items st))%nat) by (rewrite map_length in Hlt0; exact Hlt0).
  assert (Hty0' : i_ty (item_at st i0) = ty) by (rewrite <- Hty0, sig_nth; reflexivity).
  pose proof (obj_of_ok st i0 Hi Hi0) as (_ & _ & Hlab0). rewrite Hty0' in Hlab0.
  apply Forall_cons_iff in Hok. destruct Hok as [Hok0 Hok'].
  assert (Htb' : enc_list enc_attr_tmpl (o_attrs o0) = OK tb).
  { rewrite <- Htb. apply tmpl_labels. destruct Hok0 as (_ & _ & Hl). congruence. }
  set (es := {| e_type := td_settype (tdef_at ty); e_name := s_name s; e_objs := o0 :: os' |}).
  assert (Henc : enc_set es = OK (sc ++ tb ++ b')).
  { unfold enc_set, es. cbn [e_objs]. change (enc_set_comp _) with (enc_set_comp {| e_type := td_settype (tdef_at ty); e_name := s_name s; e_objs := [] |}).
    rewrite Hsc. cbn [bind]. rewrite Htb'. cbn [bind]. rewrite Hos. reflexivity. }
  assert (Hwf : wf_set es).
  { unfold wf_set, es. cbn [e_objs]. split.
    - destruct Hok0 as (_ & _ & Hl). pose proof (labels_nonnil ty) as Hn. rewrite <- Hl in Hn.
      rewrite Forall_map in Hn. exact Hn.
    - constructor.
      + split; [reflexivity | apply Hok0].
      + eapply Forall_impl; [|exact Hok']. intros o (Ho1 & Ho2 & _). destruct Hok0 as (H01 & _). split; [congruence | exact Ho2]. }
  split.
  - unfold wf_rec. cbn [lr_type lr_body]. rewrite lrtype_byte. cbn [andb]. eapply enc_set_bytes. exact Henc.
  - intros _. right. cbn [lr_body]. destruct (enc_set_dec es _ Hwf ltac:(discriminate) Henc) as (d & Hd & _). exists d. exact Hd.
Qed.

(* ---------- the FILE-HEADER record decodes under the same grammar ---------- *)
Lemma dec_template_fuel : forall f bs r, dec_template f bs = Some r -> forall f', (f <= f')%nat -> dec_template f' bs = Some r.
Proof.
  induction f as [|f IH]; intros bs r H f' Hle; [discriminate|]. destruct f' as [|f']; [lia|].
  cbn [dec_template] in *. destruct bs as [|d bs']; [exact H|].
  destruct ((role d =? 1) || (role d =? 2)); [|exact H].
  destruct (dec_tattr (d :: bs')) as [[t r0]|]; [|discriminate].
  destruct (dec_template f r0) as [[ts r']|] eqn:E; [|discriminate]. rewrite (IH _ _ E f' ltac:(lia)). exact H.
Qed.

Lemma dec_objs_fuel tm : forall f bs r, dec_objs f tm bs = Some r -> forall f', (f <= f')%nat -> dec_objs f' tm bs = Some r.
Proof.
  induction f as [|f IH]; intros bs r H f' Hle; [discriminate|]. destruct f' as [|f']; [lia|].
  cbn [dec_objs] in *. destruct bs as [|d bs']; [exact H|].
  destruct (negb (d =? 112)); [discriminate|]. destruct (dec_obname bs') as [[o r1]|]; [|discriminate].
  destruct (dec_oattrs tm r1) as [[az r2]|]; [|discriminate].
  destruct (dec_objs f tm r2) as [os|] eqn:E; [|discriminate]. rewrite (IH _ _ E f' ltac:(lia)). exact H.
Qed.

Definition fh_tattr (lab : list Z) : tattr :=
  {| t_label := lab; t_attr := {| d_count := 1; d_code := 20; d_units := None; d_values := None |} |}.

Lemma fh_tattr_dec lab l rest : enc_ident lab = OK l -> dec_tattr (52 :: l ++ 20 :: rest) = Some (fh_tattr lab, rest).
Proof.
  intros H. unfold dec_tattr. change (is_byte 52) with true. change (52 / 32 =? 1) with true. change (bit 52 16) with true.
  cbn [negb orb]. rewrite (ident_rt _ _ _ H).
  unfold dec_chars. change (bit 52 8) with false. change (bit 52 4) with true. change (bit 52 2) with false. change (bit 52 1) with false.
  cbn [global_default d_count d_units]. unfold dec_ushort. change ((1 <=? 20) && (20 <=? 27)) with true. cbn [negb]. reflexivity.
Qed.

Lemma fixed_ascii s n : zlen s = n -> 0 <= n < 128 -> all_ascii s = true -> enc_ascii s = OK (n :: s).
Proof.
  intros Hl Hn Ha. unfold enc_ascii. rewrite Hl. unfold enc_uvari. destruct (Z.ltb_spec n 128); [|lia].
  unfold enc_ushort. destruct ((0 <=? n) && (n <? 256)) eqn:E; [|lia]. cbn [bind]. unfold enc_chars. rewrite Ha. reflexivity.
Qed.

Lemma fh_oattr_dec s n rest : zlen s = n -> 0 < n < 128 -> all_ascii s = true ->
  dec_oattr (t_attr (fh_tattr [])) (33 :: n :: s ++ rest)
  = Some (Some {| d_count := 1; d_code := 20; d_units := None; d_values := Some [DText s] |}, rest).
Proof.
  intros Hl Hn Ha. unfold dec_oattr. change (is_byte 33) with true. change (33 =? 0) with false. change (role 33 =? 1) with true.
  change (bit 33 16) with false. cbn [negb]. unfold dec_chars. change (bit 33 8) with false. change (bit 33 4) with false.
  change (bit 33 2) with false. change (bit 33 1) with true. cbn [fh_tattr t_attr d_count d_code d_units].
  change ((1 <=? 20) && (20 <=? 27)) with true. change (1 <=? 0) with false. cbn [negb]. change (Z.to_nat 1) with 1%nat.
  cbn [dec_vals]. unfold dec_val. change (20 =? 2) with false. change (20 =? 7) with false. change (20 =? 12) with false.
  change (20 =? 13) with false. change (20 =? 14) with false. change (20 =? 15) with false. change (20 =? 16) with false.
  change (20 =? 17) with false. change (20 =? 18) with false. change (20 =? 19) with false. change (20 =? 20) with true.
  pose proof (ascii_rt s (n :: s) rest (fixed_ascii s n Hl ltac:(lia) Ha)) as Hr. cbn [app] in Hr. rewrite Hr. reflexivity.
Qed.

Theorem fileheader_dec o sq hid b : enc_fileheader o sq hid = OK b -> exists d, dec_set b = Some d.
Proof.
  unfold enc_fileheader. intros H. do 6 (bind_inv H). apply OK_inj_ in H. subst b.
  rename a into t, a0 into l1, a1 into l2, a2 into n, a3 into s, a4 into h.
  destruct (sq <? 0); [discriminate|].
  destruct (justify_ok _ _ _ _ H4) as [Hs1 Hs2]. destruct (justify_ok _ _ _ _ H5) as [Hh1 Hh2].
  destruct (obname_rt o n ((33 :: 10 :: s) ++ 33 :: 65 :: h) H3) as (org & _ & Hn).
  unfold dec_set. change (negb ((240 =? 240) || (240 =? 248))) with false. cbv iota.
  rewrite (ident_rt _ _ _ H0). change (240 =? 248) with false. cbv iota.
  set (tm := [fh_tattr str_SEQNUM; fh_tattr str_ID]).
  set (ob := (112 :: n) ++ (33 :: 10 :: s) ++ 33 :: 65 :: h).
  assert (Ht : dec_template 3 ((52 :: l1 ++ [20]) ++ (52 :: l2 ++ [20]) ++ ob) = Some (tm, ob)).
  { cbn [dec_template app]. change ((role 52 =? 1) || (role 52 =? 2)) with true. cbv iota.
    rewrite <- !app_assoc. cbn [app]. rewrite (fh_tattr_dec _ _ _ H1).
    change ((role 52 =? 1) || (role 52 =? 2)) with true. cbv iota. rewrite (fh_tattr_dec _ _ _ H2).
    unfold ob. cbn [app]. change ((role 112 =? 1) || (role 112 =? 2)) with false. cbv iota. reflexivity. }
  rewrite (dec_template_fuel _ _ _ Ht); [|cbn [app length]; rewrite !app_length; cbn [length]; lia].
  assert (Ho : dec_objs 2 tm ob = Some [{| do_name := o; do_attrs := [Some {| d_count := 1; d_code := 20; d_units := None; d_values := Some [DText s] |};
                                                                     Some {| d_count := 1; d_code := 20; d_units := None; d_values := Some [DText h] |}] |}]).
  { unfold ob. cbn [dec_objs app]. change (negb (112 =? 112)) with false. cbv iota. cbn [app] in Hn. rewrite Hn.
    unfold tm. cbn [dec_oattrs app]. change (role 33 =? 3) with false. cbv iota.
    pose proof (fh_oattr_dec s 10 (33 :: 65 :: h) Hs1 ltac:(lia) Hs2) as A1. cbn [fh_tattr t_attr] in A1 |- *. rewrite A1.
    change (role 33 =? 3) with false. cbv iota.
    pose proof (fh_oattr_dec h 65 [] Hh1 ltac:(lia) Hh2) as A2. cbn [fh_tattr t_attr] in A2. rewrite app_nil_r in A2. rewrite A2. reflexivity. }
  rewrite (dec_objs_fuel _ _ _ _ Ho); [|unfold ob; cbn [app length]; rewrite ?app_length; cbn [length]; lia].
  eexists. reflexivity.
Qed.

(* ---------- the records of one logical file ---------- *)
Lemma rec_ok_iflr ty body : is_byte ty = true -> all_bytes body = true -> rec_ok {| lr_eflr := false; lr_type := ty; lr_body := body |}.
Proof. intros Ht Hb. split; [unfold wf_rec; cbn [lr_type lr_body]; rewrite Ht, Hb; reflexivity | cbn [lr_eflr]; discriminate]. Qed.

Lemma frame_recs_ok o : forall rows i recs, frame_recs o i rows = OK recs -> Forall rec_ok recs.
Proof.
  induction rows as [|r rows IH]; intros i recs H; [inv H; constructor|].
  cbn [frame_recs] in H. bind_inv H. bind_inv H. inv H. constructor; [|eapply IH; eassumption].
  unfold fdata_rec in H0. bind_inv H0. inv H0. apply rec_ok_iflr; [reflexivity | eapply fdata_body_bytes; eassumption].
Qed.

Definition sets_step (acc : res (bstate * list lrec)) (sid : nat) : res (bstate * list lrec) :=
  do (s, recs) <- acc; do (s', r) <- enc_sset s sid; OK (s', recs ++ [r]).

Lemma fold_sets_ok : forall sids st acc st' out,
  fold_left sets_step sids (OK (st, acc)) = OK (st', out) -> Inv st -> Forall rec_ok acc -> Inv st' /\ Forall rec_ok out.
Proof.
  induction sids as [|sid sids IH]; intros st acc st' out H Hi Ha; [inv H; auto|].
  cbn [fold_left] in H. unfold sets_step at 2 in H. cbn [bind] in H.
  destruct (enc_sset st sid) as [[s1 r]|e] eqn:E; cbn [bind] in H; [|rewrite fold_err in H by reflexivity; discriminate].
  destruct (enc_sset_ok _ _ _ _ E Hi) as [Hi1 Hr].
  eapply IH; [exact H | exact Hi1 |]. apply Forall_app. split; [exact Ha | constructor; [exact Hr | constructor]].
Qed.

Theorem lf_records_ok st f frames st' recs : lf_records st f frames = OK (st', recs) -> Inv st -> Inv st' /\ Forall rec_ok recs.
Proof.
  unfold lf_records. intros H Hi. bind_inv H. rename a into fh, H0 into Hfh.
  change (fun (acc : res (bstate * list lrec)) (sid : nat) => _) with sets_step in H.
  bind_inv H. destruct a as [st1 erecs]. rename H0 into Hfold.
  bind_inv H. rename a into nf, H0 into Hnf. bind_inv H. rename a into fd, H0 into Hfd. inv H.
  assert (Hfhr : rec_ok {| lr_eflr := true; lr_type := 0; lr_body := fh |}).
  { split; [unfold wf_rec; cbn [lr_type lr_body]; rewrite (enc_fileheader_bytes _ _ _ _ Hfh); reflexivity|].
    intros _. right. cbn [lr_body]. eapply fileheader_dec. exact Hfh. }
  destruct (fold_sets_ok _ _ _ _ _ Hfold Hi ltac:(constructor; [exact Hfhr | constructor])) as [Hi1 He].
  split; [exact Hi1|]. apply Forall_app. split; [exact He|]. apply Forall_app. split.
  - clear -Hnf. revert nf Hnf. induction (l_nofmt f) as [|[obj p] l IH]; intros nf H; [inv H; constructor|].
    destruct obj; try discriminate. destruct (nth_error (b_items st') i); [|discriminate].
    bind_inv H. bind_inv H. bind_inv H. inv H. constructor; [|apply IH; assumption].
    unfold nofmt_rec in H1. bind_inv H1. inv H1. apply rec_ok_iflr; [reflexivity|].
    eapply nofmt_body_bytes; [|exact H]. unfold payload_of in H0. destruct p; try discriminate.
    + destruct (all_bytes b) eqn:Eb; inv H0. exact Eb.
    + inv H0. exact I.
  - clear -Hfd. revert fd Hfd. induction frames as [|[fr rows] l IH]; intros fd H; [inv H; constructor|].
    bind_inv H. bind_inv H. inv H. apply Forall_app. split; [eapply frame_recs_ok; eassumption | apply IH; assumption].
Qed.

(* ---------- DLISFile.write ---------- *)
Lemma check_all_inv hc : forall fs k s s', check_all hc k fs s = OK s' -> Inv s -> Inv s'.
Proof.
  induction fs as [|f0 fs IH]; intros k s s' H Hi; [inv H; exact Hi|].
  cbn [check_all] in H. destruct (lf_at s k) as [f|]; [|discriminate]. bind_inv H.
  eapply IH; [exact H|]. eapply check_objects_inv; eassumption.
Qed.

Lemma setup_step_inv hc w k acc fr : Inv (fst acc) -> Inv (fst (setup_step hc w k acc fr)).
Proof.
  destruct acc as [sa ra]. cbn [fst]. intros Hi. unfold setup_step. destruct ra as [l|e]; [|exact Hi].
  destruct (find_wframe w fr) as [wf|]; [|exact Hi].
  destruct (setup_frame hc sa k w wf) as [[sb rows]|e] eqn:E; [|exact Hi]. cbn [fst]. eapply setup_frame_inv; eassumption.
Qed.

Lemma setup_fold_inv hc w k : forall frs acc, Inv (fst acc) -> Inv (fst (fold_left (setup_step hc w k) frs acc)).
Proof. induction frs as [|fr frs IH]; intros acc Hi; [exact Hi|]. cbn [fold_left]. apply IH. apply setup_step_inv. exact Hi. Qed.

Lemma setup_all_inv hc w : forall fs k s acc, Inv s -> Inv (fst (setup_all hc w k fs s acc)).
Proof.
  induction fs as [|f0 fs IH]; intros k s acc Hi; [exact Hi|].
  cbn [setup_all]. destruct (lf_at s k) as [f|]; [|exact Hi].
  pose proof (setup_fold_inv hc w k (lf_frames s f) (s, OK []) Hi) as H.
  destruct (fold_left (setup_step hc w k) (lf_frames s f) (s, OK [])) as [s' fr]. cbn [fst] in H.
  destruct fr as [l|e]; [apply IH; exact H | exact H].
Qed.

Lemma records_all_ok : forall l k s acc, Inv s -> Forall rec_ok acc ->
  Inv (fst (records_all k l s acc)) /\ (forall recs, snd (records_all k l s acc) = OK recs -> Forall rec_ok recs).
Proof.
  induction l as [|frs l IH]; intros k s acc Hi Ha.
  - cbn. split; [exact Hi | intros recs H; inv H; exact Ha].
  - cbn [records_all]. destruct (lf_at s k) as [f|]; [|cbn; split; [exact Hi | discriminate]].
    destruct (map_opt _ frs) as [frs'|].
    + destruct (lf_records s f frs') as [[s' recs]|e] eqn:E; [|cbn; split; [exact Hi | discriminate]].
      destruct (lf_records_ok _ _ _ _ _ E Hi) as [Hi' Hr]. apply IH; [exact Hi' | apply Forall_app; split; assumption].
    + destruct (lf_records s f []) as [[s' recs]|e] eqn:E; cbn; (split; [|discriminate]); [|exact Hi].
      eapply lf_records_ok; eassumption.
Qed.

(* the state a write leaves behind (successful or not) satisfies the invariant again: a DLISFile can be edited and
   written any number of times *)
Theorem write_inv hc st w : Inv st -> Inv (fst (write hc st w)).
Proof.
  intros Hi. unfold write. destruct (check_all hc 0 (b_lfs st) st) as [st1|e] eqn:E1; [|exact Hi].
  pose proof (check_all_inv _ _ _ _ _ E1 Hi) as Hi1.
  pose proof (setup_all_inv hc w (b_lfs st1) 0%nat st1 [] Hi1) as Hi2.
  destruct (setup_all hc w 0 (b_lfs st1) st1 []) as [st2 r2]. cbn [fst] in Hi2. destruct r2 as [perlf|e]; [|exact Hi2].
  destruct (negb (check_vrl (w_vrl w))); [exact Hi2|]. destruct (sul_bytes _); [|exact Hi2].
  destruct (records_all_ok perlf 0%nat st2 [] Hi2 ltac:(constructor)) as [Hi3 _].
  destruct (records_all 0 perlf st2 []) as [st3 r3]. destruct r3; exact Hi3.
Qed.

Theorem write_records hc st w st' bs : write hc st w = (st', OK bs) -> Inv st ->
  exists recs, Forall rec_ok recs /\ write_file {| sul_seq := w_seq w; sul_vrl := w_vrl w; sul_id := w_ident w |} recs = OK bs.
Proof.
  intros H Hi. unfold write in H. destruct (check_all hc 0 (b_lfs st) st) as [st1|e] eqn:E1; [|inv H].
  pose proof (check_all_inv _ _ _ _ _ E1 Hi) as Hi1.
  pose proof (setup_all_inv hc w (b_lfs st1) 0%nat st1 [] Hi1) as Hi2.
  destruct (setup_all hc w 0 (b_lfs st1) st1 []) as [st2 r2]. cbn [fst] in Hi2. destruct r2 as [perlf|e]; [|inv H].
  destruct (negb (check_vrl (w_vrl w))); [inv H|]. destruct (sul_bytes _); [|inv H].
  destruct (records_all_ok perlf 0%nat st2 [] Hi2 ltac:(constructor)) as [_ Hr].
  destruct (records_all 0 perlf st2 []) as [st3 r3]. destruct r3 as [recs|e]; [|inv H].
  injection H as _ H. exists recs. split; [apply Hr; reflexivity | exact H].
Qed.

Lemma map_opt_total {A B} (f : A -> option B) : forall l, Forall (fun x => exists y, f x = Some y) l -> exists ys, map_opt f l = Some ys.
Proof.
  induction l as [|x l IH]; intros H; [exists []; reflexivity|]. apply Forall_cons_iff in H. destruct H as [[y Hy] Hl].
  destruct (IH Hl) as [ys Hys]. exists (y :: ys). cbn [map_opt]. rewrite Hy, Hys. reflexivity.
Qed.

(* THE COMPOSITION: whatever the API model writes — from any state satisfying the invariant, hence after any sequence
   of API calls and earlier writes — has the standard layout and is accepted, record by record, by the complete strict
   reader (framing, reassembly, component grammar of every explicitly formatted record). *)
Theorem write_readable hc st w st' bs :
  Inv st -> write hc st w = (st', OK bs) ->
  let cfg := {| sul_seq := w_seq w; sul_vrl := w_vrl w; sul_id := w_ident w |} in
  Layout cfg bs /\ (exists lrds, read_logical cfg bs = Some lrds) /\ Inv st'.
Proof.
  intros Hi H cfg. destruct (write_records _ _ _ _ _ H Hi) as (recs & Hr & Hw). fold cfg in Hw.
  assert (Hwf : forallb wf_rec recs = true).
  { apply forallb_forall. intros r Hin. rewrite Forall_forall in Hr. apply (Hr r Hin). }
  split; [eapply write_file_layout; eassumption|]. split.
  - unfold read_logical. rewrite (read_write_file cfg recs bs Hwf Hw). apply map_opt_total.
    apply Forall_forall. intros r Hin. apply filter_In in Hin. destruct Hin as [Hin Hne].
    rewrite Forall_forall in Hr. destruct (Hr r Hin) as [_ Hd]. unfold decode_rec.
    destruct (lr_eflr r) eqn:Ee; [|eexists; reflexivity].
    destruct (Hd eq_refl) as [Hnil | [d Hdd]].
    + unfold nonempty_body in Hne. rewrite Hnil in Hne. discriminate.
    + rewrite Hdd. eexists. reflexivity.
  - pose proof (write_inv hc st w Hi) as Hi'. rewrite H in Hi'. exact Hi'.
Qed.

(* reachability including writes: API calls and writes in any order *)
Inductive action := AOp (o : op) | AWrite (w : wopts).
Fixpoint run_actions (ps : pstate) (st : bstate) (l : list action) : pstate * bstate :=
  match l with
  | [] => (ps, st)
  | AOp o :: r => let '(ps', st', _) := step ps st o in run_actions ps' st' r
  | AWrite w :: r => run_actions ps (fst (write (p_hc ps) st w)) r
  end.

Theorem reachable_inv_actions : forall l ps st, Inv st -> Inv (snd (run_actions ps st l)).
Proof.
  induction l as [|a l IH]; intros ps st Hi; [exact Hi|]. destruct a as [o|w]; cbn [run_actions].
  - destruct (step ps st o) as [[ps' st'] out] eqn:E. apply IH. destruct Hi as [Hs Ht].
    split; [eapply step_inv_shape; eassumption | eapply step_inv_struct; eassumption].
  - apply IH. apply write_inv. exact Hi.
Qed.

Corollary every_written_file_is_readable l ps hc w st' bs :
  let st := snd (run_actions ps b_init l) in
  write hc st w = (st', OK bs) ->
  let cfg := {| sul_seq := w_seq w; sul_vrl := w_vrl w; sul_id := w_ident w |} in
  Layout cfg bs /\ exists lrds, read_logical cfg bs = Some lrds.
Proof.
  intros st H cfg.
  assert (Hi : Inv st) by (apply reachable_inv_actions; split; [apply inv_shape_init | apply inv_struct_init]).
  destruct (write_readable hc st w st' bs Hi H) as (A & B & _). split; assumption.
Qed.

(* ---------- C15 over the API: once the records exist, no size can make the write fail ---------- *)
Theorem write_total_after_records hc st w st1 st2 perlf st3 recs :
  Inv st ->
  check_all hc 0 (b_lfs st) st = OK st1 -> setup_all hc w 0 (b_lfs st1) st1 [] = (st2, OK perlf) ->
  records_all 0 perlf st2 [] = (st3, OK recs) ->
  check_vrl (w_vrl w) = true -> sul_valid {| sul_seq := w_seq w; sul_vrl := w_vrl w; sul_id := w_ident w |} ->
  exists bs, write hc st w = (st3, OK bs).
Proof.
  intros Hi H1 H2 H3 Hv Hs. unfold write. rewrite H1, H2, Hv. cbn [negb].
  destruct (sul_bytes_total _ Hs) as [lab Hl]. rewrite Hl, H3.
  pose proof (check_all_inv _ _ _ _ _ H1 Hi) as Hi1.
  pose proof (setup_all_inv hc w (b_lfs st1) 0%nat st1 [] Hi1) as Hi2. rewrite H2 in Hi2. cbn [fst] in Hi2.
  destruct (records_all_ok perlf 0%nat st2 [] Hi2 ltac:(constructor)) as [_ Hr]. rewrite H3 in Hr. cbn [snd] in Hr.
  specialize (Hr recs eq_refl).
  assert (Hwf : forallb wf_rec recs = true).
  { apply forallb_forall. intros r Hin. rewrite Forall_forall in Hr. apply (Hr r Hin). }
  destruct (write_file_total {| sul_seq := w_seq w; sul_vrl := w_vrl w; sul_id := w_ident w |} recs Hv Hs Hwf) as [bs Hb]. exists bs. rewrite Hb. reflexivity.
Qed.

(* C02 over the API: the output of DLISFile.write is bracketed *)
Corollary api_output_bracketed l ps hc w st' bs :
  let st := snd (run_actions ps b_init l) in
  write hc st w = (st', OK bs) ->
  let cfg := {| sul_seq := w_seq w; sul_vrl := w_vrl w; sul_id := w_ident w |} in
  exists vrs recs, parse_file cfg bs = Some vrs /\ Bracketed (concat vrs) recs /\ read_records cfg bs = Some recs.
Proof.
  intros st H cfg.
  assert (Hi : Inv st) by (apply reachable_inv_actions; split; [apply inv_shape_init | apply inv_struct_init]).
  destruct (write_records _ _ _ _ _ H Hi) as (recs & Hr & Hw). fold cfg in Hw.
  assert (Hwf : forallb wf_rec recs = true).
  { apply forallb_forall. intros r Hin. rewrite Forall_forall in Hr. apply (Hr r Hin). }
  destruct (writer_bracketed cfg recs bs Hwf Hw) as (vrs & Hp & Hb).
  exists vrs, (filter nonempty_body recs). split; [exact Hp|]. split; [exact Hb | exact (read_write_file cfg recs bs Hwf Hw)].
Qed.

(* ==================================================================================================================
   Faithfulness of one explicitly formatted record: it decodes to exactly the set as it stands when the record is
   produced — the type and name of the set, and for every object its identity and, attribute by attribute, ABSATR or
   the count / representation code / units / values of the stored attribute state (attr_matches).
   ================================================================================================================== *)

(* updates of OTHER items that keep identities do not change what an object looks like to the encoder *)
Lemma ident_of_set_item st k it' : iid it' = iid (item_at st k) -> i_ty it' = i_ty (item_at st k) ->
  forall j, ident_of (set_item st k it') j = ident_of st j.
Proof.
  intros Hid Hty j. unfold ident_of, item_at, set_item. cbn [b_items].
  destruct (Nat.eq_dec k j) as [->|Hne]; [|rewrite nth_upd_other by exact Hne; reflexivity].
  destruct (Nat.lt_ge_cases j (length (b_items st))) as [Hlt|Hge].
  - rewrite nth_upd_same by exact Hlt. unfold iid, item_at in *. injection Hid as -> -> ->. rewrite Hty. reflexivity.
  - rewrite !nth_overflow; [reflexivity | exact Hge | rewrite length_upd; exact Hge].
Qed.

Lemma to_aval_ext st st' : (forall j, ident_of st' j = ident_of st j) -> forall v, to_aval st' v = to_aval st v.
Proof. intros H v. destruct v; try reflexivity. cbn [to_aval]. rewrite H. reflexivity. Qed.

Lemma to_nval_ext st st' : (forall j, ident_of st' j = ident_of st j) -> forall n, to_nval st' n = to_nval st n.
Proof.
  intros H. fix IH 1. intros [v|l]; cbn [to_nval].
  - f_equal. apply to_aval_ext. exact H.
  - f_equal. revert l. fix IHl 1. intros [|x r]; [reflexivity|]. f_equal; [apply IH | apply IHl].
Qed.

Lemma to_attr_ext st st' ad vu : (forall j, ident_of st' j = ident_of st j) -> to_attr st' ad vu = to_attr st ad vu.
Proof.
  intros H. unfold to_attr. f_equal. unfold to_pval. destruct (fst vu); [reflexivity | f_equal; apply to_aval_ext; exact H|].
  f_equal. apply map_ext. intros n. apply to_nval_ext. exact H.
Qed.

Lemma obj_of_other st k it' i : k <> i -> item_ext (item_at st k) it' -> obj_of (set_item st k it') i = obj_of st i.
Proof.
  intros Hne (Es & _ & Hid).
  assert (Hident : forall j, ident_of (set_item st k it') j = ident_of st j).
  { apply ident_of_set_item; [exact Hid | apply (f_equal fst) in Es; exact Es]. }
  unfold obj_of. rewrite Hident. f_equal.
  assert (Eit : item_at (set_item st k it') i = item_at st i) by (unfold item_at, set_item; cbn [b_items]; apply nth_upd_other; exact Hne).
  rewrite Eit. apply map_ext. intros [ad vu]. apply to_attr_ext. exact Hident.
Qed.

(* the fold again, now remembering WHICH objects were encoded: with pairwise distinct items they are the objects of the
   final state *)
Lemma fold_objs_exact ty : forall items st bs0 st' bs,
  fold_left obj_step items (OK (st, bs0)) = OK (st', bs) ->
  Inv st -> Forall (in_set_ty (map isig (b_items st)) ty) items -> NoDup items ->
  exists b', bs = bs0 ++ b' /\ enc_list enc_obj (map (obj_of st') items) = OK b'
             /\ (forall j, ~ In j items -> obj_of st' j = obj_of st j).
Proof.
  induction items as [|i items IH]; intros st bs0 st' bs H Hi Hall Hnd.
  - inv H. exists []. rewrite app_nil_r. split; [reflexivity|]. split; [reflexivity | intros; reflexivity].
  - cbn [fold_left] in H. unfold obj_step at 2 in H. cbn [bind] in H.
    destruct (run_checks st (sync_repr_code (item_at st i))) as [it|e] eqn:Erc; cbn [bind] in H; [|rewrite fold_err in H by apply obj_step_err; discriminate].
    destruct (enc_obj (obj_of (set_item st i it) i)) as [b|e] eqn:Eo; cbn [bind] in H; [|rewrite fold_err in H by apply obj_step_err; discriminate].
    assert (Ext : item_ext (item_at st i) it) by (eapply item_ext_trans; [apply sync_repr_code_ext | eapply run_checks_ext; exact Erc]).
    assert (Hi2 : Inv (set_item st i it)) by (apply set_item_inv; assumption).
    assert (Es : map isig (b_items (set_item st i it)) = map isig (b_items st)) by (apply set_item_sigs; apply Ext).
    apply Forall_cons_iff in Hall. destruct Hall as [_ Hrest]. inversion Hnd as [|? ? Hni Hnd']; subst.
    destruct (IH _ _ _ _ H Hi2 ltac:(rewrite Es; exact Hrest) Hnd') as (b' & -> & Hos & Hstable).
    exists (b ++ b'). rewrite app_assoc. split; [reflexivity|]. split.
    + cbn [map enc_list]. rewrite (Hstable i Hni), Eo. cbn [bind]. rewrite Hos. reflexivity.
    + intros j Hj. rewrite Hstable by (intros Hin; apply Hj; right; exact Hin).
      apply obj_of_other; [intros ->; apply Hj; left; reflexivity | exact Ext].
Qed.

Lemma fold_objs_sets : forall items st bs0 st' bs, fold_left obj_step items (OK (st, bs0)) = OK (st', bs) -> b_sets st' = b_sets st.
Proof.
  induction items as [|i l IH]; intros st bs0 st' bs H; [inv H; reflexivity|].
  cbn [fold_left] in H. unfold obj_step at 2 in H. cbn [bind] in H.
  destruct (run_checks st (sync_repr_code (item_at st i))) as [it|e]; cbn [bind] in H; [|rewrite fold_err in H by apply obj_step_err; discriminate].
  destruct (enc_obj (obj_of (set_item st i it) i)) as [b|e]; cbn [bind] in H; [|rewrite fold_err in H by apply obj_step_err; discriminate].
  rewrite (IH _ _ _ _ H). reflexivity.
Qed.

Definition eset_of (st : bstate) (sid : nat) : eset :=
  let s := set_at st sid in
  {| e_type := td_settype (tdef_at (s_ty s)); e_name := s_name s; e_objs := map (obj_of st) (s_items s) |}.

Theorem enc_sset_faithful st sid st' r :
  enc_sset st sid = OK (st', r) -> Inv st -> s_items (set_at st sid) <> [] ->
  exists d, dec_set (lr_body r) = Some d /\ set_matches (eset_of st' sid) d.
Proof.
  unfold enc_sset. cbv zeta. intros H Hi Hne.
  set (s := set_at st sid) in *. set (ty := s_ty s) in *.
  change (fun (acc : res (bstate * bytes)) (i : nat) => _) with obj_step in H.
  bind_inv H. destruct a as [st1 objs]. rename H0 into Hfold.
  assert (Hall : Forall (in_set_ty (map isig (b_items st)) ty) (s_items s)).
  { destruct Hi as [_ [_ Hsets _]]. unfold s, ty, set_at.
    destruct (Nat.lt_ge_cases sid (length (b_sets st))) as [Hlt|Hge].
    - rewrite Forall_forall in Hsets. exact (proj1 (Hsets _ (nth_In _ _ Hlt))).
    - rewrite nth_overflow by exact Hge. constructor. }
  assert (Hnd : NoDup (s_items s)) by (apply inv_set_nodup; apply Hi).
  destruct (fold_objs ty _ _ _ _ _ Hfold Hi Hall) as (Hi1 & Es & os & b0 & E0 & Hos0 & Hlen & Hok).
  destruct (fold_objs_exact ty _ _ _ _ _ Hfold Hi Hall Hnd) as (b' & -> & Hos & _). cbn [app] in *.
  (* the set of st1 is the set of st: only items were updated *)
  pose proof (fold_objs_sets _ _ _ _ _ Hfold) as Hsets.
  assert (Hset1 : set_at st1 sid = s) by (unfold set_at, s; rewrite Hsets; reflexivity).
  destruct (s_items s) as [|i0 rest] eqn:Eit; [congruence|].
  bind_inv H. rename a into sc, H0 into Hsc. bind_inv H. rename a into tb, H0 into Htb. apply OK_inj_ in H. injection H as <- <-. cbn [lr_body].
  (* labels of the template written before the checks = labels of the first object after them *)
  pose proof Hall as Hall0. apply Forall_cons_iff in Hall. destruct Hall as [[Hlt0 Hty0] _].
  assert (Hi0 : (i0 < length (b_items st))%nat) by (rewrite map_length in Hlt0; exact Hlt0).
  assert (Hty0' : i_ty (item_at st i0) = ty) by (rewrite <- Hty0, sig_nth; reflexivity).
  pose proof (obj_of_ok st i0 Hi Hi0) as (_ & _ & Hlab0). rewrite Hty0' in Hlab0.
  assert (Hi01 : (i0 < length (b_items st1))%nat) by (rewrite <- (map_length isig), Es, map_length; exact Hi0).
  assert (Hty01 : i_ty (item_at st1 i0) = ty) by (rewrite <- Hty0, <- Es, sig_nth; reflexivity).
  pose proof (obj_of_ok st1 i0 Hi1 Hi01) as Hok0. rewrite Hty01 in Hok0.
  assert (Htb' : enc_list enc_attr_tmpl (o_attrs (obj_of st1 i0)) = OK tb).
  { rewrite <- Htb. apply tmpl_labels. destruct Hok0 as (_ & _ & Hl). congruence. }
  assert (Hes : eset_of st1 sid = {| e_type := td_settype (tdef_at ty); e_name := s_name s; e_objs := map (obj_of st1) (i0 :: rest) |}).
  { unfold eset_of. rewrite Hset1. fold ty. rewrite Eit. reflexivity. }
  rewrite Hes.
  set (es := {| e_type := td_settype (tdef_at ty); e_name := s_name s; e_objs := map (obj_of st1) (i0 :: rest) |}).
  assert (Henc : enc_set es = OK (sc ++ tb ++ b')).
  { unfold enc_set, es. cbn [e_objs map]. change (enc_set_comp _) with (enc_set_comp {| e_type := td_settype (tdef_at ty); e_name := s_name s; e_objs := [] |}).
    rewrite Hsc. cbn [bind]. rewrite Htb'. cbn [bind]. cbn [map] in Hos. rewrite Hos. reflexivity. }
  assert (Hwf : wf_set es).
  { unfold wf_set, es. cbn [e_objs map]. split.
    - destruct Hok0 as (_ & _ & Hl). pose proof (labels_nonnil ty) as Hn. rewrite <- Hl in Hn. rewrite Forall_map in Hn. exact Hn.
    - assert (Hobjs : Forall (obj_ok ty) (map (obj_of st1) (i0 :: rest))).
      { apply Forall_forall. intros o Ho. apply in_map_iff in Ho. destruct Ho as (j & <- & Hj).
        assert (Hjall : in_set_ty (map isig (b_items st1)) ty j).
        { rewrite Es. rewrite Forall_forall in Hall0. exact (Hall0 j Hj). }
        destruct Hjall as [Hjl Hjt]. rewrite map_length in Hjl. pose proof (obj_of_ok st1 j Hi1 Hjl) as Ho.
        replace (i_ty (item_at st1 j)) with ty in Ho; [exact Ho|]. rewrite <- Hjt, sig_nth. reflexivity. }
      cbn [map] in Hobjs. eapply Forall_impl; [|exact Hobjs]. intros o (Ho1 & Ho2 & _). destruct Hok0 as (H01 & _). split; [congruence | exact Ho2]. }
  destruct (enc_set_dec es _ Hwf ltac:(discriminate) Henc) as (d & Hd & Hm). exists d. split; [exact Hd | exact Hm].
Qed.

(* ---------- C16 over the API: the no-format records of a logical file ---------- *)
Definition nofmt_rel (st : bstate) (call : raw * payload_in) (r : lrec) : Prop :=
  exists i pl b, fst call = RRef i /\ payload_of (snd call) = OK pl
                 /\ nofmt_body (snd (ident_of st i)) pl = OK b /\ r = {| lr_eflr := false; lr_type := 1; lr_body := b |}.

Theorem lf_nofmt_records st f frames st' recs :
  lf_records st f frames = OK (st', recs) ->
  exists pre nf fd, recs = pre ++ nf ++ fd
    /\ Forall (fun r => lr_eflr r = true) pre
    /\ Forall2 (nofmt_rel st') (l_nofmt f) nf
    /\ Forall (fun r => lr_eflr r = false /\ lr_type r = 0) fd.
Proof.
  unfold lf_records. intros H. bind_inv H. rename a into fh. bind_inv H. destruct a as [st1 erecs]. rename H1 into Hfold.
  bind_inv H. rename a into nf, H1 into Hnf. bind_inv H. rename a into fd, H1 into Hfd. inv H.
  exists erecs, nf, fd. split; [reflexivity|].
  split.
  { change (fun (acc : res (bstate * list lrec)) (sid : nat) => _) with sets_step in Hfold.
    destruct (fold_sets_eflr _ _ _ _ _ Hfold) as (er & -> & Her & _). apply Forall_app. split; [constructor; [reflexivity | constructor] | exact Her]. }
  split.
  - clear -Hnf. revert nf Hnf. induction (l_nofmt f) as [|[obj p] l IH]; intros nf H; [inv H; constructor|].
    destruct obj; try discriminate. destruct (nth_error (b_items st') i); [|discriminate].
    bind_inv H. bind_inv H. bind_inv H. inv H. constructor; [|apply IH; assumption].
    unfold nofmt_rec in H1. bind_inv H1. inv H1. exists i, a, a2. cbn [fst snd]. repeat split; assumption.
  - clear -Hfd. revert fd Hfd. induction frames as [|[fr rows] l IH]; intros fd H; [inv H; constructor|].
    bind_inv H. bind_inv H. inv H. apply Forall_app. split; [|apply IH; assumption].
    clear -H0. revert H0. generalize 1. revert a. induction rows as [|row rows IHr]; intros a i H; [inv H; constructor|].
    cbn [frame_recs] in H. bind_inv H. bind_inv H. inv H. constructor; [|eapply IHr; eassumption].
    unfold fdata_rec in H0. bind_inv H0. inv H0. split; reflexivity.
Qed.

Lemma nth_error_upd_same {A} : forall (l : list A) n x y, nth_error l n = Some y -> nth_error (upd l n x) n = Some x.
Proof. induction l as [|h t IH]; intros [|n] x y H; try discriminate; cbn [upd nth_error] in *; [reflexivity | eapply IH; exact H]. Qed.

Theorem nofmt_call_appends st l obj p st' :
  add_nofmt_data st l obj p = (st', Accepted None) ->
  exists f f', lf_at st l = Some f /\ lf_at st' l = Some f' /\ l_nofmt f' = l_nofmt f ++ [(obj, p)].
Proof.
  unfold add_nofmt_data. destruct (lf_at st l) as [f|] eqn:Hf; intros H; inv H.
  exists f. eexists. split; [reflexivity|]. split; [unfold lf_at, set_lf in *; cbn [b_lfs]; eapply nth_error_upd_same; exact Hf | reflexivity].
Qed.

(* ---------- frame rule of the whole API: a call never touches the attribute states of existing objects, except the
   assignment, which touches one object ---------- *)
Definition attrs_at (st : bstate) (j : nat) := i_attrs (item_at st j).

Lemma add_common_attrs hc st l ty name sn org dflt kw ds cast st' out j :
  add_common hc st l ty name sn org dflt kw ds cast = (st', out) -> (j < length (b_items st))%nat ->
  attrs_at st' j = attrs_at st j /\ (length (b_items st) <= length (b_items st'))%nat.
Proof.
  unfold add_common. destruct (lf_at st l) as [f|]; [|intros H; inv H; auto].
  destruct (get_or_make_set st ty sn) as [st1 sid] eqn:Hg. pose proof (gms_items _ _ _ _ _ Hg) as Hit. intros H Hj.
  assert (E2 : forall x, attrs_at (set_lf st1 l x) j = attrs_at st j /\ (length (b_items st) <= length (b_items (set_lf st1 l x)))%nat).
  { intros x. unfold attrs_at, item_at. cbn [set_lf b_items]. rewrite Hit. auto. }
  destruct name; try (inv H; apply E2).
  destruct (hc && negb (hc_string s)); [inv H; apply E2|].
  match type of H with context [match ?o with OK _ => _ | Err _ => _ end] => destruct o end; [|inv H; apply E2].
  match type of H with context [set_attributes ?a ?b ?c ?d] => destruct (set_attributes a b c d) as [it|] end; inv H; [|apply E2].
  unfold attrs_at, item_at, register. cbn [b_items set_lf]. rewrite Hit, app_length. split; [rewrite app_nth1 by exact Hj; reflexivity | lia].
Qed.

Lemma fill_some_attrs mine o : forall items k j,
  i_attrs (nth j (fill_some mine o k items) dummy_item) = i_attrs (nth j items dummy_item).
Proof.
  induction items as [|it r IH]; intros k j; [reflexivity|].
  cbn [fill_some]. destruct j; cbn [nth]; [|apply IH].
  destruct (existsb (Nat.eqb k) mine); [|reflexivity]. unfold fill_origin. destruct (i_origin it); reflexivity.
Qed.

Lemma add_common_new_index hc st l ty name sn org dflt kw ds cast st' iid :
  add_common hc st l ty name sn org dflt kw ds cast = (st', Accepted (Some iid)) -> iid = length (b_items st).
Proof.
  unfold add_common. destruct (lf_at st l) as [f|]; [|intros H; inv H].
  destruct (get_or_make_set st ty sn) as [st1 sid] eqn:Hg. pose proof (gms_items _ _ _ _ _ Hg) as Hit. intros H.
  destruct name; try solve [inv H].
  destruct (hc && negb (hc_string s)); [inv H|].
  match type of H with context [match ?o with OK _ => _ | Err _ => _ end] => destruct o end; [|inv H].
  match type of H with context [set_attributes ?a ?b ?c ?d] => destruct (set_attributes a b c d) as [it|] end; inv H.
  cbn [set_lf b_items]. rewrite Hit. reflexivity.
Qed.

Theorem step_attrs_frame ps st o ps' st' out j :
  step ps st o = (ps', st', out) -> (j < length (b_items st))%nat ->
  attrs_at st' j = attrs_at st j \/ (exists idx u r, o = OAssign j idx u r).
Proof.
  intros H Hj. destruct o; unfold step in H.
  - left. unfold add_lf in H. destruct hid; try (inv H; reflexivity). destruct seq; try (inv H; reflexivity).
    repeat match type of H with context [if ?c then _ else _] => destruct c end; inv H; reflexivity.
  - left. destruct (add_common (p_hc ps) st l ty name sn origin default_origin kw None None) as [s1 o1] eqn:E.
    injection H as <- <- <-. eapply add_common_attrs; eassumption.
  - left. destruct (add_origin (p_hc ps) st l name sn origin kw) as [s1 o1] eqn:E. injection H as <- <- <-.
    unfold add_origin in E. destruct (lf_at st l) as [f|]; [|inv E; reflexivity].
    destruct (get_or_make_set st T_ORIGIN sn) as [st1 sid] eqn:Hg. pose proof (gms_items _ _ _ _ _ Hg) as Hit.
    set (st2 := set_lf st1 l (try_add_set st1 f T_ORIGIN sn sid)) in *.
    assert (E2 : attrs_at st2 j = attrs_at st j) by (unfold attrs_at, item_at, st2; cbn [set_lf b_items]; rewrite Hit; reflexivity).
    assert (Hj2 : (j < length (b_items st2))%nat) by (unfold st2; cbn [set_lf b_items]; rewrite Hit; exact Hj).
    match type of E with context [match ?c with Some _ => _ | None => _ end = _] => destruct c end; [inv E; exact E2|].
    match type of E with context [add_common ?a ?b ?c ?d ?e0 ?f0 ?g ?h ?i ?j0 ?k] =>
      destruct (add_common a b c d e0 f0 g h i j0 k) as [st3 out3] eqn:Ea end.
    destruct (add_common_attrs _ _ _ _ _ _ _ _ _ _ _ _ _ j Ea Hj2) as [E3 Hlen].
    destruct out3 as [[iid|]|e3]; try (inv E; congruence). inv E.
    (* iid is the index of the new item: length (b_items st2) > j *)
    pose proof (add_common_new_index _ _ _ _ _ _ _ _ _ _ _ _ _ Ea) as Hiid.
    assert (E4 : attrs_at (origin_fsn_default (p_hc ps) st3 sid iid) j = attrs_at st3 j).
    { unfold origin_fsn_default. destruct (fst (nth _ (i_attrs (item_at st3 iid)) (SPNone, None))); try reflexivity.
      destruct (p_hc ps); [|reflexivity]. unfold attrs_at, item_at, set_item. cbn [b_items]. rewrite nth_upd_other by lia. reflexivity. }
    unfold origin_backfill. match goal with |- context [if ?c then _ else _] => destruct c end; [|congruence].
    rewrite <- E2, <- E3, <- E4. unfold attrs_at, item_at. cbn [set_lf b_items].
    apply fill_some_attrs.
  - left. destruct (add_channel (p_hc ps) st l name sn origin kw bad_data data ds cast) as [s1 o1] eqn:E. injection H as <- <- <-.
    unfold add_channel in E. destruct (lf_at st l) as [f|]; [|inv E; reflexivity].
    destruct bad_data; [inv E; reflexivity|].
    destruct (unique_dataset_name st f _ ds); [|inv E; reflexivity].
    destruct cast as [[c|]|].
    + destruct (add_common (p_hc ps) st l T_CHANNEL name sn origin default_origin kw (Some a) (Some c)) as [st3 out3] eqn:Ea.
      destruct (add_common_attrs _ _ _ _ _ _ _ _ _ _ _ _ _ j Ea Hj) as [E3 _].
      destruct out3 as [[iid|]|e3]; [destruct data; [destruct (lf_at st3 l)|]|..]; inv E; exact E3.
    + destruct (get_or_make_set st T_CHANNEL sn) as [st1 sid] eqn:Hg. inv E. unfold attrs_at, item_at. cbn [set_lf b_items].
      rewrite (gms_items _ _ _ _ _ Hg). reflexivity.
    + destruct (add_common (p_hc ps) st l T_CHANNEL name sn origin default_origin kw (Some a) None) as [st3 out3] eqn:Ea.
      destruct (add_common_attrs _ _ _ _ _ _ _ _ _ _ _ _ _ j Ea Hj) as [E3 _].
      destruct out3 as [[iid|]|e3]; [destruct data; [destruct (lf_at st3 l)|]|..]; inv E; exact E3.
  - left. destruct (add_frame (p_hc ps) st l name sn origin channels chan_attr_idx kw) as [s1 o1] eqn:E. injection H as <- <- <-.
    unfold add_frame in E. destruct channels; try (inv E; reflexivity). destruct l0; [inv E; reflexivity|].
    match type of E with context [if ?c then _ else _] => destruct c end; [|inv E; reflexivity].
    eapply add_common_attrs; eassumption.
  - destruct (Nat.eq_dec i j) as [->|Hne]; [right; eauto|]. left.
    unfold assign in H. destruct (nth_error (b_items st) i); [|inv H; reflexivity].
    match type of H with context [match ?x with OK _ => _ | Err _ => _ end] => destruct x end; inv H; [|reflexivity].
    unfold attrs_at, item_at, set_item. cbn [b_items]. rewrite nth_upd_other by exact Hne. reflexivity.
  - left. unfold add_nofmt_data in H. destruct (lf_at st l); inv H; reflexivity.
  - left. inv H. reflexivity.
  - left. inv H. reflexivity.
  - left. destruct (p_stack ps); inv H; reflexivity.
  - left. unfold set_origin in H. destruct (nth_error (b_items st) i) as [it|] eqn:En; [|inv H; reflexivity].
    destruct r; inv H; try reflexivity. unfold attrs_at, item_at, set_item. cbn [b_items].
    destruct (Nat.eq_dec i j) as [->|Hne]; [|rewrite nth_upd_other by exact Hne; reflexivity].
    rewrite nth_upd_same by exact Hj. cbn [with_origin i_attrs]. rewrite (nth_error_nth _ _ dummy_item En). reflexivity.
  - left. unfold set_header in H. destruct (lf_at st l); [|inv H; reflexivity]. destruct is_id, r; inv H; reflexivity.
Qed.
