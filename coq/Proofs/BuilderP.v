(* BuilderP.v — invariants of the API state machine: mode restoration (C17), rejected calls leave no trace (C20),
   copy numbers and identity (C07), record order (C09), independence of earlier files (C14), assignment frame rule (C05). *)
From DV Require Import Model.ApiDispatch Proofs.BaseP Proofs.PrimP.
From Coq Require Import Lia ZifyBool.

(* ---------- C17: the mode flag ---------- *)

Definition is_hc_op (o : op) : bool := match o with OEnterHC | OExitHC => true | _ => false end.

Lemma step_keeps_mode ps st o : is_hc_op o = false -> fst (fst (step ps st o)) = ps.
Proof.
  destruct o; cbn [is_hc_op]; intros H; try discriminate; unfold step;
    repeat match goal with |- context [let '(_, _) := ?x in _] => destruct x end; reflexivity.
Qed.

Definition pstate_of (r : pstate * bstate * list outcome) : pstate := fst (fst r).
Definition bstate_of (r : pstate * bstate * list outcome) : bstate := snd (fst r).

Lemma run_ops_app ps st a b :
  run_ops ps st (a ++ b) =
    let '(ps1, st1, o1) := run_ops ps st a in
    let '(ps2, st2, o2) := run_ops ps1 st1 b in (ps2, st2, o1 ++ o2).
Proof.
  revert ps st. induction a as [|x a IH]; intros ps st; cbn [app run_ops].
  - destruct (run_ops ps st b) as [[? ?] ?]. reflexivity.
  - destruct (step ps st x) as [[ps1 st1] out]. rewrite IH.
    destruct (run_ops ps1 st1 a) as [[ps2 st2] o2]. destruct (run_ops ps2 st2 b) as [[ps3 st3] o3]. reflexivity.
Qed.

(* properly nested use of the context manager (also when left by an exception: the finally clause is OExitHC) *)
Inductive balanced : list op -> Prop :=
| bal_nil : balanced []
| bal_other : forall o ops, is_hc_op o = false -> balanced ops -> balanced (o :: ops)
| bal_ctx : forall inner rest, balanced inner -> balanced rest -> balanced (OEnterHC :: inner ++ OExitHC :: rest).

Theorem mode_restored : forall ops, balanced ops -> forall ps st, pstate_of (run_ops ps st ops) = ps.
Proof.
  intros ops H. induction H as [|o ops Ho Hb IH|inner rest Hi IHi Hr IHr]; intros ps st.
  - reflexivity.
  - cbn [run_ops]. pose proof (step_keeps_mode ps st o Ho) as Hs.
    destruct (step ps st o) as [[ps1 st1] out]. cbn in Hs. subst ps1.
    specialize (IH ps st1). destruct (run_ops ps st1 ops) as [[ps2 st2] outs]. exact IH.
  - cbn [run_ops step]. rewrite run_ops_app.
    set (ps1 := {| p_hc := true; p_stack := p_hc ps :: p_stack ps |}).
    specialize (IHi ps1 st). destruct (run_ops ps1 st inner) as [[ps2 st2] o2]. unfold pstate_of in IHi. cbn in IHi. subst ps2.
    cbn [run_ops step]. cbn [p_stack ps1].
    specialize (IHr {| p_hc := p_hc ps; p_stack := p_stack ps |} st2).
    destruct (run_ops {| p_hc := p_hc ps; p_stack := p_stack ps |} st2 rest) as [[ps3 st3] o3].
    unfold pstate_of in *. cbn in *. rewrite IHr. destruct ps; reflexivity.
Qed.

(* inside the context the flag is on *)
Lemma enter_sets_mode ps st : p_hc (fst (fst (step ps st OEnterHC))) = true.
Proof. reflexivity. Qed.

(* in the mode, an accepted add_* has a name matching [A-Z0-9_-]+ *)
Lemma hc_name_enforced st l ty name sn org dflt kw ds cast st' iid :
  add_common true st l ty name sn org dflt kw ds cast = (st', Accepted (Some iid)) ->
  exists nm h, name = RStr nm h /\ hc_string nm = true.
Proof.
  unfold add_common. destruct (lf_at st l); [|discriminate].
  destruct (get_or_make_set st ty sn) as [st1 sid].
  destruct name; try discriminate. cbn [andb].
  destruct (hc_string s) eqn:E; cbn [negb]; [|discriminate].
  intros _. eauto.
Qed.

(* ---------- C20: a rejected call leaves no trace ---------- *)

(* what a write reads, up to empty sets: the objects, the item list of every existing set, the no-format data, the data
   dictionary and the header of every logical file; sets that did not exist before are empty *)
Record same_content (st st' : bstate) : Prop := {
  sc_items : b_items st' = b_items st;
  sc_sets : exists extra, b_sets st' = b_sets st ++ extra /\ Forall (fun s => s_items s = []) extra;
  sc_lfs : map (fun f => (l_hid f, l_seq f, l_ident f, l_fh_origin f, l_nofmt f, l_data f)) (b_lfs st')
           = map (fun f => (l_hid f, l_seq f, l_ident f, l_fh_origin f, l_nofmt f, l_data f)) (b_lfs st)
}.

Lemma same_content_refl st : same_content st st.
Proof. constructor; [reflexivity | exists []; rewrite app_nil_r; auto | reflexivity]. Qed.

Lemma gms_content st ty sn st1 sid :
  get_or_make_set st ty sn = (st1, sid) ->
  b_items st1 = b_items st /\ b_lfs st1 = b_lfs st /\
  exists extra, b_sets st1 = b_sets st ++ extra /\ Forall (fun s => s_items s = []) extra.
Proof.
  unfold get_or_make_set. cbv zeta. destruct (reg_find (b_phys st) ty _); intros H; inv H.
  - repeat split. exists []. rewrite app_nil_r. auto.
  - cbn. repeat split. eexists. split; [reflexivity|]. constructor; [reflexivity | constructor].
Qed.

Lemma upd_map_same {A B} (f : A -> B) : forall (l : list A) n x,
  (forall y, nth_error l n = Some y -> f x = f y) -> map f (upd l n x) = map f l.
Proof.
  induction l as [|h t IH]; intros n x H; [reflexivity|]. destruct n; cbn.
  - f_equal. apply H. reflexivity.
  - f_equal. apply IH. intros y Hy. apply H. exact Hy.
Qed.

Lemma set_lf_try_content st s0 l f ty sn sid :
  lf_at st l = Some f -> same_content st (set_lf st l (try_add_set s0 f ty sn sid)).
Proof.
  intros Hf. constructor; cbn.
  - reflexivity.
  - exists []. rewrite app_nil_r. auto.
  - apply upd_map_same. intros y Hy. unfold lf_at in Hf. rewrite Hf in Hy. inv Hy.
    unfold try_add_set. cbv zeta. destruct (reg_find (forget_empty s0 (l_reg y) ty _) ty _); reflexivity.
Qed.

Lemma same_content_trans a b c : same_content a b -> same_content b c -> same_content a c.
Proof.
  intros [I1 (e1 & S1 & F1) L1] [I2 (e2 & S2 & F2) L2]. constructor.
  - congruence.
  - exists (e1 ++ e2). split; [rewrite S2, S1, app_assoc; reflexivity | apply Forall_app; auto].
  - congruence.
Qed.

Lemma gms_try_content st l f ty sn st1 sid :
  lf_at st l = Some f -> get_or_make_set st ty sn = (st1, sid) ->
  same_content st (set_lf st1 l (try_add_set st1 f ty sn sid)).
Proof.
  intros Hf Hg. destruct (gms_content _ _ _ _ _ Hg) as (Hi & Hl & extra & Hs & He).
  apply same_content_trans with st1.
  - constructor; [exact Hi | eauto | rewrite Hl; reflexivity].
  - apply set_lf_try_content. unfold lf_at in *. rewrite Hl. exact Hf.
Qed.

Lemma add_common_reject hc st l ty name sn org dflt kw ds cast st' e :
  add_common hc st l ty name sn org dflt kw ds cast = (st', Rejected e) -> same_content st st'.
Proof.
  unfold add_common. destruct (lf_at st l) as [f|] eqn:Hf; [|intros H; inv H; apply same_content_refl].
  destruct (get_or_make_set st ty sn) as [st1 sid] eqn:Hg.
  pose proof (gms_try_content st l f ty sn st1 sid Hf Hg) as Hc.
  destruct name; try (intros H; inv H; exact Hc).
  destruct (hc && negb (hc_string s)); [intros H; inv H; exact Hc|].
  match goal with |- context [match ?o with OK _ => _ | Err _ => _ end] => destruct o end;
    [|intros H; inv H; exact Hc].
  match goal with |- context [set_attributes ?a ?b ?c ?d] => destruct (set_attributes a b c d) end;
    intros H; inv H. exact Hc.
Qed.

Theorem reject_no_trace ps st o ps' st' e :
  step ps st o = (ps', st', Rejected e) -> ps' = ps /\ same_content st st'.
Proof.
  destruct o; unfold step.
  - (* add_logical_file *)
    unfold add_lf. destruct hid; try (intros H; inv H; split; [reflexivity | apply same_content_refl]).
    destruct seq; try (intros H; inv H; split; [reflexivity | apply same_content_refl]).
    repeat match goal with |- context [if ?c then _ else _] => destruct c end;
      intros H; inv H; split; try reflexivity; apply same_content_refl.
  - destruct (add_common (p_hc ps) st l ty name sn origin default_origin kw None None) as [s1 out] eqn:E.
    intros H; injection H as <- -> ->. split; [reflexivity|]. eapply add_common_reject; eassumption.
  - (* add_origin *)
    destruct (add_origin (p_hc ps) st l name sn origin kw) as [s1 out] eqn:E. intros H; injection H as <- -> ->. split; [reflexivity|].
    unfold add_origin in E. destruct (lf_at st l) as [f|] eqn:Hf; [|inv E; apply same_content_refl].
    destruct (get_or_make_set st T_ORIGIN sn) as [st1 sid] eqn:Hg.
    pose proof (gms_try_content st l f T_ORIGIN sn st1 sid Hf Hg) as Hc.
    match type of E with context [match ?c with Some _ => _ | None => _ end = _] => destruct c eqn:Hclash end;
      [inv E; exact Hc|].
    match type of E with context [add_common ?a ?b ?c ?d ?e0 ?f0 ?g ?h ?i ?j ?k] =>
      destruct (add_common a b c d e0 f0 g h i j k) as [st3 out3] eqn:Ea end.
    destruct out3 as [[iid|]|e3].
    + inv E.
    + inv E.
    + inv E. eapply same_content_trans; [exact Hc|]. eapply add_common_reject; eassumption.
  - (* add_channel *)
    destruct (add_channel (p_hc ps) st l name sn origin kw bad_data data ds cast) as [s1 out] eqn:E. intros H; injection H as <- -> ->.
    split; [reflexivity|]. unfold add_channel in E.
    destruct (lf_at st l) as [f|] eqn:Hf; [|inv E; apply same_content_refl].
    destruct bad_data; [inv E; apply same_content_refl|].
    destruct (unique_dataset_name st f _ ds); [|inv E; apply same_content_refl].
    destruct cast as [[c|]|].
    + destruct (add_common (p_hc ps) st l T_CHANNEL name sn origin default_origin kw (Some a) (Some c)) as [st3 out3] eqn:Ea.
      destruct out3 as [[iid|]|e3]; [destruct data; [destruct (lf_at st3 l)|]; inv E | inv E |].
      destruct data; inv E; eapply add_common_reject; eassumption.
    + destruct (get_or_make_set st T_CHANNEL sn) as [st1 sid] eqn:Hg. inv E. eapply gms_try_content; eassumption.
    + destruct (add_common (p_hc ps) st l T_CHANNEL name sn origin default_origin kw (Some a) None) as [st3 out3] eqn:Ea.
      destruct out3 as [[iid|]|e3]; [destruct data; [destruct (lf_at st3 l)|]; inv E | inv E |].
      destruct data; inv E; eapply add_common_reject; eassumption.
  - (* add_frame *)
    destruct (add_frame (p_hc ps) st l name sn origin channels chan_attr_idx kw) as [s1 out] eqn:E. intros H; injection H as <- -> ->.
    split; [reflexivity|]. unfold add_frame in E.
    destruct channels; try (inv E; apply same_content_refl).
    destruct l0; [inv E; apply same_content_refl|].
    match type of E with context [if ?c then _ else _] => destruct c end; [|inv E; apply same_content_refl].
    eapply add_common_reject; eassumption.
  - (* assignment *)
    unfold assign. destruct (nth_error (b_items st) i); [|intros H; inv H; split; [reflexivity | apply same_content_refl]].
    match goal with |- context [match ?x with OK _ => _ | Err _ => _ end] => destruct x end;
      intros H; inv H. split; [reflexivity | apply same_content_refl].
  - unfold add_nofmt_data. destruct (lf_at st l); intros H; inv H. split; [reflexivity | apply same_content_refl].
  - intros H; inv H.
  - intros H; inv H.
  - destruct (p_stack ps); intros H; inv H. split; [reflexivity | apply same_content_refl].
  - unfold set_origin. destruct (nth_error (b_items st) i); [|intros H; inv H; split; [reflexivity | apply same_content_refl]].
    destruct r; intros H; inv H; split; try reflexivity; apply same_content_refl.
  - unfold set_header. destruct (lf_at st l); [|intros H; inv H; split; [reflexivity | apply same_content_refl]].
    destruct is_id, r; intros H; inv H; split; try reflexivity; apply same_content_refl.
Qed.

(* ---------- C07: copy numbers make identities unique within a set ---------- *)

Definition count_name (n : list Z) (names : list (list Z)) : Z := zlen (filter (fun m => list_eqb m n) names).

(* a registration history: every object's copy number is the number of earlier objects of the same name *)
Inductive copy_ok : list (list Z * Z) -> Prop :=
| cok_nil : copy_ok []
| cok_snoc : forall l n, copy_ok l -> copy_ok (l ++ [(n, count_name n (map fst l))]).

Lemma list_eqb_refl a : list_eqb a a = true.
Proof. apply list_eqb_eq. reflexivity. Qed.

Lemma count_name_app n a b : count_name n (a ++ b) = count_name n a + count_name n b.
Proof. unfold count_name. rewrite filter_app, zlen_app. reflexivity. Qed.

Lemma count_name_nonneg n l : 0 <= count_name n l.
Proof. apply zlen_nonneg. Qed.

Lemma copy_ok_lt l : copy_ok l -> forall n c, In (n, c) l -> 0 <= c < count_name n (map fst l).
Proof.
  induction 1 as [|l m Hl IH]; intros n c Hin; [contradiction|].
  rewrite map_app, count_name_app. cbn [map fst]. apply in_app_or in Hin. destruct Hin as [Hin | [Heq | []]].
  - specialize (IH n c Hin). pose proof (count_name_nonneg n [m]). lia.
  - injection Heq as <- <-. rename m into n0. split; [apply count_name_nonneg|].
    assert (E : count_name n0 [n0] = 1) by (unfold count_name; cbn [filter]; rewrite list_eqb_refl; reflexivity).
    rewrite E. lia.
Qed.

Theorem copy_ok_nodup l : copy_ok l -> NoDup l.
Proof.
  induction 1 as [|l m Hl IH]; [constructor|].
  apply NoDup_app_snoc; [exact IH|]. intros Hin. apply (copy_ok_lt l Hl) in Hin. lia.
Qed.

Definition pairs_of (items : list item) (sets : list sset) (sid : nat) : list (list Z * Z) :=
  map (fun i => (i_name (nth i items dummy_item), i_copy (nth i items dummy_item)))
      (s_items (nth sid sets {| s_ty := 0; s_name := None; s_items := [] |})).

(* the invariant only concerns the objects and the sets' registration lists *)
Definition Inv_copy' (items : list item) (sets : list sset) : Prop :=
  (forall sid, Forall (fun i => (i < length items)%nat) (s_items (nth sid sets {| s_ty := 0; s_name := None; s_items := [] |})))
  /\ (forall sid, copy_ok (pairs_of items sets sid)).
Definition Inv_copy (st : bstate) : Prop := Inv_copy' (b_items st) (b_sets st).

Lemma nth_default_items sid (sets : list sset) :
  (length sets <= sid)%nat -> s_items (nth sid sets {| s_ty := 0; s_name := None; s_items := [] |}) = [].
Proof. intros H. rewrite nth_overflow by exact H. reflexivity. Qed.

Lemma inv_init : Inv_copy b_init.
Proof. split; intros sid; unfold pairs_of; cbn; destruct sid; cbn; constructor. Qed.

Lemma inv_new_set items sets s : s_items s = [] -> Inv_copy' items sets -> Inv_copy' items (sets ++ [s]).
Proof.
  intros Hs [H1 H2]. split; intros sid.
  - destruct (Nat.lt_ge_cases sid (length sets)).
    + rewrite app_nth1 by assumption. apply H1.
    + destruct (Nat.eq_dec sid (length sets)) as [->|Hne].
      * rewrite nth_middle. rewrite Hs. constructor.
      * rewrite nth_overflow by (rewrite app_length; cbn; lia). constructor.
  - unfold pairs_of. destruct (Nat.lt_ge_cases sid (length sets)).
    + rewrite app_nth1 by assumption. apply H2.
    + destruct (Nat.eq_dec sid (length sets)) as [->|Hne].
      * rewrite nth_middle. rewrite Hs. constructor.
      * rewrite nth_overflow by (rewrite app_length; cbn; lia). constructor.
Qed.

Lemma gms_inv st ty sn st1 sid : get_or_make_set st ty sn = (st1, sid) -> Inv_copy st -> Inv_copy st1.
Proof.
  unfold get_or_make_set. cbv zeta. destruct (reg_find (b_phys st) ty _); intros H Hi; inv H; [exact Hi|].
  unfold Inv_copy. cbn. apply inv_new_set; [reflexivity | exact Hi].
Qed.

Lemma filter_map_len {A B} (f : A -> B) (p : B -> bool) (l : list A) :
  zlen (filter (fun x => p (f x)) l) = zlen (filter p (map f l)).
Proof. unfold zlen. f_equal. induction l as [|x l IH]; cbn; [reflexivity|]. destruct (p (f x)); cbn; rewrite IH; reflexivity. Qed.

Lemma pairs_items_ext items items' sets sid :
  (forall i, (i < length items)%nat -> i_name (nth i items' dummy_item) = i_name (nth i items dummy_item)
                                       /\ i_copy (nth i items' dummy_item) = i_copy (nth i items dummy_item)) ->
  Forall (fun i => (i < length items)%nat) (s_items (nth sid sets {| s_ty := 0; s_name := None; s_items := [] |})) ->
  pairs_of items' sets sid = pairs_of items sets sid.
Proof.
  intros Hext Hb. unfold pairs_of. apply map_ext_in. intros i Hi.
  rewrite Forall_forall in Hb. destruct (Hext i (Hb i Hi)) as [-> ->]. reflexivity.
Qed.

(* changing objects without touching names or copy numbers *)
Lemma inv_items_ext items items' sets :
  length items' = length items ->
  (forall i, (i < length items)%nat -> i_name (nth i items' dummy_item) = i_name (nth i items dummy_item)
                                       /\ i_copy (nth i items' dummy_item) = i_copy (nth i items dummy_item)) ->
  Inv_copy' items sets -> Inv_copy' items' sets.
Proof.
  intros Hl Hext [H1 H2]. split; intros sid.
  - rewrite Hl. apply H1.
  - rewrite (pairs_items_ext items items' sets sid Hext (H1 sid)). apply H2.
Qed.

Lemma register_inv st sid it :
  i_copy it = same_name_count st sid (i_name it) -> Inv_copy st -> Inv_copy (register st sid it).
Proof.
  intros Hc [H1 H2]. unfold Inv_copy, register. cbn [b_items b_sets].
  set (items := b_items st) in *. set (sets := b_sets st) in *.
  set (dflt := {| s_ty := 0; s_name := None; s_items := [] |}) in *.
  assert (Hold : forall i, (i < length items)%nat -> nth i (items ++ [it]) dummy_item = nth i items dummy_item)
    by (intros i Hi; apply app_nth1; exact Hi).
  split; intros sid'.
  - rewrite app_length. cbn [length].
    destruct (Nat.eq_dec sid' sid) as [->|Hne].
    + destruct (Nat.lt_ge_cases sid (length sets)).
      * rewrite nth_upd_same by assumption. cbn [s_items]. apply Forall_app. split.
        -- eapply Forall_impl; [|apply (H1 sid)]. cbn. intros; lia.
        -- constructor; [lia | constructor].
      * rewrite nth_overflow by (rewrite length_upd; assumption). constructor.
    + rewrite nth_upd_other by congruence. eapply Forall_impl; [|apply (H1 sid')]. cbn. intros; lia.
  - destruct (Nat.eq_dec sid' sid) as [->|Hne].
    + unfold pairs_of. destruct (Nat.lt_ge_cases sid (length sets)).
      * rewrite nth_upd_same by assumption. cbn [s_items]. rewrite map_app. cbn [map].
        rewrite nth_middle.
        assert (Hmap : map (fun i => (i_name (nth i (items ++ [it]) dummy_item), i_copy (nth i (items ++ [it]) dummy_item)))
                           (s_items (set_at st sid)) = pairs_of items sets sid).
        { unfold pairs_of, set_at. fold sets dflt. apply map_ext_in. intros i Hi.
          pose proof (H1 sid) as Hb. rewrite Forall_forall in Hb. rewrite Hold by (apply Hb; exact Hi). reflexivity. }
        rewrite Hmap. rewrite Hc.
        assert (Hcnt : same_name_count st sid (i_name it) = count_name (i_name it) (map fst (pairs_of items sets sid))).
        { unfold same_name_count, count_name, pairs_of, set_at, item_at. fold items sets dflt.
          rewrite map_map. cbn [fst].
          rewrite <- (filter_map_len (fun i => i_name (nth i items dummy_item)) (fun m => list_eqb m (i_name it))). reflexivity. }
        rewrite Hcnt. constructor. apply H2.
      * rewrite nth_overflow by (rewrite length_upd; assumption). constructor.
    + match goal with |- copy_ok (pairs_of ?I (upd sets sid ?X) sid') =>
        assert (E1 : pairs_of I (upd sets sid X) sid' = pairs_of I sets sid')
          by (unfold pairs_of; rewrite nth_upd_other by congruence; reflexivity); rewrite E1 end.
      rewrite (pairs_items_ext items (items ++ [it]) sets sid').
      * apply H2.
      * intros i Hi. rewrite Hold by exact Hi. split; reflexivity.
      * apply H1.
Qed.

(* attribute assignment keeps name, copy number and set *)
Lemma set_value_keeps hc st it idx r it' : set_value hc st it idx r = OK it' -> i_name it' = i_name it /\ i_copy it' = i_copy it.
Proof. unfold set_value. intros H. bind_inv H. inv H. split; reflexivity. Qed.
Lemma set_units_keeps hc st it idx r it' : set_units hc st it idx r = OK it' -> i_name it' = i_name it /\ i_copy it' = i_copy it.
Proof. unfold set_units. intros H. bind_inv H. inv H. split; reflexivity. Qed.

Lemma set_attributes_keeps hc st : forall kw it it', set_attributes hc st it kw = OK it' -> i_name it' = i_name it /\ i_copy it' = i_copy it.
Proof.
  induction kw as [|[idx p] kw IH]; intros it it' H; [inv H; split; reflexivity|].
  cbn [set_attributes] in H. bind_inv H. destruct (IH _ _ H) as [-> ->].
  destruct p as [r|v u].
  - apply (set_value_keeps _ _ _ _ _ _ H0).
  - bind_inv H0. destruct u as [ru|].
    + destruct (set_units_keeps _ _ _ _ _ _ H0) as [-> ->].
      destruct v as [rv|]; [apply (set_value_keeps _ _ _ _ _ _ H1) | inv H1; split; reflexivity].
    + inv H0. destruct v as [rv|]; [apply (set_value_keeps _ _ _ _ _ _ H1) | inv H1; split; reflexivity].
Qed.

Lemma set_lf_inv st l f : Inv_copy st -> Inv_copy (set_lf st l f).
Proof. intros H. exact H. Qed.

Lemma add_common_inv hc st l ty name sn org dflt kw ds cast st' out :
  add_common hc st l ty name sn org dflt kw ds cast = (st', out) -> Inv_copy st -> Inv_copy st'.
Proof.
  unfold add_common. destruct (lf_at st l) as [f|]; [|intros H; inv H; auto].
  destruct (get_or_make_set st ty sn) as [st1 sid] eqn:Hg. intros H Hi.
  pose proof (gms_inv _ _ _ _ _ Hg Hi) as Hi1.
  set (st2 := set_lf st1 l (try_add_set st1 f ty sn sid)) in *.
  assert (Hi2 : Inv_copy st2) by exact Hi1.
  destruct name; try (inv H; exact Hi2).
  destruct (hc && negb (hc_string s)); [inv H; exact Hi2|].
  match type of H with context [match ?o with OK _ => _ | Err _ => _ end] => destruct o end; [|inv H; exact Hi2].
  match type of H with context [set_attributes ?a ?b ?c ?d] => destruct (set_attributes a b c d) as [it|] eqn:Hs end;
    inv H; [|exact Hi2].
  apply register_inv; [|exact Hi2].
  destruct (set_attributes_keeps _ _ _ _ _ Hs) as [-> ->]. reflexivity.
Qed.

Lemma map_fill_inv o items sets : Inv_copy' items sets -> Inv_copy' (map (fill_origin o) items) sets.
Proof.
  apply inv_items_ext; [apply map_length|].
  intros i Hi. rewrite (nth_indep _ dummy_item (fill_origin o dummy_item)) by (rewrite map_length; exact Hi).
  rewrite map_nth. unfold fill_origin. destruct (i_origin (nth i items dummy_item)); split; reflexivity.
Qed.

Lemma set_item_inv st i it :
  i_name it = i_name (item_at st i) -> i_copy it = i_copy (item_at st i) -> Inv_copy st -> Inv_copy (set_item st i it).
Proof.
  intros Hn Hc. unfold Inv_copy, set_item. cbn [b_items b_sets]. apply inv_items_ext; [apply length_upd|].
  intros j Hj. destruct (Nat.eq_dec i j) as [->|Hne].
  - rewrite nth_upd_same by exact Hj. unfold item_at in *. split; assumption.
  - rewrite nth_upd_other by exact Hne. split; reflexivity.
Qed.

Lemma fill_some_keeps mine o : forall items k i,
  length (fill_some mine o k items) = length items
  /\ i_name (nth i (fill_some mine o k items) dummy_item) = i_name (nth i items dummy_item)
  /\ i_copy (nth i (fill_some mine o k items) dummy_item) = i_copy (nth i items dummy_item).
Proof.
  induction items as [|it r IH]; intros k i; [destruct i; repeat split|].
  cbn [fill_some length]. destruct (IH (S k) (pred i)) as (L & N & C). split; [f_equal; exact L|].
  destruct i; cbn [nth]; [|cbn [pred] in *; split; assumption].
  destruct (existsb (Nat.eqb k) mine); [|split; reflexivity].
  unfold fill_origin. destruct (i_origin it); split; reflexivity.
Qed.

Lemma fill_some_inv mine o items sets : Inv_copy' items sets -> Inv_copy' (fill_some mine o 0 items) sets.
Proof.
  apply inv_items_ext; [apply (fill_some_keeps mine o items 0 0)|].
  intros i _. destruct (fill_some_keeps mine o items 0 i) as (_ & N & C). split; assumption.
Qed.

Lemma origin_fsn_default_inv hc st sid iid : Inv_copy st -> Inv_copy (origin_fsn_default hc st sid iid).
Proof.
  intros Hi. unfold origin_fsn_default.
  destruct (fst (nth (attr_index T_ORIGIN str_file_set_number) (i_attrs (item_at st iid)) (SPNone, None))); try exact Hi.
  destruct hc; [|exact Hi]. apply set_item_inv; [reflexivity | reflexivity | exact Hi].
Qed.

Lemma origin_backfill_inv st l f1 iid r : Inv_copy st -> Inv_copy (origin_backfill st l f1 iid r).
Proof.
  intros Hi. unfold origin_backfill.
  match goal with |- context [if ?c then _ else _] => destruct c end; [|exact Hi].
  unfold Inv_copy. cbn [set_lf b_items b_sets]. apply fill_some_inv. exact Hi.
Qed.

Theorem step_inv_copy ps st o ps' st' out : step ps st o = (ps', st', out) -> Inv_copy st -> Inv_copy st'.
Proof.
  destruct o; unfold step.
  - unfold add_lf. destruct hid; try solve [intros H; inv H; auto]. destruct seq; try solve [intros H; inv H; auto].
    repeat match goal with |- context [if ?c then _ else _] => destruct c end; intros H Hi; inv H; exact Hi.
  - destruct (add_common (p_hc ps) st l ty name sn origin default_origin kw None None) as [s1 o1] eqn:E.
    intros H; injection H as <- <- <-. eapply add_common_inv; eassumption.
  - destruct (add_origin (p_hc ps) st l name sn origin kw) as [s1 o1] eqn:E. intros H Hi; injection H as <- <- <-.
    unfold add_origin in E. destruct (lf_at st l) as [f|]; [|inv E; exact Hi].
    destruct (get_or_make_set st T_ORIGIN sn) as [st1 sid] eqn:Hg.
    pose proof (gms_inv _ _ _ _ _ Hg Hi) as Hi1.
    match type of E with context [match ?c with Some _ => _ | None => _ end = _] => destruct c end; [inv E; exact Hi1|].
    match type of E with context [add_common ?a ?b ?c ?d ?e0 ?f0 ?g ?h ?i ?j ?k] =>
      destruct (add_common a b c d e0 f0 g h i j k) as [st3 out3] eqn:Ea end.
    assert (Hi3 : Inv_copy st3) by (eapply add_common_inv; [exact Ea | exact Hi1]).
    destruct out3 as [[iid|]|e3]; try (inv E; exact Hi3).
    inv E. apply origin_backfill_inv. apply origin_fsn_default_inv. exact Hi3.
  - destruct (add_channel (p_hc ps) st l name sn origin kw bad_data data ds cast) as [s1 o1] eqn:E. intros H Hi; injection H as <- <- <-.
    unfold add_channel in E. destruct (lf_at st l) as [f|]; [|inv E; exact Hi].
    destruct bad_data; [inv E; exact Hi|].
    destruct (unique_dataset_name st f _ ds); [|inv E; exact Hi].
    destruct cast as [[c|]|].
    + destruct (add_common (p_hc ps) st l T_CHANNEL name sn origin default_origin kw (Some a) (Some c)) as [st3 out3] eqn:Ea.
      assert (Hi3 : Inv_copy st3) by (eapply add_common_inv; eassumption).
      destruct out3 as [[iid|]|e3]; [destruct data; [destruct (lf_at st3 l)|]|..]; inv E; exact Hi3.
    + destruct (get_or_make_set st T_CHANNEL sn) as [st1 sid] eqn:Hg. inv E. exact (gms_inv _ _ _ _ _ Hg Hi).
    + destruct (add_common (p_hc ps) st l T_CHANNEL name sn origin default_origin kw (Some a) None) as [st3 out3] eqn:Ea.
      assert (Hi3 : Inv_copy st3) by (eapply add_common_inv; eassumption).
      destruct out3 as [[iid|]|e3]; [destruct data; [destruct (lf_at st3 l)|]|..]; inv E; exact Hi3.
  - destruct (add_frame (p_hc ps) st l name sn origin channels chan_attr_idx kw) as [s1 o1] eqn:E. intros H Hi; injection H as <- <- <-.
    unfold add_frame in E. destruct channels; try (inv E; exact Hi). destruct l0; [inv E; exact Hi|].
    match type of E with context [if ?c then _ else _] => destruct c end; [|inv E; exact Hi].
    eapply add_common_inv; eassumption.
  - unfold assign. destruct (nth_error (b_items st) i) as [it|] eqn:En; [|intros H; inv H; auto].
    assert (Hit : item_at st i = it) by (unfold item_at; apply nth_error_nth; exact En).
    destruct units.
    + destruct (set_units (p_hc ps) st it idx r) as [it'|] eqn:Es; intros H Hi; inv H; [|exact Hi].
      destruct (set_units_keeps _ _ _ _ _ _ Es) as [A B]. apply set_item_inv; congruence.
    + destruct (set_value (p_hc ps) st it idx r) as [it'|] eqn:Es; intros H Hi; inv H; [|exact Hi].
      destruct (set_value_keeps _ _ _ _ _ _ Es) as [A B]. apply set_item_inv; congruence.
  - unfold add_nofmt_data. destruct (lf_at st l); intros H; inv H; auto.
  - intros H; inv H; auto.
  - intros H; inv H; auto.
  - destruct (p_stack ps); intros H; inv H; auto.
  - unfold set_origin. destruct (nth_error (b_items st) i) as [it|] eqn:En; [|intros H; inv H; auto].
    assert (Hit : item_at st i = it) by (unfold item_at; apply nth_error_nth; exact En).
    destruct r; intros H Hi; inv H; try exact Hi. apply set_item_inv; [reflexivity | reflexivity | exact Hi].
  - unfold set_header. destruct (lf_at st l); [|intros H; inv H; auto].
    destruct is_id, r; intros H Hi; inv H; try exact Hi; apply set_lf_inv; exact Hi.
Qed.

Theorem run_ops_inv_copy : forall ops ps st, Inv_copy st -> Inv_copy (bstate_of (run_ops ps st ops)).
Proof.
  induction ops as [|o ops IH]; intros ps st Hi; [exact Hi|].
  cbn [run_ops]. destruct (step ps st o) as [[ps1 st1] out] eqn:E.
  specialize (IH ps1 st1 (step_inv_copy _ _ _ _ _ _ E Hi)).
  destruct (run_ops ps1 st1 ops) as [[ps2 st2] outs]. exact IH.
Qed.

(* in every reachable state: within a set, (name, copy number) identifies an object *)
Theorem identity_unique_in_set ops ps sid :
  let st := bstate_of (run_ops ps b_init ops) in
  NoDup (map (fun i => (i_name (item_at st i), i_copy (item_at st i))) (s_items (set_at st sid))).
Proof.
  cbn zeta. pose proof (run_ops_inv_copy ops ps b_init inv_init) as [_ H]. apply copy_ok_nodup. apply (H sid).
Qed.

(* ---------- C09: record order within a logical file ---------- *)

Lemma enc_sset_eflr st sid st' r : enc_sset st sid = OK (st', r) -> lr_eflr r = true.
Proof.
  unfold enc_sset. intros H. bind_inv H. destruct a as [s1 objs].
  destruct (s_items (set_at st sid)); [inv H; reflexivity|]. bind_inv H. bind_inv H. inv H. reflexivity.
Qed.

Lemma fold_sets_eflr : forall sids s0 acc s1 out,
  fold_left (fun a sid => do (s, recs) <- a; do (s', r) <- enc_sset s sid; OK (s', recs ++ [r])) sids (OK (s0, acc)) = OK (s1, out) ->
  exists er, out = acc ++ er /\ Forall (fun r => lr_eflr r = true) er /\ length er = length sids.
Proof.
  induction sids as [|sid sids IH]; intros s0 acc s1 out H.
  - inv H. exists []. rewrite app_nil_r. auto.
  - cbn [fold_left] in H. cbn [bind] in H.
    destruct (enc_sset s0 sid) as [[s' r]|e] eqn:E; cbn [bind] in H.
    + destruct (IH _ _ _ _ H) as (er & -> & Hf & Hl). exists (r :: er). rewrite <- app_assoc. split; [reflexivity|].
      split; [constructor; [eapply enc_sset_eflr; eassumption | exact Hf] | cbn; lia].
    + exfalso. clear -H. induction sids as [|x xs IHx]; cbn in H; [discriminate | auto].
Qed.

Theorem lf_records_order st f frames st' recs :
  lf_records st f frames = OK (st', recs) ->
  exists fh erecs ifl,
    enc_fileheader {| on_origin := l_fh_origin f; on_copy := 0; on_name := l_ident f |} (l_seq f) (l_hid f) = OK fh
    /\ recs = {| lr_eflr := true; lr_type := 0; lr_body := fh |} :: erecs ++ ifl
    /\ Forall (fun r => lr_eflr r = true) erecs
    /\ Forall (fun r => lr_eflr r = false) ifl.
Proof.
  unfold lf_records. intros H. bind_inv H. rename a into fh, H0 into Hfh.
  bind_inv H. destruct a as [st1 erecs]. rename H0 into Hfold.
  bind_inv H. rename a into nf, H0 into Hnf. bind_inv H. rename a into fd, H0 into Hfd. inv H.
  destruct (fold_sets_eflr _ _ _ _ _ Hfold) as (er & -> & Her & _).
  exists fh, er, (nf ++ fd). split; [exact Hfh|]. split; [cbn [app]; rewrite <- ?app_assoc; reflexivity|]. split; [exact Her|].
  apply Forall_app. split.
  - clear -Hnf. revert nf Hnf. induction (l_nofmt f) as [|[obj p] l IH]; intros nf H; [inv H; constructor|].
    destruct obj; try discriminate. destruct (nth_error (b_items st') i); [|discriminate].
    bind_inv H. bind_inv H. bind_inv H. inv H. constructor; [|apply IH; assumption].
    unfold nofmt_rec in H1. bind_inv H1. inv H1. reflexivity.
  - clear -Hfd. revert fd Hfd. induction frames as [|[fr rows] l IH]; intros fd H; [inv H; constructor|].
    bind_inv H. bind_inv H. inv H. apply Forall_app. split; [|apply IH; assumption].
    clear -H0. revert H0. generalize 1. revert a. induction rows as [|row rows IHr]; intros a i H; [inv H; constructor|].
    cbn [frame_recs] in H. bind_inv H. bind_inv H. inv H. constructor; [|eapply IHr; eassumption].
    unfold fdata_rec in H0. bind_inv H0. inv H0. reflexivity.
Qed.

(* ---------- C05: assignment changes exactly the assigned part ---------- *)

Theorem set_value_frame hc st it idx r it' :
  set_value hc st it idx r = OK it' -> (idx < length (i_attrs it))%nat ->
  let ad := nth idx (td_attrs (tdef_at (i_ty it))) dummy_adef in
  let cur := nth idx (i_attrs it) (SPNone, None) in
  exists v, convert_value (conv_elem hc (item_ty_of st) ad (cur_is_int st ad cur) (cur_is_set cur)) ad r = OK v
    /\ nth idx (i_attrs it') (SPNone, None) = (v, snd cur)
    /\ (forall j, j <> idx -> nth j (i_attrs it') (SPNone, None) = nth j (i_attrs it) (SPNone, None))
    /\ i_ty it' = i_ty it /\ i_name it' = i_name it /\ i_origin it' = i_origin it /\ i_copy it' = i_copy it
    /\ i_dataset it' = i_dataset it /\ i_cast it' = i_cast it.
Proof.
  unfold set_value. intros H Hlt. bind_inv H. inv H. cbn. exists a. split; [exact H0|]. split.
  - apply nth_upd_same. exact Hlt.
  - split; [intros j Hj; apply nth_upd_other; congruence|]. repeat split.
Qed.

Theorem set_units_frame hc st it idx r it' :
  set_units hc st it idx r = OK it' -> (idx < length (i_attrs it))%nat ->
  let ad := nth idx (td_attrs (tdef_at (i_ty it))) dummy_adef in
  let cur := nth idx (i_attrs it) (SPNone, None) in
  exists u, convert_units hc ad r = OK u
    /\ nth idx (i_attrs it') (SPNone, None) = (fst cur, u)
    /\ (forall j, j <> idx -> nth j (i_attrs it') (SPNone, None) = nth j (i_attrs it) (SPNone, None))
    /\ i_name it' = i_name it /\ i_origin it' = i_origin it /\ i_copy it' = i_copy it.
Proof.
  unfold set_units. intros H Hlt. bind_inv H. inv H. cbn. exists a. split; [exact H0|]. split.
  - apply nth_upd_same. exact Hlt.
  - split; [intros j Hj; apply nth_upd_other; congruence|]. repeat split.
Qed.

(* ---------- C14: a new DLISFile starts from the empty specification ---------- *)

Theorem new_file_is_fresh ps st rest :
  run_program ps st (TL [TI 20] :: rest) = TL [TI 0] :: run_program ps b_init rest.
Proof. reflexivity. Qed.

(* ---------- C12: what a successful write presupposes ---------- *)

Lemma check_objects_requires hc st l f st' :
  check_objects hc st l f = OK st' ->
  lf_origins st f <> [] /\ lf_channels st f <> [] /\ lf_frames st f <> []
  /\ (forall c, In c (concat (map (frame_channels st) (lf_frames st f))) -> In c (lf_channels st f)).
Proof.
  unfold check_objects. destruct (lf_origins st f) as [|o os]; [discriminate|].
  destruct (lf_channels st f) as [|c cs] eqn:Ec; [discriminate|]. cbn [nonnil negb].
  destruct (lf_frames st f) as [|fr frs] eqn:Ef; [discriminate|]. cbn [nonnil negb].
  destruct (forallb _ _) eqn:Eu; cbn [negb]; [|discriminate].
  intros _. repeat split; try discriminate.
  intros x Hx. rewrite forallb_forall in Eu. specialize (Eu x Hx). apply existsb_exists in Eu.
  destruct Eu as (y & Hy & Heq). apply Nat.eqb_eq in Heq. subst. exact Hy.
Qed.

Lemma setup_frame_requires hc st l w wf st' rows :
  setup_frame hc st l w wf = OK (st', rows) ->
  exists f, lf_at st l = Some f /\
    let merged := data_merge (l_data f) (match w_data w with Some d => d | None => [] end) in
    let st1 := set_lf st l (set_ldata f merged) in
    Forall (fun c => exists d, data_find merged (dataset_name_of (item_at st1 c)) = Some d
                               /\ valid_dtype (match i_cast (item_at st1 c) with Some k => k | None => cd_code d end) = true
                               /\ zlen (cd_shape d) <= 1)
           (frame_channels st (wf_item wf)).
Proof.
  unfold setup_frame. destruct (lf_at st l) as [f|]; [|discriminate]. intros H. exists f. split; [reflexivity|].
  cbn zeta. bind_inv H. clear H. rename H0 into Hgo.
  set (merged := data_merge (l_data f) (match w_data w with Some d => d | None => [] end)) in *.
  set (st1 := set_lf st l (set_ldata f merged)) in *.
  assert (Hfc : frame_channels st1 (wf_item wf) = frame_channels st (wf_item wf)) by reflexivity.
  revert a Hgo. generalize (frame_channels st (wf_item wf)) as cs.
  induction cs as [|c cs IH]; intros a Hgo; [constructor|].
  destruct (data_find merged (dataset_name_of (item_at st1 c))) as [d|] eqn:Ed; [|discriminate].
  destruct (valid_dtype _) eqn:Ev; cbn [negb] in Hgo; [|discriminate].
  destruct (1 <? zlen (cd_shape d)) eqn:Es; [discriminate|].
  bind_inv Hgo. constructor; [|eapply IH; eassumption].
  exists d. split; [first [exact Ed | reflexivity]|]. split; [exact Ev | lia].
Qed.
