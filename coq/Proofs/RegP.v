(* RegP.v — the registries are well keyed in every reachable state: a class appears once, a set name appears once
   within its class, and every entry (class k, name n) -> sid names a set whose type is k and whose name is n.
   Consequence (C09): the sets a logical file writes have pairwise distinct (type, name). *)
From DV Require Import Model.ApiDispatch Proofs.BaseP Proofs.PrimP Proofs.BuilderP Proofs.WriteP Proofs.StructP.
From Coq Require Import Lia.

Lemma oname_eqb_eq a b : oname_eqb a b = true <-> a = b.
Proof.
  destruct a as [x|], b as [y|]; cbn [oname_eqb]; split; intros H; try discriminate; try reflexivity.
  - apply list_eqb_eq in H. congruence.
  - injection H as ->. apply list_eqb_eq. reflexivity.
Qed.

Definition skey (s : sset) : nat * oname := (s_ty s, s_name s).
Definition skeys (st : bstate) : list (nat * oname) := map skey (b_sets st).

Definition dictk_ok (keys : list (nat * oname)) (k : nat) (d : list (oname * nat)) : Prop :=
  NoDup (map fst d) /\ Forall (fun ns => nth_error keys (snd ns) = Some (k, fst ns)) d.
Definition regk_ok (keys : list (nat * oname)) (r : reg) : Prop :=
  NoDup (map fst r) /\ Forall (fun kd => dictk_ok keys (fst kd) (snd kd)) r.

Definition Inv_reg (st : bstate) : Prop :=
  regk_ok (skeys st) (b_phys st) /\ Forall (fun f => regk_ok (skeys st) (l_reg f)) (b_lfs st).

(* ---- lookups ---- *)
Lemma dict_find_some d n v : dict_find d n = Some v -> In (n, v) d.
Proof.
  induction d as [|[n1 v1] d IH]; cbn [dict_find]; [discriminate|].
  destruct (oname_eqb n n1) eqn:E; intros H; [inv H; apply oname_eqb_eq in E; subst; left; reflexivity | right; auto].
Qed.

Lemma dict_find_none d n : dict_find d n = None -> ~ In n (map fst d).
Proof.
  induction d as [|[n1 v1] d IH]; cbn [dict_find map fst]; intros H Hin; [destruct Hin|].
  destruct (oname_eqb n n1) eqn:E; [discriminate|]. destruct Hin as [<-|Hin]; [|exact (IH H Hin)].
  assert (oname_eqb n1 n1 = true) by (apply oname_eqb_eq; reflexivity). congruence.
Qed.

Lemma reg_lookup_spec r k : NoDup (map fst r) ->
  (In (k, reg_lookup r k) r) \/ (reg_lookup r k = [] /\ ~ In k (map fst r)).
Proof.
  induction r as [|[k1 d1] r IH]; intros Hn; [right; split; [reflexivity | intros []]|].
  cbn [reg_lookup]. destruct (Nat.eqb_spec k k1) as [->|Hne]; [left; left; reflexivity|].
  inversion Hn; subst. destruct (IH H2) as [Hin | [He Hni]]; [left; right; exact Hin | right; split; [exact He|]].
  cbn [map fst]. intros [E|E]; [congruence | exact (Hni E)].
Qed.

Lemma reg_find_entry keys r k n sid : regk_ok keys r -> reg_find r k n = Some sid -> nth_error keys sid = Some (k, n).
Proof.
  intros [Hn Hall] H. unfold reg_find in H. apply dict_find_some in H.
  destruct (reg_lookup_spec r k Hn) as [Hin | [He _]]; [|rewrite He in H; destruct H].
  rewrite Forall_forall in Hall. destruct (Hall _ Hin) as [_ Hd]. cbn [fst snd] in Hd. rewrite Forall_forall in Hd. exact (Hd _ H).
Qed.

(* ---- insertion ---- *)
Lemma reg_insert_keys r k n sid : map fst (reg_insert r k n sid) = if existsb (Nat.eqb k) (map fst r) then map fst r else map fst r ++ [k].
Proof.
  induction r as [|[k1 d1] r IH]; [reflexivity|]. cbn [reg_insert map fst existsb].
  destruct (Nat.eqb_spec k k1) as [->|Hne]; cbn [map fst orb]; [reflexivity|]. rewrite IH.
  destruct (existsb (Nat.eqb k) (map fst r)); reflexivity.
Qed.

Lemma regk_insert keys r k n sid :
  regk_ok keys r -> reg_find r k n = None -> nth_error keys sid = Some (k, n) -> regk_ok keys (reg_insert r k n sid).
Proof.
  intros [Hn Hall] Hf He. split.
  - rewrite reg_insert_keys. destruct (existsb (Nat.eqb k) (map fst r)) eqn:Ex; [exact Hn|].
    apply NoDup_app_snoc; [exact Hn|]. intros Hin. assert (existsb (Nat.eqb k) (map fst r) = true); [|congruence].
    apply existsb_exists. exists k. split; [exact Hin | apply Nat.eqb_refl].
  - unfold reg_find in Hf. revert Hn Hall Hf. induction r as [|[k1 d1] r IH]; intros Hn Hall Hf; cbn [reg_insert].
    + constructor; [|constructor]. cbn [fst snd]. split; [constructor; [intros [] | constructor] | constructor; [exact He | constructor]].
    + cbn [reg_lookup] in Hf. apply Forall_cons_iff in Hall. destruct Hall as [[Hd1 Hd2] Hall]. cbn [fst snd] in *.
      destruct (Nat.eqb_spec k k1) as [->|Hne].
      * constructor; [|exact Hall]. cbn [fst snd]. split.
        -- rewrite map_app. cbn [map fst]. apply NoDup_app_snoc; [exact Hd1 | apply dict_find_none; exact Hf].
        -- apply Forall_app. split; [exact Hd2 | constructor; [exact He | constructor]].
      * constructor; [split; assumption|]. inversion Hn; subst. apply IH; assumption.
Qed.

Lemma regk_ext keys x r : regk_ok keys r -> regk_ok (keys ++ [x]) r.
Proof.
  intros [Hn Hall]. split; [exact Hn|]. eapply Forall_impl; [|exact Hall]. intros [k d] [H1 H2]. split; [exact H1|].
  eapply Forall_impl; [|exact H2]. intros ns H. cbn [fst snd] in *. rewrite nth_error_app1; [exact H|].
  apply nth_error_Some. congruence.
Qed.

(* ---- removal of a set without items ---- *)
Lemma dict_remove_in d n x : In x (dict_remove d n) -> In x d.
Proof.
  induction d as [|[n1 v1] d IH]; cbn [dict_remove]; [auto|]. destruct (oname_eqb n n1); intros H; [right; exact H|].
  destruct H as [H|H]; [left; exact H | right; exact (IH H)].
Qed.

Lemma dict_remove_nodup d n : NoDup (map fst d) -> NoDup (map fst (dict_remove d n)).
Proof.
  induction d as [|[n1 v1] d IH]; cbn [dict_remove map fst]; intros H; [exact H|]. inversion H as [|? ? Hn Hd]; subst.
  destruct (oname_eqb n n1); [exact Hd|]. cbn [map fst]. constructor; [|apply IH; exact Hd].
  intros Hin. apply Hn. apply in_map_iff in Hin. destruct Hin as (x & E & Hx). apply in_map_iff. exists x. split; [exact E | eapply dict_remove_in; exact Hx].
Qed.

Lemma reg_remove_keys r k n x : In x (map fst (reg_remove r k n)) -> In x (map fst r).
Proof.
  induction r as [|[k' d] r IH]; cbn [reg_remove map fst]; [auto|]. destruct (Nat.eqb k k').
  - destruct (dict_remove d n); cbn [map fst]; [intros H; right; exact H | intros H; exact H].
  - cbn [map fst]. intros [H|H]; [left; exact H | right; exact (IH H)].
Qed.

Lemma regk_remove keys k n : forall r, regk_ok keys r -> regk_ok keys (reg_remove r k n).
Proof.
  induction r as [|[k' d] r IH]; intros [Hn Hall]; [split; assumption|].
  inversion Hn as [|? ? Hk Hn']; subst. apply Forall_cons_iff in Hall. destruct Hall as [[Hd1 Hd2] Hall]. cbn [fst snd] in *.
  cbn [reg_remove]. destruct (Nat.eqb k k').
  - assert (Hd' : dictk_ok keys k' (dict_remove d n)).
    { split; [apply dict_remove_nodup; exact Hd1|]. apply Forall_forall. intros x Hx. rewrite Forall_forall in Hd2. apply Hd2. eapply dict_remove_in. exact Hx. }
    destruct (dict_remove d n) as [|e d'] eqn:Ed; [split; assumption|].
    split; [cbn [map fst]; constructor; assumption | constructor; [exact Hd' | exact Hall]].
  - destruct (IH (conj Hn' Hall)) as [Hn2 Hall2]. split.
    + cbn [map fst]. constructor; [|exact Hn2]. intros Hin. apply Hk. eapply reg_remove_keys. exact Hin.
    + constructor; [split; assumption | exact Hall2].
Qed.

Lemma regk_forget st keys r k n : regk_ok keys r -> regk_ok keys (forget_empty st r k n).
Proof.
  intros Hr. unfold forget_empty. destruct (reg_find r k n) as [sid|]; [|exact Hr].
  destruct (set_empty st sid); [apply regk_remove; exact Hr | exact Hr].
Qed.

(* ---- a set type without non-empty sets is moved to the end ---- *)
Lemma drop_class_keys r k x : In x (map fst (reg_drop_class r k)) -> In x (map fst r) /\ x <> k.
Proof.
  unfold reg_drop_class. intros H. apply in_map_iff in H. destruct H as ([k' d] & <- & Hin). apply filter_In in Hin. destruct Hin as [Hin Hne].
  cbn [fst] in *. split; [apply in_map_iff; exists (k', d); auto|]. destruct (Nat.eqb_spec k k'); [discriminate | congruence].
Qed.

Lemma drop_class_nodup r k : NoDup (map fst r) -> NoDup (map fst (reg_drop_class r k)).
Proof.
  unfold reg_drop_class. induction r as [|[k' d] r IH]; intros H; [constructor|]. inversion H as [|? ? Hn Hr]; subst. cbn [filter fst].
  destruct (negb (Nat.eqb k k')); [|apply IH; exact Hr]. cbn [map fst]. constructor; [|apply IH; exact Hr].
  intros Hin. apply Hn. apply (drop_class_keys r k k' Hin).
Qed.

Lemma lookup_drop_class r k d : reg_lookup (reg_drop_class r k ++ [(k, d)]) k = d.
Proof.
  unfold reg_drop_class. induction r as [|[k' d'] r IH]; cbn [filter app reg_lookup fst]; [rewrite Nat.eqb_refl; reflexivity|].
  destruct (Nat.eqb_spec k k') as [->|Hne]; cbn [negb]; [exact IH|]. cbn [app reg_lookup].
  destruct (Nat.eqb_spec k k'); [contradiction | exact IH].
Qed.

Lemma regk_reposition st keys r k : regk_ok keys r -> regk_ok keys (reposition_class st r k).
Proof.
  intros [Hn Hall]. unfold reposition_class. destruct (reg_lookup r k) as [|e d] eqn:El; [split; assumption|].
  destruct (class_all_empty st (e :: d)); [|split; assumption].
  destruct (reg_lookup_spec r k Hn) as [Hin | [He _]]; [|congruence]. rewrite El in Hin. split.
  - rewrite map_app. cbn [map fst]. apply NoDup_app_snoc; [apply drop_class_nodup; exact Hn|].
    intros H. apply drop_class_keys in H. destruct H as [_ H]. congruence.
  - apply Forall_app. split.
    + unfold reg_drop_class. apply Forall_forall. intros x Hx. apply filter_In in Hx. rewrite Forall_forall in Hall. apply Hall. apply Hx.
    + constructor; [|constructor]. rewrite Forall_forall in Hall. exact (Hall _ Hin).
Qed.

Lemma reg_find_reposition st r k n : reg_find (reposition_class st r k) k n = reg_find r k n.
Proof.
  unfold reposition_class, reg_find. destruct (reg_lookup r k) as [|e d] eqn:El; [rewrite El; reflexivity|].
  destruct (class_all_empty st (e :: d)); [|rewrite El; reflexivity]. rewrite lookup_drop_class. reflexivity.
Qed.

(* ---- states with the same set keys ---- *)
Lemma inv_reg_same st st' : skeys st' = skeys st -> b_phys st' = b_phys st -> b_lfs st' = b_lfs st -> Inv_reg st -> Inv_reg st'.
Proof. unfold Inv_reg. intros -> -> ->. auto. Qed.

Lemma set_item_reg st i it : Inv_reg st -> Inv_reg (set_item st i it).
Proof. apply inv_reg_same; reflexivity. Qed.

Lemma set_lf_reg st l f : Inv_reg st -> regk_ok (skeys st) (l_reg f) -> Inv_reg (set_lf st l f).
Proof.
  intros [Hp Hl] Hf. split; [exact Hp|]. unfold set_lf. cbn [b_lfs]. apply Forall_upd; assumption.
Qed.

Lemma lf_at_reg st l f : Inv_reg st -> lf_at st l = Some f -> regk_ok (skeys st) (l_reg f).
Proof. intros [_ Hl] H. rewrite Forall_forall in Hl. apply Hl. unfold lf_at in H. eapply nth_error_In. exact H. Qed.

Definition norm_name (n0 : oname) : oname := match n0 with Some [] => None | _ => n0 end.

Lemma gms_reg st ty sn st1 sid :
  get_or_make_set st ty sn = (st1, sid) -> Inv_reg st ->
  Inv_reg st1 /\ nth_error (skeys st1) sid = Some (ty, norm_name sn) /\ b_lfs st1 = b_lfs st
  /\ (skeys st1 = skeys st \/ exists x, skeys st1 = skeys st ++ [x]).
Proof.
  unfold get_or_make_set. cbv zeta. change (match sn with Some [] => None | _ => sn end) with (norm_name sn). destruct (reg_find (b_phys st) ty (norm_name sn)) as [s0|] eqn:Ef; intros H Hi; inv H.
  - split; [exact Hi|]. split; [eapply reg_find_entry; [apply Hi | exact Ef]|]. split; [reflexivity | left; reflexivity].
  - destruct Hi as [Hp Hl].
    assert (Hk : skeys {| b_items := b_items st; b_sets := b_sets st ++ [{| s_ty := ty; s_name := norm_name sn; s_items := [] |}];
                          b_phys := reg_insert (b_phys st) ty (norm_name sn) (length (b_sets st)); b_lfs := b_lfs st |} = skeys st ++ [(ty, norm_name sn)]).
    { unfold skeys. cbn [b_sets]. rewrite map_app. reflexivity. }
    assert (He : nth_error (skeys st ++ [(ty, norm_name sn)]) (length (b_sets st)) = Some (ty, norm_name sn)).
    { rewrite nth_error_app2 by (unfold skeys; rewrite map_length; lia). unfold skeys. rewrite map_length, Nat.sub_diag. reflexivity. }
    split; [|split; [rewrite Hk; exact He | split; [reflexivity | right; eexists; exact Hk]]].
    split.
    + rewrite Hk. cbn [b_phys]. apply regk_insert; [apply regk_ext; exact Hp | exact Ef | exact He].
    + rewrite Hk. cbn [b_lfs]. eapply Forall_impl; [|exact Hl]. intros f. apply regk_ext.
Qed.

Lemma try_add_reg keys s0 f ty sn sid :
  regk_ok keys (l_reg f) -> nth_error keys sid = Some (ty, norm_name sn) -> regk_ok keys (l_reg (try_add_set s0 f ty sn sid)).
Proof.
  intros Hf He. unfold try_add_set. cbv zeta. change (match sn with Some [] => None | _ => sn end) with (norm_name sn).
  pose proof (regk_forget s0 _ _ ty (norm_name sn) Hf) as Hf'.
  destruct (reg_find (forget_empty s0 (l_reg f) ty (norm_name sn)) ty (norm_name sn)) eqn:Ef; [exact Hf|].
  cbn [l_reg]. apply regk_insert; [apply regk_reposition; exact Hf' | rewrite reg_find_reposition; exact Ef | exact He].
Qed.

Lemma register_keys st sid it : skeys (register st sid it) = skeys st.
Proof.
  unfold skeys, register. cbn [b_sets]. apply upd_map_same. intros y Hy. unfold skey, set_at. cbn [s_ty s_name].
  rewrite (nth_error_nth _ _ _ Hy). reflexivity.
Qed.

Lemma regk_keys_ext keys keys' r : (keys' = keys \/ exists x, keys' = keys ++ [x]) -> regk_ok keys r -> regk_ok keys' r.
Proof. intros [->|[x ->]]; [auto | apply regk_ext]. Qed.

Lemma add_common_reg hc st l ty name sn org dflt kw ds cast st' out :
  add_common hc st l ty name sn org dflt kw ds cast = (st', out) -> Inv_reg st -> Inv_reg st'.
Proof.
  unfold add_common. destruct (lf_at st l) as [f|] eqn:Hf; [|intros H; inv H; auto].
  destruct (get_or_make_set st ty sn) as [st1 sid] eqn:Hg. intros H Hi.
  destruct (gms_reg _ _ _ _ _ Hg Hi) as (Hi1 & He & Hlfs & Hext).
  assert (Hi2 : Inv_reg (set_lf st1 l (try_add_set st1 f ty sn sid))).
  { apply set_lf_reg; [exact Hi1|]. apply try_add_reg; [|exact He]. eapply regk_keys_ext; [exact Hext|]. eapply lf_at_reg; eassumption. }
  destruct name; try (inv H; exact Hi2).
  destruct (hc && negb (hc_string s)); [inv H; exact Hi2|].
  match type of H with context [match ?o with OK _ => _ | Err _ => _ end] => destruct o end; [|inv H; exact Hi2].
  match type of H with context [set_attributes ?a ?b ?c ?d] => destruct (set_attributes a b c d) as [it|] eqn:Hs end; inv H; [|exact Hi2].
  revert Hi2. apply inv_reg_same; [apply register_keys | reflexivity | reflexivity].
Qed.

Lemma same_reg_lf keys f f' : l_reg f' = l_reg f -> regk_ok keys (l_reg f) -> regk_ok keys (l_reg f').
Proof. intros ->. auto. Qed.

Theorem step_inv_reg ps st o ps' st' out : step ps st o = (ps', st', out) -> Inv_reg st -> Inv_reg st'.
Proof.
  destruct o; unfold step.
  - unfold add_lf. destruct hid; try solve [intros H; inv H; auto]. destruct seq; try solve [intros H; inv H; auto].
    repeat match goal with |- context [if ?c then _ else _] => destruct c end; intros H Hi; inv H; try exact Hi.
    destruct Hi as [Hp Hl]. split; [exact Hp|]. cbn [b_lfs]. apply Forall_app. split; [exact Hl|].
    constructor; [|constructor]. cbn [l_reg]. split; constructor.
  - destruct (add_common (p_hc ps) st l ty name sn origin default_origin kw None None) as [s1 o1] eqn:E.
    intros H; injection H as <- <- <-. eapply add_common_reg; eassumption.
  - destruct (add_origin (p_hc ps) st l name sn origin kw) as [s1 o1] eqn:E. intros H Hi; injection H as <- <- <-.
    unfold add_origin in E. destruct (lf_at st l) as [f|] eqn:Hf; [|inv E; exact Hi].
    destruct (get_or_make_set st T_ORIGIN sn) as [st1 sid] eqn:Hg.
    destruct (gms_reg _ _ _ _ _ Hg Hi) as (Hi0 & He & Hlfs & Hext).
    assert (Hi1 : Inv_reg (set_lf st1 l (try_add_set st1 f T_ORIGIN sn sid))).
    { apply set_lf_reg; [exact Hi0|]. apply try_add_reg; [|exact He]. eapply regk_keys_ext; [exact Hext|]. eapply lf_at_reg; eassumption. }
    match type of E with context [match ?c with Some _ => _ | None => _ end = _] => destruct c end; [inv E; exact Hi1|].
    match type of E with context [add_common ?a ?b ?c ?d ?e0 ?f0 ?g ?h ?i ?j ?k] =>
      destruct (add_common a b c d e0 f0 g h i j k) as [st3 out3] eqn:Ea end.
    assert (Hi3 : Inv_reg st3) by (eapply add_common_reg; [exact Ea | exact Hi1]).
    destruct out3 as [[iid|]|e3]; try (inv E; exact Hi3). inv E.
    assert (Hi4 : Inv_reg (origin_fsn_default (p_hc ps) st3 sid iid)).
    { unfold origin_fsn_default. destruct (fst (nth _ (i_attrs (item_at st3 iid)) (SPNone, None))); try exact Hi3.
      destruct (p_hc ps); [|exact Hi3]. apply set_item_reg. exact Hi3. }
    unfold origin_backfill. match goal with |- context [if ?c then _ else _] => destruct c end; [|exact Hi4].
    set (s4 := origin_fsn_default (p_hc ps) st3 sid iid) in *.
    apply set_lf_reg.
    + revert Hi4. apply inv_reg_same; reflexivity.
    + cbn [l_reg]. destruct (lf_at s4 l) as [x|] eqn:Hx; [eapply lf_at_reg; [exact Hi4 | exact Hx]|].
      (* no such logical file: f1's registry, well keyed in st1's keys and st3 only grew *)
      exfalso. clear -Hx Hf Hg Ea.
      assert (L1 : b_lfs st1 = b_lfs st) by (unfold get_or_make_set in Hg; cbv zeta in Hg; destruct (reg_find _ _ _); inv Hg; reflexivity).
      assert (Hlen : forall a b c d e0 f0 g h i j k s' o', add_common a b c d e0 f0 g h i j k = (s', o') -> length (b_lfs s') = length (b_lfs b)).
      { clear. intros a b c d e0 f0 g h i j k s' o'. unfold add_common. destruct (lf_at b c); [|intros H; inv H; reflexivity].
        destruct (get_or_make_set b d f0) as [b1 sid1] eqn:G.
        assert (L : b_lfs b1 = b_lfs b) by (unfold get_or_make_set in G; cbv zeta in G; destruct (reg_find _ _ _); inv G; reflexivity).
        assert (L2 : forall x, length (b_lfs (set_lf b1 c x)) = length (b_lfs b)) by (intros x; cbn [set_lf b_lfs]; rewrite length_upd, L; reflexivity).
        destruct e0; try (intros H; inv H; apply L2).
        destruct (a && negb (hc_string s)); [intros H; inv H; apply L2|].
        match goal with |- context [match ?o with OK _ => _ | Err _ => _ end] => destruct o end; [|intros H; inv H; apply L2].
        match goal with |- context [set_attributes ?a1 ?b2 ?c3 ?d4] => destruct (set_attributes a1 b2 c3 d4) end; intros H; inv H; [|apply L2].
        unfold register. cbn [b_lfs]. apply L2. }
      apply Hlen in Ea. cbn [set_lf b_lfs] in Ea. rewrite length_upd, L1 in Ea.
      unfold lf_at in Hx, Hf. apply nth_error_None in Hx. assert (l < length (b_lfs st))%nat by (apply nth_error_Some; congruence).
      assert (E4 : b_lfs s4 = b_lfs st3).
      { unfold s4, origin_fsn_default. destruct (fst _); try reflexivity. destruct (p_hc ps); reflexivity. }
      rewrite E4 in Hx. lia.
  - destruct (add_channel (p_hc ps) st l name sn origin kw bad_data data ds cast) as [s1 o1] eqn:E. intros H Hi; injection H as <- <- <-.
    unfold add_channel in E. destruct (lf_at st l) as [f|] eqn:Hf; [|inv E; exact Hi].
    destruct bad_data; [inv E; exact Hi|].
    destruct (unique_dataset_name st f _ ds); [|inv E; exact Hi].
    assert (Hsd : forall s3 f3 k d, Inv_reg s3 -> lf_at s3 l = Some f3 -> Inv_reg (set_lf s3 l (set_data f3 k d))).
    { intros s3 f3 k d H3 Hl3. apply set_lf_reg; [exact H3|]. cbn [set_data l_reg]. eapply lf_at_reg; eassumption. }
    destruct cast as [[c|]|].
    + destruct (add_common (p_hc ps) st l T_CHANNEL name sn origin default_origin kw (Some a) (Some c)) as [st3 out3] eqn:Ea.
      assert (Hi3 : Inv_reg st3) by (eapply add_common_reg; eassumption).
      destruct out3 as [[iid|]|e3]; [destruct data; [destruct (lf_at st3 l) eqn:Hl3|]|..]; inv E; try exact Hi3. apply Hsd; assumption.
    + destruct (get_or_make_set st T_CHANNEL sn) as [st1 sid] eqn:Hg. inv E.
      destruct (gms_reg _ _ _ _ _ Hg Hi) as (Hi0 & He & Hlfs & Hext).
      apply set_lf_reg; [exact Hi0|]. apply try_add_reg; [|exact He]. eapply regk_keys_ext; [exact Hext|]. eapply lf_at_reg; eassumption.
    + destruct (add_common (p_hc ps) st l T_CHANNEL name sn origin default_origin kw (Some a) None) as [st3 out3] eqn:Ea.
      assert (Hi3 : Inv_reg st3) by (eapply add_common_reg; eassumption).
      destruct out3 as [[iid|]|e3]; [destruct data; [destruct (lf_at st3 l) eqn:Hl3|]|..]; inv E; try exact Hi3. apply Hsd; assumption.
  - destruct (add_frame (p_hc ps) st l name sn origin channels chan_attr_idx kw) as [s1 o1] eqn:E. intros H Hi; injection H as <- <- <-.
    unfold add_frame in E. destruct channels; try (inv E; exact Hi). destruct l0; [inv E; exact Hi|].
    match type of E with context [if ?c then _ else _] => destruct c end; [|inv E; exact Hi].
    eapply add_common_reg; eassumption.
  - unfold assign. destruct (nth_error (b_items st) i) as [it|]; [|intros H; inv H; auto].
    match goal with |- context [match ?x with OK _ => _ | Err _ => _ end] => destruct x end; intros H Hi; inv H; [apply set_item_reg|]; exact Hi.
  - unfold add_nofmt_data. destruct (lf_at st l) as [f|] eqn:Hf; intros H Hi; inv H; [|exact Hi].
    apply set_lf_reg; [exact Hi|]. cbn [l_reg]. eapply lf_at_reg; eassumption.
  - intros H; inv H; auto.
  - intros H; inv H; auto.
  - destruct (p_stack ps); intros H; inv H; auto.
  - unfold set_origin. destruct (nth_error (b_items st) i) as [it|]; [|intros H; inv H; auto].
    destruct r; intros H Hi; inv H; exact Hi.
  - unfold set_header. destruct (lf_at st l) as [f|] eqn:Hf; [|intros H; inv H; auto].
    destruct is_id, r; intros H Hi; inv H; try exact Hi; (apply set_lf_reg; [exact Hi|]; cbn [l_reg]; eapply lf_at_reg; eassumption).
Qed.

Theorem run_ops_inv_reg : forall ops ps st, Inv_reg st -> Inv_reg (bstate_of (run_ops ps st ops)).
Proof.
  induction ops as [|o ops IH]; intros ps st Hi; [exact Hi|].
  cbn [run_ops]. destruct (step ps st o) as [[ps1 st1] out] eqn:E.
  specialize (IH ps1 st1 (step_inv_reg _ _ _ _ _ _ E Hi)).
  destruct (run_ops ps1 st1 ops) as [[ps2 st2] outs]. exact IH.
Qed.

Lemma inv_reg_init : Inv_reg b_init.
Proof. split; [split; constructor | constructor]. Qed.

(* ---------- C09: the sets one logical file writes have pairwise distinct (type, name) ---------- *)
Definition part (kd : nat * list (oname * nat)) : list nat :=
  let '(k, d) := kd in if Nat.eqb k T_ORIGIN then [] else map snd d.
Definition lf_sids (f : lfile) : list nat := map snd (reg_lookup (l_reg f) T_ORIGIN) ++ concat (map part (l_reg f)).

Lemma NoDup_app_intro {A} (a b : list A) : NoDup a -> NoDup b -> (forall x, In x a -> ~ In x b) -> NoDup (a ++ b).
Proof.
  induction a as [|x a IH]; intros Ha Hb Hd; [exact Hb|]. inversion Ha; subst. cbn [app]. constructor.
  - intros Hin. apply in_app_or in Hin. destruct Hin as [Hin|Hin]; [contradiction | exact (Hd x (or_introl eq_refl) Hin)].
  - apply IH; [assumption | exact Hb | intros y Hy; apply Hd; right; exact Hy].
Qed.

Lemma dict_keys keys k d : dictk_ok keys k d -> map (nth_error keys) (map snd d) = map (fun n => Some (k, n)) (map fst d).
Proof.
  intros [_ H]. induction d as [|[n v] d IH]; [reflexivity|]. apply Forall_cons_iff in H. destruct H as [H1 H2].
  cbn [map fst snd] in *. rewrite H1, (IH H2). reflexivity.
Qed.

Lemma NoDup_map_inj {A B} (f : A -> B) (l : list A) : (forall x y, f x = f y -> x = y) -> NoDup l -> NoDup (map f l).
Proof.
  intros Hinj H. induction H as [|x l Hn Hl IH]; [constructor|]. cbn [map]. constructor; [|exact IH].
  intros Hin. apply in_map_iff in Hin. destruct Hin as (y & Hy & Hiny). apply Hinj in Hy. subst. contradiction.
Qed.

Lemma part_keys_in keys : forall r x, Forall (fun kd => dictk_ok keys (fst kd) (snd kd)) r ->
  In x (map (nth_error keys) (concat (map part r))) -> exists k n, x = Some (k, n) /\ In k (map fst r) /\ k <> T_ORIGIN.
Proof.
  induction r as [|[k d] r IH]; intros x Hall Hin; [destruct Hin|].
  apply Forall_cons_iff in Hall. destruct Hall as [Hd Hall]. cbn [map concat] in Hin. rewrite map_app in Hin.
  apply in_app_or in Hin. destruct Hin as [Hin|Hin].
  - cbn [part fst snd] in *. destruct (Nat.eqb_spec k T_ORIGIN) as [|Hne]; [destruct Hin|].
    rewrite (dict_keys _ _ _ Hd) in Hin. apply in_map_iff in Hin. destruct Hin as (n & <- & _).
    exists k, n. split; [reflexivity|]. split; [left; reflexivity | exact Hne].
  - destruct (IH x Hall Hin) as (k' & n' & -> & Hk & Hne). exists k', n'. split; [reflexivity|]. split; [right; exact Hk | exact Hne].
Qed.

Lemma parts_nodup keys : forall r, NoDup (map fst r) -> Forall (fun kd => dictk_ok keys (fst kd) (snd kd)) r ->
  NoDup (map (nth_error keys) (concat (map part r))).
Proof.
  induction r as [|[k d] r IH]; intros Hn Hall; [constructor|].
  apply Forall_cons_iff in Hall. destruct Hall as [Hd Hall]. inversion Hn as [|? ? Hk Hn']; subst.
  cbn [map concat]. rewrite map_app. apply NoDup_app_intro; [| apply IH; assumption |].
  - cbn [part fst snd] in *. destruct (Nat.eqb k T_ORIGIN); [constructor|]. rewrite (dict_keys _ _ _ Hd).
    apply NoDup_map_inj; [intros x y E; congruence | apply Hd].
  - intros x Hx Hx'. destruct (part_keys_in keys r x Hall Hx') as (k' & n' & -> & Hk' & _).
    cbn [part fst snd] in *. destruct (Nat.eqb k T_ORIGIN); [destruct Hx|]. rewrite (dict_keys _ _ _ Hd) in Hx.
    apply in_map_iff in Hx. destruct Hx as (n & E & _). injection E as <- _. contradiction.
Qed.

Theorem lf_sets_distinct keys f : regk_ok keys (l_reg f) -> NoDup (map (nth_error keys) (lf_sids f)).
Proof.
  intros [Hn Hall]. unfold lf_sids. rewrite map_app. apply NoDup_app_intro; [| apply parts_nodup; assumption |].
  - destruct (reg_lookup_spec (l_reg f) T_ORIGIN Hn) as [Hin | [He _]]; [|rewrite He; constructor].
    rewrite Forall_forall in Hall. pose proof (Hall _ Hin) as Hd. cbn [fst snd] in Hd. rewrite (dict_keys _ _ _ Hd).
    apply NoDup_map_inj; [intros x y E; congruence | apply Hd].
  - intros x Hx Hx'. destruct (part_keys_in keys _ x Hall Hx') as (k' & n' & -> & _ & Hne).
    destruct (reg_lookup_spec (l_reg f) T_ORIGIN Hn) as [Hin | [He _]]; [|rewrite He in Hx; destruct Hx].
    rewrite Forall_forall in Hall. pose proof (Hall _ Hin) as Hd. cbn [fst snd] in Hd. rewrite (dict_keys _ _ _ Hd) in Hx.
    apply in_map_iff in Hx. destruct Hx as (n & E & _). injection E as <- _. apply Hne. reflexivity.
Qed.

(* the list lf_records iterates over is lf_sids *)
Lemma lf_sids_spec f : lf_sids f = map snd (reg_lookup (l_reg f) T_ORIGIN)
              ++ concat (map (fun '(k, d) => if Nat.eqb k T_ORIGIN then [] else map snd d) (l_reg f)).
Proof. reflexivity. Qed.

Theorem reachable_lf_sets_distinct ops ps l f :
  let st := bstate_of (run_ops ps b_init ops) in
  lf_at st l = Some f ->
  NoDup (map (fun sid => (s_ty (set_at st sid), s_name (set_at st sid), (sid <? length (b_sets st))%nat)) (lf_sids f)).
Proof.
  intros st Hf. pose proof (run_ops_inv_reg ops ps b_init inv_reg_init) as Hi. fold st in Hi.
  pose proof (lf_sets_distinct (skeys st) f (lf_at_reg _ _ _ Hi Hf)) as Hn.
  assert (Hall : Forall (fun sid => exists kn, nth_error (skeys st) sid = Some kn) (lf_sids f)).
  { destruct (lf_at_reg _ _ _ Hi Hf) as [Hnk Hd]. unfold lf_sids. apply Forall_app. split.
    - destruct (reg_lookup_spec (l_reg f) T_ORIGIN Hnk) as [Hin | [He _]]; [|rewrite He; constructor].
      rewrite Forall_forall in Hd. destruct (Hd _ Hin) as [_ H2]. cbn [fst snd] in H2.
      apply Forall_forall. intros sid Hs. apply in_map_iff in Hs. destruct Hs as ([n v] & <- & Hv). rewrite Forall_forall in H2.
      eexists. exact (H2 _ Hv).
    - clear Hnk Hn. induction (l_reg f) as [|[k d] r IH]; [constructor|]. apply Forall_cons_iff in Hd. destruct Hd as [[_ H2] Hd].
      cbn [map concat]. apply Forall_app. split; [|apply IH; exact Hd]. cbn [part fst snd] in *.
      destruct (Nat.eqb k T_ORIGIN); [constructor|]. apply Forall_forall. intros sid Hs. apply in_map_iff in Hs.
      destruct Hs as ([n v] & <- & Hv). rewrite Forall_forall in H2. eexists. exact (H2 _ Hv). }
  revert Hn Hall. generalize (lf_sids f). induction l0 as [|sid sids IH]; intros Hn Hall; [constructor|].
  apply Forall_cons_iff in Hall. destruct Hall as [[kn Hk] Hall]. cbn [map] in *. inversion Hn as [|? ? Hnot Hn']; subst.
  constructor; [|apply IH; assumption].
  intros Hin. apply Hnot. apply in_map_iff in Hin. destruct Hin as (sid' & E & Hin'). apply in_map_iff. exists sid'. split; [|exact Hin'].
  rewrite Forall_forall in Hall. destruct (Hall _ Hin') as [kn' Hk']. rewrite Hk, Hk'. f_equal.
  assert (K : forall s x, nth_error (skeys st) s = Some x -> x = (s_ty (set_at st s), s_name (set_at st s)) /\ (s <? length (b_sets st))%nat = true).
  { intros s x Hx. unfold skeys in Hx. rewrite nth_error_map in Hx. unfold set_at. destruct (nth_error (b_sets st) s) as [ss|] eqn:En; [|discriminate].
    cbn in Hx. injection Hx as <-. rewrite (nth_error_nth _ _ _ En). split; [reflexivity|]. apply Nat.ltb_lt. apply nth_error_Some. congruence. }
  destruct (K _ _ Hk) as [-> _]. destruct (K _ _ Hk') as [-> _]. injection E as E1 E2 _. congruence.
Qed.
