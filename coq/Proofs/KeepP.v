(* KeepP.v — what a write may change in the specification.
   DLISFile.write mutates the objects it writes (defaults, values derived from the data). This file proves, for the whole
   of Write.write (successful or not), that these mutations are confined to a fixed list of (object type, attribute)
   sites, and that at those sites a value is only put where there was none (or a falsy one) and units only where there
   were none.  Everything the user assigned therefore reaches the encoder unchanged (the encoder side is
   FileP.enc_sset_faithful), and an attribute never assigned outside the listed sites is absent in the file. *)
From DV Require Import Model.ApiDispatch Model.FileReader Proofs.BaseP Proofs.PrimP Proofs.SegmentP Proofs.IflrP
     Proofs.EflrP Proofs.BuilderP Proofs.WriteP Proofs.BytesP Proofs.StructP Proofs.FileP Proofs.RegP.
From Coq Require Import Lia ZifyBool.

(* ---------- the sites ---------- *)
Definition default_sites : list (nat * list Z) :=
  [(T_ORIGIN, n_field_name); (T_ORIGIN, n_file_id);
   (T_CHANNEL, n_element_limit); (T_CHANNEL, n_dimension); (T_CHANNEL, n_long_name); (T_CHANNEL, n_representation_code);
   (T_PARAMETER, n_dimension); (T_COMPUTATION, n_dimension); (T_CALMEAS, n_dimension);
   (T_FRAME, n_spacing); (T_FRAME, n_index_min); (T_FRAME, n_index_max); (T_FRAME, n_direction)].
Definition unit_sites : list (nat * list Z) := [(T_FRAME, n_spacing); (T_FRAME, n_index_min); (T_FRAME, n_index_max)].

Definition site (l : list (nat * list Z)) (ty idx : nat) : bool :=
  existsb (fun tn => Nat.eqb ty (fst tn) && Nat.eqb idx (aidx (fst tn) (snd tn))) l.
(* the one attribute that is not the user's: a channel's REPRESENTATION-CODE always follows the cast dtype *)
Definition derived (ty idx : nat) : bool := Nat.eqb ty T_CHANNEL && Nat.eqb idx (aidx T_CHANNEL n_representation_code).

Definition vkeep (ty idx : nat) (a b : spv) : Prop :=
  b = a \/ (site default_sites ty idx = true /\ (spv_truthy a = false \/ derived ty idx = true)).
Definition ukeep (ty idx : nat) (a b : option (list Z)) : Prop :=
  b = a \/ (site unit_sites ty idx = true /\ a = None).

Definition keeps (it it' : item) : Prop :=
  i_ty it' = i_ty it /\
  forall idx, vkeep (i_ty it) idx (fst (get_attr it idx)) (fst (get_attr it' idx))
              /\ ukeep (i_ty it) idx (snd (get_attr it idx)) (snd (get_attr it' idx)).

Lemma keeps_refl it : keeps it it.
Proof. split; [reflexivity|]. intros idx. split; left; reflexivity. Qed.

Lemma keeps_trans a b c : keeps a b -> keeps b c -> keeps a c.
Proof.
  intros [T1 K1] [T2 K2]. split; [congruence|]. intros idx.
  destruct (K1 idx) as [V1 U1]. destruct (K2 idx) as [V2 U2]. rewrite T1 in V2, U2. split.
  - destruct V1 as [E1|R1]; [|right; exact R1]. rewrite E1 in V2. exact V2.
  - destruct U1 as [E1|R1]; [|right; exact R1]. rewrite E1 in U2. exact U2.
Qed.

(* ---------- reading an attribute after an update ---------- *)
Lemma upd_overflow {A} : forall (l : list A) n x, (length l <= n)%nat -> upd l n x = l.
Proof.
  induction l as [|h t IH]; intros n x H; [reflexivity|]. destruct n as [|k]; cbn in H; [lia|].
  cbn [upd]. rewrite IH by lia. reflexivity.
Qed.

Lemma get_put_value_other it idx v j : j <> idx -> get_attr (put_value it idx v) j = get_attr it j.
Proof. intros H. unfold get_attr, put_value. cbn [i_attrs]. apply nth_upd_other. congruence. Qed.

Lemma get_put_value_snd it idx v j : snd (get_attr (put_value it idx v) j) = snd (get_attr it j).
Proof.
  destruct (Nat.eq_dec j idx) as [->|Hne]; [|rewrite get_put_value_other by exact Hne; reflexivity].
  unfold get_attr, put_value. cbn [i_attrs].
  destruct (Nat.lt_ge_cases idx (length (i_attrs it))) as [Hlt|Hge].
  - rewrite nth_upd_same by exact Hlt. reflexivity.
  - rewrite upd_overflow by exact Hge. reflexivity.
Qed.

Lemma get_put_units_other it idx u j : j <> idx -> get_attr (put_units it idx u) j = get_attr it j.
Proof. intros H. unfold get_attr, put_units. cbn [i_attrs]. apply nth_upd_other. congruence. Qed.

Lemma get_put_units_fst it idx u j : fst (get_attr (put_units it idx u) j) = fst (get_attr it j).
Proof.
  destruct (Nat.eq_dec j idx) as [->|Hne]; [|rewrite get_put_units_other by exact Hne; reflexivity].
  unfold get_attr, put_units. cbn [i_attrs].
  destruct (Nat.lt_ge_cases idx (length (i_attrs it))) as [Hlt|Hge].
  - rewrite nth_upd_same by exact Hlt. reflexivity.
  - rewrite upd_overflow by exact Hge. reflexivity.
Qed.

(* ---------- the primitive updates ---------- *)
Lemma put_value_keeps it idx v :
  site default_sites (i_ty it) idx = true ->
  spv_truthy (fst (get_attr it idx)) = false \/ derived (i_ty it) idx = true ->
  keeps it (put_value it idx v).
Proof.
  intros Hs Hf. split; [reflexivity|]. intros j. split.
  - destruct (Nat.eq_dec j idx) as [->|Hne]; [right; split; assumption | left; rewrite get_put_value_other by exact Hne; reflexivity].
  - left. apply get_put_value_snd.
Qed.

Lemma put_units_keeps it idx u :
  site unit_sites (i_ty it) idx = true -> snd (get_attr it idx) = None -> keeps it (put_units it idx u).
Proof.
  intros Hs Hn. split; [reflexivity|]. intros j. split.
  - left. apply get_put_units_fst.
  - destruct (Nat.eq_dec j idx) as [->|Hne]; [right; split; assumption | left; rewrite get_put_units_other by exact Hne; reflexivity].
Qed.

Lemma put_cast_keeps it c : keeps it (put_cast it c).
Proof. split; [reflexivity|]. intros j. split; left; reflexivity. Qed.

Lemma assign_value_if_none_keeps it idx v :
  site default_sites (i_ty it) idx = true -> keeps it (assign_value_if_none it idx v).
Proof.
  intros Hs. unfold assign_value_if_none. destruct (fst (get_attr it idx)) eqn:E; try apply keeps_refl.
  apply put_value_keeps; [exact Hs | left; rewrite E; reflexivity].
Qed.

Lemma assign_units_if_none_keeps it idx u :
  site unit_sites (i_ty it) idx = true -> keeps it (assign_units_if_none it idx u).
Proof.
  intros Hs. unfold assign_units_if_none. destruct (snd (get_attr it idx)) eqn:E; [apply keeps_refl|].
  destruct u; [apply put_units_keeps; assumption | apply keeps_refl].
Qed.

Lemma site_of l t n : In (t, n) l -> site l t (aidx t n) = true.
Proof.
  intros Hin. unfold site. apply existsb_exists. exists (t, n). split; [exact Hin|]. cbn [fst snd]. rewrite !Nat.eqb_refl. reflexivity.
Qed.

Ltac site_tac := apply site_of; cbn [default_sites unit_sites In]; tauto.

(* ---------- DimensionedItem._check_or_set_value_dimensionality ---------- *)
Lemma cosd_keeps it v it' :
  In (i_ty it, n_dimension) default_sites -> check_or_set_dimensionality it v = OK it' -> keeps it it'.
Proof.
  intros Hin. unfold check_or_set_dimensionality.
  destruct v; [intros H; inv H; apply keeps_refl | |];
    (destruct (shape_tail _) as [dim|]; [|discriminate]);
    (destruct (fst (get_attr it (aidx (i_ty it) n_dimension))) eqn:Ed;
     [intros H; inv H; apply put_value_keeps; [apply site_of; exact Hin | left; rewrite Ed; reflexivity] | |]);
    (destruct (int_list_of _) as [dl|]; [|discriminate]);
    (match goal with |- (if ?c then _ else _) = _ -> _ => destruct c end; intros H; inv H; apply keeps_refl).
Qed.

(* ---------- EFLRItem._run_checks_and_set_defaults, per type ---------- *)
Lemma run_checks_keeps st it it' : run_checks st it = OK it' -> keeps it it'.
Proof.
  unfold run_checks. cbv zeta.
  destruct (Nat.eqb_spec (i_ty it) T_ORIGIN) as [Ho|_].
  { intros H. inv H. destruct (fst (get_attr it _)) eqn:E; try apply keeps_refl.
    apply put_value_keeps; [rewrite Ho; site_tac | left; rewrite E; reflexivity]. }
  destruct (Nat.eqb_spec (i_ty it) T_CHANNEL) as [Hc|_].
  { intros H. bind_inv H. rename a into it1, H0 into H1. bind_inv H.
    assert (E1 : keeps it it1).
    { revert H1.
      destruct (negb (spv_truthy (fst (get_attr it (aidx (i_ty it) n_element_limit)))) && spv_truthy (fst (get_attr it (aidx (i_ty it) n_dimension)))) eqn:C1.
      { intros H1. inv H1. apply andb_prop in C1. destruct C1 as [C1 _]. apply negb_true_iff in C1.
        apply put_value_keeps; [rewrite Hc; site_tac | left; exact C1]. }
      destruct (negb (spv_truthy (fst (get_attr it (aidx (i_ty it) n_dimension)))) && spv_truthy (fst (get_attr it (aidx (i_ty it) n_element_limit)))) eqn:C2.
      { intros H1. inv H1. apply andb_prop in C2. destruct C2 as [C2 _]. apply negb_true_iff in C2.
        apply put_value_keeps; [rewrite Hc; site_tac | left; exact C2]. }
      repeat match goal with
             | |- (if ?c then _ else _) = OK _ -> _ => destruct c
             | |- match ?c with Some _ => _ | None => _ end = OK _ -> _ => destruct c
             end; intros H1; inv H1; apply keeps_refl. }
    apply OK_inj_ in H. subst it'. eapply keeps_trans; [exact E1|].
    destruct (spv_truthy (fst (get_attr it1 (aidx (i_ty it) n_long_name)))) eqn:C3; [apply keeps_refl|].
    destruct E1 as [Et _]. apply put_value_keeps; [rewrite Et, Hc; site_tac | left; exact C3]. }
  destruct (Nat.eqb (i_ty it) T_PARAMETER || Nat.eqb (i_ty it) T_COMPUTATION) eqn:Epc.
  { assert (Hin : In (i_ty it, n_dimension) default_sites).
    { apply orb_prop in Epc. destruct Epc as [E|E]; apply Nat.eqb_eq in E; rewrite E; cbn [default_sites In]; tauto. }
    intros H. bind_inv H. bind_inv H. rename a0 into it1, H1 into H2. cbv zeta in H. bind_inv H. apply OK_inj_ in H. subst it'.
    pose proof (cosd_keeps _ _ _ Hin H2) as E1. eapply keeps_trans; [exact E1|].
    destruct (spv_truthy (fst (get_attr it (aidx (i_ty it) n_values))) && negb (spv_truthy (fst (get_attr it1 (aidx (i_ty it) n_dimension))))) eqn:C; [|apply keeps_refl].
    apply andb_prop in C. destruct C as [_ C]. apply negb_true_iff in C. destruct E1 as [Et _].
    apply put_value_keeps; [rewrite Et; apply site_of; exact Hin | left; exact C]. }
  destruct (Nat.eqb (i_ty it) T_ZONE).
  { repeat match goal with
           | |- match ?c with _ => _ end = OK _ -> _ => destruct c
           | |- (if ?c then _ else _) = OK _ -> _ => destruct c
           end; intros H; inv H; apply keeps_refl. }
  destruct (Nat.eqb (i_ty it) T_CALCOEF).
  { destruct (counts_equal _ _); intros H; inv H. apply keeps_refl. }
  destruct (Nat.eqb_spec (i_ty it) T_CALMEAS) as [Hm|_].
  { intros H. destruct (negb (counts_equal _ _)); [discriminate|]. bind_inv H. rename a into itm, H0 into Hfold. bind_inv H. apply OK_inj_ in H. subst it'.
    assert (G : forall names a0 b, keeps it a0 ->
              fold_left (fun acc n => do a <- acc; check_or_set_dimensionality a (fst (get_attr a (aidx (i_ty it) n)))) names (OK a0) = OK b ->
              keeps it b).
    { induction names as [|n names IH]; intros a0 b E0 Hf; [inv Hf; exact E0|].
      cbn [fold_left bind] in Hf.
      destruct (check_or_set_dimensionality a0 (fst (get_attr a0 (aidx (i_ty it) n)))) as [a1|e] eqn:Ec.
      - apply (IH a1 b); [|exact Hf]. eapply keeps_trans; [exact E0|]. eapply cosd_keeps; [|exact Ec].
        destruct E0 as [Es _]. rewrite Es, Hm. cbn [default_sites In]. tauto.
      - exfalso. clear -Hf. induction names as [|x xs IHx]; cbn in Hf; [discriminate | auto]. }
    eapply G; [apply keeps_refl | exact Hfold]. }
  destruct (Nat.eqb (i_ty it) T_SPLICE).
  { repeat match goal with
           | |- match ?c with _ => _ end = OK _ -> _ => destruct c
           | |- (if ?c then _ else _) = OK _ -> _ => destruct c
           end; intros H; inv H; apply keeps_refl. }
  intros H. inv H. apply keeps_refl.
Qed.

Lemma sync_repr_code_keeps it : keeps it (sync_repr_code it).
Proof.
  unfold sync_repr_code. destruct (Nat.eqb_spec (i_ty it) T_CHANNEL) as [Hc|]; [|apply keeps_refl].
  apply put_value_keeps; [rewrite Hc; site_tac|]. right. unfold derived. rewrite Hc, !Nat.eqb_refl. reflexivity.
Qed.

(* ---------- states ---------- *)
(* everything of a logical file except its data dictionary: header fields, registry, no-format calls *)
Definition lf_static (f : lfile) := (l_hid f, l_seq f, l_ident f, l_fh_origin f, l_reg f, l_nofmt f).
Definition skeeps (st st' : bstate) : Prop :=
  b_sets st' = b_sets st /\ b_phys st' = b_phys st /\ map lf_static (b_lfs st') = map lf_static (b_lfs st)
  /\ (forall i, keeps (item_at st i) (item_at st' i))
  /\ length (b_items st') = length (b_items st).

Lemma skeeps_refl st : skeeps st st.
Proof. split; [reflexivity|]. split; [reflexivity|]. split; [reflexivity|]. split; [intros i; apply keeps_refl | reflexivity]. Qed.

Lemma skeeps_trans a b c : skeeps a b -> skeeps b c -> skeeps a c.
Proof.
  intros (S1 & P1 & L1 & K1 & N1) (S2 & P2 & L2 & K2 & N2). split; [congruence|]. split; [congruence|]. split; [congruence|].
  split; [|congruence]. intros i. eapply keeps_trans; [apply K1 | apply K2].
Qed.

Lemma item_at_set_item st k it' i :
  item_at (set_item st k it') i = if Nat.eqb i k && Nat.ltb k (length (b_items st)) then it' else item_at st i.
Proof.
  unfold item_at, set_item. cbn [b_items]. destruct (Nat.eqb_spec i k) as [->|Hne]; cbn [andb].
  - destruct (Nat.ltb_spec k (length (b_items st))) as [Hlt|Hge]; [apply nth_upd_same; exact Hlt | rewrite upd_overflow by exact Hge; reflexivity].
  - apply nth_upd_other. congruence.
Qed.

Lemma set_item_skeeps st k it' : keeps (item_at st k) it' -> skeeps st (set_item st k it').
Proof.
  intros K. split; [reflexivity|]. split; [reflexivity|]. split; [reflexivity|].
  split; [|unfold set_item; cbn [b_items]; apply length_upd]. intros i.
  rewrite item_at_set_item. destruct (Nat.eqb_spec i k) as [->|]; cbn [andb]; [|apply keeps_refl].
  destruct (Nat.ltb _ _); [exact K | apply keeps_refl].
Qed.

Lemma skeeps_regs st st' : skeeps st st' -> map l_reg (b_lfs st') = map l_reg (b_lfs st).
Proof.
  intros (_ & _ & L & _). apply (f_equal (map (fun x : list Z * Z * list Z * option Z * reg * list (raw * payload_in) => snd (fst x)))) in L.
  rewrite !map_map in L. exact L.
Qed.

Lemma set_lf_skeeps st l f f' : lf_at st l = Some f -> lf_static f' = lf_static f -> skeeps st (set_lf st l f').
Proof.
  intros Hl Hr. split; [reflexivity|]. split; [reflexivity|]. split; [|split; [intros i; apply keeps_refl | reflexivity]].
  unfold set_lf. cbn [b_lfs]. apply upd_map_same. intros y Hy. unfold lf_at in Hl. rewrite Hl in Hy. inv Hy. exact Hr.
Qed.

Lemma skeeps_inv_reg st st' : skeeps st st' -> Inv_reg st -> Inv_reg st'.
Proof.
  intros K [Hp Hl]. pose proof (skeeps_regs _ _ K) as L. destruct K as (S & P & _ & _). unfold Inv_reg, skeys. rewrite S, P. split; [exact Hp|].
  change (fun f => regk_ok (map skey (b_sets st)) (l_reg f)) with (fun f => (fun r => regk_ok (map skey (b_sets st)) r) (l_reg f)).
  rewrite <- Forall_map, L, Forall_map. exact Hl.
Qed.

Lemma skeeps_ty st st' i : skeeps st st' -> i_ty (item_at st' i) = i_ty (item_at st i).
Proof. intros (_ & _ & _ & K & _). apply K. Qed.

(* the items a registry lists under a type have that type *)
Lemma reg_items_ty st r ty i :
  Inv_struct st -> regk_ok (skeys st) r -> In i (reg_items st r ty) -> i_ty (item_at st i) = ty.
Proof.
  intros Ht [Hn Hall] Hin. unfold reg_items in Hin. apply in_concat in Hin. destruct Hin as (l & Hl & Hi).
  apply in_map_iff in Hl. destruct Hl as ([n sid] & <- & Hns).
  destruct (reg_lookup_spec r ty Hn) as [Hr | [He _]]; [|rewrite He in Hns; destruct Hns].
  rewrite Forall_forall in Hall. destruct (Hall _ Hr) as [_ Hd]. cbn [fst snd] in Hd. rewrite Forall_forall in Hd.
  specialize (Hd _ Hns). cbn [fst snd] in Hd.
  destruct (inv_set_items st sid i Ht Hi) as [_ Hty]. rewrite Hty.
  unfold skeys in Hd. rewrite nth_error_map in Hd. unfold set_at.
  destruct (nth_error (b_sets st) sid) as [s|] eqn:Es; [|discriminate]. cbn in Hd. injection Hd as Hk _.
  rewrite (nth_error_nth _ _ _ Es). exact Hk.
Qed.

(* ---------- check_objects ---------- *)
Lemma check_objects_keeps hc st l f st' :
  check_objects hc st l f = OK st' -> Inv st -> Inv_reg st -> lf_at st l = Some f -> skeeps st st'.
Proof.
  unfold check_objects. destruct (lf_origins st f) as [|o os] eqn:Eo; [discriminate|].
  repeat match goal with |- (if ?c then _ else _) = OK _ -> _ => destruct c; [discriminate|] end.
  cbv zeta. destruct (fst (get_attr (item_at st o) _)) as [|[]|] eqn:E; try discriminate.
  - intros H [_ Ht] Hr Hl. inv H. apply set_item_skeeps.
    assert (Hty : i_ty (item_at st o) = T_ORIGIN).
    { eapply reg_items_ty; [exact Ht | eapply lf_at_reg; eassumption |]. unfold lf_origins in Eo. rewrite Eo. left. reflexivity. }
    apply put_value_keeps; [rewrite Hty; site_tac | left; rewrite E; reflexivity].
  - destruct (list_eqb _ _); intros H _ _ _; inv H; apply skeeps_refl.
Qed.

(* ---------- set-up from data ---------- *)
Lemma setup_channel_keeps st c d st' : setup_channel st c d = OK st' -> skeeps st st'.
Proof.
  unfold setup_channel. cbv zeta. destruct (Nat.eqb_spec (i_ty (item_at st c)) T_CHANNEL) as [Hc|]; [|discriminate]. cbn [negb].
  intros H. bind_inv H. rename a into it1, H0 into H1. bind_inv H. rename a into it2, H0 into H2. inv H.
  apply set_item_skeeps.
  assert (E1 : keeps (item_at st c) it1).
  { revert H1. destruct (int_list_of (fst (get_attr (item_at st c) (aidx T_CHANNEL n_dimension)))) as [dl|].
    - match goal with |- (if ?c then _ else _) = _ -> _ => destruct c end; [intros H1; inv H1; apply keeps_refl|].
      match goal with |- (if ?c then _ else _) = _ -> _ => destruct c eqn:Et end; [discriminate|]. intros H1. inv H1.
      apply put_value_keeps; [rewrite Hc; site_tac | left; exact Et].
    - destruct (fst (get_attr (item_at st c) (aidx T_CHANNEL n_dimension))) eqn:Ed; try discriminate.
      intros H1. inv H1. apply put_value_keeps; [rewrite Hc; site_tac | left; rewrite Ed; reflexivity]. }
  assert (Et1 : i_ty it1 = T_CHANNEL) by (destruct E1 as [Es _]; congruence).
  assert (E2 : keeps it1 it2).
  { revert H2. destruct (int_list_of (fst (get_attr it1 (aidx T_CHANNEL n_element_limit)))) as [el|].
    - match goal with |- (if ?c then _ else _) = _ -> _ => destruct c end; [intros H2; inv H2; apply keeps_refl|].
      match goal with |- (if ?c then _ else _) = _ -> _ => destruct c eqn:Et end; [destruct (elim_bounds _ _); intros H2; [inv H2; apply keeps_refl | discriminate H2]|].
      intros H2. inv H2. apply put_value_keeps; [rewrite Et1; site_tac | left; exact Et].
    - destruct (fst (get_attr it1 (aidx T_CHANNEL n_element_limit))) eqn:Ed; try discriminate.
      intros H2. inv H2. apply put_value_keeps; [rewrite Et1; site_tac | left; rewrite Ed; reflexivity]. }
  eapply keeps_trans; [exact E1|]. eapply keeps_trans; [exact E2|].
  destruct (i_cast it2); [apply keeps_refl | apply put_cast_keeps].
Qed.

Lemma setup_channels_keeps : forall cds st st',
  fold_left (fun acc '(c, d) => do s <- acc; setup_channel s c d) cds (OK st) = OK st' -> skeeps st st'.
Proof.
  induction cds as [|[c d] cds IH]; intros st st' H; [inv H; apply skeeps_refl|].
  cbn [fold_left bind] in H. destruct (setup_channel st c d) as [s1|e] eqn:E.
  - eapply skeeps_trans; [eapply setup_channel_keeps; exact E | apply IH; exact H].
  - rewrite fold_err in H; [discriminate|]. intros e0 [c0 d0]. reflexivity.
Qed.

Lemma setup_frame_keeps hc st l w wf st' rows :
  setup_frame hc st l w wf = OK (st', rows) -> i_ty (item_at st (wf_item wf)) = T_FRAME -> skeeps st st'.
Proof.
  unfold setup_frame. destruct (lf_at st l) as [f|] eqn:El; [|discriminate]. cbv zeta.
  intros H Hty. bind_inv H. rename a into infos. clear H0.
  destruct (negb (distinct _)); [discriminate|]. destruct infos as [|d0 infos']; [discriminate|].
  repeat match type of H with (if ?c then _ else _) = OK _ => destruct c; [discriminate|] end.
  bind_inv H. rename a into st2, H0 into Hch. bind_inv H. rename a into fi', H0 into Hfi. inv H.
  set (st1 := set_lf st l (set_ldata f (data_merge (l_data f) match w_data w with Some d => d | None => [] end))) in *.
  assert (K1 : skeeps st st1) by (eapply set_lf_skeeps; [exact El | reflexivity]).
  assert (K2 : skeeps st1 st2) by (eapply setup_channels_keeps; exact Hch).
  assert (K12 : skeeps st st2) by (eapply skeeps_trans; eassumption).
  eapply skeeps_trans; [exact K12|]. apply set_item_skeeps.
  assert (Hty2 : i_ty (item_at st2 (wf_item wf)) = T_FRAME) by (rewrite (skeeps_ty _ _ _ K12); exact Hty).
  clear Hch K1 K2 K12. revert Hfi. set (fi := item_at st2 (wf_item wf)) in *.
  assert (AV : forall a n v, keeps fi a -> In (T_FRAME, n) default_sites -> keeps fi (assign_value_if_none a (aidx T_FRAME n) v)).
  { intros a n v Ka Hin. eapply keeps_trans; [exact Ka|]. apply assign_value_if_none_keeps.
    destruct Ka as [Ea _]. rewrite Ea, Hty2. apply site_of. exact Hin. }
  assert (AU : forall a n u, keeps fi a -> In (T_FRAME, n) unit_sites -> keeps fi (assign_units_if_none a (aidx T_FRAME n) u)).
  { intros a n u Ka Hin. eapply keeps_trans; [exact Ka|]. apply assign_units_if_none_keeps.
    destruct Ka as [Ea _]. rewrite Ea, Hty2. apply site_of. exact Hin. }
  assert (chain_done : True) by exact I.
  destruct (fst (get_attr fi (aidx T_FRAME n_index_type))) eqn:Eit.
  - intros Hfi. inv Hfi.
    repeat first [ exact (keeps_refl _) | apply AV; [|cbn [default_sites In]; tauto] | apply AU; [|cbn [unit_sites In]; tauto] ].
  - destruct (wf_index wf) as [s|]; [|discriminate].
    match goal with |- match ?c with [] => _ | _ :: _ => _ end = _ -> _ => destruct c as [|c0 cs] end; [discriminate|].
    destruct (negb (ix_1d s)); [discriminate|].
    destruct (ix_spacing s);
      [intros Hfi; inv Hfi; repeat first [ exact (keeps_refl _) | apply AV; [|cbn [default_sites In]; tauto] | apply AU; [|cbn [unit_sites In]; tauto] ]|].
    match goal with |- (if ?c then _ else _) = _ -> _ => destruct c end;
      [intros Hfi; inv Hfi; repeat first [ exact (keeps_refl _) | apply AV; [|cbn [default_sites In]; tauto] | apply AU; [|cbn [unit_sites In]; tauto] ]|].
    destruct hc; [discriminate|]. intros Hfi. inv Hfi.
    destruct (ix_direction s); repeat first [ exact (keeps_refl _) | apply AV; [|cbn [default_sites In]; tauto] | apply AU; [|cbn [unit_sites In]; tauto] ].
  - destruct (wf_index wf) as [s|]; [|discriminate].
    match goal with |- match ?c with [] => _ | _ :: _ => _ end = _ -> _ => destruct c as [|c0 cs] end; [discriminate|].
    destruct (negb (ix_1d s)); [discriminate|].
    destruct (ix_spacing s);
      [intros Hfi; inv Hfi; repeat first [ exact (keeps_refl _) | apply AV; [|cbn [default_sites In]; tauto] | apply AU; [|cbn [unit_sites In]; tauto] ]|].
    match goal with |- (if ?c then _ else _) = _ -> _ => destruct c end;
      [intros Hfi; inv Hfi; repeat first [ exact (keeps_refl _) | apply AV; [|cbn [default_sites In]; tauto] | apply AU; [|cbn [unit_sites In]; tauto] ]|].
    destruct hc; [discriminate|]. intros Hfi. inv Hfi.
    destruct (ix_direction s); repeat first [ exact (keeps_refl _) | apply AV; [|cbn [default_sites In]; tauto] | apply AU; [|cbn [unit_sites In]; tauto] ].
Qed.

(* ---------- records: the per-item loop of EFLRSet._make_body_bytes ---------- *)
Lemma fold_objs_keeps : forall items st bs0 st' bs,
  fold_left obj_step items (OK (st, bs0)) = OK (st', bs) -> skeeps st st'.
Proof.
  induction items as [|i items IH]; intros st bs0 st' bs H; [inv H; apply skeeps_refl|].
  cbn [fold_left] in H. unfold obj_step at 2 in H. cbn [bind] in H.
  destruct (run_checks st (sync_repr_code (item_at st i))) as [it|e] eqn:Erc; cbn [bind] in H; [|rewrite fold_err in H by apply obj_step_err; discriminate].
  destruct (enc_obj (obj_of (set_item st i it) i)) as [b|e] eqn:Eo; cbn [bind] in H; [|rewrite fold_err in H by apply obj_step_err; discriminate].
  eapply skeeps_trans; [|eapply IH; exact H]. apply set_item_skeeps.
  eapply keeps_trans; [apply sync_repr_code_keeps | eapply run_checks_keeps; exact Erc].
Qed.

Lemma enc_sset_keeps st sid st' r : enc_sset st sid = OK (st', r) -> skeeps st st'.
Proof.
  unfold enc_sset. cbv zeta. intros H.
  change (fun (acc : res (bstate * bytes)) (i : nat) => _) with obj_step in H.
  bind_inv H. destruct a as [st1 objs]. rename H0 into Hfold.
  assert (K : skeeps st st1) by (eapply fold_objs_keeps; exact Hfold).
  destruct (s_items (set_at st sid)); [inv H; exact K|]. bind_inv H. bind_inv H. inv H. exact K.
Qed.

Lemma fold_sets_keeps : forall sids st acc st' out,
  fold_left sets_step sids (OK (st, acc)) = OK (st', out) -> skeeps st st'.
Proof.
  induction sids as [|sid sids IH]; intros st acc st' out H; [inv H; apply skeeps_refl|].
  cbn [fold_left] in H. unfold sets_step at 2 in H. cbn [bind] in H.
  destruct (enc_sset st sid) as [[s1 r]|e] eqn:E; cbn [bind] in H; [|rewrite fold_err in H by reflexivity; discriminate].
  eapply skeeps_trans; [eapply enc_sset_keeps; exact E | eapply IH; exact H].
Qed.

Lemma lf_records_keeps st f frames st' recs : lf_records st f frames = OK (st', recs) -> skeeps st st'.
Proof.
  unfold lf_records. intros H. bind_inv H.
  change (fun (acc : res (bstate * list lrec)) (sid : nat) => _) with sets_step in H.
  bind_inv H. destruct a0 as [st1 erecs]. rename H1 into Hfold.
  bind_inv H. bind_inv H. inv H. eapply fold_sets_keeps. exact Hfold.
Qed.

(* ---------- DLISFile.write ---------- *)
Lemma check_all_keeps hc : forall fs k s s', check_all hc k fs s = OK s' -> Inv s -> Inv_reg s -> skeeps s s'.
Proof.
  induction fs as [|f0 fs IH]; intros k s s' H Hi Hr; [inv H; apply skeeps_refl|].
  cbn [check_all] in H. destruct (lf_at s k) as [f|] eqn:El; [|discriminate]. bind_inv H. rename a into s1, H0 into Hc.
  assert (K : skeeps s s1) by (eapply check_objects_keeps; eassumption).
  eapply skeeps_trans; [exact K|]. eapply IH; [exact H | eapply check_objects_inv; eassumption | eapply skeeps_inv_reg; eassumption].
Qed.

Lemma find_wframe_item w fr wf : find_wframe w fr = Some wf -> wf_item wf = fr.
Proof.
  unfold find_wframe. induction (w_frames w) as [|x l IH]; [discriminate|].
  destruct (Nat.eqb_spec (wf_item x) fr) as [E|_]; [intros H; injection H as <-; exact E | exact IH].
Qed.

Lemma setup_step_keeps hc w k s acc fr :
  skeeps s (fst acc) -> i_ty (item_at s fr) = T_FRAME -> skeeps s (fst (setup_step hc w k acc fr)).
Proof.
  destruct acc as [sa ra]. cbn [fst]. intros K Hty. unfold setup_step. destruct ra as [l|e]; [|exact K].
  destruct (find_wframe w fr) as [wf|] eqn:Ef; [|exact K].
  destruct (setup_frame hc sa k w wf) as [[sb rows]|e] eqn:E; [|exact K]. cbn [fst].
  eapply skeeps_trans; [exact K|]. eapply setup_frame_keeps; [exact E|].
  rewrite (find_wframe_item _ _ _ Ef), (skeeps_ty _ _ _ K). exact Hty.
Qed.

Lemma setup_fold_keeps hc w k s : forall frs acc,
  skeeps s (fst acc) -> Forall (fun fr => i_ty (item_at s fr) = T_FRAME) frs -> skeeps s (fst (fold_left (setup_step hc w k) frs acc)).
Proof.
  induction frs as [|fr frs IH]; intros acc K Hall; [exact K|]. cbn [fold_left].
  apply Forall_cons_iff in Hall. destruct Hall as [Hfr Hrest].
  apply IH; [apply setup_step_keeps; assumption | exact Hrest].
Qed.

Lemma setup_all_keeps hc w : forall fs k s acc, Inv s -> Inv_reg s -> skeeps s (fst (setup_all hc w k fs s acc)).
Proof.
  induction fs as [|f0 fs IH]; intros k s acc Hi Hr; [apply skeeps_refl|].
  cbn [setup_all]. destruct (lf_at s k) as [f|] eqn:El; [|apply skeeps_refl].
  assert (Hall : Forall (fun fr => i_ty (item_at s fr) = T_FRAME) (lf_frames s f)).
  { apply Forall_forall. intros fr Hin. eapply reg_items_ty; [apply Hi | eapply lf_at_reg; eassumption | exact Hin]. }
  pose proof (setup_fold_keeps hc w k s (lf_frames s f) (s, OK []) (skeeps_refl s) Hall) as K.
  pose proof (setup_fold_inv hc w k (lf_frames s f) (s, OK []) Hi) as Hi'.
  destruct (fold_left (setup_step hc w k) (lf_frames s f) (s, OK [])) as [s' fr]. cbn [fst] in K, Hi'.
  destruct fr as [l|e]; [|exact K].
  eapply skeeps_trans; [exact K|]. apply IH; [exact Hi' | eapply skeeps_inv_reg; eassumption].
Qed.

Lemma records_all_keeps : forall l k s acc, skeeps s (fst (records_all k l s acc)).
Proof.
  induction l as [|frs l IH]; intros k s acc; [apply skeeps_refl|].
  cbn [records_all]. destruct (lf_at s k) as [f|]; [|apply skeeps_refl].
  destruct (map_opt _ frs) as [frs'|].
  - destruct (lf_records s f frs') as [[s' recs]|e] eqn:E; [|apply skeeps_refl].
    eapply skeeps_trans; [eapply lf_records_keeps; exact E | apply IH].
  - destruct (lf_records s f []) as [[s' recs]|e] eqn:E; cbn [fst]; [|apply skeeps_refl].
    eapply lf_records_keeps; exact E.
Qed.

(* the whole write, successful or not *)
Theorem write_keeps hc st w : Inv st -> Inv_reg st -> skeeps st (fst (write hc st w)).
Proof.
  intros Hi Hr. unfold write. destruct (check_all hc 0 (b_lfs st) st) as [st1|e] eqn:E1; [|apply skeeps_refl].
  pose proof (check_all_keeps _ _ _ _ _ E1 Hi Hr) as K1.
  pose proof (check_all_inv _ _ _ _ _ E1 Hi) as Hi1.
  pose proof (skeeps_inv_reg _ _ K1 Hr) as Hr1.
  pose proof (setup_all_keeps hc w (b_lfs st1) 0%nat st1 [] Hi1 Hr1) as K2.
  destruct (setup_all hc w 0 (b_lfs st1) st1 []) as [st2 r2]. cbn [fst] in K2.
  assert (K12 : skeeps st st2) by (eapply skeeps_trans; eassumption).
  destruct r2 as [perlf|e]; [|exact K12].
  destruct (negb (check_vrl (w_vrl w))); [exact K12|]. destruct (sul_bytes _); [|exact K12].
  pose proof (records_all_keeps perlf 0%nat st2 []) as K3.
  destruct (records_all 0 perlf st2 []) as [st3 r3]. cbn [fst] in K3.
  assert (K : skeeps st st3) by (eapply skeeps_trans; eassumption).
  destruct r3; exact K.
Qed.

(* reachability including writes keeps the registry invariant too *)
Theorem reachable_inv_reg_actions : forall l ps st, Inv st -> Inv_reg st -> Inv_reg (snd (run_actions ps st l)).
Proof.
  induction l as [|a l IH]; intros ps st Hi Hr; [exact Hr|]. destruct a as [o|w]; cbn [run_actions].
  - destruct (step ps st o) as [[ps' st'] out] eqn:E. apply IH.
    + destruct Hi as [Hs Ht]. split; [eapply step_inv_shape; eassumption | eapply step_inv_struct; eassumption].
    + eapply step_inv_reg; eassumption.
  - apply IH; [apply write_inv; exact Hi | eapply skeeps_inv_reg; [apply write_keeps; assumption | exact Hr]].
Qed.

(* ---------- the statement in plain terms ---------- *)
Theorem write_changes_only_defaults l ps hc w :
  let st := snd (run_actions ps b_init l) in
  let st' := fst (write hc st w) in
  forall i idx,
    let ty := i_ty (item_at st i) in
    let v := fst (get_attr (item_at st i) idx) in let v' := fst (get_attr (item_at st' i) idx) in
    let u := snd (get_attr (item_at st i) idx) in let u' := snd (get_attr (item_at st' i) idx) in
    i_ty (item_at st' i) = ty
    /\ (v' <> v -> site default_sites ty idx = true /\ (spv_truthy v = false \/ derived ty idx = true))
    /\ (u' <> u -> site unit_sites ty idx = true /\ u = None).
Proof.
  intros st st' i idx ty v v' u u'.
  assert (Hi : Inv st) by (apply reachable_inv_actions; split; [apply inv_shape_init | apply inv_struct_init]).
  assert (Hr : Inv_reg st) by (apply reachable_inv_reg_actions; [split; [apply inv_shape_init | apply inv_struct_init] | apply inv_reg_init]).
  destruct (write_keeps hc st w Hi Hr) as (_ & _ & _ & K & _). destruct (K i) as [Et Kv]. destruct (Kv idx) as [V U].
  split; [exact Et|]. split.
  - intros Hne. destruct V as [E|R]; [exfalso; apply Hne; exact E | exact R].
  - intros Hne. destruct U as [E|R]; [exfalso; apply Hne; exact E | exact R].
Qed.

(* ---------- what _run_checks_and_set_defaults leaves satisfies the axis / dimension rule ---------- *)
(* For PARAMETER, COMPUTATION and CALIBRATION-MEASUREMENT objects the axes are checked against the dimension AFTER the
   dimension has been derived from the values: the object a successful check leaves behind passes the check again. (Before
   the repair of D23 in /repo the check came first: an object whose derived dimension contradicted its axes was written
   once, and the second write of the same DLISFile raised.) *)
Lemma run_checks_axis_checked st it it' :
  run_checks st it = OK it' ->
  (Nat.eqb (i_ty it) T_PARAMETER || Nat.eqb (i_ty it) T_COMPUTATION || Nat.eqb (i_ty it) T_CALMEAS) = true ->
  check_axis_vs_dimension st it' = OK tt.
Proof.
  unfold run_checks. cbv zeta. intros H Hty.
  destruct (Nat.eqb_spec (i_ty it) T_ORIGIN) as [Ho|_]; [rewrite Ho in Hty; discriminate|].
  destruct (Nat.eqb_spec (i_ty it) T_CHANNEL) as [Hc|_]; [rewrite Hc in Hty; discriminate|].
  destruct (Nat.eqb (i_ty it) T_PARAMETER || Nat.eqb (i_ty it) T_COMPUTATION) eqn:Epc.
  { bind_inv H. bind_inv H. bind_inv H. apply OK_inj_ in H. subst it'. destruct a1. exact H2. }
  cbn [orb] in Hty. apply Nat.eqb_eq in Hty.
  destruct (Nat.eqb_spec (i_ty it) T_ZONE) as [Hz|_]; [rewrite Hz in Hty; discriminate|].
  destruct (Nat.eqb_spec (i_ty it) T_CALCOEF) as [Hz|_]; [rewrite Hz in Hty; discriminate|].
  destruct (Nat.eqb_spec (i_ty it) T_CALMEAS) as [_|Hn]; [|congruence].
  destruct (negb (counts_equal _ _)); [discriminate|]. bind_inv H. bind_inv H. apply OK_inj_ in H. subst it'. destruct a0. exact H1.
Qed.
