(* EffectsP.v — no admissible effect sequence changes a caller-owned buffer (C19, partial). *)
From DV Require Import Model.Effects Proofs.BaseP.
From Coq Require Import Lia.

Lemma filter_app_caller (a b : store) :
  caller_part (a ++ b) = caller_part a ++ caller_part b.
Proof. unfold caller_part. rewrite filter_app, map_app. reflexivity. Qed.

Lemma caller_part_upd_fresh : forall (s : store) dst d,
  bf_owner (buf_at s dst) = Fresh ->
  caller_part (upd s dst {| bf_owner := Fresh; bf_data := d |}) = caller_part s.
Proof.
  induction s as [|b s IH]; intros dst d H; [reflexivity|].
  destruct dst.
  - unfold buf_at in H. cbn in H. cbn [upd]. unfold caller_part. cbn [filter]. rewrite H. reflexivity.
  - cbn [upd]. unfold caller_part in *. cbn [filter]. destruct (bf_owner b); cbn [map]; [f_equal|]; apply IH; exact H.
Qed.

Lemma apply_keeps_caller s e : step_ok s e = true -> caller_part (apply s e) = caller_part s.
Proof.
  destruct e; cbn [step_ok apply]; intros H; try reflexivity.
  - rewrite filter_app_caller. cbn. apply app_nil_r.
  - rewrite filter_app_caller. cbn. apply app_nil_r.
  - destruct (bf_owner (buf_at s dst)) eqn:E; [discriminate|]. apply caller_part_upd_fresh. exact E.
  - rewrite filter_app_caller. cbn. apply app_nil_r.
Qed.

Theorem no_caller_write : forall p s s', run_effects s p = Some s' -> caller_part s' = caller_part s.
Proof.
  induction p as [|e p IH]; intros s s' H; [inv H; reflexivity|].
  cbn [run_effects] in H. destruct (step_ok s e) eqn:E; [|discriminate].
  rewrite (IH _ _ H). apply apply_keeps_caller. exact E.
Qed.

(* the abstracted pipelines are admissible for any caller store of the right shape *)
Lemma pipeline_direct_ok d : exists s', run_effects [{| bf_owner := Caller; bf_data := d |}] pipeline_direct = Some s'.
Proof. eexists. reflexivity. Qed.
Lemma pipeline_index_ok d : exists s', run_effects [{| bf_owner := Caller; bf_data := d |}] pipeline_index = Some s'.
Proof. eexists. reflexivity. Qed.
Lemma pipeline_generic_ok_2 d1 d2 :
  exists s', run_effects [{| bf_owner := Caller; bf_data := d1 |}; {| bf_owner := Caller; bf_data := d2 |}] (pipeline_generic 2) = Some s'.
Proof. eexists. reflexivity. Qed.
