(* ContentP.v — the content of a written file is the final state of the specification.
   1. Inv_disj: in every reachable state an object is listed in at most one set.
   2. The records lf_records emits for the sets of a logical file decode, set by set in registry order, to the sets of the
      state the write LEAVES (eset_of st' sid): later sets' defaults cannot disturb what was already encoded.
   With KeepP (the state a write leaves differs from the state it found only by write-time defaults where nothing was
   given) this is the end-to-end statement of C05 for explicitly formatted records. *)
From DV Require Import Model.ApiDispatch Model.FileReader Proofs.BaseP Proofs.PrimP Proofs.SegmentP Proofs.IflrP
     Proofs.EflrP Proofs.BuilderP Proofs.WriteP Proofs.BytesP Proofs.StructP Proofs.FileP Proofs.RegP Proofs.KeepP.
From Coq Require Import Lia ZifyBool.

(* ---------- an object belongs to at most one set ---------- *)
Definition disj (sets : list sset) : Prop :=
  forall a b i, In i (s_items (nth a sets dummy_set)) -> In i (s_items (nth b sets dummy_set)) -> a = b.
Definition Inv_disj (st : bstate) : Prop := disj (b_sets st).

Lemma disj_app_empty sets s : s_items s = [] -> disj sets -> disj (sets ++ [s]).
Proof.
  intros Hs Hd.
  assert (G : forall a i, In i (s_items (nth a (sets ++ [s]) dummy_set)) -> (a < length sets)%nat /\ In i (s_items (nth a sets dummy_set))).
  { intros a i Hin. destruct (Nat.lt_ge_cases a (length sets)) as [Hlt|Hge]; [rewrite app_nth1 in Hin by exact Hlt; auto|].
    exfalso. rewrite app_nth2 in Hin by exact Hge. destruct (a - length sets)%nat as [|k]; cbn [nth] in Hin; [rewrite Hs in Hin; exact Hin|].
    destruct k; exact Hin. }
  intros a b i Ha Hb. destruct (G _ _ Ha) as [_ Ha']. destruct (G _ _ Hb) as [_ Hb']. exact (Hd _ _ _ Ha' Hb').
Qed.

Lemma gms_disj st ty sn st1 sid : get_or_make_set st ty sn = (st1, sid) -> Inv_disj st -> Inv_disj st1.
Proof.
  unfold get_or_make_set. cbv zeta. destruct (reg_find (b_phys st) ty _) as [s0|]; intros H Hd; inv H; [exact Hd|].
  unfold Inv_disj. cbn [b_sets]. apply disj_app_empty; [reflexivity | exact Hd].
Qed.

Lemma set_items_bound st a i : Inv_struct st -> In i (s_items (nth a (b_sets st) dummy_set)) -> (i < length (b_items st))%nat.
Proof. intros Ht Hin. exact (proj1 (inv_set_items st a i Ht Hin)). Qed.

Lemma register_disj st sid it : Inv_struct st -> Inv_disj st -> Inv_disj (register st sid it).
Proof.
  intros Ht Hd. unfold Inv_disj, register. cbn [b_sets].
  set (n := length (b_items st)). set (s' := {| s_ty := s_ty (set_at st sid); s_name := s_name (set_at st sid); s_items := s_items (set_at st sid) ++ [n] |}).
  assert (G : forall a i, In i (s_items (nth a (upd (b_sets st) sid s') dummy_set)) ->
              In i (s_items (nth a (b_sets st) dummy_set)) \/ (a = sid /\ i = n)).
  { intros a i Hin. destruct (Nat.eq_dec sid a) as [->|Hne]; [|rewrite nth_upd_other in Hin by exact Hne; left; exact Hin].
    destruct (Nat.lt_ge_cases a (length (b_sets st))) as [Hlt|Hge].
    - rewrite nth_upd_same in Hin by exact Hlt. unfold s' in Hin. cbn [s_items] in Hin. apply in_app_or in Hin.
      destruct Hin as [Hin|[<-|[]]]; [left; exact Hin | right; split; reflexivity].
    - rewrite upd_overflow in Hin by exact Hge. left. exact Hin. }
  intros a b i Ha Hb. destruct (G _ _ Ha) as [Ha'|[-> ->]]; destruct (G _ _ Hb) as [Hb'|[-> Hb2]].
  - exact (Hd _ _ _ Ha' Hb').
  - subst i. pose proof (set_items_bound st a n Ht Ha'). unfold n in *. lia.
  - pose proof (set_items_bound st b n Ht Hb'). unfold n in *. lia.
  - reflexivity.
Qed.

Lemma disj_same st st' : b_sets st' = b_sets st -> Inv_disj st -> Inv_disj st'.
Proof. unfold Inv_disj. intros ->. auto. Qed.

Lemma add_common_disj hc st l ty name sn org dflt kw ds cast st' out :
  add_common hc st l ty name sn org dflt kw ds cast = (st', out) -> Inv_struct st -> Inv_disj st -> Inv_disj st'.
Proof.
  unfold add_common. destruct (lf_at st l) as [f|]; [|intros H; inv H; auto].
  destruct (get_or_make_set st ty sn) as [st1 sid] eqn:Hg. intros H Hi Hd.
  destruct (gms_struct _ _ _ _ _ Hg Hi) as (Hi1 & Hsid & Hty & _).
  pose proof (gms_disj _ _ _ _ _ Hg Hd) as Hd1.
  assert (Hi2 : Inv_struct (set_lf st1 l (try_add_set st1 f ty sn sid))) by (apply set_lf_struct; exact Hi1).
  assert (Hd2 : Inv_disj (set_lf st1 l (try_add_set st1 f ty sn sid))) by exact Hd1.
  destruct name; try (inv H; exact Hd2).
  destruct (hc && negb (hc_string s)); [inv H; exact Hd2|].
  match type of H with context [match ?o with OK _ => _ | Err _ => _ end] => destruct o end; [|inv H; exact Hd2].
  match type of H with context [set_attributes ?a ?b ?c ?d] => destruct (set_attributes a b c d) as [it|] eqn:Hs end; [|inv H; exact Hd2].
  injection H as <- <-. apply register_disj; assumption.
Qed.

Theorem step_inv_disj ps st o ps' st' out : step ps st o = (ps', st', out) -> Inv_struct st -> Inv_disj st -> Inv_disj st'.
Proof.
  destruct o; unfold step.
  - unfold add_lf. destruct hid; try solve [intros H; inv H; auto]. destruct seq; try solve [intros H; inv H; auto].
    repeat match goal with |- context [if ?c then _ else _] => destruct c end; intros H Hi Hd; inv H; exact Hd.
  - destruct (add_common (p_hc ps) st l ty name sn origin default_origin kw None None) as [s1 o1] eqn:E.
    intros H; injection H as <- <- <-. eapply add_common_disj; eassumption.
  - destruct (add_origin (p_hc ps) st l name sn origin kw) as [s1 o1] eqn:E. intros H Hi Hd; injection H as <- <- <-.
    unfold add_origin in E. destruct (lf_at st l) as [f|]; [|inv E; exact Hd].
    destruct (get_or_make_set st T_ORIGIN sn) as [st1 sid] eqn:Hg.
    destruct (gms_struct _ _ _ _ _ Hg Hi) as (Hi0 & _). pose proof (gms_disj _ _ _ _ _ Hg Hd) as Hd0.
    assert (Hi1 : Inv_struct (set_lf st1 l (try_add_set st1 f T_ORIGIN sn sid))) by (apply set_lf_struct; exact Hi0).
    assert (Hd1 : Inv_disj (set_lf st1 l (try_add_set st1 f T_ORIGIN sn sid))) by exact Hd0.
    match type of E with context [match ?c with Some _ => _ | None => _ end = _] => destruct c end; [inv E; exact Hd1|].
    match type of E with context [add_common ?a ?b ?c ?d ?e0 ?f0 ?g ?h ?i ?j ?k] =>
      destruct (add_common a b c d e0 f0 g h i j k) as [st3 out3] eqn:Ea end.
    assert (Hd3 : Inv_disj st3) by (eapply add_common_disj; [exact Ea | exact Hi1 | exact Hd1]).
    destruct out3 as [[iid|]|e3]; try (inv E; exact Hd3). inv E.
    assert (Hd4 : Inv_disj (origin_fsn_default (p_hc ps) st3 sid iid)).
    { unfold origin_fsn_default. destruct (fst (nth _ (i_attrs (item_at st3 iid)) (SPNone, None))); try exact Hd3.
      destruct (p_hc ps); exact Hd3. }
    unfold origin_backfill. match goal with |- context [if ?c then _ else _] => destruct c end; exact Hd4.
  - destruct (add_channel (p_hc ps) st l name sn origin kw bad_data data ds cast) as [s1 o1] eqn:E. intros H Hi Hd; injection H as <- <- <-.
    unfold add_channel in E. destruct (lf_at st l) as [f|]; [|inv E; exact Hd].
    destruct bad_data; [inv E; exact Hd|].
    destruct (unique_dataset_name st f _ ds); [|inv E; exact Hd].
    destruct cast as [[c|]|].
    + destruct (add_common (p_hc ps) st l T_CHANNEL name sn origin default_origin kw (Some a) (Some c)) as [st3 out3] eqn:Ea.
      assert (Hd3 : Inv_disj st3) by (eapply add_common_disj; eassumption).
      destruct out3 as [[iid|]|e3]; [destruct data; [destruct (lf_at st3 l)|]|..]; inv E; exact Hd3.
    + destruct (get_or_make_set st T_CHANNEL sn) as [st1 sid] eqn:Hg. inv E.
      exact (gms_disj _ _ _ _ _ Hg Hd).
    + destruct (add_common (p_hc ps) st l T_CHANNEL name sn origin default_origin kw (Some a) None) as [st3 out3] eqn:Ea.
      assert (Hd3 : Inv_disj st3) by (eapply add_common_disj; eassumption).
      destruct out3 as [[iid|]|e3]; [destruct data; [destruct (lf_at st3 l)|]|..]; inv E; exact Hd3.
  - destruct (add_frame (p_hc ps) st l name sn origin channels chan_attr_idx kw) as [s1 o1] eqn:E. intros H Hi Hd; injection H as <- <- <-.
    unfold add_frame in E. destruct channels; try (inv E; exact Hd). destruct l0; [inv E; exact Hd|].
    match type of E with context [if ?c then _ else _] => destruct c end; [|inv E; exact Hd].
    eapply add_common_disj; eassumption.
  - unfold assign. destruct (nth_error (b_items st) i) as [it|] eqn:En; [|intros H; inv H; auto].
    intros H Hi Hd. destruct units.
    + destruct (set_units (p_hc ps) st it idx r) as [it'|] eqn:Es; [|inv H; exact Hd]. injection H as <- <- <-. exact Hd.
    + destruct (set_value (p_hc ps) st it idx r) as [it'|] eqn:Es; [|inv H; exact Hd]. injection H as <- <- <-. exact Hd.
  - unfold add_nofmt_data. destruct (lf_at st l); intros H Hi Hd; inv H; exact Hd.
  - intros H; inv H; auto.
  - intros H; inv H; auto.
  - destruct (p_stack ps); intros H; inv H; auto.
  - unfold set_origin. destruct (nth_error (b_items st) i) as [it|] eqn:En; [|intros H; inv H; auto].
    intros H Hi Hd. destruct r; inv H; exact Hd.
  - unfold set_header. destruct (lf_at st l); [|intros H; inv H; auto].
    destruct is_id, r; intros H Hi Hd; inv H; exact Hd.
Qed.

Lemma inv_disj_init : Inv_disj b_init.
Proof. intros a b i Ha. cbn in Ha. destruct a; destruct Ha. Qed.

Theorem reachable_inv_disj_actions : forall l ps st, Inv st -> Inv_reg st -> Inv_disj st -> Inv_disj (snd (run_actions ps st l)).
Proof.
  induction l as [|a l IH]; intros ps st Hi Hr Hd; [exact Hd|]. destruct a as [o|w]; cbn [run_actions].
  - destruct (step ps st o) as [[ps' st'] out] eqn:E. apply IH.
    + destruct Hi as [Hs Ht]. split; [eapply step_inv_shape; eassumption | eapply step_inv_struct; eassumption].
    + eapply step_inv_reg; eassumption.
    + eapply step_inv_disj; [exact E | apply Hi | exact Hd].
  - pose proof (write_keeps (p_hc ps) st w Hi Hr) as K. apply IH.
    + apply write_inv; exact Hi.
    + eapply skeeps_inv_reg; eassumption.
    + unfold Inv_disj. destruct K as (S & _). rewrite S. exact Hd.
Qed.

(* ---------- encoding one set does not disturb the others ---------- *)
Lemma enc_sset_other st sid st' r :
  enc_sset st sid = OK (st', r) -> Inv st ->
  b_sets st' = b_sets st /\ forall j, ~ In j (s_items (set_at st sid)) -> obj_of st' j = obj_of st j.
Proof.
  unfold enc_sset. cbv zeta. intros H Hi.
  set (s := set_at st sid) in *. set (ty := s_ty s) in *.
  change (fun (acc : res (bstate * bytes)) (i : nat) => _) with obj_step in H.
  bind_inv H. destruct a as [st1 objs]. rename H0 into Hfold.
  assert (Hall : Forall (in_set_ty (map isig (b_items st)) ty) (s_items s)).
  { destruct Hi as [_ [_ Hsets _]]. unfold s, ty, set_at.
    destruct (Nat.lt_ge_cases sid (length (b_sets st))) as [Hlt|Hge].
    - rewrite Forall_forall in Hsets. exact (proj1 (Hsets _ (nth_In _ _ Hlt))).
    - rewrite nth_overflow by exact Hge. constructor. }
  assert (Hnd : NoDup (s_items s)) by (apply inv_set_nodup; apply Hi).
  destruct (fold_objs_exact ty _ _ _ _ _ Hfold Hi Hall Hnd) as (b' & _ & _ & Hst).
  pose proof (fold_objs_sets _ _ _ _ _ Hfold) as Hsets.
  assert (E : st' = st1).
  { destruct (s_items s); [inv H; reflexivity|]. bind_inv H. bind_inv H. inv H. reflexivity. }
  subst st'. split; [exact Hsets | exact Hst].
Qed.

Lemma eset_of_other st st' sid sid2 :
  b_sets st' = b_sets st -> Inv_disj st -> sid2 <> sid ->
  (forall j, ~ In j (s_items (set_at st sid)) -> obj_of st' j = obj_of st j) ->
  eset_of st' sid2 = eset_of st sid2.
Proof.
  intros Hs Hd Hne Ho. unfold eset_of. assert (E : set_at st' sid2 = set_at st sid2) by (unfold set_at; rewrite Hs; reflexivity).
  rewrite E. f_equal. apply map_ext_in. intros j Hj. apply Ho. intros Hin.
  apply Hne. unfold set_at in Hj, Hin. fold dummy_set in Hj, Hin. exact (Hd _ _ _ Hj Hin).
Qed.

(* what the record emitted for a set says, relative to a state *)
Definition set_rec (st : bstate) (sid : nat) (r : lrec) : Prop :=
  lr_eflr r = true /\
  ((s_items (set_at st sid) = [] /\ lr_body r = [])
   \/ (s_items (set_at st sid) <> [] /\ exists d, dec_set (lr_body r) = Some d /\ set_matches (eset_of st sid) d)).

Lemma enc_sset_rec st sid st' r : enc_sset st sid = OK (st', r) -> Inv st -> set_rec st' sid r.
Proof.
  intros H Hi. destruct (enc_sset_other _ _ _ _ H Hi) as [Hs _].
  assert (E : set_at st' sid = set_at st sid) by (unfold set_at; rewrite Hs; reflexivity).
  destruct (s_items (set_at st sid)) as [|i0 rest] eqn:Eit.
  - unfold enc_sset in H. cbv zeta in H. bind_inv H. destruct a as [s1 objs]. rewrite Eit in H. inv H.
    split; [reflexivity|]. left. rewrite E. split; [exact Eit | reflexivity].
  - assert (Hne : s_items (set_at st sid) <> []) by (rewrite Eit; discriminate).
    destruct (enc_sset_faithful _ _ _ _ H Hi Hne) as (d & Hd & Hm).
    split; [|right; split; [rewrite E; exact Hne | exists d; split; assumption]].
    unfold enc_sset in H. cbv zeta in H. bind_inv H. destruct a as [s1 objs]. rewrite Eit in H. bind_inv H. bind_inv H. inv H. reflexivity.
Qed.

Lemma set_rec_ext st st' sid r : b_sets st' = b_sets st -> eset_of st' sid = eset_of st sid -> set_rec st sid r -> set_rec st' sid r.
Proof.
  intros Hs He [H1 H2]. assert (E : set_at st' sid = set_at st sid) by (unfold set_at; rewrite Hs; reflexivity).
  split; [exact H1|]. rewrite E, He. exact H2.
Qed.

(* the loop over the sets of a logical file *)
Lemma fold_sets_stable : forall sids st acc st' out,
  fold_left sets_step sids (OK (st, acc)) = OK (st', out) -> Inv st -> Inv_disj st ->
  b_sets st' = b_sets st /\ forall sid, ~ In sid sids -> eset_of st' sid = eset_of st sid.
Proof.
  induction sids as [|s0 sids IH]; intros st acc st' out H Hi Hd; [inv H; split; [reflexivity | intros; reflexivity]|].
  cbn [fold_left] in H. unfold sets_step at 2 in H. cbn [bind] in H.
  destruct (enc_sset st s0) as [[s1 r]|e] eqn:E; cbn [bind] in H; [|rewrite fold_err in H by reflexivity; discriminate].
  destruct (enc_sset_ok _ _ _ _ E Hi) as [Hi1 _]. destruct (enc_sset_other _ _ _ _ E Hi) as [Hs1 Ho1].
  assert (Hd1 : Inv_disj s1) by (unfold Inv_disj; rewrite Hs1; exact Hd).
  destruct (IH _ _ _ _ H Hi1 Hd1) as [Hs' He']. split; [congruence|].
  intros sid Hni. rewrite He' by (intros Hin; apply Hni; right; exact Hin).
  apply (eset_of_other st s1 s0 sid); [exact Hs1 | exact Hd | intros ->; apply Hni; left; reflexivity | exact Ho1].
Qed.

Lemma fold_sets_content : forall sids st acc st' out,
  fold_left sets_step sids (OK (st, acc)) = OK (st', out) -> Inv st -> Inv_disj st -> NoDup sids ->
  exists recs, out = acc ++ recs /\ Forall2 (set_rec st') sids recs.
Proof.
  induction sids as [|s0 sids IH]; intros st acc st' out H Hi Hd Hnd.
  - inv H. exists []. rewrite app_nil_r. split; [reflexivity | constructor].
  - cbn [fold_left] in H. unfold sets_step at 2 in H. cbn [bind] in H.
    destruct (enc_sset st s0) as [[s1 r]|e] eqn:E; cbn [bind] in H; [|rewrite fold_err in H by reflexivity; discriminate].
    destruct (enc_sset_ok _ _ _ _ E Hi) as [Hi1 _]. destruct (enc_sset_other _ _ _ _ E Hi) as [Hs1 _].
    assert (Hd1 : Inv_disj s1) by (unfold Inv_disj; rewrite Hs1; exact Hd).
    inversion Hnd as [|? ? Hni Hnd']; subst.
    destruct (IH _ _ _ _ H Hi1 Hd1 Hnd') as (recs & -> & Hall).
    destruct (fold_sets_stable _ _ _ _ _ H Hi1 Hd1) as [Hs' He'].
    exists (r :: recs). rewrite <- app_assoc. split; [reflexivity|]. constructor; [|exact Hall].
    eapply set_rec_ext; [exact Hs' | apply He'; exact Hni | eapply enc_sset_rec; eassumption].
Qed.

Lemma NoDup_map_inv' {A B} (f : A -> B) : forall l, NoDup (map f l) -> NoDup l.
Proof.
  induction l as [|x l IH]; intros H; [constructor|]. cbn [map] in H. inversion H; subst.
  constructor; [intros Hin; apply H2; apply in_map; exact Hin | apply IH; assumption].
Qed.

(* THE CONTENT OF A LOGICAL FILE: header record, then one record per registered set, in registry order (ORIGIN sets first),
   each decoding to that set AS IT STANDS IN THE STATE THE WRITE LEAVES (or empty for a set without objects), then the
   implicitly formatted records *)
Theorem lf_records_content st f frames st' recs :
  lf_records st f frames = OK (st', recs) -> Inv st -> Inv_disj st -> regk_ok (skeys st) (l_reg f) ->
  exists fhb erecs rest,
    enc_fileheader {| on_origin := l_fh_origin f; on_copy := 0; on_name := l_ident f |} (l_seq f) (l_hid f) = OK fhb
    /\ recs = {| lr_eflr := true; lr_type := 0; lr_body := fhb |} :: erecs ++ rest /\ (exists d, dec_set fhb = Some d)
    /\ Forall2 (set_rec st') (lf_sids f) erecs /\ Forall (fun r => lr_eflr r = false) rest.
Proof.
  unfold lf_records. intros H Hi Hd Hr. bind_inv H. rename a into fh, H0 into Hfh.
  change (fun (acc : res (bstate * list lrec)) (sid : nat) => _) with sets_step in H.
  bind_inv H. destruct a as [st1 erecs]. rename H0 into Hfold.
  bind_inv H. rename a into nf, H0 into Hnf. bind_inv H. rename a into fd, H0 into Hfd. inv H.
  assert (Hnd : NoDup (lf_sids f)) by (eapply NoDup_map_inv'; eapply lf_sets_distinct; exact Hr).
  rewrite <- lf_sids_spec in Hfold.
  destruct (fold_sets_content _ _ _ _ _ Hfold Hi Hd Hnd) as (rs & -> & Hall).
  exists fh, rs, (nf ++ fd).
  split; [exact Hfh|]. split; [reflexivity|]. split; [eapply fileheader_dec; exact Hfh|].
  split; [exact Hall|]. apply Forall_app. split.
  - clear -Hnf. revert nf Hnf. induction (l_nofmt f) as [|[obj p] l IH]; intros nf H; [inv H; constructor|].
    destruct obj; try discriminate. destruct (nth_error (b_items st') i); [|discriminate].
    bind_inv H. bind_inv H. bind_inv H. inv H. constructor; [|apply IH; assumption].
    unfold nofmt_rec in H1. bind_inv H1. inv H1. reflexivity.
  - clear -Hfd. revert fd Hfd. induction frames as [|[fr rows] l IH]; intros fd H; [inv H; constructor|].
    bind_inv H. bind_inv H. inv H. apply Forall_app. split; [|apply IH; assumption].
    clear -H0. revert a H0. generalize 1. induction rows as [|row rows IHr]; intros n a H; [inv H; constructor|].
    cbn [frame_recs] in H. bind_inv H. bind_inv H. inv H. constructor; [|eapply IHr; eassumption].
    unfold fdata_rec in H0. bind_inv H0. inv H0. reflexivity.
Qed.

(* ---------- the whole write ---------- *)
Definition reg_sids (r : reg) : list nat := map snd (reg_lookup r T_ORIGIN) ++ concat (map part r).
Lemma lf_sids_reg f : lf_sids f = reg_sids (l_reg f).
Proof. reflexivity. Qed.

Lemma fold_objs_lfs : forall items st bs0 st' bs, fold_left obj_step items (OK (st, bs0)) = OK (st', bs) -> b_lfs st' = b_lfs st.
Proof.
  induction items as [|i l IH]; intros st bs0 st' bs H; [inv H; reflexivity|].
  cbn [fold_left] in H. unfold obj_step at 2 in H. cbn [bind] in H.
  destruct (run_checks st (sync_repr_code (item_at st i))) as [it|e]; cbn [bind] in H; [|rewrite fold_err in H by apply obj_step_err; discriminate].
  destruct (enc_obj (obj_of (set_item st i it) i)) as [b|e]; cbn [bind] in H; [|rewrite fold_err in H by apply obj_step_err; discriminate].
  rewrite (IH _ _ _ _ H). reflexivity.
Qed.

Lemma enc_sset_lfs st sid st' r : enc_sset st sid = OK (st', r) -> b_lfs st' = b_lfs st.
Proof.
  unfold enc_sset. cbv zeta. intros H.
  change (fun (acc : res (bstate * bytes)) (i : nat) => _) with obj_step in H.
  bind_inv H. destruct a as [st1 objs]. rename H0 into Hfold.
  pose proof (fold_objs_lfs _ _ _ _ _ Hfold) as E.
  destruct (s_items (set_at st sid)); [inv H; exact E|]. bind_inv H. bind_inv H. inv H. exact E.
Qed.

Lemma fold_sets_lfs : forall sids st acc st' out, fold_left sets_step sids (OK (st, acc)) = OK (st', out) -> b_lfs st' = b_lfs st.
Proof.
  induction sids as [|s0 sids IH]; intros st acc st' out H; [inv H; reflexivity|].
  cbn [fold_left] in H. unfold sets_step at 2 in H. cbn [bind] in H.
  destruct (enc_sset st s0) as [[s1 r]|e] eqn:E; cbn [bind] in H; [|rewrite fold_err in H by reflexivity; discriminate].
  rewrite (IH _ _ _ _ H). eapply enc_sset_lfs. exact E.
Qed.

Lemma lf_records_stable st f frames st' recs :
  lf_records st f frames = OK (st', recs) -> Inv st -> Inv_disj st ->
  b_sets st' = b_sets st /\ b_lfs st' = b_lfs st /\ forall sid, ~ In sid (lf_sids f) -> eset_of st' sid = eset_of st sid.
Proof.
  unfold lf_records. intros H Hi Hd. bind_inv H.
  change (fun (acc : res (bstate * list lrec)) (sid : nat) => _) with sets_step in H.
  bind_inv H. destruct a0 as [st1 erecs]. rename H1 into Hfold.
  bind_inv H. bind_inv H. inv H. rewrite <- lf_sids_spec in Hfold.
  destruct (fold_sets_stable _ _ _ _ _ Hfold Hi Hd) as [Hs He]. split; [exact Hs|]. split; [|exact He].
  eapply fold_sets_lfs. exact Hfold.
Qed.

(* the records of one logical file, judged against a state S *)
Definition lf_group (S : bstate) (f : lfile) (g : list lrec) : Prop :=
  exists fhb erecs rest,
    enc_fileheader {| on_origin := l_fh_origin f; on_copy := 0; on_name := l_ident f |} (l_seq f) (l_hid f) = OK fhb
    /\ g = {| lr_eflr := true; lr_type := 0; lr_body := fhb |} :: erecs ++ rest /\ (exists d, dec_set fhb = Some d)
    /\ Forall2 (set_rec S) (lf_sids f) erecs /\ Forall (fun r => lr_eflr r = false) rest.

Lemma lf_group_static S f f' g : lf_static f' = lf_static f -> lf_group S f g -> lf_group S f' g.
Proof.
  unfold lf_static. intros E (fhb & erecs & rest & H1 & H2 & H3 & H4 & H5). injection E as E1 E2 E3 E4 E5 E6.
  exists fhb, erecs, rest. unfold lf_sids. rewrite E1, E2, E3, E4, E5. repeat split; assumption.
Qed.

Lemma lf_group_ext S S' f g :
  b_sets S' = b_sets S -> (forall sid, In sid (lf_sids f) -> eset_of S' sid = eset_of S sid) -> lf_group S f g -> lf_group S' f g.
Proof.
  intros Hs He (fh & erecs & rest & H0 & -> & H3 & Hall & Hrest).
  exists fh, erecs, rest. repeat split; try assumption. revert He Hall. generalize (lf_sids f). intros sids He Hall.
  clear -Hs He Hall. induction Hall as [|sid r sids erecs Hr Hall IH]; [constructor|].
  constructor; [eapply set_rec_ext; [exact Hs | apply He; left; reflexivity | exact Hr]|].
  apply IH. intros s Hin. apply He. right. exact Hin.
Qed.

Lemma NoDup_app_elim {A} (a b : list A) : NoDup (a ++ b) -> NoDup a /\ NoDup b /\ (forall x, In x a -> ~ In x b).
Proof.
  induction a as [|x a IH]; cbn [app]; intros H; [split; [constructor | split; [exact H | intros ? []]]|].
  inversion H as [|? ? Hni Hnd]; subst. destruct (IH Hnd) as (Ha & Hb & Hab). split; [|split; [exact Hb|]].
  - constructor; [intros Hin; apply Hni; apply in_or_app; left; exact Hin | exact Ha].
  - intros y [<-|Hy]; [intros Hin; apply Hni; apply in_or_app; right; exact Hin | apply Hab; exact Hy].
Qed.

(* sids of the logical files from position k on *)
Definition later_sids (st : bstate) (k : nat) : list nat := concat (map lf_sids (skipn k (b_lfs st))).

Lemma skipn_lf_at st k f : lf_at st k = Some f -> skipn k (b_lfs st) = f :: skipn (S k) (b_lfs st).
Proof.
  unfold lf_at. generalize (b_lfs st). induction k as [|k IH]; intros [|x l] H; try discriminate.
  - inv H. reflexivity.
  - cbn [nth_error] in H. cbn [skipn]. rewrite (IH _ H). reflexivity.
Qed.

Lemma records_all_content : forall l k s acc s' out,
  records_all k l s acc = (s', OK out) -> Inv s -> Inv_reg s -> Inv_disj s -> NoDup (later_sids s k) ->
  b_sets s' = b_sets s /\ b_lfs s' = b_lfs s
  /\ (forall sid, ~ In sid (later_sids s k) -> eset_of s' sid = eset_of s sid)
  /\ exists groups, out = acc ++ concat groups
       /\ Forall2 (lf_group s') (firstn (length l) (skipn k (b_lfs s))) groups.
Proof.
  induction l as [|frs l IH]; intros k s acc s' out H Hi Hr Hd Hnd.
  - cbn in H. inv H. split; [reflexivity|]. split; [reflexivity|]. split; [intros; reflexivity|].
    exists []. rewrite app_nil_r. split; [reflexivity | constructor].
  - cbn [records_all] in H. destruct (lf_at s k) as [f|] eqn:El; [|discriminate].
    destruct (map_opt _ frs) as [frs'|]; [|destruct (lf_records s f []) as [[s0 r0]|e0]; discriminate].
    destruct (lf_records s f frs') as [[s1 recs]|e] eqn:E; [|discriminate].
    pose proof (skipn_lf_at _ _ _ El) as Esk.
    assert (Hls : later_sids s k = lf_sids f ++ later_sids s (S k)) by (unfold later_sids; rewrite Esk; reflexivity).
    destruct (lf_records_ok _ _ _ _ _ E Hi) as [Hi1 _].
    destruct (lf_records_stable _ _ _ _ _ E Hi Hd) as (Hs1 & Hl1 & He1).
    assert (Hr1 : Inv_reg s1) by (eapply skeeps_inv_reg; [eapply lf_records_keeps; exact E | exact Hr]).
    assert (Hd1 : Inv_disj s1) by (unfold Inv_disj; rewrite Hs1; exact Hd).
    assert (Hls1 : later_sids s1 (S k) = later_sids s (S k)) by (unfold later_sids; rewrite Hl1; reflexivity).
    rewrite Hls in Hnd. destruct (NoDup_app_elim _ _ Hnd) as (_ & Hnd1 & Hdis).
    destruct (IH (S k) s1 (acc ++ recs) s' out H Hi1 Hr1 Hd1 ltac:(rewrite Hls1; exact Hnd1)) as (Hs' & Hl' & He' & groups & -> & Hall).
    split; [congruence|]. split; [congruence|]. split.
    + intros sid Hni. rewrite Hls in Hni. rewrite He' by (rewrite Hls1; intros Hin; apply Hni; apply in_or_app; right; exact Hin).
      apply He1. intros Hin; apply Hni; apply in_or_app; left; exact Hin.
    + destruct (lf_records_content _ _ _ _ _ E Hi Hd (lf_at_reg _ _ _ Hr El)) as (fh & erecs & rest & G0 & -> & G3 & G4 & G5).
      exists (({| lr_eflr := true; lr_type := 0; lr_body := fh |} :: erecs ++ rest) :: groups). cbn [concat]. rewrite <- app_assoc. split; [reflexivity|].
      rewrite Esk. cbn [length firstn]. rewrite Hl1 in Hall. constructor; [|exact Hall].
      apply (lf_group_ext s1 s'); [exact Hs' | | exists fh, erecs, rest; repeat split; assumption].
      intros sid Hin. apply He'. rewrite Hls1. intros Hin2.
      exact (Hdis _ Hin Hin2).
Qed.

Lemma cons_inj_ {A} (a b : A) l l' : a :: l = b :: l' -> a = b /\ l = l'.
Proof. intros H. inversion H. auto. Qed.

Lemma setup_all_len hc w : forall fs k s acc s' out, setup_all hc w k fs s acc = (s', OK out) -> length out = (length acc + length fs)%nat.
Proof.
  induction fs as [|f0 fs IH]; intros k s acc s' out H; [cbn in H; inv H; cbn; lia|].
  cbn [setup_all] in H. destruct (lf_at s k) as [f|]; [|discriminate].
  destruct (fold_left (setup_step hc w k) (lf_frames s f) (s, OK [])) as [s1 fr]. destruct fr as [l|e]; [|discriminate].
  rewrite (IH _ _ _ _ _ H), app_length. cbn. lia.
Qed.

Lemma map_lf_sids lfs : map lf_sids lfs = map reg_sids (map l_reg lfs).
Proof. rewrite map_map. reflexivity. Qed.

Lemma check_all_lfs_len hc : forall fs k s s', check_all hc k fs s = OK s' -> Inv s -> Inv_reg s -> length (b_lfs s') = length (b_lfs s).
Proof.
  intros fs k s s' H Hi Hr. pose proof (skeeps_regs _ _ (check_all_keeps hc fs k s s' H Hi Hr)) as L.
  rewrite <- (map_length l_reg (b_lfs s')), L, map_length. reflexivity.
Qed.

(* THE CONTENT OF A WRITTEN FILE. Whenever the modelled DLISFile.write returns a file, that file is write_file of the
   concatenation of one group of records per logical file, in creation order; each group is the header record, then one
   record per set registered for that logical file, in registry order (ORIGIN first), decoding to that set AS IT STANDS IN
   THE STATE THE WRITE LEAVES (set type, name, template, per object identity and per attribute absent / count / code /
   units / values), then implicitly formatted records only; and the state the write leaves differs from the state it found
   only by write-time defaults where nothing was given (skeeps).  Hypothesis: no set is registered for two logical files
   (this excludes exactly the sharing of known finding D12; it holds whenever there is one logical file). *)
Theorem write_content hc st w st' bs :
  write hc st w = (st', OK bs) -> Inv st -> Inv_reg st -> Inv_disj st ->
  NoDup (concat (map lf_sids (b_lfs st))) ->
  exists groups,
    write_file {| sul_seq := w_seq w; sul_vrl := w_vrl w; sul_id := w_ident w |} (concat groups) = OK bs
    /\ Forall2 (lf_group st') (b_lfs st) groups
    /\ skeeps st st'.
Proof.
  intros H Hi Hr Hd Hnd.
  pose proof (write_keeps hc st w Hi Hr) as K. rewrite H in K. cbn [fst] in K.
  unfold write in H. destruct (check_all hc 0 (b_lfs st) st) as [st1|e] eqn:E1; [|inv H].
  pose proof (check_all_keeps _ _ _ _ _ E1 Hi Hr) as K1.
  pose proof (check_all_inv _ _ _ _ _ E1 Hi) as Hi1.
  pose proof (skeeps_inv_reg _ _ K1 Hr) as Hr1.
  pose proof (setup_all_keeps hc w (b_lfs st1) 0%nat st1 [] Hi1 Hr1) as K2.
  pose proof (setup_all_inv hc w (b_lfs st1) 0%nat st1 [] Hi1) as Hi2.
  destruct (setup_all hc w 0 (b_lfs st1) st1 []) as [st2 r2] eqn:E2. cbn [fst] in K2, Hi2. destruct r2 as [perlf|e]; [|inv H].
  pose proof (setup_all_len _ _ _ _ _ _ _ _ E2) as Hlen. cbn [length Nat.add] in Hlen.
  destruct (negb (check_vrl (w_vrl w))); [inv H|]. destruct (sul_bytes _); [|inv H].
  assert (K12 : skeeps st st2) by (eapply skeeps_trans; eassumption).
  pose proof (skeeps_inv_reg _ _ K12 Hr) as Hr2.
  assert (Hd2 : Inv_disj st2) by (unfold Inv_disj; destruct K12 as (S & _); rewrite S; exact Hd).
  assert (Hsids : map lf_sids (b_lfs st2) = map lf_sids (b_lfs st)).
  { rewrite !map_lf_sids. rewrite (skeeps_regs _ _ K12). reflexivity. }
  assert (Hlen2 : length (b_lfs st2) = length (b_lfs st1)).
  { pose proof (skeeps_regs _ _ K2) as L. rewrite <- (map_length l_reg (b_lfs st2)), L, map_length. reflexivity. }
  destruct (records_all 0 perlf st2 []) as [st3 r3] eqn:E3. destruct r3 as [recs|e]; [|inv H].
  injection H as <- H.
  destruct (records_all_content perlf 0%nat st2 [] st3 recs E3 Hi2 Hr2 Hd2) as (_ & _ & _ & groups & -> & Hall).
  { unfold later_sids. cbn [skipn]. rewrite Hsids. exact Hnd. }
  exists groups. cbn [app] in H. split; [exact H|]. split; [|exact K].
  cbn [skipn] in Hall. rewrite Hlen, <- Hlen2, firstn_all in Hall.
  destruct K12 as (_ & _ & L & _). clear -Hall L. revert groups Hall L. generalize (b_lfs st). generalize (b_lfs st2).
  induction l as [|f2 l IH]; intros l0 groups Hall L; destruct l0 as [|f0 l0]; try discriminate; inversion Hall; subst; [constructor|].
  cbn [map] in L. apply cons_inj_ in L. destruct L as [L0 L1]. constructor; [eapply lf_group_static; [symmetry; exact L0 | assumption] | eapply IH; eassumption].
Qed.

(* with one logical file the hypothesis holds by the registry invariant *)
Corollary write_content_single hc st w st' bs f :
  write hc st w = (st', OK bs) -> Inv st -> Inv_reg st -> Inv_disj st -> b_lfs st = [f] ->
  exists g, write_file {| sul_seq := w_seq w; sul_vrl := w_vrl w; sul_id := w_ident w |} g = OK bs
            /\ lf_group st' f g /\ skeeps st st'.
Proof.
  intros H Hi Hr Hd Hf.
  assert (Hnd : NoDup (concat (map lf_sids (b_lfs st)))).
  { rewrite Hf. cbn [map concat]. rewrite app_nil_r. eapply NoDup_map_inv'. eapply lf_sets_distinct.
    destruct Hr as [_ Hl]. rewrite Hf in Hl. inversion Hl; subst. eassumption. }
  destruct (write_content _ _ _ _ _ H Hi Hr Hd Hnd) as (groups & Hw & Hall & K).
  rewrite Hf in Hall. inversion Hall as [|? g ? gs Hg Hrest]; subst. inversion Hrest; subst.
  exists g. cbn [concat] in Hw. rewrite app_nil_r in Hw. split; [exact Hw|]. split; [exact Hg | exact K].
Qed.

(* ---------- creation order: logical files are only ever appended; every other operation works in place ---------- *)
Lemma set_lf_len st l f : length (b_lfs (set_lf st l f)) = length (b_lfs st).
Proof. unfold set_lf. cbn [b_lfs]. apply length_upd. Qed.

Lemma gms_lfs st ty sn st1 sid : get_or_make_set st ty sn = (st1, sid) -> b_lfs st1 = b_lfs st.
Proof. unfold get_or_make_set. cbv zeta. destruct (reg_find _ _ _); intros H; inv H; reflexivity. Qed.

Lemma add_common_lfs_len hc st l ty name sn org dflt kw ds cast st' out :
  add_common hc st l ty name sn org dflt kw ds cast = (st', out) -> length (b_lfs st') = length (b_lfs st).
Proof.
  unfold add_common. destruct (lf_at st l) as [f|]; [|intros H; inv H; reflexivity].
  destruct (get_or_make_set st ty sn) as [st1 sid] eqn:Hg. intros H. pose proof (gms_lfs _ _ _ _ _ Hg) as E.
  assert (L : length (b_lfs (set_lf st1 l (try_add_set st1 f ty sn sid))) = length (b_lfs st)) by (rewrite set_lf_len, E; reflexivity).
  destruct name; try (inv H; exact L).
  destruct (hc && negb (hc_string s)); [inv H; exact L|].
  match type of H with context [match ?o with OK _ => _ | Err _ => _ end] => destruct o end; [|inv H; exact L].
  match type of H with context [set_attributes ?a ?b ?c ?d] => destruct (set_attributes a b c d) as [it|] eqn:Hs end; [|inv H; exact L].
  injection H as <- <-. exact L.
Qed.

Theorem step_lfs ps st o ps' st' out : step ps st o = (ps', st', out) ->
  (exists h z, b_lfs st' = b_lfs st ++ [{| l_hid := h; l_seq := z; l_ident := [48]; l_fh_origin := None; l_reg := []; l_nofmt := []; l_data := [] |}]
               /\ exists hh, o = OAddLF (RStr h hh) (RInt z))
  \/ length (b_lfs st') = length (b_lfs st).
Proof.
  destruct o; unfold step.
  - unfold add_lf. destruct hid; try solve [intros H; inv H; right; reflexivity]. destruct seq; try solve [intros H; inv H; right; reflexivity].
    repeat match goal with |- context [if ?c then _ else _] => destruct c end; intros H; inv H; try (right; reflexivity).
    left. exists s, z. split; [reflexivity | eexists; reflexivity].
  - destruct (add_common (p_hc ps) st l ty name sn origin default_origin kw None None) as [s1 o1] eqn:E.
    intros H; injection H as <- <- <-. right. eapply add_common_lfs_len; eassumption.
  - destruct (add_origin (p_hc ps) st l name sn origin kw) as [s1 o1] eqn:E. intros H; injection H as <- <- <-. right.
    unfold add_origin in E. destruct (lf_at st l) as [f|]; [|inv E; reflexivity].
    destruct (get_or_make_set st T_ORIGIN sn) as [st1 sid] eqn:Hg. pose proof (gms_lfs _ _ _ _ _ Hg) as E0.
    assert (L1 : length (b_lfs (set_lf st1 l (try_add_set st1 f T_ORIGIN sn sid))) = length (b_lfs st)) by (rewrite set_lf_len, E0; reflexivity).
    match type of E with context [match ?c with Some _ => _ | None => _ end = _] => destruct c end; [inv E; exact L1|].
    match type of E with context [add_common ?a ?b ?c ?d ?e0 ?f0 ?g ?h ?i ?j ?k] =>
      destruct (add_common a b c d e0 f0 g h i j k) as [st3 out3] eqn:Ea end.
    pose proof (add_common_lfs_len _ _ _ _ _ _ _ _ _ _ _ _ _ Ea) as L3. rewrite L1 in L3.
    destruct out3 as [[iid|]|e3]; try (inv E; exact L3). inv E.
    assert (L4 : length (b_lfs (origin_fsn_default (p_hc ps) st3 sid iid)) = length (b_lfs st)).
    { unfold origin_fsn_default. destruct (fst (nth _ (i_attrs (item_at st3 iid)) (SPNone, None))); try exact L3.
      destruct (p_hc ps); exact L3. }
    unfold origin_backfill. match goal with |- context [if ?c then _ else _] => destruct c end; [|exact L4].
    rewrite set_lf_len. exact L4.
  - destruct (add_channel (p_hc ps) st l name sn origin kw bad_data data ds cast) as [s1 o1] eqn:E. intros H; injection H as <- <- <-. right.
    unfold add_channel in E. destruct (lf_at st l) as [f|]; [|inv E; reflexivity].
    destruct bad_data; [inv E; reflexivity|].
    destruct (unique_dataset_name st f _ ds); [|inv E; reflexivity].
    destruct cast as [[c|]|].
    + destruct (add_common (p_hc ps) st l T_CHANNEL name sn origin default_origin kw (Some a) (Some c)) as [st3 out3] eqn:Ea.
      pose proof (add_common_lfs_len _ _ _ _ _ _ _ _ _ _ _ _ _ Ea) as L3.
      destruct out3 as [[iid|]|e3]; [destruct data; [destruct (lf_at st3 l)|]|..]; inv E; try rewrite set_lf_len; exact L3.
    + destruct (get_or_make_set st T_CHANNEL sn) as [st1 sid] eqn:Hg. inv E. rewrite set_lf_len. rewrite (gms_lfs _ _ _ _ _ Hg). reflexivity.
    + destruct (add_common (p_hc ps) st l T_CHANNEL name sn origin default_origin kw (Some a) None) as [st3 out3] eqn:Ea.
      pose proof (add_common_lfs_len _ _ _ _ _ _ _ _ _ _ _ _ _ Ea) as L3.
      destruct out3 as [[iid|]|e3]; [destruct data; [destruct (lf_at st3 l)|]|..]; inv E; try rewrite set_lf_len; exact L3.
  - destruct (add_frame (p_hc ps) st l name sn origin channels chan_attr_idx kw) as [s1 o1] eqn:E. intros H; injection H as <- <- <-. right.
    unfold add_frame in E. destruct channels; try (inv E; reflexivity). destruct l0; [inv E; reflexivity|].
    match type of E with context [if ?c then _ else _] => destruct c end; [|inv E; reflexivity].
    eapply add_common_lfs_len; eassumption.
  - unfold assign. destruct (nth_error (b_items st) i) as [it|] eqn:En; [|intros H; inv H; right; reflexivity].
    intros H. right. destruct units.
    + destruct (set_units (p_hc ps) st it idx r) as [it'|] eqn:Es; inv H; reflexivity.
    + destruct (set_value (p_hc ps) st it idx r) as [it'|] eqn:Es; inv H; reflexivity.
  - unfold add_nofmt_data. destruct (lf_at st l); intros H; inv H; right; [apply set_lf_len | reflexivity].
  - intros H; inv H; right; reflexivity.
  - intros H; inv H; right; reflexivity.
  - destruct (p_stack ps); intros H; inv H; right; reflexivity.
  - unfold set_origin. destruct (nth_error (b_items st) i) as [it|] eqn:En; [|intros H; inv H; right; reflexivity].
    intros H. right. destruct r; inv H; reflexivity.
  - unfold set_header. destruct (lf_at st l); [|intros H; inv H; right; reflexivity].
    destruct is_id, r; intros H; inv H; right; try reflexivity; apply set_lf_len.
Qed.
