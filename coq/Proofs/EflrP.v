(* EflrP.v — every encoded set decodes under the component grammar with nothing left over (C04),
   and decodes to the values that were encoded (value level of C05). *)
From DV Require Import Model.EflrReader Proofs.BaseP Proofs.PrimP.
From Coq Require Import Lia ZifyBool.
Ltac Zify.zify_post_hook ::= Z.to_euclidean_division_equations.

(* ---------- values ---------- *)

Definition dd_of (d : dtime) : dtime_dec :=
  {| dd_year := dt_year d; dd_tz := (32 + dt_month d) / 16; dd_month := (32 + dt_month d) mod 16; dd_day := dt_day d;
     dd_hour := dt_hour d; dd_min := dt_min d; dd_sec := dt_sec d; dd_ms := ms_of_us (dt_us d) |}.

(* what a reader must get for value v written under code c *)
Definition dv_of (c : Z) (v : aval) : option dval :=
  if (12 <=? c) && (c <=? 18) || (c =? 26) then
    match int_of_aval v with Some z => Some (DInt z) | None => None end
  else if c =? 7 then
    match v with
    | VFloat b => Some (DBits b)
    | VInt z => match int_to_f64 z with OK b => Some (DBits b) | Err _ => None end
    | VBool b => match int_to_f64 (b2z b) with OK b' => Some (DBits b') | Err _ => None end
    | _ => None
    end
  else if (c =? 19) || (c =? 20) then
    match v with VStr s => Some (DText s) | VInt z => Some (DText (str_of_int z)) | _ => None end
  else if c =? 21 then match v with VDT d => Some (DDT (dd_of d)) | _ => None end
  else if c =? 23 then match v with VRef _ o => Some (DName o) | _ => None end
  else if c =? 24 then match v with VRef t o => Some (DRef t o) | _ => None end
  else None.

Lemma dtime_rt_gen d bs r : enc_dtime d = OK bs -> dec_dtime (bs ++ r) = Some (dd_of d, r).
Proof.
  intros H. unfold enc_dtime in H. do 7 bind_inv H. inv H.
  repeat match goal with
  | Hx : enc_ushort _ = OK _ |- _ => apply ushort_ok in Hx; destruct Hx as [-> Hx]
  | Hx : enc_unorm _ = OK _ |- _ => apply unorm_ok in Hx; destruct Hx as [-> Hx]
  end.
  unfold be2. cbn [app dec_dtime]. unfold dd_of. f_equal. f_equal.
  rewrite of_be2_be2 by lia. f_equal; lia.
Qed.

Ltac code_case c k :=
  destruct (c =? k) eqn:?; [assert (c = k) by lia; subst c |].

Lemma enc_val_dec c v b r :
  enc_val (Some c) v = OK b -> exists dv, dv_of c v = Some dv /\ dec_val c (b ++ r) = Some (dv, r).
Proof.
  unfold enc_val.
  code_case c 12. { cbn. destruct (int_of_aval v) as [z|]; [|discriminate]. intros H. eexists; split; [reflexivity|]. rewrite (sshort_rt _ _ r H). reflexivity. }
  code_case c 13. { cbn. destruct (int_of_aval v) as [z|]; [|discriminate]. intros H. eexists; split; [reflexivity|]. rewrite (snorm_rt _ _ r H). reflexivity. }
  code_case c 14. { cbn. destruct (int_of_aval v) as [z|]; [|discriminate]. intros H. eexists; split; [reflexivity|]. rewrite (slong_rt _ _ r H). reflexivity. }
  code_case c 15. { cbn. destruct (int_of_aval v) as [z|]; [|discriminate]. intros H. eexists; split; [reflexivity|]. rewrite (ushort_rt _ _ r H). reflexivity. }
  code_case c 16. { cbn. destruct (int_of_aval v) as [z|]; [|discriminate]. intros H. eexists; split; [reflexivity|]. rewrite (unorm_rt _ _ r H). reflexivity. }
  code_case c 17. { cbn. destruct (int_of_aval v) as [z|]; [|discriminate]. intros H. eexists; split; [reflexivity|]. rewrite (ulong_rt _ _ r H). reflexivity. }
  code_case c 18. { cbn. destruct (int_of_aval v) as [z|]; [|discriminate]. intros H. eexists; split; [reflexivity|]. rewrite (uvari_rt _ _ r H). reflexivity. }
  code_case c 26. { cbn. destruct (int_of_aval v) as [z|]; [|discriminate]. intros H. eexists; split; [reflexivity|]. rewrite (status_rt _ _ r H). reflexivity. }
  code_case c 7.
  { cbn [dv_of dec_val Z.leb Z.eqb Z.compare Pos.compare Pos.compare_cont andb orb Pos.eqb].
    destruct v; try discriminate.
    - intros H. bind_inv H. rewrite H0. eexists; split; [reflexivity|]. rewrite (fdoubl_rt _ _ r H). reflexivity.
    - intros H. bind_inv H. rewrite H0. eexists; split; [reflexivity|]. rewrite (fdoubl_rt _ _ r H). reflexivity.
    - intros H. eexists; split; [reflexivity|]. rewrite (fdoubl_rt _ _ r H). reflexivity. }
  code_case c 19.
  { cbn. destruct v; try discriminate; intros H; eexists; (split; [reflexivity|]); rewrite (ident_rt _ _ r H); reflexivity. }
  code_case c 20.
  { cbn. destruct v; try discriminate; intros H; eexists; (split; [reflexivity|]); rewrite (ascii_rt _ _ r H); reflexivity. }
  code_case c 21.
  { cbn. destruct v; try discriminate; intros H; eexists; (split; [reflexivity|]); rewrite (dtime_rt_gen _ _ r H); reflexivity. }
  code_case c 23.
  { cbn. destruct v; try discriminate; intros H; eexists; (split; [reflexivity|]).
    destruct (obname_rt _ _ r H) as (org & _ & ->). reflexivity. }
  code_case c 24.
  { cbn. destruct v; try discriminate; intros H; eexists; (split; [reflexivity|]); rewrite (objref_rt _ _ _ r H); reflexivity. }
  discriminate.
Qed.

Lemma enc_vals_dec c : forall vs b r,
  enc_vals (Some c) vs = OK b ->
  exists dvs, map_opt (dv_of c) vs = Some dvs /\ dec_vals c (length vs) (b ++ r) = Some (dvs, r).
Proof.
  induction vs as [|v vs IH]; intros b r H.
  - inv H. exists []. split; reflexivity.
  - cbn [enc_vals] in H. bind_inv H. bind_inv H. inv H.
    destruct (enc_val_dec c v a (a0 ++ r) H0) as (dv & E1 & D1).
    destruct (IH a0 r H1) as (dvs & E2 & D2).
    exists (dv :: dvs). cbn [map_opt length dec_vals]. rewrite E1, E2, <- app_assoc, D1, D2. split; reflexivity.
Qed.

(* ---------- attribute components ---------- *)

Lemma OK_inj {A} (a b : A) : OK a = OK b -> a = b.
Proof. congruence. Qed.

Lemma descr_bits wc wr wu wv :
  let d := 32 + 8 * b2z wc + 4 * b2z wr + 2 * b2z wu + b2z wv in
  is_byte d = true /\ role d = 1 /\ (d =? 0) = false /\ bit d 16 = false /\ bit d 8 = wc /\ bit d 4 = wr /\ bit d 2 = wu /\ bit d 1 = wv.
Proof. destruct wc, wr, wu, wv; vm_compute; repeat split; reflexivity. Qed.

(* count announced = number of values present; explicit codes are RP66 codes *)
Definition wf_attr (a : attr) : Prop :=
  (match attr_count a with Some n => values_of a = [] \/ n = zlen (values_of a) | None => values_of a = [] end)
  /\ (match a_rc0 a with Some c => 1 <= c <= 27 | None => True end)
  /\ Forall (fun c => 1 <= c <= 27) (a_valid a).

Definition dattr_of (a : attr) (rc : option Z) (dvs : list dval) : dattr :=
  {| d_count := match attr_count a with Some n => n | None => 1 end;
     d_code := match rc with Some c => c | None => 19 end;
     d_units := match a_units a with Some (c :: u) => Some (c :: u) | _ => None end;
     d_values := match dvs with [] => None | _ => Some dvs end |}.

Lemma attr_rc_range a rc : wf_attr a -> attr_rc a = OK (Some rc) -> 1 <= rc <= 27.
Proof.
  intros (_ & H0 & Hv). unfold attr_rc. destruct (a_rc0 a) as [c|].
  - intros H. inv H. exact H0.
  - intros H. bind_inv H. destruct a0 as [c|]; [|discriminate].
    destruct (existsb (Z.eqb c) (a_valid a)) eqn:E; [|discriminate]. inv H.
    apply existsb_exists in E. destruct E as (x & Hin & Hx). apply Z.eqb_eq in Hx. subst x.
    rewrite Forall_forall in Hv. apply Hv. exact Hin.
Qed.

Lemma enc_vals_none_nil vs b : enc_vals None vs = OK b -> vs = [].
Proof. destruct vs; [reflexivity|]. cbn. discriminate. Qed.

Lemma dec_chars_spec d (wc wr wu wv : bool) cb rb ub n c u tail :
  bit d 8 = wc -> bit d 4 = wr -> bit d 2 = wu -> bit d 1 = wv ->
  (if wc then enc_uvari n = OK cb else cb = [] /\ n = 1) ->
  (if wr then enc_ushort c = OK rb else rb = [] /\ c = 19) -> 1 <= c <= 27 ->
  (if wu then enc_ident u = OK ub else ub = []) ->
  dec_chars d global_default (cb ++ rb ++ ub ++ tail) =
    if wv then
      (if n <=? 0 then None
       else match dec_vals c (Z.to_nat n) tail with
            | Some (vs, r4) => Some ({| d_count := n; d_code := c; d_units := if wu then Some u else None; d_values := Some vs |}, r4)
            | None => None
            end)
    else Some ({| d_count := n; d_code := c; d_units := if wu then Some u else None; d_values := None |}, tail).
Proof.
  intros B8 B4 B2 B1 Hc Hr Hrg Hu. unfold dec_chars. rewrite B8, B4, B2, B1.
  assert (E1 : (1 <=? c) && (c <=? 27) = true) by lia.
  destruct wc, wr, wu;
    repeat match goal with Hx : _ /\ _ |- _ => destruct Hx end; subst; cbn [app];
    rewrite ?(uvari_rt _ _ _ Hc), ?(ushort_rt _ _ _ Hr), ?(ident_rt _ _ _ Hu);
    cbn [d_count d_code d_units global_default omap]; rewrite ?E1; cbn [negb andb Z.leb Z.compare Pos.compare Pos.compare_cont];
    reflexivity.
Qed.

Lemma enc_attr_body_dec a b r :
  wf_attr a -> enc_attr_body a = OK b ->
  exists rc dvs,
    attr_rc a = OK rc
    /\ (values_of a = [] /\ dvs = [] \/ exists c, rc = Some c /\ map_opt (dv_of c) (values_of a) = Some dvs /\ values_of a <> [])
    /\ dec_oattr global_default (b ++ r) = Some (Some (dattr_of a rc dvs), r).
Proof.
  intros Hwf H. pose proof Hwf as (Hcnt & _ & _). unfold enc_attr_body in H.
  set (cnt := attr_count a) in *.
  set (wc := match cnt with Some n => negb (n =? 1) | None => false end) in *.
  bind_inv H. rename a0 into cb, H0 into Hcb.
  bind_inv H. rename a0 into rc, H0 into Hrc.
  bind_inv H. rename a0 into rb, H0 into Hrb.
  set (wu := match a_units a with Some (_ :: _) => true | _ => false end) in *.
  bind_inv H. rename a0 into ub, H0 into Hub.
  set (vs := values_of a) in *.
  bind_inv H. rename a0 into vb, H0 into Hvb. apply OK_inj in H. subst b.
  set (wr := match rc with Some _ => true | None => false end) in *.
  destruct (descr_bits wc wr wu (nonnil vs)) as (Db & Dr & Dz & D16 & D8 & D4 & D2 & D1).
  set (d := 32 + 8 * b2z wc + 4 * b2z wr + 2 * b2z wu + b2z (nonnil vs)) in *. clearbody d.
  set (n := match cnt with Some n => n | None => 1 end).
  set (c := match rc with Some c => c | None => 19 end).
  set (u := match a_units a with Some u => u | None => [] end).
  assert (Hcount : if wc then enc_uvari n = OK cb else cb = [] /\ n = 1).
  { unfold wc, n in *. destruct cnt as [m|]; [destruct (m =? 1) eqn:Em|]; cbn [negb] in *.
    - apply OK_inj in Hcb. split; [congruence | lia]. - exact Hcb. - apply OK_inj in Hcb. split; congruence. }
  assert (Hcode : if wr then enc_ushort c = OK rb else rb = [] /\ c = 19).
  { unfold wr, c. destruct rc; [exact Hrb|]. apply OK_inj in Hrb. split; congruence. }
  assert (Hrg : 1 <= c <= 27).
  { unfold c. destruct rc as [c0|]; [|lia]. exact (attr_rc_range a c0 Hwf Hrc). }
  assert (Hunits : if wu then enc_ident u = OK ub else ub = []).
  { unfold wu, u. destruct (a_units a) as [[|c0 u0]|]; [apply OK_inj in Hub; congruence | exact Hub | apply OK_inj in Hub; congruence]. }
  assert (Hdu : (if wu then Some u else None) = match a_units a with Some (c0 :: u0) => Some (c0 :: u0) | _ => None end).
  { unfold wu, u. destruct (a_units a) as [[|c0 u0]|]; reflexivity. }
  exists rc.
  assert (Hgoal : forall dvs, 
            (if nonnil vs then (if n <=? 0 then None else match dec_vals c (Z.to_nat n) (vb ++ r) with
                   | Some (vs0, r4) => Some ({| d_count := n; d_code := c; d_units := if wu then Some u else None; d_values := Some vs0 |}, r4)
                   | None => None end)
             else Some ({| d_count := n; d_code := c; d_units := if wu then Some u else None; d_values := None |}, vb ++ r))
            = Some (dattr_of a rc dvs, r) ->
            dec_oattr global_default (([d] ++ cb ++ rb ++ ub ++ vb) ++ r) = Some (Some (dattr_of a rc dvs), r)).
  { intros dvs Hx. cbn [app]. unfold dec_oattr. rewrite Db, Dz, Dr, D16. cbn [negb Z.eqb Pos.eqb].
    rewrite <- !app_assoc.
    rewrite (dec_chars_spec d wc wr wu (nonnil vs) cb rb ub n c u (vb ++ r) D8 D4 D2 D1 Hcount Hcode Hrg Hunits).
    rewrite Hx. reflexivity. }
  destruct vs as [|v0 vs'] eqn:Evs.
  - exists []. split; [exact Hrc|]. split; [left; split; reflexivity|].
    apply Hgoal. cbn [nonnil].
    assert (vb = []) by (destruct rc; cbn in Hvb; apply OK_inj in Hvb; congruence). subst vb. cbn [app].
    unfold dattr_of. fold cnt. rewrite Hdu. reflexivity.
  - destruct rc as [c0|]; [|cbn in Hvb; discriminate].
    destruct (enc_vals_dec c0 (v0 :: vs') vb r Hvb) as (dvs & Emap & Hdec).
    exists dvs. split; [exact Hrc|]. split; [right; exists c0; repeat split; [exact Emap | discriminate]|].
    apply Hgoal. cbn [nonnil].
    assert (Hn : n = zlen (v0 :: vs')).
    { unfold n. destruct cnt as [m|]; [destruct Hcnt as [E|E]; [discriminate | exact E] | discriminate]. }
    assert (Hpos : (n <=? 0) = false). { rewrite Hn, zlen_cons. pose proof (zlen_nonneg vs'). lia. }
    rewrite Hpos. replace (Z.to_nat n) with (length (v0 :: vs')) by (rewrite Hn; unfold zlen; lia).
    unfold c. rewrite Hdec. unfold dattr_of. fold cnt. fold n. rewrite Hdu.
    destruct dvs as [|dv dvs']; [|reflexivity].
    cbn [map_opt] in Emap. destruct (dv_of c0 v0); [|discriminate]. destruct (map_opt (dv_of c0) vs'); discriminate.
Qed.

(* ---------- objects, template, set ---------- *)

Definition attr_matches (a : attr) (da : option dattr) : Prop :=
  match a_value a with
  | PNone => da = None
  | _ => exists rc dvs,
      attr_rc a = OK rc
      /\ (values_of a = [] /\ dvs = [] \/ exists c, rc = Some c /\ map_opt (dv_of c) (values_of a) = Some dvs /\ values_of a <> [])
      /\ da = Some (dattr_of a rc dvs)
  end.

Definition starts_attr (b : bytes) : Prop := exists d t, b = d :: t /\ (role d =? 3) = false.

Lemma enc_attr_obj_dec a b r :
  wf_attr a -> enc_attr_obj a = OK b ->
  exists da, attr_matches a da /\ dec_oattr global_default (b ++ r) = Some (da, r) /\ starts_attr b.
Proof.
  intros Hwf H. unfold enc_attr_obj in H. unfold attr_matches.
  destruct (a_value a) eqn:Ev.
  - apply OK_inj in H. subst b. exists None. split; [reflexivity|]. split; [reflexivity|]. exists 0, []. split; reflexivity.
  - destruct (enc_attr_body_dec a b r Hwf H) as (rc & dvs & H1 & H2 & H3).
    exists (Some (dattr_of a rc dvs)). split; [exists rc, dvs; auto|]. split; [exact H3|].
    unfold enc_attr_body in H. do 5 bind_inv H. apply OK_inj in H. subst b.
    match goal with |- starts_attr ([?d] ++ ?t) => exists d, t end. split; [reflexivity|].
    match goal with |- context [32 + 8 * b2z ?a + 4 * b2z ?b0 + 2 * b2z ?c + b2z ?e] =>
      destruct (descr_bits a b0 c e) as (_ & Dr & _) end.
    rewrite Dr. reflexivity.
  - destruct (enc_attr_body_dec a b r Hwf H) as (rc & dvs & H1 & H2 & H3).
    exists (Some (dattr_of a rc dvs)). split; [exists rc, dvs; auto|]. split; [exact H3|].
    unfold enc_attr_body in H. do 5 bind_inv H. apply OK_inj in H. subst b.
    match goal with |- starts_attr ([?d] ++ ?t) => exists d, t end. split; [reflexivity|].
    match goal with |- context [32 + 8 * b2z ?a + 4 * b2z ?b0 + 2 * b2z ?c + b2z ?e] =>
      destruct (descr_bits a b0 c e) as (_ & Dr & _) end.
    rewrite Dr. reflexivity.
Qed.

Lemma enc_attrs_dec : forall attrs tmpl b r,
  length tmpl = length attrs -> Forall (fun t => t_attr t = global_default) tmpl -> Forall wf_attr attrs ->
  enc_list enc_attr_obj attrs = OK b ->
  exists das, Forall2 attr_matches attrs das /\ dec_oattrs tmpl (b ++ r) = Some (das, r).
Proof.
  induction attrs as [|a attrs IH]; intros tmpl b r Hlen Htm Hwf H.
  - destruct tmpl; [|discriminate]. apply OK_inj in H. subst b. exists []. split; [constructor | reflexivity].
  - destruct tmpl as [|t tmpl]; [discriminate|]. cbn [enc_list] in H. bind_inv H. bind_inv H. apply OK_inj in H. subst b.
    apply Forall_cons_iff in Htm. destruct Htm as [Ht1 Ht2]. apply Forall_cons_iff in Hwf. destruct Hwf as [Hw1 Hw2].
    injection Hlen as Hlen.
    destruct (enc_attr_obj_dec a a0 (a1 ++ r) Hw1 H0) as (da & M1 & D1 & (d & t0 & -> & Hrole)).
    destruct (IH tmpl a1 r Hlen Ht2 Hw2 H1) as (das & M2 & D2).
    exists (da :: das). split; [constructor; assumption|].
    cbn [dec_oattrs]. rewrite <- app_assoc. cbn [app]. rewrite Hrole.
    cbn [app] in D1. rewrite Ht1. rewrite D1. rewrite D2. reflexivity.
Qed.

Record obj_matches (o : obj) (d : dobj) : Prop := {
  om_name : do_name d = o_name o;
  om_attrs : Forall2 attr_matches (o_attrs o) (do_attrs d)
}.

Lemma enc_objs_dec tmpl : forall objs fuel b,
  Forall (fun t => t_attr t = global_default) tmpl ->
  Forall (fun o => length tmpl = length (o_attrs o) /\ Forall wf_attr (o_attrs o)) objs ->
  (length objs < fuel)%nat ->
  enc_list enc_obj objs = OK b ->
  exists dos, Forall2 obj_matches objs dos /\ dec_objs fuel tmpl b = Some dos.
Proof.
  induction objs as [|o objs IH]; intros fuel b Htm Hall Hf H.
  - apply OK_inj in H. subst b. destruct fuel; [lia|]. exists []. split; [constructor | reflexivity].
  - destruct fuel as [|f]; [lia|]. cbn [enc_list] in H. bind_inv H. bind_inv H. apply OK_inj in H. subst b.
    apply Forall_cons_iff in Hall. destruct Hall as [[Hl Hw] Hall2].
    unfold enc_obj in H0. apply bind_ok in H0. destruct H0 as (nb & Hnb & H0). apply bind_ok in H0. destruct H0 as (ab & Hab & H0).
    apply OK_inj in H0. subst a.
    destruct (enc_attrs_dec (o_attrs o) tmpl ab a0 Hl Htm Hw Hab) as (das & M & D).
    destruct (IH f a0 Htm Hall2 ltac:(cbn in Hf; lia) H1) as (dos & M2 & D2).
    exists ({| do_name := o_name o; do_attrs := das |} :: dos). split.
    + constructor; [constructor; [reflexivity | exact M] | exact M2].
    + cbn [app dec_objs]. cbn [Z.eqb Pos.eqb negb].
      rewrite <- app_assoc. destruct (obname_rt (o_name o) nb (ab ++ a0) Hnb) as (org & _ & ->).
      rewrite D, D2. reflexivity.
Qed.

Definition tattr_of (a : attr) : tattr := {| t_label := a_label a; t_attr := global_default |}.

Lemma enc_tmpl_dec : forall attrs fuel b r,
  Forall (fun a => a_label a <> []) attrs -> (length attrs < fuel)%nat ->
  (r = [] \/ exists t, r = 112 :: t) ->
  enc_list enc_attr_tmpl attrs = OK b ->
  dec_template fuel (b ++ r) = Some (map tattr_of attrs, r).
Proof.
  induction attrs as [|a attrs IH]; intros fuel b r Hl Hf Hr H.
  - apply OK_inj in H. subst b. destruct fuel; [lia|]. cbn [app map dec_template].
    destruct Hr as [-> | (t & ->)]; reflexivity.
  - destruct fuel as [|f]; [lia|]. cbn [enc_list] in H. bind_inv H. bind_inv H. apply OK_inj in H. subst b.
    apply Forall_cons_iff in Hl. destruct Hl as [Hl1 Hl2].
    unfold enc_attr_tmpl in H0. destruct (a_label a) as [|l0 ls] eqn:El; [congruence|].
    apply bind_ok in H0. destruct H0 as (lb & Hlb & H0). apply OK_inj in H0. subst a0.
    cbn [app dec_template]. change (role 48 =? 1) with true. cbn [orb].
    unfold dec_tattr. change (is_byte 48) with true. change (48 / 32 =? 1) with true. change (bit 48 16) with true.
    cbn [negb orb]. rewrite <- app_assoc. rewrite (ident_rt _ _ _ Hlb).
    assert (Hch : forall x, dec_chars 48 global_default x = Some (global_default, x)).
    { intros x. unfold dec_chars. change (bit 48 8) with false. change (bit 48 4) with false.
      change (bit 48 2) with false. change (bit 48 1) with false. reflexivity. }
    rewrite Hch. rewrite (IH f a1 r Hl2 ltac:(cbn in Hf; lia) Hr H1).
    cbn [map]. unfold tattr_of at 2. rewrite El. reflexivity.
Qed.

Definition wf_set (s : eset) : Prop :=
  match e_objs s with
  | [] => True
  | o0 :: _ =>
      Forall (fun a => a_label a <> []) (o_attrs o0)
      /\ Forall (fun o => length (o_attrs o0) = length (o_attrs o) /\ Forall wf_attr (o_attrs o)) (e_objs s)
  end.

Definition set_name_of (s : eset) : option (list Z) :=
  match e_name s with Some (c :: n) => Some (c :: n) | _ => None end.

Record set_matches (s : eset) (d : dset) : Prop := {
  sm_type : ds_type d = e_type s;
  sm_name : ds_name d = set_name_of s;
  sm_tmpl : map t_label (ds_tmpl d) = match e_objs s with o0 :: _ => map a_label (o_attrs o0) | [] => [] end;
  sm_defaults : Forall (fun t => t_attr t = global_default) (ds_tmpl d);
  sm_objs : Forall2 obj_matches (e_objs s) (ds_objs d)
}.

Lemma enc_list_len {A} (f : A -> res bytes) : forall l b,
  (forall x bx, In x l -> f x = OK bx -> bx <> []) -> enc_list f l = OK b -> (length l <= length b)%nat.
Proof.
  induction l as [|x l IH]; intros b Hne H; [cbn; lia|].
  cbn [enc_list] in H. bind_inv H. bind_inv H. apply OK_inj in H. subst b.
  pose proof (Hne x a (or_introl eq_refl) H0) as Hx.
  pose proof (IH a0 (fun y by0 Hy => Hne y by0 (or_intror Hy)) H1).
  rewrite app_length. destruct a; [congruence|]. cbn [length]. lia.
Qed.

Theorem enc_set_dec s b :
  wf_set s -> e_objs s <> [] -> enc_set s = OK b ->
  exists d, dec_set b = Some d /\ set_matches s d.
Proof.
  intros Hwf Hne H. unfold enc_set in H. unfold wf_set in Hwf.
  destruct (e_objs s) as [|o0 objs] eqn:Eo; [congruence|]. destruct Hwf as [Hlab Hall].
  bind_inv H. rename a into sc, H0 into Hsc.
  bind_inv H. rename a into tb, H0 into Htb.
  bind_inv H. rename a into ob, H0 into Hob. apply OK_inj in H. subst b.
  (* the object bytes start with the OBJECT descriptor *)
  assert (Hstart : exists t, ob = 112 :: t).
  { cbn [enc_list] in Hob. bind_inv Hob. bind_inv Hob. apply OK_inj in Hob. subst ob.
    unfold enc_obj in H. bind_inv H. bind_inv H. apply OK_inj in H. subst a. eexists. reflexivity. }
  assert (Htm : Forall (fun t => t_attr t = global_default) (map tattr_of (o_attrs o0))).
  { apply Forall_forall. intros t Ht. apply in_map_iff in Ht. destruct Ht as (a & <- & _). reflexivity. }
  assert (Hall' : Forall (fun o => length (map tattr_of (o_attrs o0)) = length (o_attrs o) /\ Forall wf_attr (o_attrs o)) (o0 :: objs)).
  { eapply Forall_impl; [|exact Hall]. cbn. intros o [A B]. rewrite map_length. auto. }
  assert (Hol : (length (o0 :: objs) <= length ob)%nat).
  { eapply enc_list_len; [|exact Hob]. intros x bx _ Hx. unfold enc_obj in Hx. bind_inv Hx. bind_inv Hx.
    apply OK_inj in Hx. subst bx. discriminate. }
  destruct (enc_objs_dec (map tattr_of (o_attrs o0)) (o0 :: objs) (S (length ob)) ob Htm Hall' ltac:(lia) Hob) as (dos & Mo & Do).
  assert (Htl : (length (o_attrs o0) <= length tb)%nat).
  { eapply enc_list_len; [|exact Htb]. intros x bx _ Hx. unfold enc_attr_tmpl in Hx. destruct (a_label x).
    - apply OK_inj in Hx. subst bx. discriminate.
    - bind_inv Hx. apply OK_inj in Hx. subst bx. discriminate. }
  pose proof (enc_tmpl_dec (o_attrs o0) (S (length (tb ++ ob))) tb ob Hlab
                ltac:(rewrite app_length; lia) (or_intror Hstart) Htb) as Dt.
  exists {| ds_type := e_type s; ds_name := set_name_of s; ds_tmpl := map tattr_of (o_attrs o0); ds_objs := dos |}.
  split.
  - unfold enc_set_comp in Hsc. bind_inv Hsc. rename a into tyb, H into Hty.
    unfold set_name_of.
    destruct (e_name s) as [[|c0 nm]|] eqn:En.
    + apply OK_inj in Hsc. subst sc. cbn [app dec_set]. cbn [Z.eqb Pos.eqb orb negb].
      rewrite <- ?app_assoc. rewrite (ident_rt _ _ _ Hty). rewrite Dt, Do. reflexivity.
    + bind_inv Hsc. apply OK_inj in Hsc. subst sc. cbn [app dec_set]. cbn [Z.eqb Pos.eqb orb negb].
      rewrite <- ?app_assoc. rewrite (ident_rt _ _ _ Hty). rewrite (ident_rt _ _ _ H). cbn [omap].
      rewrite Dt, Do. reflexivity.
    + apply OK_inj in Hsc. subst sc. cbn [app dec_set]. cbn [Z.eqb Pos.eqb orb negb].
      rewrite <- ?app_assoc. rewrite (ident_rt _ _ _ Hty). rewrite Dt, Do. reflexivity.
  - constructor; cbn [ds_type ds_name ds_tmpl ds_objs]; try reflexivity.
    + rewrite Eo. rewrite map_map. reflexivity.
    + exact Htm.
    + rewrite Eo. exact Mo.
Qed.
