(* BytesP.v — every encoder of the model produces bytes (0..255): discharges the hypothesis `wf_rec` of the framing
   theorems (C01, C02, C12, C15) for the records the API model writes. *)
From DV Require Import Model.Eflr Model.Iflr Proofs.BaseP Proofs.PrimP Proofs.SegmentP.
Lemma OK_inj_ {A} (a b : A) : OK a = OK b -> a = b.
Proof. congruence. Qed.
From Coq Require Import Lia ZifyBool.
Ltac Zify.zify_post_hook ::= Z.to_euclidean_division_equations.

Lemma ab_app a b : all_bytes a = true -> all_bytes b = true -> all_bytes (a ++ b) = true.
Proof. intros Ha Hb. rewrite all_bytes_app, Ha, Hb. reflexivity. Qed.

Lemma ab_cons x l : is_byte x = true -> all_bytes l = true -> all_bytes (x :: l) = true.
Proof. intros Hx Hl. unfold all_bytes in *. cbn [forallb]. rewrite Hx, Hl. reflexivity. Qed.

Lemma ab_nil : all_bytes [] = true.
Proof. reflexivity. Qed.

Lemma be8_bytes v : 0 <= v < 18446744073709551616 -> all_bytes (be8 v) = true.
Proof. intros H. unfold be8. apply ab_app; apply be4_bytes; lia. Qed.

Lemma ushort_bytes v b : enc_ushort v = OK b -> all_bytes b = true.
Proof. unfold enc_ushort. destruct ((0 <=? v) && (v <? 256)) eqn:E; intros H; inv H. cbn. unfold is_byte. lia. Qed.
Lemma unorm_bytes v b : enc_unorm v = OK b -> all_bytes b = true.
Proof. unfold enc_unorm. destruct ((0 <=? v) && (v <? 65536)) eqn:E; intros H; inv H. apply be2_bytes. lia. Qed.
Lemma ulong_bytes v b : enc_ulong v = OK b -> all_bytes b = true.
Proof. unfold enc_ulong. destruct ((0 <=? v) && (v <? 4294967296)) eqn:E; intros H; inv H. apply be4_bytes. lia. Qed.
Lemma sshort_bytes v b : enc_sshort v = OK b -> all_bytes b = true.
Proof. unfold enc_sshort. destruct ((-128 <=? v) && (v <? 128)) eqn:E; intros H; inv H. cbn. unfold is_byte. lia. Qed.
Lemma snorm_bytes v b : enc_snorm v = OK b -> all_bytes b = true.
Proof. unfold enc_snorm. destruct ((-32768 <=? v) && (v <? 32768)) eqn:E; intros H; inv H. apply be2_bytes. lia. Qed.
Lemma slong_bytes v b : enc_slong v = OK b -> all_bytes b = true.
Proof. unfold enc_slong. destruct ((-2147483648 <=? v) && (v <? 2147483648)) eqn:E; intros H; inv H. apply be4_bytes. lia. Qed.
Lemma fsingl_bytes v b : enc_fsingl v = OK b -> all_bytes b = true.
Proof. unfold enc_fsingl. destruct ((0 <=? v) && (v <? 4294967296)) eqn:E; intros H; inv H. apply be4_bytes. lia. Qed.
Lemma fdoubl_bytes v b : enc_fdoubl v = OK b -> all_bytes b = true.
Proof. unfold enc_fdoubl. destruct ((0 <=? v) && (v <? 18446744073709551616)) eqn:E; intros H; inv H. apply be8_bytes. lia. Qed.
Lemma uvari_bytes v b : enc_uvari v = OK b -> all_bytes b = true.
Proof.
  unfold enc_uvari. destruct (v <? 128); [apply ushort_bytes|]. destruct (v <? 16384); [apply unorm_bytes | apply ulong_bytes].
Qed.
Lemma status_bytes v b : enc_status v = OK b -> all_bytes b = true.
Proof. unfold enc_status. destruct ((v =? 0) || (v =? 1)) eqn:E; intros H; inv H. cbn. unfold is_byte. lia. Qed.
Lemma chars_bytes s b : enc_chars s = OK b -> all_bytes b = true.
Proof. intros H. apply chars_ok in H. destruct H as [-> H]. apply all_ascii_bytes. exact H. Qed.
Lemma ident_bytes s b : enc_ident s = OK b -> all_bytes b = true.
Proof. unfold enc_ident. intros H. bind_inv H. bind_inv H. inv H. apply ab_app; [eapply ushort_bytes | eapply chars_bytes]; eassumption. Qed.
Lemma ascii_bytes s b : enc_ascii s = OK b -> all_bytes b = true.
Proof. unfold enc_ascii. intros H. bind_inv H. bind_inv H. inv H. apply ab_app; [eapply uvari_bytes | eapply chars_bytes]; eassumption. Qed.
Lemma obname_bytes o b : enc_obname o = OK b -> all_bytes b = true.
Proof.
  unfold enc_obname. destruct (on_origin o); [|discriminate]. intros H. bind_inv H. bind_inv H. bind_inv H. inv H.
  apply ab_app; [eapply uvari_bytes; eassumption|]. apply ab_app; [eapply ushort_bytes | eapply ident_bytes]; eassumption.
Qed.
Lemma objref_bytes t o b : enc_objref t o = OK b -> all_bytes b = true.
Proof. unfold enc_objref. intros H. bind_inv H. bind_inv H. inv H. apply ab_app; [eapply ident_bytes | eapply obname_bytes]; eassumption. Qed.
Lemma dtime_bytes d b : enc_dtime d = OK b -> all_bytes b = true.
Proof.
  unfold enc_dtime. intros H. do 7 (bind_inv H). inv H.
  repeat (apply ab_app; [eapply ushort_bytes; eassumption|]). eapply unorm_bytes; eassumption.
Qed.

Lemma enc_val_bytes rc v b : enc_val rc v = OK b -> all_bytes b = true.
Proof.
  unfold enc_val. destruct rc as [c|]; [|discriminate].
  repeat match goal with
         | |- (if ?c then _ else _) = OK _ -> _ => destruct c
         end;
  try (destruct (int_of_aval v); [|discriminate]);
  try solve [apply sshort_bytes | apply snorm_bytes | apply slong_bytes | apply ushort_bytes | apply unorm_bytes
            | apply ulong_bytes | apply uvari_bytes | apply status_bytes | discriminate].
  - destruct v; try discriminate; try apply fdoubl_bytes; intros H; bind_inv H; eapply fdoubl_bytes; eassumption.
  - destruct v; try discriminate; apply ident_bytes.
  - destruct v; try discriminate; apply ascii_bytes.
  - destruct v; try discriminate; apply dtime_bytes.
  - destruct v; try discriminate; apply obname_bytes.
  - destruct v; try discriminate; apply objref_bytes.
Qed.

Lemma enc_vals_bytes rc : forall vs b, enc_vals rc vs = OK b -> all_bytes b = true.
Proof.
  induction vs as [|v vs IH]; cbn [enc_vals]; intros b H; [inv H; reflexivity|].
  bind_inv H. bind_inv H. inv H. apply ab_app; [eapply enc_val_bytes; eassumption | eapply IH; eassumption].
Qed.

Lemma enc_list_bytes {A} (f : A -> res bytes) :
  (forall x b, f x = OK b -> all_bytes b = true) -> forall l b, enc_list f l = OK b -> all_bytes b = true.
Proof.
  intros Hf. induction l as [|x l IH]; cbn [enc_list]; intros b H; [inv H; reflexivity|].
  bind_inv H. bind_inv H. inv H. apply ab_app; [eapply Hf; eassumption | eapply IH; eassumption].
Qed.

Lemma b2z_01 b : 0 <= b2z b <= 1.
Proof. destruct b; cbn; lia. Qed.

Lemma enc_attr_body_bytes a b : enc_attr_body a = OK b -> all_bytes b = true.
Proof.
  unfold enc_attr_body. intros H. do 5 (bind_inv H). apply OK_inj_ in H. subst b.
  apply ab_cons.
  - unfold is_byte.
    repeat match goal with
           | |- context [b2z ?x] => let z := fresh "z" in let Hz := fresh "Hz" in let E := fresh "E" in
                                    pose proof (b2z_01 x) as Hz; remember (b2z x) as z eqn:E; clear E
           end.
    lia.
  - apply ab_app.
    { destruct (match attr_count a with Some n => negb (n =? 1) | None => false end); [eapply uvari_bytes; eassumption | inv H0; reflexivity]. }
    apply ab_app.
    { destruct a1; [eapply ushort_bytes; eassumption | inv H2; reflexivity]. }
    apply ab_app.
    { destruct (a_units a) as [[|c u]|]; try (inv H3; reflexivity). eapply ident_bytes; eassumption. }
    eapply enc_vals_bytes; eassumption.
Qed.

Lemma enc_attr_obj_bytes a b : enc_attr_obj a = OK b -> all_bytes b = true.
Proof. unfold enc_attr_obj. destruct (a_value a); [intros H; inv H; reflexivity | apply enc_attr_body_bytes | apply enc_attr_body_bytes]. Qed.

Lemma enc_attr_tmpl_bytes a b : enc_attr_tmpl a = OK b -> all_bytes b = true.
Proof.
  unfold enc_attr_tmpl. destruct (a_label a) as [|c l]; [intros H; inv H; reflexivity|].
  intros H. bind_inv H. inv H. apply ab_cons; [reflexivity | eapply ident_bytes; eassumption].
Qed.

Lemma enc_obj_bytes o b : enc_obj o = OK b -> all_bytes b = true.
Proof.
  unfold enc_obj. intros H. bind_inv H. bind_inv H. inv H. apply ab_cons; [reflexivity|].
  apply ab_app; [eapply obname_bytes; eassumption | eapply (enc_list_bytes _ enc_attr_obj_bytes); eassumption].
Qed.

Lemma enc_set_comp_bytes s b : enc_set_comp s = OK b -> all_bytes b = true.
Proof.
  unfold enc_set_comp. intros H. bind_inv H.
  destruct (e_name s) as [[|c n]|]; try (inv H; apply ab_cons; [reflexivity | eapply ident_bytes; eassumption]).
  bind_inv H. inv H. apply ab_cons; [reflexivity|]. apply ab_app; eapply ident_bytes; eassumption.
Qed.

Lemma enc_set_bytes s b : enc_set s = OK b -> all_bytes b = true.
Proof.
  unfold enc_set. destruct (e_objs s) as [|o0 os] eqn:E; [intros H; inv H; reflexivity|].
  intros H. bind_inv H. bind_inv H. bind_inv H. inv H.
  apply ab_app; [eapply enc_set_comp_bytes; eassumption|].
  apply ab_app; [eapply (enc_list_bytes _ enc_attr_tmpl_bytes); eassumption | eapply (enc_list_bytes _ enc_obj_bytes); eassumption].
Qed.

Lemma justify_bytes s w l b : justify s w l = OK b -> all_bytes b = true.
Proof. intros H. apply justify_ok in H. apply all_ascii_bytes. apply H. Qed.

Lemma enc_fileheader_bytes o sq hid b : enc_fileheader o sq hid = OK b -> all_bytes b = true.
Proof.
  unfold enc_fileheader. intros H. do 6 (bind_inv H). inv H.
  destruct (sq <? 0); [discriminate|].
  repeat (first [apply ab_cons; [reflexivity|] | apply ab_app]);
    first [reflexivity | eapply ident_bytes; eassumption | eapply obname_bytes; eassumption | eapply justify_bytes; eassumption].
Qed.

(* ---- indirectly formatted records ---- *)
Lemma be_n_bytes size v b : be_n size v = OK b -> all_bytes b = true.
Proof.
  unfold be_n. destruct (size =? 1); [apply ushort_bytes|]. destruct (size =? 2); [apply unorm_bytes|].
  destruct (size =? 4); [apply ulong_bytes|]. destruct (size =? 8); [apply fdoubl_bytes | discriminate].
Qed.

Lemma enc_elems_bytes size : forall vs b, enc_elems size vs = OK b -> all_bytes b = true.
Proof.
  induction vs as [|v vs IH]; cbn [enc_elems]; intros b H; [inv H; reflexivity|].
  bind_inv H. bind_inv H. inv H. apply ab_app; [eapply be_n_bytes; eassumption | eapply IH; eassumption].
Qed.

Lemma enc_slots_bytes : forall ss b, enc_slots ss = OK b -> all_bytes b = true.
Proof.
  induction ss as [|[size vs] ss IH]; cbn [enc_slots]; intros b H; [inv H; reflexivity|].
  bind_inv H. bind_inv H. inv H. apply ab_app; [eapply enc_elems_bytes; eassumption | eapply IH; eassumption].
Qed.

Lemma fdata_body_bytes o n ss b : fdata_body o n ss = OK b -> all_bytes b = true.
Proof.
  unfold fdata_body. intros H. do 3 (bind_inv H). inv H.
  apply ab_app; [eapply obname_bytes; eassumption|]. apply ab_app; [eapply uvari_bytes | eapply enc_slots_bytes]; eassumption.
Qed.

Lemma nofmt_body_bytes o p b :
  (match p with PBytes x => all_bytes x = true | PText _ => True end) -> nofmt_body o p = OK b -> all_bytes b = true.
Proof.
  unfold nofmt_body. intros Hp H. do 2 (bind_inv H). inv H.
  apply ab_app; [eapply obname_bytes; eassumption|]. destruct p; cbn [payload_bytes] in *; [inv H1; exact Hp | eapply chars_bytes; eassumption].
Qed.
