(* CoverP.v — every object the API accepted is written.
   Inv_full: every set is registered in the physical registry under its own (type, name).
   Inv_member: every object is listed in some set.
   With one logical file (Inv_one: the logical file's registry holds every non-empty set of the physical one) every object is
   therefore listed in a set that the write iterates over (lf_sids), and ContentP says that set's record decodes to the set
   with all its objects. *)
From DV Require Import Model.ApiDispatch Model.FileReader Proofs.BaseP Proofs.PrimP Proofs.SegmentP Proofs.IflrP
     Proofs.EflrP Proofs.DataP Proofs.BuilderP Proofs.WriteP Proofs.BytesP Proofs.StructP Proofs.FileP Proofs.RegP Proofs.VisP Proofs.KeepP Proofs.ContentP.
From Coq Require Import Lia ZifyBool.

Definition full (keys : list (nat * oname)) (phys : reg) : Prop :=
  forall sid k n, nth_error keys sid = Some (k, n) -> reg_find phys k n = Some sid.
Definition member (nitems : nat) (sets : list sset) : Prop :=
  forall i, (i < nitems)%nat -> exists sid, (sid < length sets)%nat /\ In i (s_items (nth sid sets dummy_set)).
Definition Inv_fm (st : bstate) : Prop := full (skeys st) (b_phys st) /\ member (length (b_items st)) (b_sets st).

Lemma fm_same st st' : skeys st' = skeys st -> b_phys st' = b_phys st -> length (b_items st') = length (b_items st) -> b_sets st' = b_sets st ->
  Inv_fm st -> Inv_fm st'.
Proof. unfold Inv_fm. intros -> -> -> ->. auto. Qed.

Lemma set_item_fm st i it : Inv_fm st -> Inv_fm (set_item st i it).
Proof. apply fm_same; try reflexivity. unfold set_item. cbn [b_items]. apply length_upd. Qed.
Lemma set_lf_fm st l f : Inv_fm st -> Inv_fm (set_lf st l f).
Proof. apply fm_same; reflexivity. Qed.

Lemma gms_fm st ty sn st1 sid : get_or_make_set st ty sn = (st1, sid) -> Inv_fm st -> Inv_fm st1.
Proof.
  unfold get_or_make_set. cbv zeta. change (match sn with Some [] => None | _ => sn end) with (norm_name sn).
  destruct (reg_find (b_phys st) ty (norm_name sn)) as [s0|] eqn:Ef; intros H [Hf Hm]; inv H; [split; assumption|].
  split.
  - unfold skeys. cbn [b_sets b_phys]. rewrite map_app. cbn [map]. intros sid k n Hn. rewrite reg_find_insert.
    destruct (Nat.lt_ge_cases sid (length (b_sets st))) as [Hlt|Hge].
    + rewrite nth_error_app1 in Hn by (rewrite map_length; exact Hlt). rewrite (Hf _ _ _ Hn). reflexivity.
    + rewrite nth_error_app2 in Hn by (rewrite map_length; exact Hge). rewrite map_length in Hn.
      destruct (sid - length (b_sets st))%nat as [|d] eqn:Ed; [|destruct d; discriminate]. cbn in Hn. injection Hn as <- <-.
      rewrite Ef, Nat.eqb_refl, oname_eqb_refl. cbn [andb]. f_equal. lia.
  - unfold member. cbn [b_items b_sets]. intros i Hi. destruct (Hm i Hi) as (sid & Hs & Hin). exists sid. rewrite app_length. split; [lia|].
    rewrite app_nth1 by exact Hs. exact Hin.
Qed.

Lemma register_fm st sid it : (sid < length (b_sets st))%nat -> Inv_fm st -> Inv_fm (register st sid it).
Proof.
  intros Hsid [Hf Hm]. split.
  - unfold skeys, register. cbn [b_sets b_phys]. intros s k n Hn. apply Hf. unfold skeys. rewrite <- Hn.
    rewrite !nth_error_map. destruct (Nat.eq_dec sid s) as [->|Hne].
    + rewrite (nth_error_upd_same' _ _ _ (nth s (b_sets st) dummy_set)); [|apply nth_error_nth'; exact Hsid].
      rewrite (nth_error_nth' _ dummy_set Hsid). unfold set_at. fold dummy_set. reflexivity.
    + rewrite nth_error_upd_other by exact Hne. reflexivity.
  - unfold register, member. cbn [b_items b_sets]. rewrite app_length, length_upd. cbn [length]. intros i Hi.
    destruct (Nat.lt_ge_cases i (length (b_items st))) as [Hlt|Hge].
    + destruct (Hm i Hlt) as (s & Hs & Hin). exists s. split; [exact Hs|].
      destruct (Nat.eq_dec sid s) as [->|Hne]; [|rewrite nth_upd_other by exact Hne; exact Hin].
      rewrite nth_upd_same by exact Hs. cbn [s_items]. apply in_or_app. left. unfold set_at. fold dummy_set. exact Hin.
    + exists sid. split; [exact Hsid|]. rewrite nth_upd_same by exact Hsid. cbn [s_items]. apply in_or_app. right. left. lia.
Qed.

Lemma add_common_fm hc st l ty name sn org dflt kw ds cast st' out :
  add_common hc st l ty name sn org dflt kw ds cast = (st', out) -> Inv_struct st -> Inv_fm st -> Inv_fm st'.
Proof.
  unfold add_common. destruct (lf_at st l) as [f|]; [|intros H; inv H; auto].
  destruct (get_or_make_set st ty sn) as [st1 sid] eqn:Hg. intros H Hi Hd.
  destruct (gms_struct _ _ _ _ _ Hg Hi) as (Hi1 & Hsid & Hty & _).
  pose proof (gms_fm _ _ _ _ _ Hg Hd) as Hd1.
  assert (Hd2 : Inv_fm (set_lf st1 l (try_add_set st1 f ty sn sid))) by (apply set_lf_fm; exact Hd1).
  destruct name; try (inv H; exact Hd2).
  destruct (hc && negb (hc_string s)); [inv H; exact Hd2|].
  match type of H with context [match ?o with OK _ => _ | Err _ => _ end] => destruct o end; [|inv H; exact Hd2].
  match type of H with context [set_attributes ?a ?b ?c ?d] => destruct (set_attributes a b c d) as [it|] eqn:Hs end; [|inv H; exact Hd2].
  injection H as <- <-. apply register_fm; [exact Hsid | exact Hd2].
Qed.

Lemma fill_some_len mine o : forall items k, length (fill_some mine o k items) = length items.
Proof. induction items as [|it r IH]; intros k; [reflexivity|]. cbn [fill_some length]. rewrite IH. reflexivity. Qed.

Theorem step_inv_fm ps st o ps' st' out : step ps st o = (ps', st', out) -> Inv_struct st -> Inv_fm st -> Inv_fm st'.
Proof.
  destruct o; unfold step.
  - unfold add_lf. destruct hid; try solve [intros H; inv H; auto]. destruct seq; try solve [intros H; inv H; auto].
    repeat match goal with |- context [if ?c then _ else _] => destruct c end; intros H Hi Hd; inv H; exact Hd.
  - destruct (add_common (p_hc ps) st l ty name sn origin default_origin kw None None) as [s1 o1] eqn:E.
    intros H; injection H as <- <- <-. eapply add_common_fm; eassumption.
  - destruct (add_origin (p_hc ps) st l name sn origin kw) as [s1 o1] eqn:E. intros H Hi Hd; injection H as <- <- <-.
    unfold add_origin in E. destruct (lf_at st l) as [f|]; [|inv E; exact Hd].
    destruct (get_or_make_set st T_ORIGIN sn) as [st1 sid] eqn:Hg.
    destruct (gms_struct _ _ _ _ _ Hg Hi) as (Hi0 & _). pose proof (gms_fm _ _ _ _ _ Hg Hd) as Hd0.
    assert (Hi1 : Inv_struct (set_lf st1 l (try_add_set st1 f T_ORIGIN sn sid))) by (apply set_lf_struct; exact Hi0).
    assert (Hd1 : Inv_fm (set_lf st1 l (try_add_set st1 f T_ORIGIN sn sid))) by (apply set_lf_fm; exact Hd0).
    match type of E with context [match ?c with Some _ => _ | None => _ end = _] => destruct c end; [inv E; exact Hd1|].
    match type of E with context [add_common ?a ?b ?c ?d ?e0 ?f0 ?g ?h ?i ?j ?k] =>
      destruct (add_common a b c d e0 f0 g h i j k) as [st3 out3] eqn:Ea end.
    assert (Hd3 : Inv_fm st3) by (eapply add_common_fm; [exact Ea | exact Hi1 | exact Hd1]).
    destruct out3 as [[iid|]|e3]; try (inv E; exact Hd3). inv E.
    assert (Hd4 : Inv_fm (origin_fsn_default (p_hc ps) st3 sid iid)).
    { unfold origin_fsn_default. destruct (fst (nth _ (i_attrs (item_at st3 iid)) (SPNone, None))); try exact Hd3.
      destruct (p_hc ps); [apply set_item_fm|]; exact Hd3. }
    unfold origin_backfill. match goal with |- context [if ?c then _ else _] => destruct c end; [|exact Hd4].
    apply set_lf_fm. revert Hd4. apply fm_same; try reflexivity. cbn [b_items]. apply fill_some_len.
  - destruct (add_channel (p_hc ps) st l name sn origin kw bad_data data ds cast) as [s1 o1] eqn:E. intros H Hi Hd; injection H as <- <- <-.
    unfold add_channel in E. destruct (lf_at st l) as [f|]; [|inv E; exact Hd].
    destruct bad_data; [inv E; exact Hd|].
    destruct (unique_dataset_name st f _ ds); [|inv E; exact Hd].
    destruct cast as [[c|]|].
    + destruct (add_common (p_hc ps) st l T_CHANNEL name sn origin default_origin kw (Some a) (Some c)) as [st3 out3] eqn:Ea.
      assert (Hd3 : Inv_fm st3) by (eapply add_common_fm; eassumption).
      destruct out3 as [[iid|]|e3]; [destruct data; [destruct (lf_at st3 l)|]|..]; inv E; try apply set_lf_fm; exact Hd3.
    + destruct (get_or_make_set st T_CHANNEL sn) as [st1 sid] eqn:Hg. inv E.
      apply set_lf_fm. exact (gms_fm _ _ _ _ _ Hg Hd).
    + destruct (add_common (p_hc ps) st l T_CHANNEL name sn origin default_origin kw (Some a) None) as [st3 out3] eqn:Ea.
      assert (Hd3 : Inv_fm st3) by (eapply add_common_fm; eassumption).
      destruct out3 as [[iid|]|e3]; [destruct data; [destruct (lf_at st3 l)|]|..]; inv E; try apply set_lf_fm; exact Hd3.
  - destruct (add_frame (p_hc ps) st l name sn origin channels chan_attr_idx kw) as [s1 o1] eqn:E. intros H Hi Hd; injection H as <- <- <-.
    unfold add_frame in E. destruct channels; try (inv E; exact Hd). destruct l0; [inv E; exact Hd|].
    match type of E with context [if ?c then _ else _] => destruct c end; [|inv E; exact Hd].
    eapply add_common_fm; eassumption.
  - unfold assign. destruct (nth_error (b_items st) i) as [it|] eqn:En; [|intros H; inv H; auto].
    intros H Hi Hd. destruct units.
    + destruct (set_units (p_hc ps) st it idx r) as [it'|] eqn:Es; [|inv H; exact Hd]. injection H as <- <- <-. apply set_item_fm. exact Hd.
    + destruct (set_value (p_hc ps) st it idx r) as [it'|] eqn:Es; [|inv H; exact Hd]. injection H as <- <- <-. apply set_item_fm. exact Hd.
  - unfold add_nofmt_data. destruct (lf_at st l); intros H Hi Hd; inv H; [apply set_lf_fm|]; exact Hd.
  - intros H; inv H; auto.
  - intros H; inv H; auto.
  - destruct (p_stack ps); intros H; inv H; auto.
  - unfold set_origin. destruct (nth_error (b_items st) i) as [it|] eqn:En; [|intros H; inv H; auto].
    intros H Hi Hd. destruct r; inv H; try exact Hd. apply set_item_fm. exact Hd.
  - unfold set_header. destruct (lf_at st l); [|intros H; inv H; auto].
    destruct is_id, r; intros H Hi Hd; inv H; try exact Hd; apply set_lf_fm; exact Hd.
Qed.

Lemma inv_fm_init : Inv_fm b_init.
Proof. split; [intros sid k n H; destruct sid; discriminate | intros i Hi; cbn in Hi; lia]. Qed.

(* ---------- a set found in a registry is one the write iterates over ---------- *)
Lemma reg_find_in_sids keys r k n sid : regk_ok keys r -> reg_find r k n = Some sid -> In sid (reg_sids r).
Proof.
  intros [Hn _] H. unfold reg_find in H. apply dict_find_some in H. unfold reg_sids. apply in_or_app.
  destruct (Nat.eqb_spec k T_ORIGIN) as [->|Hne]; [left; change sid with (snd (n, sid)); apply in_map; exact H|].
  right. destruct (reg_lookup_spec r k Hn) as [Hin | [He _]]; [|rewrite He in H; destruct H].
  apply in_concat. exists (part (k, reg_lookup r k)). split; [apply in_map; exact Hin|].
  unfold part. destruct (Nat.eqb_spec k T_ORIGIN) as [E|_]; [congruence|]. change sid with (snd (n, sid)). apply in_map. exact H.
Qed.

(* ---------- the invariants survive writes ---------- *)
Lemma skeeps_lfs_single st st' f : skeeps st st' -> b_lfs st' = [f] -> exists f0, b_lfs st = [f0] /\ l_reg f = l_reg f0.
Proof.
  intros K Hf. pose proof (skeeps_regs _ _ K) as L. rewrite Hf in L. cbn [map] in L.
  destruct (b_lfs st) as [|f0 [|f1 r]]; try discriminate. cbn [map] in L. injection L as L. exists f0. split; [reflexivity | exact L].
Qed.

Lemma skeeps_one st st' : skeeps st st' -> Inv_one st -> Inv_one st'.
Proof.
  intros K [H0 H1]. pose proof K as (S & P & L & _ & _). split.
  - intros He. rewrite S, P. apply H0. rewrite He in L. cbn [map] in L. destruct (b_lfs st); [reflexivity | discriminate].
  - intros f Hf. destruct (skeeps_lfs_single _ _ _ K Hf) as (f0 & Hf0 & Er).
    intros k n sid Hp He. rewrite Er. apply (H1 f0 Hf0 k n sid); [rewrite <- P; exact Hp|].
    unfold set_empty, set_at in *. rewrite <- S. exact He.
Qed.

Lemma skeeps_sub st st' : skeeps st st' -> Inv_sub st -> Inv_sub st'.
Proof.
  intros K Hs. pose proof (skeeps_regs _ _ K) as L. destruct K as (_ & P & _ & _ & _). unfold Inv_sub in *. rewrite P.
  change (fun f => sub_reg (b_phys st) (l_reg f)) with (fun f => (fun r => sub_reg (b_phys st) r) (l_reg f)) in *.
  rewrite <- Forall_map in *. rewrite L. exact Hs.
Qed.

Lemma skeeps_fm st st' : skeeps st st' -> Inv_fm st -> Inv_fm st'.
Proof. intros (S & P & _ & _ & N). apply fm_same; [unfold skeys; rewrite S; reflexivity | exact P | exact N | exact S]. Qed.

Record cover_invs (st : bstate) : Prop := {
  ci_inv : Inv st; ci_reg : Inv_reg st; ci_sub : Inv_sub st; ci_one : Inv_one st; ci_fm : Inv_fm st }.

Theorem reachable_cover_invs : forall l ps st, cover_invs st -> cover_invs (snd (run_actions ps st l)).
Proof.
  induction l as [|a l IH]; intros ps st C; [exact C|]. destruct C as [Hi Hr Hs Ho Hf]. destruct a as [o|w]; cbn [run_actions].
  - destruct (step ps st o) as [[ps' st'] out] eqn:E. apply IH. constructor.
    + destruct Hi as [Hs1 Ht]. split; [eapply step_inv_shape; eassumption | eapply step_inv_struct; eassumption].
    + eapply step_inv_reg; eassumption.
    + eapply step_inv_sub; eassumption.
    + eapply step_inv_one; eassumption.
    + eapply step_inv_fm; [exact E | apply Hi | exact Hf].
  - pose proof (write_keeps (p_hc ps) st w Hi Hr) as K. apply IH. constructor.
    + apply write_inv; exact Hi.
    + eapply skeeps_inv_reg; eassumption.
    + eapply skeeps_sub; eassumption.
    + eapply skeeps_one; eassumption.
    + eapply skeeps_fm; eassumption.
Qed.

Lemma cover_invs_init : cover_invs b_init.
Proof.
  constructor; [split; [apply inv_shape_init | apply inv_struct_init] | apply inv_reg_init | apply inv_sub_init | apply inv_one_init | apply inv_fm_init].
Qed.

(* ---------- with one logical file, every object is listed in a set the write iterates over ---------- *)
Theorem every_object_is_listed st f :
  cover_invs st -> b_lfs st = [f] ->
  forall i, (i < length (b_items st))%nat -> exists sid, In sid (lf_sids f) /\ In i (s_items (set_at st sid)).
Proof.
  intros [Hi Hr Hs [_ Ho] [Hfull Hmem]] Hf i Hlt.
  destruct (Hmem i Hlt) as (sid & Hsid & Hin). exists sid. split; [|unfold set_at; fold dummy_set; exact Hin].
  assert (Hk : nth_error (skeys st) sid = Some (skey (nth sid (b_sets st) dummy_set))).
  { unfold skeys. rewrite nth_error_map, (nth_error_nth' _ dummy_set Hsid). reflexivity. }
  unfold skey in Hk. pose proof (Hfull _ _ _ Hk) as Hp.
  assert (He : set_empty st sid = false).
  { unfold set_empty, set_at. fold dummy_set. destruct (s_items (nth sid (b_sets st) dummy_set)); [destruct Hin | reflexivity]. }
  pose proof (Ho f Hf _ _ _ Hp He) as Hl. rewrite lf_sids_reg. eapply reg_find_in_sids; [|exact Hl].
  destruct Hr as [_ Hl2]. rewrite Hf in Hl2. inversion Hl2; subst. eassumption.
Qed.

Lemma Forall2_In_l {A B} (P : A -> B -> Prop) : forall l l', Forall2 P l l' -> forall x, In x l -> exists y, In y l' /\ P x y.
Proof.
  induction 1 as [|a b l l' Hab Hall IH]; intros x Hin; [destruct Hin|]. destruct Hin as [<-|Hin].
  - exists b. split; [left; reflexivity | exact Hab].
  - destruct (IH x Hin) as (y & Hy & Hp). exists y. split; [right; exact Hy | exact Hp].
Qed.

(* EVERY OBJECT IS IN THE FILE (one logical file). Whenever the write returns a file, every object of the specification —
   every accepted add_* call — is an object of a set whose record is in that file and decodes to the set as it stands in the
   state the write leaves: its identity, and its attributes as given (skeeps) plus the write-time defaults. *)
Theorem every_object_is_written hc st w st' bs f :
  cover_invs st -> Inv_disj st -> b_lfs st = [f] -> write hc st w = (st', OK bs) ->
  exists g, write_file {| sul_seq := w_seq w; sul_vrl := w_vrl w; sul_id := w_ident w |} g = OK bs
    /\ skeeps st st'
    /\ forall i, (i < length (b_items st))%nat ->
         exists sid r d, In r g /\ lr_eflr r = true /\ dec_set (lr_body r) = Some d /\ set_matches (eset_of st' sid) d
                         /\ In (obj_of st' i) (e_objs (eset_of st' sid)).
Proof.
  intros C Hd Hf H. pose proof C as [Hi Hr _ _ _].
  destruct (write_content_single hc st w st' bs f H Hi Hr Hd Hf) as (g & Hw & Hg & K).
  exists g. split; [exact Hw|]. split; [exact K|]. intros i Hlt.
  destruct (every_object_is_listed st f C Hf i Hlt) as (sid & Hsid & Hin).
  destruct Hg as (fhb & erecs & rest & _ & -> & _ & Hall & _).
  destruct (Forall2_In_l _ _ _ Hall sid Hsid) as (r & Hr' & [He Hrec]).
  assert (Es : set_at st' sid = set_at st sid) by (unfold set_at; destruct K as (S & _); rewrite S; reflexivity).
  destruct Hrec as [[Hempty _] | [_ (d & Hd' & Hm)]]; [rewrite Es in Hempty; rewrite Hempty in Hin; destruct Hin|].
  exists sid, r, d. split; [right; apply in_or_app; left; exact Hr'|]. split; [exact He|]. split; [exact Hd'|]. split; [exact Hm|].
  unfold eset_of. cbn [e_objs]. rewrite Es. apply in_map. exact Hin.
Qed.

(* =====================================================================================================================
   Several logical files: every non-empty set is registered for (at least) one logical file.
   ===================================================================================================================== *)
Definition covered (st : bstate) : Prop :=
  forall k n sid, reg_find (b_phys st) k n = Some sid -> set_empty st sid = false ->
                  exists l f, lf_at st l = Some f /\ reg_find (l_reg f) k n = Some sid.

Lemma lf_at_set_lf_same st l f f' : lf_at st l = Some f -> lf_at (set_lf st l f') l = Some f'.
Proof. unfold lf_at, set_lf. cbn [b_lfs]. intros H. eapply nth_error_upd_same'. exact H. Qed.
Lemma lf_at_set_lf_other st l l' f' : l <> l' -> lf_at (set_lf st l f') l' = lf_at st l'.
Proof. unfold lf_at, set_lf. cbn [b_lfs]. intros H. apply nth_error_upd_other. exact H. Qed.

Lemma covered_same st st' : b_phys st' = b_phys st -> b_sets st' = b_sets st -> b_lfs st' = b_lfs st -> covered st -> covered st'.
Proof. intros Hp Hs Hl H k n s. unfold set_empty, set_at, lf_at. rewrite Hp, Hs, Hl. apply H. Qed.

Lemma set_lf_covered st l f f' : lf_at st l = Some f -> l_reg f' = l_reg f -> covered st -> covered (set_lf st l f').
Proof.
  intros Hf Hr H k n s Hp He. destruct (H k n s Hp He) as (l0 & f0 & Hl0 & Hf0).
  destruct (Nat.eq_dec l l0) as [<-|Hne].
  - exists l, f'. split; [eapply lf_at_set_lf_same; exact Hf|]. rewrite Hr. rewrite Hf in Hl0. inv Hl0. exact Hf0.
  - exists l0, f0. split; [rewrite lf_at_set_lf_other by exact Hne; exact Hl0 | exact Hf0].
Qed.

Lemma gms_phys_old st ty sn st1 sid k n s :
  get_or_make_set st ty sn = (st1, sid) -> reg_find (b_phys st1) k n = Some s ->
  (k <> ty \/ oname_eqb n (norm_name sn) = false) -> reg_find (b_phys st) k n = Some s.
Proof.
  unfold get_or_make_set. cbv zeta. change (match sn with Some [] => None | _ => sn end) with (norm_name sn).
  destruct (reg_find (b_phys st) ty (norm_name sn)); intros Hg Hp Hne; inv Hg; [exact Hp|].
  cbn [b_phys] in Hp. rewrite reg_find_insert in Hp. destruct (reg_find (b_phys st) k n); [exact Hp|].
  destruct Hne as [Hk|En]; [destruct (Nat.eqb_spec k ty); [contradiction | cbn [andb] in Hp; discriminate]|].
  rewrite En, Bool.andb_false_r in Hp. discriminate.
Qed.

Lemma lookups_covered st l f ty sn st1 sid :
  Inv_reg st -> Inv_sub st -> covered st -> lf_at st l = Some f -> get_or_make_set st ty sn = (st1, sid) ->
  covered (set_lf st1 l (try_add_set st1 f ty sn sid)).
Proof.
  intros Hr Hsub Hc Hf Hg. destruct (gms_sub _ _ _ _ _ Hg) as (Hfind & Hmono & Hl1 & _ & (extra & Hs & Hex) & _).
  destruct (gms_reg _ _ _ _ _ Hg Hr) as (_ & _ & _ & Hext).
  assert (Hkf : regk_ok (skeys st1) (l_reg f)) by (eapply regk_keys_ext; [exact Hext|]; eapply lf_at_reg; eassumption).
  assert (Hsf : sub_reg (b_phys st1) (l_reg f)) by (eapply sub_reg_mono; [exact Hmono|]; eapply lf_at_sub; eassumption).
  assert (Hf1 : lf_at st1 l = Some f) by (unfold lf_at; rewrite Hl1; exact Hf).
  set (f1 := try_add_set st1 f ty sn sid).
  intros k n s Hp He. cbn [set_lf b_phys] in Hp.
  assert (He1 : set_empty st1 s = false) by exact He.
  destruct (set_empty_old _ _ _ _ Hs Hex He1) as [_ He0].
  assert (Target : k = ty /\ oname_eqb n (norm_name sn) = true \/ (k <> ty \/ oname_eqb n (norm_name sn) = false)).
  { destruct (Nat.eq_dec k ty) as [->|Hk]; [|right; left; exact Hk]. destruct (oname_eqb n (norm_name sn)); [left; auto | right; right; reflexivity]. }
  destruct Target as [[-> En] | Hne].
  - apply oname_eqb_eq in En. subst n. rewrite Hfind in Hp. inv Hp.
    exists l, f1. split; [eapply lf_at_set_lf_same; exact Hf1|]. eapply try_add_find_target; eassumption.
  - pose proof (gms_phys_old _ _ _ _ _ _ _ _ Hg Hp Hne) as Hp0.
    destruct (Hc k n s Hp0 He0) as (l0 & f0 & Hl0 & Hf0).
    destruct (Nat.eq_dec l l0) as [<-|Hnl].
    + rewrite Hf in Hl0. inv Hl0. exists l, f1. split; [eapply lf_at_set_lf_same; exact Hf1|].
      eapply try_add_find_other; [exact Hkf | exact Hne | exact Hf0 | right; exact I].
    + exists l0, f0. split; [|exact Hf0]. rewrite lf_at_set_lf_other by exact Hnl. unfold lf_at. rewrite Hl1. exact Hl0.
Qed.

Lemma register_covered st sid it ty n :
  regk_ok (skeys st) (b_phys st) -> nth_error (skeys st) sid = Some (ty, n) ->
  (exists l f, lf_at st l = Some f /\ reg_find (l_reg f) ty n = Some sid) ->
  covered st -> covered (register st sid it).
Proof.
  intros Hr Hk Hex Hc k n0 s Hp He. cbn [register b_phys] in Hp.
  assert (Hlf : forall l, lf_at (register st sid it) l = lf_at st l) by reflexivity.
  destruct (Nat.eq_dec s sid) as [->|Hne].
  - pose proof (reg_find_entry _ _ _ _ _ Hr Hp) as Hkey. rewrite Hk in Hkey. inv Hkey. exact Hex.
  - apply Hc; [exact Hp|]. unfold set_empty, set_at, register in *. cbn [b_sets] in He. rewrite nth_upd_other in He by congruence. exact He.
Qed.

Lemma add_common_covered hc st l ty name sn org dflt kw ds cast st' out :
  add_common hc st l ty name sn org dflt kw ds cast = (st', out) -> Inv_reg st -> Inv_sub st -> covered st -> covered st'.
Proof.
  intros H Hr Hsub Hc. unfold add_common in H. destruct (lf_at st l) as [f|] eqn:Hf; [|inv H; exact Hc].
  destruct (get_or_make_set st ty sn) as [st1 sid] eqn:Hg.
  pose proof (lookups_covered st l f ty sn st1 sid Hr Hsub Hc Hf Hg) as Hc2.
  set (f1 := try_add_set st1 f ty sn sid) in *. set (st2 := set_lf st1 l f1) in *.
  destruct (gms_sub _ _ _ _ _ Hg) as (Hfind & Hmono & Hl1 & _ & _ & _).
  destruct (gms_reg _ _ _ _ _ Hg Hr) as (Hr1 & Hkey & _ & Hext).
  destruct name; try (inv H; exact Hc2).
  destruct (hc && negb (hc_string s)); [inv H; exact Hc2|].
  match type of H with context [match ?o with OK _ => _ | Err _ => _ end] => destruct o end; [|inv H; exact Hc2].
  match type of H with context [set_attributes ?a ?b ?c ?d] => destruct (set_attributes a b c d) as [it|] end; inv H; [|exact Hc2].
  apply (register_covered st2 sid it ty (norm_name sn)).
  - apply Hr1.
  - exact Hkey.
  - exists l, f1. split; [unfold st2; eapply lf_at_set_lf_same; unfold lf_at; rewrite Hl1; exact Hf|].
    eapply try_add_find_target; [| |exact Hfind].
    + eapply regk_keys_ext; [exact Hext|]. eapply lf_at_reg; [exact Hr | exact Hf].
    + eapply sub_reg_mono; [exact Hmono|]. eapply lf_at_sub; [exact Hsub | exact Hf].
  - exact Hc2.
Qed.

Theorem step_inv_covered ps st o ps' st' out : step ps st o = (ps', st', out) -> Inv_reg st -> Inv_sub st -> covered st -> covered st'.
Proof.
  destruct o; unfold step.
  - unfold add_lf. destruct hid; try solve [intros H; inv H; auto]. destruct seq; try solve [intros H; inv H; auto].
    repeat match goal with |- context [if ?c then _ else _] => destruct c end; intros H Hr Hs Hi; inv H; try exact Hi.
    intros k n sid Hp He. destruct (Hi k n sid Hp He) as (l0 & f0 & Hl0 & Hf0). exists l0, f0. split; [|exact Hf0].
    unfold lf_at in *. cbn [b_lfs]. rewrite nth_error_app1; [exact Hl0 | apply nth_error_Some; congruence].
  - destruct (add_common (p_hc ps) st l ty name sn origin default_origin kw None None) as [s1 o1] eqn:E.
    intros H; injection H as <- <- <-. eapply add_common_covered; eassumption.
  - destruct (add_origin (p_hc ps) st l name sn origin kw) as [s1 o1] eqn:E. intros H Hr Hs Hi; injection H as <- <- <-.
    unfold add_origin in E. destruct (lf_at st l) as [f|] eqn:Hf; [|inv E; exact Hi].
    destruct (get_or_make_set st T_ORIGIN sn) as [st1 sid] eqn:Hg.
    pose proof (lookups_covered _ _ _ _ _ _ _ Hr Hs Hi Hf Hg) as Hi1.
    pose proof (lookups_sub _ _ _ _ _ _ _ Hr Hs Hf Hg) as Hs1.
    assert (Hr1 : Inv_reg (set_lf st1 l (try_add_set st1 f T_ORIGIN sn sid))).
    { destruct (gms_reg _ _ _ _ _ Hg Hr) as (Hr0 & He & Hlfs & Hext).
      apply set_lf_reg; [exact Hr0|]. apply try_add_reg; [|exact He]. eapply regk_keys_ext; [exact Hext|]. eapply lf_at_reg; eassumption. }
    match type of E with context [match ?c with Some _ => _ | None => _ end = _] => destruct c end; [inv E; exact Hi1|].
    match type of E with context [add_common ?a ?b ?c ?d ?e0 ?f0 ?g ?h ?i ?j ?k] =>
      destruct (add_common a b c d e0 f0 g h i j k) as [st3 out3] eqn:Ea end.
    assert (Hi3 : covered st3) by (eapply add_common_covered; [exact Ea | exact Hr1 | exact Hs1 | exact Hi1]).
    destruct out3 as [[iid|]|e3]; try (inv E; exact Hi3). inv E.
    assert (Hi4 : covered (origin_fsn_default (p_hc ps) st3 sid iid)).
    { unfold origin_fsn_default. destruct (fst (nth _ (i_attrs (item_at st3 iid)) (SPNone, None))); try exact Hi3.
      destruct (p_hc ps); [|exact Hi3]. revert Hi3. apply covered_same; reflexivity. }
    unfold origin_backfill. match goal with |- context [if ?c then _ else _] => destruct c end; [|exact Hi4].
    set (s4 := origin_fsn_default (p_hc ps) st3 sid iid) in *.
    destruct (lf_at s4 l) as [x|] eqn:Hx.
    + match goal with |- covered (set_lf ?s l ?f4) => apply (set_lf_covered s l x f4) end; [exact Hx | reflexivity|].
      revert Hi4. apply covered_same; reflexivity.
    + exfalso. apply add_common_lfs_len in Ea. cbn [set_lf b_lfs] in Ea. rewrite length_upd in Ea.
      assert (L1 : b_lfs st1 = b_lfs st) by (unfold get_or_make_set in Hg; cbv zeta in Hg; destruct (reg_find _ _ _); inv Hg; reflexivity).
      rewrite L1 in Ea. unfold lf_at in Hx, Hf. apply nth_error_None in Hx. assert (l < length (b_lfs st))%nat by (apply nth_error_Some; congruence).
      assert (E4 : b_lfs s4 = b_lfs st3).
      { unfold s4, origin_fsn_default. destruct (fst _); try reflexivity. destruct (p_hc ps); reflexivity. }
      rewrite E4 in Hx. lia.
  - destruct (add_channel (p_hc ps) st l name sn origin kw bad_data data ds cast) as [s1 o1] eqn:E. intros H Hr Hs Hi; injection H as <- <- <-.
    unfold add_channel in E. destruct (lf_at st l) as [f|] eqn:Hf; [|inv E; exact Hi].
    destruct bad_data; [inv E; exact Hi|].
    destruct (unique_dataset_name st f _ ds); [|inv E; exact Hi].
    assert (Hsd : forall s3 f3 k d, covered s3 -> lf_at s3 l = Some f3 -> covered (set_lf s3 l (set_data f3 k d))).
    { intros s3 f3 k d H3 Hl3. apply (set_lf_covered s3 l f3); [exact Hl3 | reflexivity | exact H3]. }
    destruct cast as [[c|]|].
    + destruct (add_common (p_hc ps) st l T_CHANNEL name sn origin default_origin kw (Some a) (Some c)) as [st3 out3] eqn:Ea.
      assert (Hi3 : covered st3) by (eapply add_common_covered; eassumption).
      destruct out3 as [[iid|]|e3]; [destruct data; [destruct (lf_at st3 l) eqn:Hl3|]|..]; inv E; try exact Hi3. apply Hsd; assumption.
    + destruct (get_or_make_set st T_CHANNEL sn) as [st1 sid] eqn:Hg. inv E. eapply lookups_covered; eassumption.
    + destruct (add_common (p_hc ps) st l T_CHANNEL name sn origin default_origin kw (Some a) None) as [st3 out3] eqn:Ea.
      assert (Hi3 : covered st3) by (eapply add_common_covered; eassumption).
      destruct out3 as [[iid|]|e3]; [destruct data; [destruct (lf_at st3 l) eqn:Hl3|]|..]; inv E; try exact Hi3. apply Hsd; assumption.
  - destruct (add_frame (p_hc ps) st l name sn origin channels chan_attr_idx kw) as [s1 o1] eqn:E. intros H Hr Hs Hi; injection H as <- <- <-.
    unfold add_frame in E. destruct channels; try (inv E; exact Hi). destruct l0; [inv E; exact Hi|].
    match type of E with context [if ?c then _ else _] => destruct c end; [|inv E; exact Hi].
    eapply add_common_covered; eassumption.
  - unfold assign. destruct (nth_error (b_items st) i) as [it|]; [|intros H; inv H; auto].
    match goal with |- context [match ?x with OK _ => _ | Err _ => _ end] => destruct x end; intros H Hr Hs Hi; inv H; exact Hi.
  - unfold add_nofmt_data. destruct (lf_at st l) as [f|] eqn:Hf; intros H Hr Hs Hi; inv H; [|exact Hi].
    apply (set_lf_covered st l f); [exact Hf | reflexivity | exact Hi].
  - intros H; inv H; auto.
  - intros H; inv H; auto.
  - destruct (p_stack ps); intros H; inv H; auto.
  - unfold set_origin. destruct (nth_error (b_items st) i) as [it|]; [|intros H; inv H; auto].
    destruct r; intros H Hr Hs Hi; inv H; exact Hi.
  - unfold set_header. destruct (lf_at st l) as [f|] eqn:Hf; [|intros H; inv H; auto].
    destruct is_id, r; intros H Hr Hs Hi; inv H; try exact Hi; (apply (set_lf_covered st l f); [exact Hf | reflexivity | exact Hi]).
Qed.

Lemma covered_init : covered b_init.
Proof. intros k n sid H. discriminate. Qed.

Lemma skeeps_covered st st' : skeeps st st' -> covered st -> covered st'.
Proof.
  intros K Hc k n s Hp He. pose proof (skeeps_regs _ _ K) as L. destruct K as (S & P & _ & _ & _).
  rewrite P in Hp. assert (He0 : set_empty st s = false) by (unfold set_empty, set_at in *; rewrite <- S; exact He).
  destruct (Hc k n s Hp He0) as (l & f & Hl & Hf). unfold lf_at in *.
  assert (E : nth_error (map l_reg (b_lfs st')) l = nth_error (map l_reg (b_lfs st)) l) by (rewrite L; reflexivity).
  rewrite !nth_error_map, Hl in E. destruct (nth_error (b_lfs st') l) as [f'|] eqn:El'; [|discriminate]. cbn in E. injection E as E.
  exists l, f'. split; [exact El' | rewrite E; exact Hf].
Qed.

Theorem reachable_covered : forall l ps st, cover_invs st -> covered st -> covered (snd (run_actions ps st l)).
Proof.
  induction l as [|a l IH]; intros ps st C Hc; [exact Hc|]. destruct a as [o|w]; cbn [run_actions].
  - destruct (step ps st o) as [[ps' st'] out] eqn:E.
    pose proof (reachable_cover_invs [AOp o] ps st C) as C1. cbn [run_actions] in C1. rewrite E in C1. cbn [snd] in C1.
    apply IH; [exact C1|]. destruct C as [_ Hr Hs _ _]. eapply step_inv_covered; eassumption.
  - pose proof (reachable_cover_invs [AWrite w] ps st C) as C1. cbn [run_actions snd] in C1.
    apply IH; [exact C1|]. destruct C as [Hi Hr _ _ _]. eapply skeeps_covered; [apply write_keeps; assumption | exact Hc].
Qed.

(* EVERY OBJECT IS IN THE FILE, several logical files, none of them sharing a set with another (known finding D12 excluded) *)
Theorem every_object_is_written_multi hc st w st' bs :
  cover_invs st -> covered st -> Inv_disj st -> NoDup (concat (map lf_sids (b_lfs st))) -> write hc st w = (st', OK bs) ->
  exists groups, write_file {| sul_seq := w_seq w; sul_vrl := w_vrl w; sul_id := w_ident w |} (concat groups) = OK bs
    /\ Forall2 (lf_group st') (b_lfs st) groups /\ skeeps st st'
    /\ forall i, (i < length (b_items st))%nat ->
         exists sid g r d, In g groups /\ In r g /\ lr_eflr r = true /\ dec_set (lr_body r) = Some d
                           /\ set_matches (eset_of st' sid) d /\ In (obj_of st' i) (e_objs (eset_of st' sid)).
Proof.
  intros C Hc Hd Hnd H. pose proof C as [Hi Hr _ _ [Hfull Hmem]].
  destruct (write_content hc st w st' bs H Hi Hr Hd Hnd) as (groups & Hw & Hall & K).
  exists groups. split; [exact Hw|]. split; [exact Hall|]. split; [exact K|]. intros i Hlt.
  destruct (Hmem i Hlt) as (sid & Hsid & Hin).
  assert (Hk : nth_error (skeys st) sid = Some (skey (nth sid (b_sets st) dummy_set))).
  { unfold skeys. rewrite nth_error_map, (nth_error_nth' _ dummy_set Hsid). reflexivity. }
  unfold skey in Hk. pose proof (Hfull _ _ _ Hk) as Hp.
  assert (He : set_empty st sid = false).
  { unfold set_empty, set_at. fold dummy_set. destruct (s_items (nth sid (b_sets st) dummy_set)); [destruct Hin | reflexivity]. }
  destruct (Hc _ _ _ Hp He) as (l & f & Hl & Hf).
  assert (Hsids : In sid (lf_sids f)).
  { rewrite lf_sids_reg. eapply reg_find_in_sids; [|exact Hf]. eapply lf_at_reg; eassumption. }
  assert (Hfin : In f (b_lfs st)) by (unfold lf_at in Hl; eapply nth_error_In; exact Hl).
  destruct (Forall2_In_l _ _ _ Hall f Hfin) as (g & Hg & (fhb & erecs & rest & _ & -> & _ & Hrecs & _)).
  destruct (Forall2_In_l _ _ _ Hrecs sid Hsids) as (r & Hr' & [Hre Hrec]).
  assert (Es : set_at st' sid = set_at st sid) by (unfold set_at; destruct K as (S & _); rewrite S; reflexivity).
  assert (Hin' : In i (s_items (set_at st sid))) by (unfold set_at; fold dummy_set; exact Hin).
  destruct Hrec as [[Hempty _] | [_ (d & Hd' & Hm)]]; [rewrite Es in Hempty; rewrite Hempty in Hin'; destruct Hin'|].
  exists sid, ({| lr_eflr := true; lr_type := 0; lr_body := fhb |} :: erecs ++ rest), r, d.
  split; [exact Hg|]. split; [right; apply in_or_app; left; exact Hr'|]. split; [exact Hre|]. split; [exact Hd'|]. split; [exact Hm|].
  unfold eset_of. cbn [e_objs]. rewrite Es. apply in_map. exact Hin'.
Qed.

(* ---------- identity across the sets of a logical file (known finding D13 excluded by hypothesis) ---------- *)
Lemma NoDup_map_eq {A B} (g : A -> B) : forall l, NoDup (map g l) -> forall a b, In a l -> In b l -> g a = g b -> a = b.
Proof.
  induction l as [|x l IH]; intros Hn a b Ha Hb E; [destruct Ha|]. cbn [map] in Hn. inversion Hn as [|? ? Hni Hnd]; subst.
  destruct Ha as [<-|Ha]; destruct Hb as [<-|Hb]; try reflexivity.
  - exfalso. apply Hni. rewrite E. apply in_map. exact Hb.
  - exfalso. apply Hni. rewrite <- E. apply in_map. exact Ha.
  - exact (IH Hnd a b Ha Hb E).
Qed.

Theorem identity_unique_in_lf ops ps f :
  let st := bstate_of (run_ops ps b_init ops) in
  NoDup (map (fun sid => s_ty (set_at st sid)) (lf_sids f)) ->
  forall sid1 sid2 i j, In sid1 (lf_sids f) -> In sid2 (lf_sids f) ->
    In i (s_items (set_at st sid1)) -> In j (s_items (set_at st sid2)) ->
    (i_ty (item_at st i), i_name (item_at st i), i_copy (item_at st i)) = (i_ty (item_at st j), i_name (item_at st j), i_copy (item_at st j)) ->
    i = j.
Proof.
  intros st Hnd sid1 sid2 i j H1 H2 Hi Hj E. injection E as Et En Ec.
  assert (Hs : Inv_struct st) by (apply run_ops_inv_struct, inv_struct_init).
  destruct (inv_set_items st sid1 i Hs Hi) as [_ Ti]. destruct (inv_set_items st sid2 j Hs Hj) as [_ Tj].
  assert (Es : sid1 = sid2) by (apply (NoDup_map_eq _ _ Hnd); [exact H1 | exact H2 | congruence]). subst sid2.
  pose proof (identity_unique_in_set ops ps sid1) as Hu. cbv zeta in Hu. fold st in Hu.
  apply (NoDup_map_eq _ _ Hu); [exact Hi | exact Hj | congruence].
Qed.

(* ---------- the row window of a write lies inside the data (defect D24 repaired) ---------- *)
Lemma setup_frame_window hc st l w wf st' rows :
  setup_frame hc st l w wf = OK (st', rows) ->
  0 <= w_from w /\
  exists f, lf_at st l = Some f /\
    let merged := data_merge (l_data f) (match w_data w with Some d => d | None => [] end) in
    let st1 := set_lf st l (set_ldata f merged) in
    forall c0 cs, frame_channels st (wf_item wf) = c0 :: cs ->
      exists d0, data_find merged (dataset_name_of (item_at st1 c0)) = Some d0
                 /\ w_from w < cd_rows d0
                 /\ match w_to w with Some t => w_from w < t /\ t <= cd_rows d0 | None => True end.
Proof.
  unfold setup_frame. destruct (lf_at st l) as [f|]; [|discriminate]. intros H. cbn zeta in H.
  bind_inv H. rename a into infos, H0 into Hgo.
  set (merged := data_merge (l_data f) (match w_data w with Some d => d | None => [] end)) in *.
  set (st1 := set_lf st l (set_ldata f merged)) in *.
  destruct (negb (distinct _)); [discriminate|]. destruct infos as [|d0 infos']; [discriminate|].
  destruct (w_from w <? 0) eqn:C0; [discriminate|].
  destruct (cd_rows d0 <=? w_from w) eqn:C1; [discriminate|].
  destruct (cd_rows d0 <? match w_to w with Some t => t | None => cd_rows d0 end) eqn:C2; [discriminate|].
  destruct (match w_to w with Some t => t | None => cd_rows d0 end - w_from w <? 1) eqn:C3; [discriminate|].
  clear H. split; [lia|]. exists f. split; [reflexivity|]. cbn zeta. fold merged. fold st1.
  intros c0 cs Hfc.
  assert (Hfc1 : frame_channels st1 (wf_item wf) = c0 :: cs) by exact Hfc.
  change (frame_channels st (wf_item wf)) with (frame_channels st1 (wf_item wf)) in Hgo. rewrite Hfc1 in Hgo.
  destruct (data_find merged (dataset_name_of (item_at st1 c0))) as [d|] eqn:Ed; [|discriminate].
  destruct (negb (valid_dtype _)); [discriminate|]. destruct (1 <? zlen (cd_shape d)); [discriminate|].
  bind_inv Hgo. apply OK_inj_ in Hgo. injection Hgo as -> _.
  exists d0. split; [reflexivity|]. split; [lia|]. destruct (w_to w); [lia | exact I].
Qed.

(* ---------- the number of records of a logical file (what generate_logical_records announces; defect D27 repaired) ---------- *)
Lemma fold_sets_length : forall sids st acc st' out,
  fold_left sets_step sids (OK (st, acc)) = OK (st', out) -> length out = (length acc + length sids)%nat.
Proof.
  induction sids as [|sid sids IH]; intros st acc st' out H; [inv H; cbn [length]; lia|].
  cbn [fold_left] in H. unfold sets_step at 2 in H. cbn [bind] in H.
  destruct (enc_sset st sid) as [[s1 r]|e] eqn:E; cbn [bind] in H; [|rewrite fold_err in H by reflexivity; discriminate].
  rewrite (IH _ _ _ _ H), app_length. cbn [length]. lia.
Qed.

Theorem lf_records_count st f frames st' recs :
  lf_records st f frames = OK (st', recs) ->
  length recs = (1 + length (lf_sids f) + length (l_nofmt f) + fold_right (fun fr n => length (snd fr) + n) 0 frames)%nat.
Proof.
  unfold lf_records. intros H. bind_inv H. rename a into fh.
  change (fun (acc : res (bstate * list lrec)) (sid : nat) => _) with sets_step in H.
  bind_inv H. destruct a as [st1 erecs]. rename H1 into Hfold.
  bind_inv H. rename a into nf, H1 into Hnf. bind_inv H. rename a into fd, H1 into Hfd. inv H.
  rewrite <- lf_sids_spec in Hfold. pose proof (fold_sets_length _ _ _ _ _ Hfold) as L1. cbn [length] in L1.
  assert (L2 : length nf = length (l_nofmt f)).
  { clear -Hnf. revert nf Hnf. induction (l_nofmt f) as [|[obj p] l IH]; intros nf H; [inv H; reflexivity|].
    destruct obj; try discriminate. destruct (nth_error (b_items st') i); [|discriminate].
    bind_inv H. bind_inv H. bind_inv H. inv H. cbn [length]. f_equal. apply IH. assumption. }
  assert (L3 : length fd = fold_right (fun fr n => (length (snd fr) + n)%nat) 0%nat frames).
  { clear -Hfd. revert fd Hfd. induction frames as [|[fr rows] l IH]; intros fd H; [inv H; reflexivity|].
    bind_inv H. bind_inv H. inv H. rewrite app_length. cbn [fold_right snd]. rewrite (frame_recs_length _ _ _ _ H0), (IH _ H1). reflexivity. }
  rewrite !app_length, L2. rewrite L1. rewrite L3. cbn [length]. set (x := fold_right _ _ _). lia.
Qed.
