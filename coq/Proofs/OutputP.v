(* OutputP.v — the buffered output never reorders, drops or splits visible records (C10),
   and input chunking is the identity on the row sequence. *)
From DV Require Import Model.Output Proofs.BaseP.
From Coq Require Import Lia ZifyBool.
Ltac Zify.zify_post_hook ::= Z.to_euclidean_division_equations.

Definition is_prefix_state (sul : bytes) (p : list bytes) (snap : bytes) : Prop :=
  exists j, (j <= length p)%nat /\ snap = sul ++ concat (firstn j p).

Record Inv (sul : bytes) (p : list bytes) (s : ostate) : Prop := {
  inv_append : o_append s = true;
  inv_split : exists k, (k <= length p)%nat /\ o_disk s = sul ++ concat (firstn k p) /\ o_buf s = concat (skipn k p);
  inv_total : o_total s = zlen (o_disk s);
  inv_snaps : Forall (is_prefix_state sul p) (o_snaps s)
}.

Lemma prefix_state_extend sul p b snap : is_prefix_state sul p snap -> is_prefix_state sul (p ++ [b]) snap.
Proof.
  intros (j & Hj & ->). exists j. split; [rewrite app_length; cbn; lia|].
  rewrite firstn_app. replace (j - length p)%nat with 0%nat by lia. cbn. rewrite app_nil_r. reflexivity.
Qed.

Lemma inv_init disk0 sul : Inv sul [] (write_bytes (o_init disk0) sul).
Proof.
  unfold write_bytes, o_init. cbn. constructor; cbn.
  - reflexivity.
  - exists 0%nat. cbn. rewrite app_nil_r. auto.
  - reflexivity.
  - constructor; [|constructor]. exists 0%nat. cbn. rewrite app_nil_r. auto.
Qed.

Lemma inv_add cap sul p s b : Inv sul p s -> Inv sul (p ++ [b]) (add_bytes cap s b).
Proof.
  intros [Ha (k & Hk & Hd & Hb) Ht Hs]. unfold add_bytes.
  destruct (cap <? zlen (o_buf s) + zlen b) eqn:E.
  - (* flush first: everything processed so far is on disk *)
    unfold flush, write_bytes. rewrite Ha. cbn.
    assert (Hdisk : o_disk s ++ o_buf s = sul ++ concat (firstn (length p) (p ++ [b]))).
    { rewrite Hd, Hb, <- app_assoc, <- concat_app, firstn_skipn.
      rewrite firstn_app, Nat.sub_diag, firstn_all. cbn. rewrite app_nil_r. reflexivity. }
    constructor; cbn.
    + reflexivity.
    + exists (length p). split; [rewrite app_length; cbn; lia|]. split; [exact Hdisk|].
      rewrite skipn_app, Nat.sub_diag, skipn_all. cbn. rewrite app_nil_r. reflexivity.
    + rewrite Ht, zlen_app. reflexivity.
    + constructor.
      * exists (length p). split; [rewrite app_length; cbn; lia | exact Hdisk].
      * eapply Forall_impl; [|exact Hs]. intros x. apply prefix_state_extend.
  - constructor; cbn.
    + exact Ha.
    + exists k. split; [rewrite app_length; cbn; lia|]. split.
      * rewrite Hd. rewrite firstn_app. replace (k - length p)%nat with 0%nat by lia. cbn. rewrite app_nil_r. reflexivity.
      * rewrite Hb. rewrite skipn_app. replace (k - length p)%nat with 0%nat by lia. cbn.
        rewrite concat_app. cbn. rewrite app_nil_r. reflexivity.
    + exact Ht.
    + eapply Forall_impl; [|exact Hs]. intros x. apply prefix_state_extend.
Qed.

Lemma inv_fold cap sul : forall vs p s, Inv sul p s -> Inv sul (p ++ vs) (fold_left (add_bytes cap) vs s).
Proof.
  induction vs as [|v vs IH]; intros p s H; cbn [fold_left].
  - rewrite app_nil_r. exact H.
  - replace (p ++ v :: vs) with ((p ++ [v]) ++ vs) by (rewrite <- app_assoc; reflexivity).
    apply IH. apply inv_add. exact H.
Qed.

Theorem run_output_correct cap disk0 sul vrs :
  let s := run_output cap disk0 sul vrs in
  o_disk s = sul ++ concat vrs
  /\ o_total s = zlen (sul ++ concat vrs)
  /\ Forall (is_prefix_state sul vrs) (o_snaps s).
Proof.
  cbn zeta. unfold run_output.
  pose proof (inv_fold cap sul vrs [] _ (inv_init disk0 sul)) as H. cbn [app] in H.
  set (s := fold_left (add_bytes cap) vrs (write_bytes (o_init disk0) sul)) in *.
  destruct H as [Ha (k & Hk & Hd & Hb) Ht Hs].
  unfold flush, write_bytes. rewrite Ha. cbn.
  assert (Hdisk : o_disk s ++ o_buf s = sul ++ concat vrs).
  { rewrite Hd, Hb, <- app_assoc, <- concat_app, firstn_skipn. reflexivity. }
  split; [exact Hdisk|]. split.
  - rewrite Ht, <- Hdisk, zlen_app. reflexivity.
  - constructor; [|exact Hs]. exists (length vrs). split; [lia|]. rewrite firstn_all. exact Hdisk.
Qed.

(* the first physical write replaces whatever the target held *)
Theorem run_output_replaces cap d1 d2 sul vrs :
  o_disk (run_output cap d1 sul vrs) = o_disk (run_output cap d2 sul vrs)
  /\ o_snaps (run_output cap d1 sul vrs) = o_snaps (run_output cap d2 sul vrs).
Proof. unfold run_output, o_init, write_bytes. cbn. auto. Qed.

(* the buffer never holds more than its size when every record fits: no bytearray growth *)
Lemma buf_bounded cap : forall vrs s,
  Forall (fun v => zlen v <= cap) vrs -> zlen (o_buf s) <= cap ->
  zlen (o_buf (fold_left (add_bytes cap) vrs s)) <= cap.
Proof.
  induction vrs as [|v vs IH]; intros s Hall Hb; [exact Hb|].
  inv Hall. cbn [fold_left]. apply IH; [assumption|].
  unfold add_bytes. destruct (cap <? zlen (o_buf s) + zlen v) eqn:E; cbn; rewrite ?zlen_app; [cbn|]; lia.
Qed.

(* ---------- input chunks ---------- *)

Lemma slice_full {A} (l : list A) : slice 0 (zlen l) l = l.
Proof. unfold slice, firstnz, skipnz, zlen. cbn. rewrite Z.sub_0_r, Nat2Z.id. apply firstn_all. Qed.

Lemma full_chunks_concat {A} (rows : list A) c : 0 < c -> forall k i,
  0 <= i -> (i + Z.of_nat k) * c <= zlen rows ->
  concat (map (fun '(a, b) => slice a b rows) (full_chunks k i c)) = slice (i * c) ((i + Z.of_nat k) * c) rows.
Proof.
  intros Hc. induction k as [|k IH]; intros i Hi Hle.
  - cbn. unfold slice. replace ((i + 0) * c - i * c) with 0 by lia. reflexivity.
  - cbn [full_chunks map concat]. rewrite IH by lia.
    unfold slice, firstnz, skipnz.
    replace (Z.to_nat ((i + 1) * c)) with (Z.to_nat (i * c) + Z.to_nat c)%nat by lia.
    rewrite skipn_add_nat.
    set (l := skipn (Z.to_nat (i * c)) rows).
    replace (Z.to_nat ((i + 1) * c - i * c)) with (Z.to_nat c) by lia.
    replace (Z.to_nat ((i + 1 + Z.of_nat k) * c - (i + 1) * c)) with (Z.to_nat (Z.of_nat k * c)) by lia.
    replace (Z.to_nat ((i + Z.of_nat (S k)) * c - i * c)) with (Z.to_nat c + Z.to_nat (Z.of_nat k * c))%nat by lia.
    rewrite (firstn_add_nat (Z.to_nat c) (Z.to_nat (Z.of_nat k * c)) l). reflexivity.
Qed.

Theorem chunked_id {A} (rows : list A) chunk :
  match chunk with Some c => 0 < c | None => True end -> chunked rows chunk = rows.
Proof.
  unfold chunked, chunk_ranges. destruct chunk as [c|]; intros Hc.
  - pose proof (zlen_nonneg rows) as Hn. set (n := zlen rows) in *.
    pose proof (Z.div_pos n c Hn Hc) as Hq0.
    pose proof (Z.mod_pos_bound n c Hc) as Hr.
    pose proof (Z.div_mod n c ltac:(lia)) as Hdm.
    remember (n / c) as q eqn:Eq. remember (n mod c) as r eqn:Er.
    assert (Hqc : q * c = n - r) by lia.
    rewrite map_app, concat_app.
    rewrite (full_chunks_concat rows c Hc (Z.to_nat q) 0) by (rewrite ?Z2Nat.id by lia; fold n; lia).
    rewrite Z2Nat.id by lia. cbn [Z.mul Z.add]. rewrite Hqc.
    assert (Hl : length rows = Z.to_nat n) by (subst n; unfold zlen; lia).
    destruct (0 <? r) eqn:E.
    + cbn [map concat]. rewrite app_nil_r. unfold slice, firstnz, skipnz. cbn [Z.to_nat skipn].
      rewrite Z.sub_0_r.
      rewrite <- (firstn_skipn (Z.to_nat (n - r)) rows) at 3. f_equal.
      rewrite firstn_all2; [reflexivity|]. rewrite skipn_length. lia.
    + cbn [map concat]. rewrite app_nil_r. unfold slice, firstnz, skipnz. cbn [Z.to_nat skipn].
      rewrite Z.sub_0_r. apply firstn_all2. lia.
  - cbn [map concat]. rewrite app_nil_r. apply slice_full.
Qed.

(* the buffered writer produces exactly write_file's bytes, whatever the buffer size and the prior content *)
Theorem write_buffered_file c recs cap disk0 st :
  write_buffered c recs cap disk0 = OK st ->
  write_file c recs = OK (o_disk st) /\ o_total st = zlen (o_disk st).
Proof.
  unfold write_buffered, write_file. destruct (check_vrl (sul_vrl c)); cbn [negb]; [|discriminate].
  destruct (sul_bytes c) as [s|]; cbn [bind]; [|discriminate].
  destruct (vrs_of_recs (sul_vrl c) recs) as [vs|]; cbn [bind]; [|discriminate].
  intros H. inv H. destruct (run_output_correct cap disk0 s vs) as (-> & -> & _). split; reflexivity.
Qed.

Theorem write_buffered_total c recs cap disk0 bs :
  write_file c recs = OK bs -> exists st, write_buffered c recs cap disk0 = OK st.
Proof.
  unfold write_buffered, write_file. destruct (check_vrl (sul_vrl c)); cbn [negb]; [|discriminate].
  destruct (sul_bytes c) as [s|]; cbn [bind]; [|discriminate].
  destruct (vrs_of_recs (sul_vrl c) recs) as [vs|]; cbn [bind]; [|discriminate]. eauto.
Qed.
