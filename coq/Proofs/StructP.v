(* StructP.v — structural invariant of reachable builder states: every item has one attribute state per schema
   attribute of its type, every set only lists existing items of the set's own type, and the physical registry only
   names existing sets of the registered type. Preserved by every API call. Used by FileP.v. *)
From DV Require Import Model.ApiDispatch Proofs.BaseP Proofs.PrimP Proofs.BuilderP Proofs.WriteP.
From Coq Require Import Lia.

Definition isig (it : item) : nat * nat := (i_ty it, length (i_attrs it)).
Definition sig_len_ok (s : nat * nat) : Prop := snd s = length (td_attrs (tdef_at (fst s))).
Definition item_len_ok (it : item) : Prop := sig_len_ok (isig it).

Definition dummy_set : sset := {| s_ty := 0; s_name := None; s_items := [] |}.

Definition entry_ok (sets : list sset) (k : nat) (ns : oname * nat) : Prop :=
  (snd ns < length sets)%nat /\ s_ty (nth (snd ns) sets dummy_set) = k.
Definition reg_ok (sets : list sset) (r : reg) : Prop := Forall (fun kd => Forall (entry_ok sets (fst kd)) (snd kd)) r.

Definition set_ok (sigs : list (nat * nat)) (s : sset) : Prop :=
  Forall (fun i => (i < length sigs)%nat /\ fst (nth i sigs (isig dummy_item)) = s_ty s) (s_items s) /\ NoDup (s_items s).

Record struct_ok (sigs : list (nat * nat)) (sets : list sset) (phys : reg) : Prop := {
  so_len : Forall sig_len_ok sigs;
  so_sets : Forall (set_ok sigs) sets;
  so_phys : reg_ok sets phys }.

Definition Inv_struct (st : bstate) : Prop := struct_ok (map isig (b_items st)) (b_sets st) (b_phys st).

(* ---- consequences in the form the proofs use ---- *)
Lemma inv_item_len st i : Inv_struct st -> (i < length (b_items st))%nat -> item_len_ok (item_at st i).
Proof.
  intros [Hl _ _] Hi. rewrite Forall_forall in Hl. apply Hl. unfold item_at.
  change (isig (nth i (b_items st) dummy_item)) with ((fun x => isig x) (nth i (b_items st) dummy_item)).
  rewrite <- map_nth. apply nth_In. rewrite map_length. exact Hi.
Qed.

Lemma inv_set_items st sid i :
  Inv_struct st -> In i (s_items (set_at st sid)) -> (i < length (b_items st))%nat /\ i_ty (item_at st i) = s_ty (set_at st sid).
Proof.
  intros [_ Hs _] Hin. unfold set_at in *. fold dummy_set in *.
  destruct (Nat.lt_ge_cases sid (length (b_sets st))) as [Hlt|Hge].
  - rewrite Forall_forall in Hs. specialize (Hs _ (nth_In _ dummy_set Hlt)). unfold set_ok in Hs. destruct Hs as [Hs _]. rewrite Forall_forall in Hs.
    specialize (Hs i Hin). rewrite map_length in Hs. destruct Hs as [H1 H2]. split; [exact H1|].
    unfold item_at. rewrite <- H2. rewrite (map_nth isig). reflexivity.
  - rewrite nth_overflow in Hin by exact Hge. destruct Hin.
Qed.

Lemma inv_set_nodup st sid : Inv_struct st -> NoDup (s_items (set_at st sid)).
Proof.
  intros [_ Hs _]. unfold set_at. fold dummy_set.
  destruct (Nat.lt_ge_cases sid (length (b_sets st))) as [Hlt|Hge].
  - rewrite Forall_forall in Hs. apply (Hs _ (nth_In _ dummy_set Hlt)).
  - rewrite nth_overflow by exact Hge. constructor.
Qed.

(* ---- states with the same signature ---- *)
Lemma struct_same st st' :
  map isig (b_items st') = map isig (b_items st) -> b_sets st' = b_sets st -> b_phys st' = b_phys st -> Inv_struct st -> Inv_struct st'.
Proof. unfold Inv_struct. intros -> -> ->. auto. Qed.

Lemma set_item_struct st i it : isig it = isig (item_at st i) -> Inv_struct st -> Inv_struct (set_item st i it).
Proof.
  intros E. apply struct_same; try reflexivity. cbn [set_item b_items]. apply upd_map_same.
  intros y Hy. rewrite E. unfold item_at. rewrite (nth_error_nth _ _ dummy_item Hy). reflexivity.
Qed.

Lemma set_lf_struct st l f : Inv_struct st -> Inv_struct (set_lf st l f).
Proof. apply struct_same; reflexivity. Qed.

(* ---- registry ---- *)
Lemma dict_find_in d n v : dict_find d n = Some v -> exists n', In (n', v) d.
Proof.
  induction d as [|[n1 v1] d IH]; cbn [dict_find]; [discriminate|].
  destruct (oname_eqb n n1); intros H; [inv H; eexists; left; reflexivity|].
  destruct (IH H) as [n' Hin]. exists n'. right. exact Hin.
Qed.

Lemma reg_find_ok sets r k n sid : reg_ok sets r -> reg_find r k n = Some sid -> entry_ok sets k (n, sid) .
Proof.
  unfold reg_find. intros Hr. induction Hr as [|[k' d] r' Hd _ IH]; cbn [reg_lookup dict_find]; [discriminate|].
  destruct (Nat.eqb_spec k k') as [->|Hne]; [|exact IH].
  intros H. destruct (dict_find_in _ _ _ H) as [n' Hin]. cbn [fst snd] in Hd. rewrite Forall_forall in Hd.
  exact (Hd _ Hin).
Qed.

Lemma reg_insert_ok sets k n sid : forall r, reg_ok sets r -> entry_ok sets k (n, sid) -> reg_ok sets (reg_insert r k n sid).
Proof.
  induction r as [|[k' d] r IH]; intros Hr He; cbn [reg_insert].
  - constructor; [|constructor]. cbn [fst snd]. constructor; [exact He | constructor].
  - inversion Hr as [|? ? Hd Hr']; subst. destruct (Nat.eqb_spec k k') as [->|Hne].
    + constructor; [|exact Hr']. cbn [fst snd] in *. apply Forall_app. split; [exact Hd|]. constructor; [exact He | constructor].
    + constructor; [exact Hd | apply IH; assumption].
Qed.

Lemma entry_ok_ext sets s k ns : entry_ok sets k ns -> entry_ok (sets ++ [s]) k ns.
Proof. unfold entry_ok. intros [H1 H2]. rewrite app_length, app_nth1 by exact H1. split; [lia | exact H2]. Qed.

Lemma reg_ok_ext sets s r : reg_ok sets r -> reg_ok (sets ++ [s]) r.
Proof.
  unfold reg_ok. intros H. eapply Forall_impl; [|exact H]. intros [k d] Hd. cbn [fst snd] in *.
  eapply Forall_impl; [|exact Hd]. intros ns. apply entry_ok_ext.
Qed.

Lemma gms_struct st ty sn st1 sid :
  get_or_make_set st ty sn = (st1, sid) -> Inv_struct st ->
  Inv_struct st1 /\ (sid < length (b_sets st1))%nat /\ s_ty (set_at st1 sid) = ty /\ b_items st1 = b_items st.
Proof.
  unfold get_or_make_set. cbv zeta. destruct (reg_find (b_phys st) ty _) as [s0|] eqn:Ef; intros H Hi; inv H.
  - destruct Hi as [Hl Hs Hp]. destruct (reg_find_ok _ _ _ _ _ Hp Ef) as [H1 H2]. cbn [snd] in *.
    split; [constructor; assumption|]. split; [exact H1|]. split; [exact H2 | reflexivity].
  - destruct Hi as [Hl Hs Hp]. unfold Inv_struct. cbn [b_items b_sets b_phys]. split; [|split; [|split; [|reflexivity]]].
    + constructor; [exact Hl | | ].
      * apply Forall_app. split; [exact Hs|]. constructor; [split; constructor | constructor].
      * apply reg_insert_ok; [apply reg_ok_ext; exact Hp|]. unfold entry_ok. cbn [snd]. rewrite app_length, nth_middle. cbn. split; [lia | reflexivity].
    + rewrite app_length. cbn. lia.
    + unfold set_at. cbn [b_sets]. rewrite nth_middle. reflexivity.
Qed.

(* ---- registration of a new item ---- *)
Lemma set_ok_ext sigs s x : set_ok sigs s -> set_ok (sigs ++ [x]) s.
Proof.
  unfold set_ok. intros [H Hn]. split; [|exact Hn]. eapply Forall_impl; [|exact H]. intros i [H1 H2]. rewrite app_length, app_nth1 by exact H1. split; [lia | exact H2].
Qed.

Lemma Forall_upd {A} (P : A -> Prop) : forall (l : list A) n x, Forall P l -> P x -> Forall P (upd l n x).
Proof.
  induction l as [|h t IH]; intros n x Hl Hx; [exact Hl|]. inversion Hl; subst. destruct n; cbn [upd]; constructor; auto.
Qed.

Lemma nth_upd_ty sets sid s d : s_ty s = s_ty (nth sid sets d) -> forall k, s_ty (nth k (upd sets sid s) d) = s_ty (nth k sets d).
Proof.
  intros E k. destruct (Nat.eq_dec sid k) as [->|Hne]; [|rewrite nth_upd_other by exact Hne; reflexivity].
  destruct (Nat.lt_ge_cases k (length sets)); [rewrite nth_upd_same by assumption; exact E|].
  rewrite !nth_overflow; [reflexivity | assumption | rewrite length_upd; assumption].
Qed.

Lemma register_struct st sid it :
  Inv_struct st -> item_len_ok it -> i_ty it = s_ty (set_at st sid) -> Inv_struct (register st sid it).
Proof.
  intros [Hl Hs Hp] Hlen Hty. unfold Inv_struct, register. cbn [b_items b_sets b_phys]. rewrite map_app. cbn [map].
  constructor.
  - apply Forall_app. split; [exact Hl | constructor; [exact Hlen | constructor]].
  - apply Forall_upd.
    + eapply Forall_impl; [|exact Hs]. intros s. apply set_ok_ext.
    + assert (Hsid : set_ok (map isig (b_items st)) (set_at st sid)).
      { unfold set_at. destruct (Nat.lt_ge_cases sid (length (b_sets st))) as [Hlt|Hge].
        - rewrite Forall_forall in Hs. exact (Hs _ (nth_In _ _ Hlt)).
        - rewrite nth_overflow by exact Hge. split; constructor. }
      destruct (set_ok_ext _ _ (isig it) Hsid) as [Hall Hnd]. destruct Hsid as [Hall0 _].
      unfold set_ok. cbn [s_items s_ty]. split.
      * apply Forall_app. split; [exact Hall|].
        constructor; [|constructor]. rewrite app_length, map_length. cbn [length]. split; [lia|].
        rewrite app_nth2 by (rewrite map_length; lia). rewrite map_length, Nat.sub_diag. cbn [nth isig fst]. exact Hty.
      * apply NoDup_app_snoc; [exact Hnd|]. intros Hin. rewrite Forall_forall in Hall0. destruct (Hall0 _ Hin) as [Hlt _].
        rewrite map_length in Hlt. lia.
  - unfold reg_ok in *. eapply Forall_impl; [|exact Hp]. intros [k d] Hd. cbn [fst snd] in *.
    eapply Forall_impl; [|exact Hd]. intros ns [H1 H2]. unfold entry_ok. rewrite length_upd. split; [exact H1|].
    rewrite <- H2. apply nth_upd_ty. reflexivity.
Qed.

(* ---- attribute setting keeps the signature ---- *)
Lemma set_value_sig hc st it idx r it' : set_value hc st it idx r = OK it' -> isig it' = isig it.
Proof. unfold set_value. intros H. bind_inv H. inv H. unfold isig. cbn [i_ty i_attrs]. rewrite length_upd. reflexivity. Qed.
Lemma set_units_sig hc st it idx r it' : set_units hc st it idx r = OK it' -> isig it' = isig it.
Proof. unfold set_units. intros H. bind_inv H. inv H. unfold isig. cbn [i_ty i_attrs]. rewrite length_upd. reflexivity. Qed.
Lemma set_attributes_sig hc st : forall kw it it', set_attributes hc st it kw = OK it' -> isig it' = isig it.
Proof.
  induction kw as [|[idx p] kw IH]; intros it it' H; [inv H; reflexivity|].
  cbn [set_attributes] in H. bind_inv H. rewrite (IH _ _ H). clear H IH.
  destruct p as [r|v u].
  - eapply set_value_sig; eassumption.
  - apply bind_ok in H0. destruct H0 as (a0 & Hv1 & Hu1).
    assert (Ha : isig a0 = isig it) by (destruct v; [eapply set_value_sig; eassumption | inv Hv1; reflexivity]).
    rewrite <- Ha. destruct u; [eapply set_units_sig; eassumption | inv Hu1; reflexivity].
Qed.

Lemma add_common_struct hc st l ty name sn org dflt kw ds cast st' out :
  add_common hc st l ty name sn org dflt kw ds cast = (st', out) -> Inv_struct st -> Inv_struct st'.
Proof.
  unfold add_common. destruct (lf_at st l) as [f|]; [|intros H; inv H; auto].
  destruct (get_or_make_set st ty sn) as [st1 sid] eqn:Hg. intros H Hi.
  destruct (gms_struct _ _ _ _ _ Hg Hi) as (Hi1 & Hsid & Hty & _).
  assert (Hi2 : Inv_struct (set_lf st1 l (try_add_set st1 f ty sn sid))) by (apply set_lf_struct; exact Hi1).
  destruct name; try (inv H; exact Hi2).
  destruct (hc && negb (hc_string s)); [inv H; exact Hi2|].
  match type of H with context [match ?o with OK _ => _ | Err _ => _ end] => destruct o end; [|inv H; exact Hi2].
  match type of H with context [set_attributes ?a ?b ?c ?d] => destruct (set_attributes a b c d) as [it|] eqn:Hs end; [|inv H; exact Hi2].
  injection H as <- <-.
  apply set_attributes_sig in Hs.
  apply register_struct; [exact Hi2 | |].
  - unfold item_len_ok. rewrite Hs. unfold sig_len_ok, isig. cbn [fst snd i_ty i_attrs]. apply repeat_length.
  - assert (E : i_ty it = ty) by (apply (f_equal fst) in Hs; exact Hs). rewrite E. symmetry. exact Hty.
Qed.

Lemma fill_some_sig mine o : forall items k, map isig (fill_some mine o k items) = map isig items.
Proof.
  induction items as [|it r IH]; intros k; [reflexivity|]. cbn [fill_some map]. rewrite IH. f_equal.
  destruct (existsb (Nat.eqb k) mine); [|reflexivity]. unfold fill_origin. destruct (i_origin it); reflexivity.
Qed.

Theorem step_inv_struct ps st o ps' st' out : step ps st o = (ps', st', out) -> Inv_struct st -> Inv_struct st'.
Proof.
  destruct o; unfold step.
  - unfold add_lf. destruct hid; try solve [intros H; inv H; auto]. destruct seq; try solve [intros H; inv H; auto].
    repeat match goal with |- context [if ?c then _ else _] => destruct c end; intros H Hi; inv H; exact Hi.
  - destruct (add_common (p_hc ps) st l ty name sn origin default_origin kw None None) as [s1 o1] eqn:E.
    intros H; injection H as <- <- <-. eapply add_common_struct; eassumption.
  - destruct (add_origin (p_hc ps) st l name sn origin kw) as [s1 o1] eqn:E. intros H Hi; injection H as <- <- <-.
    unfold add_origin in E. destruct (lf_at st l) as [f|]; [|inv E; exact Hi].
    destruct (get_or_make_set st T_ORIGIN sn) as [st1 sid] eqn:Hg.
    destruct (gms_struct _ _ _ _ _ Hg Hi) as (Hi0 & _).
    assert (Hi1 : Inv_struct (set_lf st1 l (try_add_set st1 f T_ORIGIN sn sid))) by (apply set_lf_struct; exact Hi0).
    match type of E with context [match ?c with Some _ => _ | None => _ end = _] => destruct c end; [inv E; exact Hi1|].
    match type of E with context [add_common ?a ?b ?c ?d ?e0 ?f0 ?g ?h ?i ?j ?k] =>
      destruct (add_common a b c d e0 f0 g h i j k) as [st3 out3] eqn:Ea end.
    assert (Hi3 : Inv_struct st3) by (eapply add_common_struct; [exact Ea | exact Hi1]).
    destruct out3 as [[iid|]|e3]; try (inv E; exact Hi3). inv E.
    assert (Hi4 : Inv_struct (origin_fsn_default (p_hc ps) st3 sid iid)).
    { unfold origin_fsn_default. destruct (fst (nth _ (i_attrs (item_at st3 iid)) (SPNone, None))); try exact Hi3.
      destruct (p_hc ps); [|exact Hi3]. apply set_item_struct; [|exact Hi3].
      unfold isig. cbn [i_ty i_attrs]. rewrite length_upd. reflexivity. }
    unfold origin_backfill. match goal with |- context [if ?c then _ else _] => destruct c end; [|exact Hi4].
    apply set_lf_struct. revert Hi4. apply struct_same; try reflexivity. cbn [b_items]. apply fill_some_sig.
  - destruct (add_channel (p_hc ps) st l name sn origin kw bad_data data ds cast) as [s1 o1] eqn:E. intros H Hi; injection H as <- <- <-.
    unfold add_channel in E. destruct (lf_at st l) as [f|]; [|inv E; exact Hi].
    destruct bad_data; [inv E; exact Hi|].
    destruct (unique_dataset_name st f _ ds); [|inv E; exact Hi].
    destruct cast as [[c|]|].
    + destruct (add_common (p_hc ps) st l T_CHANNEL name sn origin default_origin kw (Some a) (Some c)) as [st3 out3] eqn:Ea.
      assert (Hi3 : Inv_struct st3) by (eapply add_common_struct; eassumption).
      destruct out3 as [[iid|]|e3]; [destruct data; [destruct (lf_at st3 l)|]|..]; inv E; try (apply set_lf_struct); exact Hi3.
    + destruct (get_or_make_set st T_CHANNEL sn) as [st1 sid] eqn:Hg. inv E.
      apply set_lf_struct. eapply gms_struct; eassumption.
    + destruct (add_common (p_hc ps) st l T_CHANNEL name sn origin default_origin kw (Some a) None) as [st3 out3] eqn:Ea.
      assert (Hi3 : Inv_struct st3) by (eapply add_common_struct; eassumption).
      destruct out3 as [[iid|]|e3]; [destruct data; [destruct (lf_at st3 l)|]|..]; inv E; try (apply set_lf_struct); exact Hi3.
  - destruct (add_frame (p_hc ps) st l name sn origin channels chan_attr_idx kw) as [s1 o1] eqn:E. intros H Hi; injection H as <- <- <-.
    unfold add_frame in E. destruct channels; try (inv E; exact Hi). destruct l0; [inv E; exact Hi|].
    match type of E with context [if ?c then _ else _] => destruct c end; [|inv E; exact Hi].
    eapply add_common_struct; eassumption.
  - unfold assign. destruct (nth_error (b_items st) i) as [it|] eqn:En; [|intros H; inv H; auto].
    intros H Hi.
    assert (Hit : item_at st i = it) by (apply nth_error_nth; exact En).
    destruct units.
    + destruct (set_units (p_hc ps) st it idx r) as [it'|] eqn:Es; [|inv H; exact Hi]. apply set_units_sig in Es.
      injection H as <- <- <-. apply set_item_struct; [|exact Hi]. rewrite Hit. exact Es.
    + destruct (set_value (p_hc ps) st it idx r) as [it'|] eqn:Es; [|inv H; exact Hi]. apply set_value_sig in Es.
      injection H as <- <- <-. apply set_item_struct; [|exact Hi]. rewrite Hit. exact Es.
  - unfold add_nofmt_data. destruct (lf_at st l); intros H Hi; inv H; [apply set_lf_struct|]; exact Hi.
  - intros H; inv H; auto.
  - intros H; inv H; auto.
  - destruct (p_stack ps); intros H; inv H; auto.
  - unfold set_origin. destruct (nth_error (b_items st) i) as [it|] eqn:En; [|intros H; inv H; auto].
    intros H Hi.
    assert (Hit : item_at st i = it) by (apply nth_error_nth; exact En).
    assert (Hs : forall o, isig (with_origin it o) = isig (item_at st i)) by (intros o; rewrite Hit; reflexivity).
    destruct r; inv H; try exact Hi. apply set_item_struct; [apply Hs | exact Hi].
  - unfold set_header. destruct (lf_at st l); [|intros H; inv H; auto].
    destruct is_id, r; intros H Hi; inv H; try exact Hi; apply set_lf_struct; exact Hi.
Qed.

Theorem run_ops_inv_struct : forall ops ps st, Inv_struct st -> Inv_struct (bstate_of (run_ops ps st ops)).
Proof.
  induction ops as [|o ops IH]; intros ps st Hi; [exact Hi|].
  cbn [run_ops]. destruct (step ps st o) as [[ps1 st1] out] eqn:E.
  specialize (IH ps1 st1 (step_inv_struct _ _ _ _ _ _ E Hi)).
  destruct (run_ops ps1 st1 ops) as [[ps2 st2] outs]. exact IH.
Qed.

Lemma inv_struct_init : Inv_struct b_init.
Proof. constructor; constructor. Qed.
