(* BaseP.v — lemmas about Base.v *)
From DV Require Import Model.Base.
From Coq Require Import Lia ZifyBool.
Ltac Zify.zify_post_hook ::= Z.to_euclidean_division_equations.

Ltac inv H := inversion H; subst; clear H.

Lemma zlen_nonneg {A} (l : list A) : 0 <= zlen l.
Proof. unfold zlen. lia. Qed.

Lemma zlen_app {A} (a b : list A) : zlen (a ++ b) = zlen a + zlen b.
Proof. unfold zlen. rewrite app_length. lia. Qed.

Lemma zlen_cons {A} (x : A) (l : list A) : zlen (x :: l) = 1 + zlen l.
Proof. unfold zlen. cbn [length]. lia. Qed.

Lemma zlen_nil {A} : zlen (@nil A) = 0.
Proof. reflexivity. Qed.

Lemma zlen_repeat {A} (x : A) n : 0 <= n -> zlen (zrepeat x n) = n.
Proof. intros. unfold zlen, zrepeat. rewrite repeat_length. lia. Qed.

Lemma firstnz_app_exact {A} (a b : list A) : firstnz (zlen a) (a ++ b) = a.
Proof.
  unfold firstnz, zlen. rewrite Nat2Z.id.
  rewrite firstn_app, Nat.sub_diag, firstn_all. cbn. apply app_nil_r.
Qed.

Lemma skipnz_app_exact {A} (a b : list A) : skipnz (zlen a) (a ++ b) = b.
Proof.
  unfold skipnz, zlen. rewrite Nat2Z.id.
  rewrite skipn_app, Nat.sub_diag, skipn_all. reflexivity.
Qed.

Lemma firstnz_skipnz {A} n (l : list A) : firstnz n l ++ skipnz n l = l.
Proof. apply firstn_skipn. Qed.

Lemma zlen_firstnz {A} n (l : list A) : 0 <= n <= zlen l -> zlen (firstnz n l) = n.
Proof. intros. unfold zlen, firstnz in *. rewrite firstn_length. lia. Qed.

Lemma zlen_skipnz {A} n (l : list A) : 0 <= n <= zlen l -> zlen (skipnz n l) = zlen l - n.
Proof. intros. unfold zlen, skipnz in *. rewrite skipn_length. lia. Qed.

Lemma list_eqb_eq a b : list_eqb a b = true <-> a = b.
Proof.
  revert b. induction a as [|x a IH]; intros [|y b]; cbn [list_eqb]; split; intros H; try congruence; try reflexivity.
  - apply andb_prop in H. destruct H as [H1 H2]. apply Z.eqb_eq in H1. apply IH in H2. congruence.
  - inversion H; subst. rewrite Z.eqb_refl. cbn. apply IH. reflexivity.
Qed.

Lemma all_bytes_app a b : all_bytes (a ++ b) = all_bytes a && all_bytes b.
Proof. apply forallb_app. Qed.

Lemma all_ascii_bytes s : all_ascii s = true -> all_bytes s = true.
Proof.
  unfold all_ascii, all_bytes. rewrite !forallb_forall. intros H x Hx. specialize (H x Hx).
  unfold is_ascii, is_byte in *. lia.
Qed.

(* big-endian digits *)
Lemma be2_bytes v : 0 <= v < 65536 -> all_bytes (be2 v) = true.
Proof. intros. unfold be2, all_bytes, is_byte. cbn [forallb]. lia. Qed.

Lemma be4_bytes v : 0 <= v < 4294967296 -> all_bytes (be4 v) = true.
Proof. intros. unfold be4, all_bytes, is_byte. cbn [forallb]. lia. Qed.

Lemma of_be2_be2 v : 0 <= v < 65536 -> of_be2 (v / 256) (v mod 256) = v.
Proof. intros. unfold of_be2. lia. Qed.

Lemma of_be4_be4 v : 0 <= v < 4294967296 ->
  of_be4 (v / 16777216) ((v / 65536) mod 256) ((v / 256) mod 256) (v mod 256) = v.
Proof. intros. unfold of_be4. lia. Qed.

Lemma In_firstn_aux {A} (x : A) n l : In x (firstn n l) -> In x l.
Proof. intros H. rewrite <- (firstn_skipn n l). apply in_or_app. left. exact H. Qed.

Lemma In_skipn_aux {A} (x : A) n l : In x (skipn n l) -> In x l.
Proof. intros H. rewrite <- (firstn_skipn n l). apply in_or_app. right. exact H. Qed.

Lemma all_bytes_firstnz n l : all_bytes l = true -> all_bytes (firstnz n l) = true.
Proof.
  unfold all_bytes. rewrite !forallb_forall. intros H x Hx. apply H. eapply In_firstn_aux. exact Hx.
Qed.

Lemma all_bytes_skipnz n l : all_bytes l = true -> all_bytes (skipnz n l) = true.
Proof.
  unfold all_bytes. rewrite !forallb_forall. intros H x Hx. apply H. eapply In_skipn_aux. exact Hx.
Qed.

Lemma all_bytes_repeat x n : is_byte x = true -> all_bytes (zrepeat x n) = true.
Proof.
  intros H. unfold all_bytes, zrepeat. rewrite forallb_forall. intros y Hy. apply repeat_spec in Hy. subst. exact H.
Qed.

Lemma skipn_add_nat {A} (a b : nat) : forall l : list A, skipn (a + b) l = skipn b (skipn a l).
Proof. induction a as [|a IH]; intros l; [reflexivity|]. destruct l; [destruct b; reflexivity|]. cbn. apply IH. Qed.

Lemma firstn_add_nat {A} (a b : nat) : forall l : list A, firstn (a + b) l = firstn a l ++ firstn b (skipn a l).
Proof.
  induction a as [|a IH]; intros l; [reflexivity|]. destruct l; [destruct b; reflexivity|]. cbn. f_equal. apply IH.
Qed.

Lemma NoDup_app_snoc {A} (l : list A) (x : A) : NoDup l -> ~ In x l -> NoDup (l ++ [x]).
Proof.
  intros Hl Hx. induction l as [|y l IH]; cbn; [constructor; [tauto | constructor]|].
  inv Hl. constructor.
  - intros Hin. apply in_app_or in Hin. destruct Hin as [Hin | [-> | []]]; [contradiction|]. apply Hx. left. reflexivity.
  - apply IH; [assumption|]. intros Hin. apply Hx. right. exact Hin.
Qed.

Lemma nth_upd_same {A} (d : A) : forall (l : list A) n x, (n < length l)%nat -> nth n (upd l n x) d = x.
Proof. induction l as [|h t IH]; intros n x H; [cbn in H; lia|]. destruct n; cbn; [reflexivity|]. apply IH. cbn in H. lia. Qed.

Lemma nth_upd_other {A} (d : A) : forall (l : list A) n m x, n <> m -> nth m (upd l n x) d = nth m l d.
Proof.
  induction l as [|h t IH]; intros n m x H; [destruct n; reflexivity|].
  destruct n, m; cbn; try reflexivity; try congruence. apply IH. congruence.
Qed.

Lemma length_upd {A} : forall (l : list A) n x, length (upd l n x) = length l.
Proof. induction l as [|h t IH]; intros n x; [reflexivity|]. destruct n; cbn; [reflexivity|]. f_equal. apply IH. Qed.

Lemma nth_firstn_lt {A} (d : A) : forall k i (l : list A), (i < k)%nat -> nth i (firstn k l) d = nth i l d.
Proof.
  induction k as [|k IH]; intros i l H; [lia|]. destruct l as [|x l]; [destruct i; reflexivity|].
  destruct i; cbn; [reflexivity|]. apply IH. lia.
Qed.

Lemma nth_skipn_add {A} (d : A) : forall a i (l : list A), nth i (skipn a l) d = nth (a + i) l d.
Proof.
  induction a as [|a IH]; intros i l; [reflexivity|]. destruct l as [|x l]; [destruct i; reflexivity|]. cbn. apply IH.
Qed.

Lemma map_seq_shift {A} (g : nat -> A) a k : map (fun i => g (a + i)%nat) (seq 0 k) = map g (seq a k).
Proof.
  rewrite <- (map_map (fun i => (a + i)%nat) g). f_equal.
  revert a. induction k as [|k IH]; intros a; [reflexivity|].
  cbn [seq map]. rewrite Nat.add_0_r. f_equal.
  rewrite <- seq_shift, map_map. rewrite <- (IH (S a)). apply map_ext. intros i. lia.
Qed.

Lemma firstn_seq a n k : (k <= n)%nat -> firstn k (seq a n) = seq a k.
Proof. revert a n. induction k as [|k IH]; intros a n H; [reflexivity|]. destruct n; [lia|]. cbn. f_equal. apply IH. lia. Qed.

Lemma skipn_seq a n k : skipn k (seq a n) = seq (a + k) (n - k).
Proof.
  revert a n. induction k as [|k IH]; intros a n; [rewrite Nat.add_0_r, Nat.sub_0_r; reflexivity|].
  destruct n; [reflexivity|]. cbn [seq skipn]. rewrite IH. f_equal; lia.
Qed.

Lemma slice_slice {A} (l : list A) from to_ start stop :
  0 <= from -> 0 <= start <= stop -> from + stop <= to_ ->
  slice (from + start) (from + stop) l = slice start stop (slice from to_ l).
Proof.
  intros H1 H2 H3. unfold slice, firstnz, skipnz.
  rewrite skipn_firstn_comm. rewrite firstn_firstn.
  replace (Z.to_nat (from + start)) with (Z.to_nat from + Z.to_nat start)%nat by lia.
  rewrite skipn_add_nat. f_equal. lia.
Qed.
