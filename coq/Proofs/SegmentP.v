(* SegmentP.v — the splitting loop, segments and visible records (C01, C02, C15). *)
From DV Require Import Model.Reader Proofs.BaseP Proofs.PrimP.
From Coq Require Import Lia ZifyBool.
Ltac Zify.zify_post_hook ::= Z.to_euclidean_division_equations.

Definition zsum (l : list Z) : Z := fold_right Z.add 0 l.

(* ---------- the plan: total, every chunk 1..cap, sizes add up ---------- *)

Lemma plan_total : forall fuel cap rem,
  12 <= cap -> 0 <= rem -> (Z.to_nat rem < fuel)%nat ->
  exists sizes, plan fuel cap rem = OK sizes /\ Forall (fun n => 1 <= n <= cap) sizes /\ zsum sizes = rem.
Proof.
  induction fuel as [|f IH]; intros cap rem Hc Hr Hf; [lia|].
  cbn [plan]. destruct (rem <=? 0) eqn:E0.
  - exists []. split; [reflexivity|]. split; [constructor | cbn; lia].
  - set (n0 := Z.min rem cap). set (fr0 := rem - n0).
    destruct ((0 <? fr0) && (fr0 <? 12)) eqn:Es.
    + destruct (IH cap 12 Hc ltac:(lia) ltac:(lia)) as (rest & -> & Hall & Hsum).
      cbn [bind]. eexists. split; [reflexivity|]. split.
      * constructor; [subst n0 fr0; lia | exact Hall].
      * cbn [zsum fold_right]. fold (zsum rest). subst n0 fr0. lia.
    + destruct (IH cap fr0 Hc ltac:(subst n0 fr0; lia) ltac:(subst n0 fr0; lia)) as (rest & -> & Hall & Hsum).
      cbn [bind]. eexists. split; [reflexivity|]. split.
      * constructor; [subst n0 fr0; lia | exact Hall].
      * cbn [zsum fold_right]. fold (zsum rest). subst n0 fr0. lia.
Qed.

(* no chunk except possibly a shifted one is shorter than 12: kept for documentation of the loop's intent *)
Lemma plan_nonempty : forall fuel cap rem sizes, 0 < rem -> plan fuel cap rem = OK sizes -> sizes <> [].
Proof.
  intros [|f] cap rem sizes Hr; cbn [plan]; [discriminate|].
  destruct (rem <=? 0) eqn:E; [lia|]. intros H. bind_inv H. inv H. discriminate.
Qed.

(* ---------- cutting ---------- *)

Lemma cut_concat : forall sizes body,
  Forall (fun n => 0 <= n) sizes -> zsum sizes = zlen body -> concat (cut sizes body) = body.
Proof.
  induction sizes as [|n ns IH]; intros body Hall Hsum.
  - cbn in *. destruct body; [reflexivity|]. rewrite zlen_cons in Hsum. pose proof (zlen_nonneg body). lia.
  - cbn [cut concat]. inv Hall. cbn [zsum fold_right] in Hsum. fold (zsum ns) in Hsum.
    assert (Hns : 0 <= zsum ns). { clear -H2. induction ns; cbn; [lia|]. inv H2. fold (zsum ns). lia. }
    rewrite IH; [apply firstnz_skipnz | assumption |].
    rewrite zlen_skipnz; lia.
Qed.

Lemma cut_lengths : forall sizes body,
  Forall (fun n => 0 <= n) sizes -> zsum sizes = zlen body -> map zlen (cut sizes body) = sizes.
Proof.
  induction sizes as [|n ns IH]; intros body Hall Hsum; [reflexivity|].
  cbn [cut map]. inv Hall. cbn [zsum fold_right] in Hsum. fold (zsum ns) in Hsum.
  assert (Hns : 0 <= zsum ns). { clear -H2. induction ns; cbn; [lia|]. inv H2. fold (zsum ns). lia. }
  rewrite zlen_firstnz by lia. f_equal. apply IH; [assumption|]. rewrite zlen_skipnz; lia.
Qed.

Lemma cut_bytes : forall sizes body, all_bytes body = true -> Forall (fun c => all_bytes c = true) (cut sizes body).
Proof.
  induction sizes as [|n ns IH]; intros body Hb; cbn [cut]; constructor.
  - unfold all_bytes in *. rewrite forallb_forall in *. intros x Hx. apply Hb. unfold firstnz in Hx.
    eapply In_firstn_aux; eauto.
  - apply IH. unfold all_bytes in *. rewrite forallb_forall in *. intros x Hx. apply Hb. unfold skipnz in Hx.
    eapply In_skipn_aux; eauto.
Qed.

(* ---------- make_segment produces the bytes of a well-formed abstract segment ---------- *)

Definition aseg (eflr : bool) (ty : Z) (first last : bool) (chunk : bytes) : segment :=
  {| s_eflr := eflr; s_pred := negb first; s_succ := negb last; s_type := ty;
     s_chunk := chunk; s_padb := zrepeat (pad_count (zlen chunk)) (pad_count (zlen chunk)) |}.

Lemma pad_count_range n : 0 <= n -> 0 <= pad_count n <= 13 /\ Z.even (n + pad_count n + 4) = true
  /\ 16 <= n + pad_count n + 4 /\ (12 <= n -> pad_count n <= 1).
Proof.
  intros H. unfold pad_count.
  destruct (Z.odd (n + Z.max (12 - n) 0 + 4)) eqn:E; rewrite <- ?Z.negb_odd; repeat split; try lia.
  - rewrite Z.add_assoc. replace (n + Z.max (12 - n) 0 + 1 + 4) with (n + Z.max (12 - n) 0 + 4 + 1) by lia.
    rewrite Z.odd_add. rewrite E. reflexivity.
  - rewrite E. reflexivity.
Qed.

Lemma nonnil_zrepeat {A} (x : A) p : 0 <= p -> nonnil (zrepeat x p) = (0 <? p).
Proof.
  intros H. unfold zrepeat. destruct (Z.to_nat p) eqn:E; cbn.
  - symmetry. apply Z.ltb_ge. lia.
  - symmetry. apply Z.ltb_lt. lia.
Qed.

Lemma last_repeat {A} (x d : A) n : (0 < n)%nat -> last (repeat x n) d = x.
Proof.
  induction n as [|n IH]; [lia|]. intros _. destruct n; [reflexivity|].
  change (repeat x (S (S n))) with (x :: repeat x (S n)).
  change (last (x :: repeat x (S n)) d) with (last (repeat x (S n)) d). apply IH. lia.
Qed.

Lemma make_segment_ok eflr ty first last chunk :
  zlen chunk <= 65000 -> is_byte ty = true -> all_bytes chunk = true ->
  make_segment eflr ty first last chunk = OK (seg_bytes (aseg eflr ty first last chunk))
  /\ seg_wf (aseg eflr ty first last chunk) = true
  /\ seg_len (aseg eflr ty first last chunk) = zlen chunk + pad_count (zlen chunk) + 4.
Proof.
  intros Hn Hty Hb. pose proof (zlen_nonneg chunk) as H0.
  destruct (pad_count_range (zlen chunk) H0) as (Hp & Hev & H16 & _).
  set (p := pad_count (zlen chunk)) in *.
  assert (Hlen : seg_len (aseg eflr ty first last chunk) = zlen chunk + p + 4).
  { unfold seg_len, aseg. cbn [s_chunk s_padb]. rewrite zlen_repeat by lia. fold p. lia. }
  split; [|split; [|exact Hlen]].
  - unfold make_segment. fold p.
    unfold enc_unorm. destruct ((0 <=? zlen chunk + p + 4) && (zlen chunk + p + 4 <? 65536)) eqn:E1; [|lia].
    cbn [bind]. unfold enc_ushort.
    assert (Hattr : 0 <= seg_attr eflr first last (0 <? p) < 256).
    { unfold seg_attr, b2z. destruct eflr, first, last, (0 <? p); cbn; lia. }
    destruct ((0 <=? seg_attr eflr first last (0 <? p)) && (seg_attr eflr first last (0 <? p) <? 256)) eqn:E2; [|lia].
    cbn [bind]. f_equal. unfold seg_bytes. rewrite Hlen.
    unfold aseg. cbn [s_eflr s_pred s_succ s_type s_chunk s_padb]. fold p.
    rewrite !negb_involutive. rewrite nonnil_zrepeat by lia. reflexivity.
  - unfold seg_wf. rewrite Hlen. rewrite Hev.
    unfold aseg. cbn [s_type s_chunk s_padb]. fold p. rewrite Hty, Hb.
    rewrite all_bytes_repeat by (unfold is_byte; lia).
    replace (16 <=? zlen chunk + p + 4) with true by lia.
    replace (zlen chunk + p + 4 <? 65536) with true by lia. cbn [andb].
    unfold zrepeat. destruct (Z.to_nat p) eqn:Ep; [reflexivity|].
    rewrite <- Ep. rewrite last_repeat by lia.
    destruct (repeat p (Z.to_nat p)) eqn:Er; [rewrite Ep in Er; discriminate|].
    rewrite <- Er. fold (zrepeat p p). rewrite zlen_repeat by lia. apply Z.eqb_refl.
Qed.

(* ---------- the parser inverts the printer (completeness / unambiguity) ---------- *)

Lemma seg_attr_decode e f l p : let a := seg_attr e f l p in
  0 <= a < 256 /\ (128 <=? a) = e /\ Z.odd (a / 64) = negb f /\ Z.odd (a / 32) = negb l /\ Z.odd a = p
  /\ (a / 2) mod 16 = 0.
Proof. destruct e, f, l, p; vm_compute; repeat split; congruence. Qed.

Lemma last_app_nonnil {A} (a b : list A) d : b <> [] -> last (a ++ b) d = last b d.
Proof.
  intros Hb. induction a as [|x a IH]; [reflexivity|].
  cbn [app]. destruct (a ++ b) eqn:E.
  - destruct a; cbn in E; [congruence | discriminate].
  - change (last (x :: a0 :: l) d) with (last (a0 :: l) d). exact IH.
Qed.

Lemma parse_seg_print s rest : seg_wf s = true -> parse_seg (seg_bytes s ++ rest) = Some (s, rest).
Proof.
  intros Hwf. unfold seg_wf in Hwf.
  repeat (apply andb_prop in Hwf; destruct Hwf as [Hwf ?]).
  rename H into Hlast, H0 into Hpb, H1 into Hcb, H2 into Hty, H3 into Hlt, H4 into H16, Hwf into Hev.
  pose proof (zlen_nonneg (s_chunk s)) as Hc0. pose proof (zlen_nonneg (s_padb s)) as Hp0.
  unfold seg_bytes, be2. cbn [app]. unfold parse_seg.
  set (L := seg_len s) in *.
  set (a := seg_attr (s_eflr s) (negb (s_pred s)) (negb (s_succ s)) (nonnil (s_padb s))).
  destruct (seg_attr_decode (s_eflr s) (negb (s_pred s)) (negb (s_succ s)) (nonnil (s_padb s)))
    as (Ha & De & Dp & Ds & Dpad & Dz). fold a in Ha, De, Dp, Ds, Dpad, Dz.
  rewrite !negb_involutive in *.
  rewrite of_be2_be2 by lia.
  assert (Hb1 : is_byte (L / 256) = true) by (unfold is_byte; lia).
  assert (Hb2 : is_byte (L mod 256) = true) by (unfold is_byte; lia).
  assert (Hb3 : is_byte a = true) by (unfold is_byte; lia).
  rewrite Hb1, Hb2, Hb3, Hty. cbn [andb negb].
  rewrite Hev, H16. cbn [andb negb]. rewrite Dz. cbn [Z.eqb negb].
  assert (Hpl : L - 4 = zlen (s_chunk s ++ s_padb s)) by (rewrite zlen_app; unfold L, seg_len; lia).
  rewrite Hpl. rewrite take_app.
  rewrite all_bytes_app, Hcb, Hpb. cbn [andb negb].
  rewrite Dpad. rewrite <- Hpl.
  assert (HL : L = 4 + zlen (s_chunk s) + zlen (s_padb s)) by reflexivity.
  clearbody L. clear Hpl.
  destruct (s_padb s) as [|pb0 pbs] eqn:Epb.
  - cbn [nonnil andb]. rewrite app_nil_r. rewrite Z.sub_0_r.
    assert (L - 4 = zlen (s_chunk s)) by (rewrite zlen_nil in HL; lia).
    rewrite H. unfold firstnz, skipnz, zlen. rewrite Nat2Z.id, firstn_all, skipn_all.
    rewrite De, Dp, Ds. clear - Epb. destruct s as [e pr su t c pb]. cbn [s_eflr s_pred s_succ s_type s_chunk s_padb] in *.
    subst pb. reflexivity.
  - cbn [nonnil andb].
    rewrite last_app_nonnil by discriminate.
    apply Z.eqb_eq in Hlast. rewrite Hlast.
    assert (Hpc : (1 <=? zlen (pb0 :: pbs)) && (zlen (pb0 :: pbs) <=? L - 4) = true).
    { rewrite zlen_cons in *. pose proof (zlen_nonneg pbs). lia. }
    rewrite Hpc. cbn [negb].
    assert (L - 4 - zlen (pb0 :: pbs) = zlen (s_chunk s)) by lia.
    rewrite H. rewrite firstnz_app_exact, skipnz_app_exact.
    rewrite De, Dp, Ds. clear - Epb. destruct s as [e pr su t c pb]. cbn [s_eflr s_pred s_succ s_type s_chunk s_padb] in *.
    subst pb. reflexivity.
Qed.

Lemma zlen_seg_bytes s : zlen (seg_bytes s) = seg_len s.
Proof. unfold seg_bytes, seg_len, be2. rewrite !zlen_app. cbn [app]. rewrite !zlen_cons, zlen_nil. lia. Qed.

Lemma seg_wf_len s : seg_wf s = true -> Z.even (seg_len s) = true /\ 16 <= seg_len s.
Proof.
  unfold seg_wf. intros H. repeat (apply andb_prop in H; destruct H as [H ?]). split; [assumption | lia].
Qed.

Lemma parse_segs_print : forall segs fuel,
  forallb seg_wf segs = true -> (length segs < fuel)%nat ->
  parse_segs fuel (concat (map seg_bytes segs)) = Some segs.
Proof.
  induction segs as [|s ss IH]; intros fuel Hwf Hf.
  - destruct fuel; [lia|]. reflexivity.
  - destruct fuel as [|f]; [lia|]. cbn [forallb] in Hwf. apply andb_prop in Hwf. destruct Hwf as [Hs Hss].
    cbn [map concat parse_segs].
    destruct (seg_bytes s ++ concat (map seg_bytes ss)) eqn:E.
    + exfalso. assert (Hz : zlen (seg_bytes s ++ concat (map seg_bytes ss)) = 0) by (rewrite E; reflexivity).
      rewrite zlen_app, zlen_seg_bytes in Hz. pose proof (seg_wf_len s Hs). pose proof (zlen_nonneg (concat (map seg_bytes ss))). lia.
    + rewrite <- E. rewrite parse_seg_print by exact Hs. rewrite IH; [reflexivity | exact Hss | cbn in Hf; lia].
Qed.

Lemma concat_segs_even : forall segs, forallb seg_wf segs = true ->
  Z.even (zlen (concat (map seg_bytes segs))) = true /\ 16 * zlen segs <= zlen (concat (map seg_bytes segs)).
Proof.
  induction segs as [|s ss IH]; intros H; [split; reflexivity|].
  cbn [forallb] in H. apply andb_prop in H. destruct H as [Hs Hss].
  cbn [map concat]. rewrite zlen_app, zlen_seg_bytes, zlen_cons.
  destruct (IH Hss) as [IH1 IH2]. destruct (seg_wf_len s Hs) as [E1 E2]. split; [|lia].
  rewrite Z.even_add, E1, IH1. reflexivity.
Qed.

Lemma parse_vr_print maxlen segs rest :
  vr_wf maxlen segs = true -> vr_len segs < 65536 ->
  parse_vr maxlen (vr_bytes segs ++ rest) = Some (segs, rest).
Proof.
  intros Hwf Hlt. unfold vr_wf in Hwf. repeat (apply andb_prop in Hwf; destruct Hwf as [Hwf ?]).
  rename H into Hmax, H0 into H20, H1 into Hsegs, Hwf into Hnn.
  destruct (concat_segs_even segs Hsegs) as [Hev Hcnt].
  set (body := concat (map seg_bytes segs)) in *.
  pose proof (zlen_nonneg body) as Hb0.
  assert (HL : vr_len segs = 4 + zlen body) by reflexivity.
  unfold vr_bytes, be2. cbn [app]. fold body. unfold parse_vr.
  rewrite of_be2_be2 by lia.
  assert (Hb1 : is_byte (vr_len segs / 256) = true) by (unfold is_byte; lia).
  assert (Hb2 : is_byte (vr_len segs mod 256) = true) by (unfold is_byte; lia).
  rewrite Hb1, Hb2. cbn [andb negb Z.eqb Pos.eqb].
  assert (Hev' : Z.even (vr_len segs) = true) by (rewrite HL, Z.even_add, Hev; reflexivity).
  rewrite Hev', H20, Hmax. cbn [andb negb].
  replace (vr_len segs - 4) with (zlen body) by lia. rewrite take_app.
  unfold body. rewrite parse_segs_print.
  - destruct segs; [discriminate | reflexivity].
  - exact Hsegs.
  - fold body. unfold zlen in Hcnt. lia.
Qed.

Lemma zlen_vr_bytes segs : zlen (vr_bytes segs) = vr_len segs.
Proof. unfold vr_bytes, vr_len, be2. cbn [app]. rewrite !zlen_cons. lia. Qed.

Lemma parse_vrs_print : forall vrs fuel maxlen,
  Forall (fun v => vr_wf maxlen v = true /\ vr_len v < 65536) vrs -> (length vrs < fuel)%nat ->
  parse_vrs fuel maxlen (concat (map vr_bytes vrs)) = Some vrs.
Proof.
  induction vrs as [|v vs IH]; intros fuel maxlen Hwf Hf.
  - destruct fuel; [lia|]. reflexivity.
  - destruct fuel as [|f]; [lia|]. inv Hwf. destruct H1 as [Hv Hl].
    cbn [map concat parse_vrs].
    destruct (vr_bytes v ++ concat (map vr_bytes vs)) eqn:E.
    + exfalso. unfold vr_bytes, be2 in E. cbn in E. discriminate.
    + rewrite <- E. rewrite parse_vr_print by assumption. rewrite IH; [reflexivity | assumption | cbn in Hf; lia].
Qed.

(* ---------- the writer side: make_segments and visible records as abstract segments ---------- *)

Fixpoint asegs (eflr : bool) (ty : Z) (first : bool) (chunks : list bytes) : list segment :=
  match chunks with
  | [] => []
  | c :: cs => aseg eflr ty first (negb (nonnil cs)) c :: asegs eflr ty false cs
  end.

Definition chunk_ok (cap : Z) (c : bytes) : Prop := 1 <= zlen c <= cap /\ all_bytes c = true.

Lemma segs_of_chunks_ok : forall chunks eflr ty first cap,
  cap <= 65000 -> is_byte ty = true -> Forall (chunk_ok cap) chunks ->
  segs_of_chunks eflr ty first chunks = OK (map seg_bytes (asegs eflr ty first chunks)).
Proof.
  induction chunks as [|c cs IH]; intros eflr ty first cap Hcap Hty Hall; [reflexivity|].
  inv Hall. destruct H1 as [Hn Hb]. cbn [segs_of_chunks asegs map].
  replace (match cs with [] => true | _ :: _ => false end) with (negb (nonnil cs)) by (destruct cs; reflexivity).
  destruct (make_segment_ok eflr ty first (negb (nonnil cs)) c ltac:(lia) Hty Hb) as (-> & _ & _).
  cbn [bind]. rewrite (IH eflr ty false cap Hcap Hty H2). reflexivity.
Qed.

Lemma Forall_zsum_nonneg sizes cap : Forall (fun n => 1 <= n <= cap) sizes -> Forall (fun n => 0 <= n) sizes.
Proof. intros H. eapply Forall_impl; [|exact H]. cbn. intros; lia. Qed.

Lemma make_segments_ok cap r :
  12 <= cap <= 65000 -> is_byte (lr_type r) = true -> all_bytes (lr_body r) = true ->
  exists chunks,
    make_segments cap r = OK (map seg_bytes (asegs (lr_eflr r) (lr_type r) true chunks))
    /\ concat chunks = lr_body r /\ Forall (chunk_ok cap) chunks.
Proof.
  intros Hcap Hty Hb. unfold make_segments.
  destruct (cap <? 12) eqn:E; [lia|].
  destruct (plan_total (S (length (lr_body r))) cap (zlen (lr_body r)) ltac:(lia) (zlen_nonneg _)) as (sizes & Hp & Hall & Hsum).
  { unfold zlen. rewrite Nat2Z.id. lia. }
  rewrite Hp. cbn [bind]. exists (cut sizes (lr_body r)).
  pose proof (Forall_zsum_nonneg _ _ Hall) as Hnn.
  assert (Hchunks : Forall (chunk_ok cap) (cut sizes (lr_body r))).
  { pose proof (cut_lengths sizes (lr_body r) Hnn Hsum) as Hl.
    pose proof (cut_bytes sizes (lr_body r) Hb) as Hcb.
    clear Hp Hsum Hnn. revert Hall Hl Hcb. generalize (cut sizes (lr_body r)) as chunks.
    induction sizes as [|n ns IHn]; intros [|c cs] Hall Hl Hcb; try discriminate; constructor.
    - cbn [map] in Hl. injection Hl as Hl1 Hl2. apply Forall_inv in Hall. apply Forall_inv in Hcb.
      split; [lia | assumption].
    - cbn [map] in Hl. injection Hl as Hl1 Hl2. apply Forall_inv_tail in Hall. apply Forall_inv_tail in Hcb.
      apply IHn; assumption. }
  split; [|split; [apply cut_concat; assumption | exact Hchunks]].
  eapply segs_of_chunks_ok; [|exact Hty | exact Hchunks]. lia.
Qed.

Lemma pad_fits n cap : 0 <= n <= cap -> 12 <= cap -> Z.even cap = true -> n + pad_count n <= cap.
Proof.
  intros Hn Hc He. unfold pad_count.
  destruct (Z.odd (n + Z.max (12 - n) 0 + 4)) eqn:E.
  - destruct (Z.leb_spec 12 n).
    + replace (Z.max (12 - n) 0) with 0 in * by lia.
      assert (n <> cap). { intros ->. rewrite Z.add_0_r, Z.odd_add, <- Z.negb_even, He in E. discriminate. }
      lia.
    + replace (Z.max (12 - n) 0) with (12 - n) in E by lia. replace (n + (12 - n) + 4) with 16 in E by lia. discriminate.
  - lia.
Qed.

Lemma asegs_props : forall chunks eflr ty first cap,
  12 <= cap <= 65000 -> Z.even cap = true -> is_byte ty = true -> Forall (chunk_ok cap) chunks ->
  Forall (fun s => seg_wf s = true /\ seg_len s <= cap + 4) (asegs eflr ty first chunks).
Proof.
  induction chunks as [|c cs IH]; intros eflr ty first cap Hcap Hev Hty Hall; [constructor|].
  inv Hall. destruct H1 as [Hn Hb]. cbn [asegs]. constructor; [|apply IH; assumption].
  destruct (make_segment_ok eflr ty first (negb (nonnil cs)) c ltac:(lia) Hty Hb) as (_ & Hwf & Hlen).
  split; [exact Hwf|]. rewrite Hlen. pose proof (pad_fits (zlen c) cap ltac:(lia) ltac:(lia) Hev). lia.
Qed.

Lemma vrs_of_segs_ok : forall segs vrl,
  Forall (fun s => seg_wf s = true /\ seg_len s + 4 <= vrl) segs -> vrl <= 65000 ->
  vrs_of_segs vrl (map seg_bytes segs) = OK (map (fun s => vr_bytes [s]) segs)
  /\ Forall (fun v => vr_wf vrl v = true /\ vr_len v < 65536) (map (fun s => [s]) segs).
Proof.
  induction segs as [|s ss IH]; intros vrl Hall Hv; [split; [reflexivity | constructor]|].
  inv Hall. destruct H1 as [Hwf Hlen]. destruct (IH vrl H2 Hv) as [IH1 IH2].
  destruct (seg_wf_len s Hwf) as [Hev H16].
  assert (HL : vr_len [s] = 4 + seg_len s).
  { unfold vr_len. cbn [map concat]. rewrite app_nil_r, zlen_seg_bytes. reflexivity. }
  split.
  - cbn [map vrs_of_segs]. unfold make_vr. rewrite zlen_seg_bytes.
    destruct (vrl <? seg_len s + 4) eqn:E; [lia|].
    unfold enc_unorm. destruct ((0 <=? seg_len s + 4) && (seg_len s + 4 <? 65536)) eqn:E2; [|lia].
    cbn [bind]. rewrite IH1. cbn [bind]. f_equal. f_equal.
    unfold vr_bytes. rewrite HL. cbn [map concat]. rewrite app_nil_r.
    replace (4 + seg_len s) with (seg_len s + 4) by lia. reflexivity.
  - cbn [map]. constructor; [|exact IH2]. split; [|lia].
    unfold vr_wf. cbn [nonnil forallb]. rewrite Hwf, HL. cbn [andb].
    apply andb_true_intro. split; lia.
Qed.

(* ---------- deterministic description of the file's segments ---------- *)

Definition chunks_of (cap : Z) (r : lrec) : list bytes :=
  match plan (S (length (lr_body r))) cap (zlen (lr_body r)) with
  | OK sizes => cut sizes (lr_body r)
  | Err _ => []
  end.
Definition rec_segs (cap : Z) (r : lrec) : list segment := asegs (lr_eflr r) (lr_type r) true (chunks_of cap r).
Definition file_segs (vrl : Z) (recs : list lrec) : list segment := flat_map (rec_segs (vrl - 8)) recs.
Definition wf_rec (r : lrec) : bool := is_byte (lr_type r) && all_bytes (lr_body r).
Definition nonempty_body (r : lrec) : bool := nonnil (lr_body r).

Lemma make_segments_det cap r :
  12 <= cap <= 65000 -> wf_rec r = true ->
  make_segments cap r = OK (map seg_bytes (rec_segs cap r))
  /\ concat (chunks_of cap r) = lr_body r /\ Forall (chunk_ok cap) (chunks_of cap r).
Proof.
  intros Hcap Hwf. apply andb_prop in Hwf. destruct Hwf as [Hty Hb].
  destruct (make_segments_ok cap r Hcap Hty Hb) as (chunks & H1 & H2 & H3).
  unfold rec_segs, chunks_of. unfold make_segments in H1. destruct (cap <? 12) eqn:E; [lia|].
  destruct (plan (S (length (lr_body r))) cap (zlen (lr_body r))) as [sizes|e] eqn:Hp; [|discriminate].
  cbn [bind] in H1.
  destruct (plan_total (S (length (lr_body r))) cap (zlen (lr_body r)) ltac:(lia) (zlen_nonneg _)) as (sizes' & Hp' & Hall & Hsum).
  { unfold zlen. rewrite Nat2Z.id. lia. }
  rewrite Hp in Hp'. inv Hp'.
  pose proof (Forall_zsum_nonneg _ _ Hall) as Hnn.
  assert (Hchunks : Forall (chunk_ok cap) (cut sizes' (lr_body r))).
  { pose proof (cut_lengths sizes' (lr_body r) Hnn Hsum) as Hl.
    pose proof (cut_bytes sizes' (lr_body r) Hb) as Hcb.
    clear Hp Hsum Hnn H1. revert Hall Hl Hcb. generalize (cut sizes' (lr_body r)) as cks.
    induction sizes' as [|n ns IHn]; intros [|c cs] Hall Hl Hcb; try discriminate; constructor.
    - cbn [map] in Hl. injection Hl as Hl1 Hl2. apply Forall_inv in Hall. apply Forall_inv in Hcb.
      split; [lia | assumption].
    - cbn [map] in Hl. injection Hl as Hl1 Hl2. apply Forall_inv_tail in Hall. apply Forall_inv_tail in Hcb.
      apply IHn; assumption. }
  split; [|split; [apply cut_concat; assumption | exact Hchunks]].
  unfold make_segments. rewrite E, Hp. cbn [bind].
  eapply segs_of_chunks_ok; [|exact Hty | exact Hchunks]. lia.
Qed.

Lemma check_vrl_range vrl : check_vrl vrl = true -> 20 <= vrl <= 16384 /\ Z.even vrl = true.
Proof. unfold check_vrl. intros H. repeat (apply andb_prop in H; destruct H as [H ?]). split; [lia | assumption]. Qed.

Lemma vrs_of_recs_ok : forall recs vrl,
  check_vrl vrl = true -> forallb wf_rec recs = true ->
  vrs_of_recs vrl recs = OK (map (fun s => vr_bytes [s]) (file_segs vrl recs))
  /\ Forall (fun v => vr_wf vrl v = true /\ vr_len v < 65536) (map (fun s => [s]) (file_segs vrl recs)).
Proof.
  induction recs as [|r rs IH]; intros vrl Hv Hwf; [split; [reflexivity | constructor]|].
  cbn [forallb] in Hwf. apply andb_prop in Hwf. destruct Hwf as [Hr Hrs].
  destruct (check_vrl_range vrl Hv) as [Hrange Hev].
  destruct (IH vrl Hv Hrs) as [IH1 IH2].
  destruct (make_segments_det (vrl - 8) r ltac:(lia) Hr) as (Hm & Hc & Hck).
  assert (Hev8 : Z.even (vrl - 8) = true) by (rewrite Z.even_sub, Hev; reflexivity).
  apply andb_prop in Hr. destruct Hr as [Hty Hb].
  pose proof (asegs_props (chunks_of (vrl - 8) r) (lr_eflr r) (lr_type r) true (vrl - 8) ltac:(lia) Hev8 Hty Hck) as Hprops.
  fold (rec_segs (vrl - 8) r) in Hprops.
  destruct (vrs_of_segs_ok (rec_segs (vrl - 8) r) vrl) as [Hv1 Hv2]; [|lia|].
  { eapply Forall_impl; [|exact Hprops]. cbn. intros s [? ?]. split; [assumption | lia]. }
  cbn [vrs_of_recs]. rewrite Hm. cbn [bind]. rewrite Hv1. cbn [bind]. rewrite IH1. cbn [bind].
  unfold file_segs. cbn [flat_map]. rewrite !map_app. split; [reflexivity|].
  apply Forall_app. split; assumption.
Qed.

(* ---------- reassembly of the file's segments gives back the records ---------- *)

Lemma reasm_open : forall cs c e ty body rest,
  reassemble_aux (Some {| lr_eflr := e; lr_type := ty; lr_body := body |}) (asegs e ty false (c :: cs) ++ rest)
  = match reassemble_aux None rest with
    | Some rs => Some ({| lr_eflr := e; lr_type := ty; lr_body := body ++ concat (c :: cs) |} :: rs)
    | None => None
    end.
Proof.
  induction cs as [|c' cs IH]; intros c e ty body rest.
  - cbn [asegs app reassemble_aux aseg s_pred s_succ s_eflr s_type s_chunk lr_eflr lr_type lr_body nonnil negb concat].
    rewrite eqb_reflx, Z.eqb_refl. cbn [andb negb]. rewrite app_nil_r. reflexivity.
  - change (asegs e ty false (c :: c' :: cs)) with (aseg e ty false (negb (nonnil (c' :: cs))) c :: asegs e ty false (c' :: cs)).
    cbn [app reassemble_aux aseg s_pred s_succ s_eflr s_type s_chunk lr_eflr lr_type lr_body nonnil negb].
    rewrite eqb_reflx, Z.eqb_refl. cbn [andb negb].
    rewrite IH. cbn [concat]. rewrite <- app_assoc. reflexivity.
Qed.

Lemma reasm_first : forall cs c e ty rest,
  reassemble_aux None (asegs e ty true (c :: cs) ++ rest)
  = match reassemble_aux None rest with
    | Some rs => Some ({| lr_eflr := e; lr_type := ty; lr_body := concat (c :: cs) |} :: rs)
    | None => None
    end.
Proof.
  intros [|c' cs] c e ty rest.
  - cbn [asegs app reassemble_aux aseg s_pred s_succ s_eflr s_type s_chunk nonnil negb concat]. rewrite app_nil_r. reflexivity.
  - change (asegs e ty true (c :: c' :: cs)) with (aseg e ty true (negb (nonnil (c' :: cs))) c :: asegs e ty false (c' :: cs)).
    cbn [app reassemble_aux aseg s_pred s_succ s_eflr s_type s_chunk nonnil negb].
    rewrite reasm_open. reflexivity.
Qed.

Lemma concat_nil_chunks cap chunks : Forall (chunk_ok cap) chunks -> concat chunks = [] -> chunks = [].
Proof.
  intros H E. destruct chunks as [|c cs]; [reflexivity|]. inv H. destruct H2 as [[H _] _].
  cbn [concat] in E. apply app_eq_nil in E. destruct E as [-> _]. cbn in H. lia.
Qed.

Lemma reassemble_file_segs : forall recs vrl,
  check_vrl vrl = true -> forallb wf_rec recs = true ->
  reassemble_aux None (file_segs vrl recs) = Some (filter nonempty_body recs).
Proof.
  induction recs as [|r rs IH]; intros vrl Hv Hwf; [reflexivity|].
  cbn [forallb] in Hwf. apply andb_prop in Hwf. destruct Hwf as [Hr Hrs].
  destruct (check_vrl_range vrl Hv) as [Hrange Hev].
  destruct (make_segments_det (vrl - 8) r ltac:(lia) Hr) as (_ & Hc & Hck).
  unfold file_segs. cbn [flat_map]. fold (file_segs vrl rs). unfold rec_segs at 1.
  cbn [filter]. unfold nonempty_body at 1.
  destruct (chunks_of (vrl - 8) r) as [|c cs] eqn:Ec.
  - cbn [concat] in Hc. rewrite <- Hc. cbn [asegs app nonnil]. apply IH; assumption.
  - rewrite reasm_first, IH by assumption. rewrite Hc.
    destruct (lr_body r) eqn:Eb.
    + exfalso. apply (concat_nil_chunks _ _ Hck) in Hc. discriminate.
    + cbn [nonnil]. rewrite <- Eb. destruct r; reflexivity.
Qed.

(* ---------- the storage unit label ---------- *)

Lemma justify_ok s w left b : justify s w left = OK b -> zlen b = w /\ all_ascii b = true.
Proof.
  unfold justify. destruct (w <? zlen s) eqn:E1; [discriminate|].
  destruct (all_ascii s) eqn:E2; cbn [negb]; [|discriminate].
  intros H. inv H. pose proof (zlen_nonneg s).
  assert (Hr : all_ascii (zrepeat 32 (w - zlen s)) = true).
  { unfold all_ascii, zrepeat. rewrite forallb_forall. intros x Hx. apply repeat_spec in Hx. subst. reflexivity. }
  destruct left; rewrite zlen_app, zlen_repeat by lia; unfold all_ascii in *; rewrite forallb_app, E2, Hr; split; (lia || reflexivity).
Qed.

Lemma justify_total s w left : zlen s <= w -> all_ascii s = true -> exists b, justify s w left = OK b.
Proof.
  intros H1 H2. unfold justify. destruct (w <? zlen s) eqn:E1; [lia|]. rewrite H2. cbn [negb]. eauto.
Qed.

Lemma dec_digits_small n : 0 <= n < 100000 ->
  all_ascii (dec_digits n) = true /\
  zlen (dec_digits n) = (if n <? 10 then 1 else if n <? 100 then 2 else if n <? 1000 then 3 else if n <? 10000 then 4 else 5).
Proof.
  intros H. unfold dec_digits.
  assert (M : forall x, 0 <= x -> is_ascii (48 + x mod 10) = true) by (intros; unfold is_ascii; lia).
  remember (n / 10) as a1 eqn:Ha1. assert (B1 : 0 <= a1 < 10000 /\ (n <? 10) = (a1 <? 1)) by lia.
  remember (a1 / 10) as a2 eqn:Ha2. assert (B2 : 0 <= a2 < 1000 /\ (n <? 100) = (a2 <? 1) /\ (a1 <? 10) = (a2 <? 1)) by lia.
  remember (a2 / 10) as a3 eqn:Ha3. assert (B3 : 0 <= a3 < 100 /\ (n <? 1000) = (a3 <? 1) /\ (a2 <? 10) = (a3 <? 1)) by lia.
  remember (a3 / 10) as a4 eqn:Ha4. assert (B4 : 0 <= a4 < 10 /\ (n <? 10000) = (a4 <? 1) /\ (a3 <? 10) = (a4 <? 1)) by lia.
  destruct B1 as (R1 & ->). destruct B2 as (R2 & -> & Q2). destruct B3 as (R3 & -> & Q3). destruct B4 as (R4 & -> & Q4).
  cbn [dec_digits_aux]. rewrite <- Ha1.
  destruct (n <? 10) eqn:E1.
  { assert (a1 <? 1 = true) by lia. rewrite H0. split; [unfold all_ascii; cbn [forallb]; rewrite !M by lia; reflexivity | reflexivity]. }
  assert (F1 : a1 <? 1 = false) by lia. rewrite F1.
  cbn [dec_digits_aux]. rewrite <- Ha2. rewrite Q2.
  destruct (a2 <? 1) eqn:E2.
  { split; [unfold all_ascii; cbn [forallb]; rewrite !M by lia; reflexivity | reflexivity]. }
  cbn [dec_digits_aux]. rewrite <- Ha3. rewrite Q3.
  destruct (a3 <? 1) eqn:E3.
  { split; [unfold all_ascii; cbn [forallb]; rewrite !M by lia; reflexivity | reflexivity]. }
  cbn [dec_digits_aux]. rewrite <- Ha4. rewrite Q4.
  destruct (a4 <? 1) eqn:E4.
  { split; [unfold all_ascii; cbn [forallb]; rewrite !M by lia; reflexivity | reflexivity]. }
  cbn [dec_digits_aux].
  assert (F5 : a4 <? 10 = true) by lia. rewrite F5.
  split; [unfold all_ascii; cbn [forallb]; rewrite !M by lia; reflexivity | reflexivity].
Qed.

Definition sul_valid (c : sulcfg) : Prop :=
  0 <= sul_seq c < 10000 /\ 0 <= sul_vrl c < 100000 /\ zlen (sul_id c) <= 60 /\ all_ascii (sul_id c) = true.

Lemma sul_bytes_total c : sul_valid c -> exists lab, sul_bytes c = OK lab.
Proof.
  intros (H1 & H2 & H3 & H4). unfold sul_bytes.
  destruct ((sul_seq c <? 0) || (sul_vrl c <? 0)) eqn:E; [lia|].
  destruct (dec_digits_small (sul_seq c) ltac:(lia)) as [A1 L1].
  destruct (dec_digits_small (sul_vrl c) ltac:(lia)) as [A2 L2].
  destruct (justify_total (dec_digits (sul_seq c)) 4 false) as [b1 ->]; [|exact A1|].
  { rewrite L1. destruct (sul_seq c <? 10), (sul_seq c <? 100), (sul_seq c <? 1000), (sul_seq c <? 10000) eqn:F; lia. }
  cbn [bind].
  destruct (justify_total (dec_digits (sul_vrl c)) 5 false) as [b4 Hb4]; [|exact A2|].
  { rewrite L2. destruct (sul_vrl c <? 10), (sul_vrl c <? 100), (sul_vrl c <? 1000), (sul_vrl c <? 10000); lia. }
  destruct (justify_total (sul_id c) 60 true H3 H4) as [b5 Hb5].
  change (justify str_V100 5 true) with (OK str_V100). change (justify str_RECORD 6 false) with (OK str_RECORD).
  cbn [bind]. rewrite Hb4. cbn [bind]. rewrite Hb5. cbn [bind]. eauto.
Qed.

Lemma sul_bytes_len c lab : sul_bytes c = OK lab -> zlen lab = 80 /\ all_ascii lab = true.
Proof.
  unfold sul_bytes. destruct ((sul_seq c <? 0) || (sul_vrl c <? 0)); [discriminate|].
  intros H. do 5 bind_inv H. inv H.
  repeat match goal with Hx : justify _ _ _ = OK _ |- _ => apply justify_ok in Hx; destruct Hx end.
  rewrite !zlen_app. unfold all_ascii in *. rewrite !forallb_app.
  repeat match goal with Hx : forallb _ _ = true |- _ => rewrite Hx; clear Hx end. split; [lia | reflexivity].
Qed.

(* ---------- whole-file theorems ---------- *)

Definition file_vrs (vrl : Z) (recs : list lrec) : list (list segment) := map (fun s => [s]) (file_segs vrl recs).

Lemma concat_singletons {A} (l : list A) : concat (map (fun s => [s]) l) = l.
Proof. induction l; cbn; congruence. Qed.

Theorem write_file_structure c recs bs :
  forallb wf_rec recs = true -> write_file c recs = OK bs ->
  exists lab, sul_bytes c = OK lab /\ zlen lab = 80 /\ check_vrl (sul_vrl c) = true
    /\ bs = lab ++ concat (map vr_bytes (file_vrs (sul_vrl c) recs))
    /\ Forall (fun v => vr_wf (sul_vrl c) v = true /\ vr_len v < 65536) (file_vrs (sul_vrl c) recs).
Proof.
  intros Hwf H. unfold write_file in H. destruct (check_vrl (sul_vrl c)) eqn:Hv; cbn [negb] in H; [|discriminate].
  apply bind_ok in H. destruct H as (a & Hsul & H). apply bind_ok in H. destruct H as (vs & Hvs & H). inv H.
  destruct (vrs_of_recs_ok recs (sul_vrl c) Hv Hwf) as [Hr1 Hr2]. rewrite Hr1 in Hvs. inv Hvs.
  exists a. destruct (sul_bytes_len c a Hsul) as [Hl _].
  repeat split; try assumption. unfold file_vrs. rewrite map_map. reflexivity.
Qed.

Theorem parse_write_file c recs bs :
  forallb wf_rec recs = true -> write_file c recs = OK bs ->
  parse_file c bs = Some (file_vrs (sul_vrl c) recs).
Proof.
  intros Hwf H. destruct (write_file_structure c recs bs Hwf H) as (lab & Hlab & Hl & Hv & -> & Hall).
  unfold parse_file. rewrite Hlab, Hv, Hl. cbn [Z.eqb Pos.eqb negb].
  replace 80 with (zlen lab) by assumption. rewrite firstnz_app_exact, skipnz_app_exact.
  assert (E : list_eqb lab lab = true) by (apply list_eqb_eq; reflexivity). rewrite E. cbn [negb].
  apply parse_vrs_print; [exact Hall|].
  rewrite app_length.
  assert (length (file_vrs (sul_vrl c) recs) <= length (concat (map vr_bytes (file_vrs (sul_vrl c) recs))))%nat.
  { clear. induction (file_vrs (sul_vrl c) recs) as [|v vs IH]; [cbn; lia|].
    cbn [map concat length]. rewrite app_length. unfold vr_bytes at 1, be2. cbn [app length]. lia. }
  lia.
Qed.

Theorem read_write_file c recs bs :
  forallb wf_rec recs = true -> write_file c recs = OK bs ->
  read_records c bs = Some (filter nonempty_body recs).
Proof.
  intros Hwf H. unfold read_records. rewrite (parse_write_file c recs bs Hwf H).
  unfold reassemble, file_vrs. rewrite concat_singletons.
  destruct (write_file_structure c recs bs Hwf H) as (_ & _ & _ & Hv & _).
  apply reassemble_file_segs; assumption.
Qed.

Theorem write_file_total c recs :
  check_vrl (sul_vrl c) = true -> sul_valid c -> forallb wf_rec recs = true -> exists bs, write_file c recs = OK bs.
Proof.
  intros Hv Hs Hwf. unfold write_file. rewrite Hv. cbn [negb].
  destruct (sul_bytes_total c Hs) as [lab ->]. cbn [bind].
  destruct (vrs_of_recs_ok recs (sul_vrl c) Hv Hwf) as [-> _]. cbn [bind]. eauto.
Qed.

(* ---------- reassembly is sound for the bracket discipline ---------- *)

Lemma reasm_sound : forall segs cur rs,
  reassemble_aux cur segs = Some rs ->
  match cur with
  | None => Bracketed segs rs
  | Some r => exists run rest rs',
      segs = run ++ rest /\ Run (lr_eflr r) (lr_type r) false run /\ Bracketed rest rs' /\
      rs = {| lr_eflr := lr_eflr r; lr_type := lr_type r; lr_body := lr_body r ++ concat (map s_chunk run) |} :: rs'
  end.
Proof.
  induction segs as [|s ss IH]; intros cur rs H.
  - destruct cur; cbn in H; [discriminate|]. inv H. constructor.
  - destruct cur as [r|]; cbn [reassemble_aux] in H.
    + destruct (s_pred s) eqn:Ep; cbn [negb] in H; [|discriminate].
      destruct (Bool.eqb (s_eflr s) (lr_eflr r) && (s_type s =? lr_type r)) eqn:Em; cbn [negb] in H; [|discriminate].
      apply andb_prop in Em. destruct Em as [Em1 Em2]. apply eqb_prop in Em1. apply Z.eqb_eq in Em2.
      destruct (s_succ s) eqn:Es.
      * apply IH in H. cbn [lr_eflr lr_type lr_body] in H. destruct H as (run & rest & rs' & -> & Hrun & Hbr & ->).
        exists (s :: run), rest, rs'. split; [reflexivity|]. split; [apply run_more; assumption|]. split; [assumption|].
        cbn [map concat]. rewrite <- app_assoc. reflexivity.
      * destruct (reassemble_aux None ss) as [rs0|] eqn:Er; [|discriminate]. inv H.
        apply IH in Er. exists [s], ss, rs0. split; [reflexivity|]. split; [apply run_last; assumption|].
        split; [assumption|]. cbn [map concat]. rewrite app_nil_r. reflexivity.
    + destruct (s_pred s) eqn:Ep; [discriminate|].
      destruct (s_succ s) eqn:Es.
      * apply IH in H. cbn [lr_eflr lr_type lr_body] in H. destruct H as (run & rest & rs' & -> & Hrun & Hbr & ->).
        change (s :: run ++ rest) with ((s :: run) ++ rest).
        replace (s_chunk s ++ concat (map s_chunk run)) with (concat (map s_chunk (s :: run))) by reflexivity.
        apply br_rec; [|assumption]. apply run_more; auto.
      * destruct (reassemble_aux None ss) as [rs0|] eqn:Er; [|discriminate]. inv H.
        apply IH in Er. change (s :: ss) with ([s] ++ ss).
        replace (s_chunk s) with (concat (map s_chunk [s])) by (cbn; apply app_nil_r).
        apply br_rec; [|assumption]. apply run_last; auto.
Qed.

Theorem reassemble_bracketed vrs rs : reassemble vrs = Some rs -> Bracketed (concat vrs) rs.
Proof. intros H. exact (reasm_sound (concat vrs) None rs H). Qed.

(* ---------- statements used by Props/C01.v ---------- *)

Definition Layout (c : sulcfg) (bs : bytes) : Prop :=
  exists lab vrs,
    sul_bytes c = OK lab /\ zlen lab = 80 /\ check_vrl (sul_vrl c) = true /\
    bs = lab ++ concat (map vr_bytes vrs) /\
    Forall (fun v => vr_wf (sul_vrl c) v = true) vrs.

Lemma write_file_layout c recs bs :
  forallb wf_rec recs = true -> write_file c recs = OK bs -> Layout c bs.
Proof.
  intros Hwf H. destruct (write_file_structure c recs bs Hwf H) as (lab & H1 & H2 & H3 & H4 & H5).
  exists lab, (file_vrs (sul_vrl c) recs). repeat split; try assumption.
  eapply Forall_impl; [|exact H5]. cbn. intros v [Hv _]. exact Hv.
Qed.

Lemma write_file_checked c recs bs :
  forallb wf_rec recs = true -> write_file c recs = OK bs -> check_layout c bs = true.
Proof. intros Hwf H. unfold check_layout. rewrite (parse_write_file c recs bs Hwf H). reflexivity. Qed.

Lemma vr_wf_bounds maxlen v : vr_wf maxlen v = true -> 20 <= vr_len v <= maxlen /\ Z.even (vr_len v) = true.
Proof.
  intros Hv. unfold vr_wf in Hv. repeat (apply andb_prop in Hv; destruct Hv as [Hv ?]).
  match goal with Hs : forallb seg_wf v = true |- _ => destruct (concat_segs_even v Hs) as [He _] end.
  split; [lia|]. unfold vr_len. rewrite Z.even_add, He. reflexivity.
Qed.

Lemma write_file_vr_bound c recs bs :
  forallb wf_rec recs = true -> write_file c recs = OK bs ->
  Forall (fun v => 20 <= vr_len v <= sul_vrl c /\ Z.even (vr_len v) = true) (file_vrs (sul_vrl c) recs).
Proof.
  intros Hwf H. destruct (write_file_structure c recs bs Hwf H) as (lab & _ & _ & _ & _ & H5).
  eapply Forall_impl; [|exact H5]. cbn. intros v [Hv _]. apply vr_wf_bounds. exact Hv.
Qed.

Lemma writer_bracketed c recs bs :
  forallb wf_rec recs = true -> write_file c recs = OK bs ->
  exists vrs, parse_file c bs = Some vrs /\ Bracketed (concat vrs) (filter nonempty_body recs).
Proof.
  intros Hwf H. exists (file_vrs (sul_vrl c) recs). split; [exact (parse_write_file c recs bs Hwf H)|].
  apply reassemble_bracketed. pose proof (read_write_file c recs bs Hwf H) as Hr. unfold read_records in Hr.
  rewrite (parse_write_file c recs bs Hwf H) in Hr. exact Hr.
Qed.

Lemma plan_total_std cap rem : 12 <= cap -> 0 <= rem ->
  exists sizes, plan (S (Z.to_nat rem)) cap rem = OK sizes /\ Forall (fun n => 1 <= n <= cap) sizes /\ zsum sizes = rem.
Proof. intros H1 H2. apply plan_total; [assumption | assumption | apply Nat.lt_succ_diag_r]. Qed.

Lemma short_body_padded eflr ty first last chunk :
  zlen chunk <= 65000 -> is_byte ty = true -> all_bytes chunk = true ->
  make_segment eflr ty first last chunk = OK (seg_bytes (aseg eflr ty first last chunk))
  /\ seg_wf (aseg eflr ty first last chunk) = true.
Proof. intros. destruct (make_segment_ok eflr ty first last chunk) as (A & B & _); auto. Qed.

(* ---------- the strict reader is sound: whatever it accepts has the declared layout ---------- *)

Lemma take_spec n (bs p rest : bytes) : take n bs = Some (p, rest) -> bs = p ++ rest /\ zlen p = n /\ 0 <= n.
Proof.
  unfold take. destruct ((0 <=? n) && (n <=? zlen bs)) eqn:E; [|discriminate]. intros H. inv H.
  split; [symmetry; apply firstnz_skipnz|]. split; [apply zlen_firstnz; lia | lia].
Qed.

Definition attr_ok (a : Z) : bool :=
  implb ((a / 2) mod 16 =? 0)
        (seg_attr (128 <=? a) (negb (Z.odd (a / 64))) (negb (Z.odd (a / 32))) (Z.odd a) =? a).

Lemma attr_ok_all : forallb attr_ok (map Z.of_nat (seq 0 256)) = true.
Proof. vm_compute. reflexivity. Qed.

Lemma attr_roundtrip a : is_byte a = true -> (a / 2) mod 16 = 0 ->
  seg_attr (128 <=? a) (negb (Z.odd (a / 64))) (negb (Z.odd (a / 32))) (Z.odd a) = a.
Proof.
  intros Hb Hz. pose proof attr_ok_all as H. rewrite forallb_forall in H.
  assert (Hin : In a (map Z.of_nat (seq 0 256))).
  { apply in_map_iff. exists (Z.to_nat a). unfold is_byte in Hb. split; [lia|]. apply in_seq. lia. }
  specialize (H a Hin). unfold attr_ok in H. rewrite Hz in H. cbn [Z.eqb implb] in H. apply Z.eqb_eq in H. exact H.
Qed.

Lemma last_skipn_nonnil {A} (d : A) : forall n (l : list A), (n < length l)%nat -> last (skipn n l) d = last l d.
Proof.
  induction n as [|n IH]; intros l H; [reflexivity|]. destruct l as [|x l]; [cbn in H; lia|].
  cbn [skipn]. rewrite IH by (cbn in H; lia). destruct l; [cbn in H; lia | reflexivity].
Qed.

Lemma parse_seg_sound bs s rest : parse_seg bs = Some (s, rest) -> bs = seg_bytes s ++ rest /\ seg_wf s = true.
Proof.
  unfold parse_seg. destruct bs as [|a [|b [|at_ [|ty r]]]]; try discriminate.
  destruct (is_byte a && is_byte b && is_byte at_ && is_byte ty) eqn:Eb; cbn [negb]; [|discriminate].
  repeat (apply andb_prop in Eb; destruct Eb as [Eb ?]). rename Eb into Ha, H into Hty, H0 into Hat, H1 into Hbb.
  set (len := of_be2 a b) in *.
  destruct (Z.even len && (16 <=? len)) eqn:El; cbn [negb]; [|discriminate]. apply andb_prop in El. destruct El as [Hev H16].
  destruct ((at_ / 2) mod 16 =? 0) eqn:Ez; cbn [negb]; [|discriminate]. apply Z.eqb_eq in Ez.
  destruct (take (len - 4) r) as [[payload rest']|] eqn:Et; [|discriminate].
  destruct (take_spec _ _ _ _ Et) as (-> & Hpl & _).
  destruct (all_bytes payload) eqn:Hpb; cbn [negb]; [|discriminate].
  set (pc := if Z.odd at_ then last payload 0 else 0).
  destruct (Z.odd at_ && negb ((1 <=? pc) && (pc <=? len - 4))) eqn:Ep; [discriminate|].
  intros H. inv H.
  assert (Hlen : len = a * 256 + b) by reflexivity. unfold is_byte in Ha, Hbb.
  assert (Hpc : 0 <= pc <= len - 4 /\ (Z.odd at_ = true -> 1 <= pc)).
  { unfold pc in *. destruct (Z.odd at_); cbn [andb negb] in Ep; lia. }
  set (k := len - 4 - pc).
  assert (Hk : 0 <= k <= zlen payload) by (unfold k; lia).
  assert (Hc : zlen (firstnz k payload) = k) by (apply zlen_firstnz; exact Hk).
  assert (Hp : zlen (skipnz k payload) = pc) by (rewrite zlen_skipnz by exact Hk; unfold k; lia).
  assert (Hnn : nonnil (skipnz k payload) = Z.odd at_).
  { destruct (skipnz k payload) as [|x l] eqn:Es.
    - cbn. rewrite zlen_nil in Hp. destruct (Z.odd at_); [destruct Hpc as [_ Hx]; specialize (Hx eq_refl); lia | reflexivity].
    - cbn. rewrite zlen_cons in Hp. pose proof (zlen_nonneg l). unfold pc in Hp. destruct (Z.odd at_); [reflexivity | lia]. }
  split.
  - unfold seg_bytes, seg_len. cbn [s_chunk s_padb s_eflr s_pred s_succ s_type]. fold k. rewrite Hc, Hp, Hnn.
    replace (4 + k + pc) with len by (unfold k; lia).
    rewrite (attr_roundtrip at_ Hat Ez).
    unfold be2. replace (len / 256) with a by lia. replace (len mod 256) with b by lia.
    cbn [app]. rewrite <- !app_assoc. rewrite (app_assoc (firstnz k payload)). rewrite firstnz_skipnz. reflexivity.
  - unfold seg_wf, seg_len. cbn [s_chunk s_padb s_type]. fold k. rewrite Hc, Hp.
    replace (4 + k + pc) with len by (unfold k; lia). rewrite Hev, H16, Hty.
    rewrite (all_bytes_firstnz k _ Hpb), (all_bytes_skipnz k _ Hpb).
    replace (len <? 65536) with true by lia. cbn [andb].
    assert (HG : skipnz k payload <> [] -> (last (skipnz k payload) 0 =? pc) = true).
    { intros Hne.
      assert (Hodd : Z.odd at_ = true) by (rewrite <- Hnn; destruct (skipnz k payload); [congruence | reflexivity]).
      unfold pc. rewrite Hodd. unfold skipnz. rewrite last_skipn_nonnil; [apply Z.eqb_refl|].
      assert (length (skipn (Z.to_nat k) payload) <> 0)%nat by (intros E0; apply Hne; unfold skipnz; destruct (skipn (Z.to_nat k) payload); [reflexivity | discriminate]).
      rewrite skipn_length in H. lia. }
    destruct (skipnz k payload) as [|x l]; [reflexivity|]. apply HG. discriminate.
Qed.

Lemma parse_segs_sound : forall fuel bs segs, parse_segs fuel bs = Some segs ->
  bs = concat (map seg_bytes segs) /\ forallb seg_wf segs = true.
Proof.
  induction fuel as [|f IH]; intros bs segs H; [discriminate|]. cbn [parse_segs] in H.
  destruct bs as [|x bs']; [inv H; split; reflexivity|].
  destruct (parse_seg (x :: bs')) as [[s rest]|] eqn:Es; [|discriminate].
  destruct (parse_segs f rest) as [ss|] eqn:Er; [|discriminate]. inv H.
  destruct (parse_seg_sound _ _ _ Es) as [E1 W1]. destruct (IH _ _ Er) as [E2 W2].
  split; [cbn [map concat]; rewrite E1, E2; reflexivity | cbn [forallb]; rewrite W1, W2; reflexivity].
Qed.

Lemma parse_vr_sound maxlen bs segs rest : parse_vr maxlen bs = Some (segs, rest) ->
  bs = vr_bytes segs ++ rest /\ vr_wf maxlen segs = true.
Proof.
  unfold parse_vr. destruct bs as [|a [|b [|m1 [|m2 r]]]]; try discriminate.
  destruct (is_byte a && is_byte b) eqn:Eb; cbn [negb]; [|discriminate]. apply andb_prop in Eb. destruct Eb as [Ha Hb].
  destruct ((m1 =? 255) && (m2 =? 1)) eqn:Em; cbn [negb]; [|discriminate]. apply andb_prop in Em. destruct Em as [Em1 Em2].
  set (len := of_be2 a b) in *.
  destruct (Z.even len && (20 <=? len) && (len <=? maxlen)) eqn:El; cbn [negb]; [|discriminate].
  repeat (apply andb_prop in El; destruct El as [El ?]).
  destruct (take (len - 4) r) as [[body rest']|] eqn:Et; [|discriminate].
  destruct (take_spec _ _ _ _ Et) as (-> & Hbl & _).
  destruct (parse_segs (S (length body)) body) as [[|s ss]|] eqn:Ep; try discriminate.
  intros Hx. inv Hx. destruct (parse_segs_sound _ _ _ Ep) as [Eb W].
  assert (Hlen : len = a * 256 + b) by reflexivity. unfold is_byte in Ha, Hb.
  assert (HL : vr_len (s :: ss) = len) by (unfold vr_len; rewrite <- Eb; lia).
  split.
  - unfold vr_bytes. rewrite HL. unfold be2. replace (len / 256) with a by lia. replace (len mod 256) with b by lia.
    rewrite <- Eb. apply Z.eqb_eq in Em1, Em2. subst m1 m2. cbn [app]. rewrite <- ?app_assoc. reflexivity.
  - unfold vr_wf. rewrite HL, W. cbn [nonnil andb]. apply andb_true_intro. split; assumption.
Qed.

Lemma parse_vrs_sound maxlen : forall fuel bs vrs, parse_vrs fuel maxlen bs = Some vrs ->
  bs = concat (map vr_bytes vrs) /\ Forall (fun v => vr_wf maxlen v = true) vrs.
Proof.
  induction fuel as [|f IH]; intros bs vrs H; [discriminate|]. cbn [parse_vrs] in H.
  destruct bs as [|x bs']; [inv H; split; [reflexivity | constructor]|].
  destruct (parse_vr maxlen (x :: bs')) as [[v rest]|] eqn:Ev; [|discriminate].
  destruct (parse_vrs f maxlen rest) as [vs|] eqn:Er; [|discriminate]. inv H.
  destruct (parse_vr_sound _ _ _ _ Ev) as [E1 W1]. destruct (IH _ _ Er) as [E2 W2].
  split; [cbn [map concat]; rewrite E1, E2; reflexivity | constructor; assumption].
Qed.

(* the C01 decider on implementation output is exact: it accepts a byte string iff it has the layout *)
Theorem check_layout_sound c bs : check_layout c bs = true -> Layout c bs.
Proof.
  unfold check_layout, parse_file. destruct (sul_bytes c) as [lab|] eqn:Hs; [|discriminate].
  destruct (check_vrl (sul_vrl c)) eqn:Hv; cbn [negb]; [|discriminate].
  destruct (zlen lab =? 80) eqn:Hl; cbn [negb]; [|discriminate]. apply Z.eqb_eq in Hl.
  destruct (list_eqb (firstnz 80 bs) lab) eqn:He; cbn [negb]; [|discriminate]. apply list_eqb_eq in He.
  destruct (parse_vrs (S (length bs)) (sul_vrl c) (skipnz 80 bs)) as [vrs|] eqn:Hp; [|discriminate].
  intros _. destruct (parse_vrs_sound _ _ _ _ Hp) as [Eb W].
  exists lab, vrs. repeat split; try assumption.
  rewrite <- (firstnz_skipnz 80 bs). rewrite He, Eb. reflexivity.
Qed.

Theorem check_layout_complete c bs : Layout c bs -> check_layout c bs = true.
Proof.
  intros (lab & vrs & Hs & Hl & Hv & -> & Hw). unfold check_layout, parse_file. rewrite Hs, Hv, Hl. cbn [Z.eqb Pos.eqb negb].
  replace 80 with (zlen lab) by assumption. rewrite firstnz_app_exact, skipnz_app_exact.
  assert (E : list_eqb lab lab = true) by (apply list_eqb_eq; reflexivity). rewrite E. cbn [negb].
  destruct (check_vrl_range _ Hv) as [Hr _].
  rewrite parse_vrs_print; [reflexivity | |].
  - eapply Forall_impl; [|exact Hw]. cbv beta. intros v Hvw. split; [exact Hvw|]. destruct (vr_wf_bounds _ _ Hvw) as [Hb _]. lia.
  - rewrite app_length.
    assert (length vrs <= length (concat (map vr_bytes vrs)))%nat.
    { clear. induction vrs as [|v vs IH]; [cbn; lia|]. cbn [map concat length]. rewrite app_length. unfold vr_bytes at 1, be2. cbn [app length]. lia. }
    lia.
Qed.
