(* PrimP.v — round trips and exact domains of the primitive encoders (C06). *)
From DV Require Import Model.Prim Proofs.BaseP.
From Coq Require Import Lia ZifyBool.
Ltac Zify.zify_post_hook ::= Z.to_euclidean_division_equations.


Lemma bind_ok {A B} (r : res A) (f : A -> res B) b :
  bind r f = OK b -> exists a, r = OK a /\ f a = OK b.
Proof. destruct r; cbn; intros; [eauto | discriminate]. Qed.

Ltac bind_inv H :=
  let a := fresh "a" in let H1 := fresh "H" in
  apply bind_ok in H; destruct H as (a & H1 & H).

(* ---------- fixed-width integers ---------- *)

Lemma ushort_rt v bs r : enc_ushort v = OK bs -> dec_ushort (bs ++ r) = Some (v, r).
Proof. unfold enc_ushort. destruct (_ && _); intros H; inv H. reflexivity. Qed.

Lemma ushort_dom v : (exists bs, enc_ushort v = OK bs) <-> 0 <= v < 256.
Proof.
  unfold enc_ushort. destruct ((0 <=? v) && (v <? 256)) eqn:E; split; intros H.
  - lia. - eauto. - destruct H; discriminate. - lia.
Qed.

Lemma ushort_ok v bs : enc_ushort v = OK bs -> bs = [v] /\ 0 <= v < 256.
Proof. unfold enc_ushort. destruct ((0 <=? v) && (v <? 256)) eqn:E; intros H; inv H. split; [reflexivity | lia]. Qed.

Lemma unorm_rt v bs r : enc_unorm v = OK bs -> dec_unorm (bs ++ r) = Some (v, r).
Proof.
  unfold enc_unorm. destruct ((0 <=? v) && (v <? 65536)) eqn:E; intros H; inv H.
  cbn. rewrite of_be2_be2 by lia. reflexivity.
Qed.

Lemma unorm_dom v : (exists bs, enc_unorm v = OK bs) <-> 0 <= v < 65536.
Proof.
  unfold enc_unorm. destruct ((0 <=? v) && (v <? 65536)) eqn:E; split; intros H.
  - lia. - eauto. - destruct H; discriminate. - lia.
Qed.

Lemma unorm_ok v bs : enc_unorm v = OK bs -> bs = be2 v /\ 0 <= v < 65536.
Proof. unfold enc_unorm. destruct ((0 <=? v) && (v <? 65536)) eqn:E; intros H; inv H. split; [reflexivity | lia]. Qed.

Lemma ulong_rt v bs r : enc_ulong v = OK bs -> dec_ulong (bs ++ r) = Some (v, r).
Proof.
  unfold enc_ulong. destruct ((0 <=? v) && (v <? 4294967296)) eqn:E; intros H; inv H.
  cbn. rewrite of_be4_be4 by lia. reflexivity.
Qed.

Lemma ulong_dom v : (exists bs, enc_ulong v = OK bs) <-> 0 <= v < 4294967296.
Proof.
  unfold enc_ulong. destruct ((0 <=? v) && (v <? 4294967296)) eqn:E; split; intros H.
  - lia. - eauto. - destruct H; discriminate. - lia.
Qed.

Lemma sshort_rt v bs r : enc_sshort v = OK bs -> dec_sshort (bs ++ r) = Some (v, r).
Proof.
  unfold enc_sshort. destruct ((-128 <=? v) && (v <? 128)) eqn:E; intros H; inv H.
  cbn. destruct (v mod 256 <? 128) eqn:E2; f_equal; f_equal; lia.
Qed.

Lemma sshort_dom v : (exists bs, enc_sshort v = OK bs) <-> -128 <= v < 128.
Proof.
  unfold enc_sshort. destruct ((-128 <=? v) && (v <? 128)) eqn:E; split; intros H.
  - lia. - eauto. - destruct H; discriminate. - lia.
Qed.

Lemma snorm_rt v bs r : enc_snorm v = OK bs -> dec_snorm (bs ++ r) = Some (v, r).
Proof.
  unfold enc_snorm. destruct ((-32768 <=? v) && (v <? 32768)) eqn:E; intros H; inv H.
  cbn. rewrite of_be2_be2 by lia.
  destruct (v mod 65536 <? 32768) eqn:E2; f_equal; f_equal; lia.
Qed.

Lemma snorm_dom v : (exists bs, enc_snorm v = OK bs) <-> -32768 <= v < 32768.
Proof.
  unfold enc_snorm. destruct ((-32768 <=? v) && (v <? 32768)) eqn:E; split; intros H.
  - lia. - eauto. - destruct H; discriminate. - lia.
Qed.

Lemma slong_rt v bs r : enc_slong v = OK bs -> dec_slong (bs ++ r) = Some (v, r).
Proof.
  unfold enc_slong. destruct ((-2147483648 <=? v) && (v <? 2147483648)) eqn:E; intros H; inv H.
  cbn. rewrite of_be4_be4 by lia.
  destruct (v mod 4294967296 <? 2147483648) eqn:E2; f_equal; f_equal; lia.
Qed.

Lemma slong_dom v : (exists bs, enc_slong v = OK bs) <-> -2147483648 <= v < 2147483648.
Proof.
  unfold enc_slong. destruct ((-2147483648 <=? v) && (v <? 2147483648)) eqn:E; split; intros H.
  - lia. - eauto. - destruct H; discriminate. - lia.
Qed.

Lemma fsingl_rt v bs r : enc_fsingl v = OK bs -> dec_fsingl (bs ++ r) = Some (v, r).
Proof. apply ulong_rt. Qed.

Lemma fsingl_dom v : (exists bs, enc_fsingl v = OK bs) <-> 0 <= v < 4294967296.
Proof. apply ulong_dom. Qed.

Lemma fdoubl_rt v bs r : enc_fdoubl v = OK bs -> dec_fdoubl (bs ++ r) = Some (v, r).
Proof.
  unfold enc_fdoubl. destruct ((0 <=? v) && (v <? 18446744073709551616)) eqn:E; intros H; inv H.
  unfold dec_fdoubl, be8. rewrite <- app_assoc.
  assert (H1 : enc_ulong (v / 4294967296) = OK (be4 (v / 4294967296))).
  { unfold enc_ulong. destruct ((0 <=? v / 4294967296) && (v / 4294967296 <? 4294967296)) eqn:E1; [reflexivity | lia]. }
  assert (H2 : enc_ulong (v mod 4294967296) = OK (be4 (v mod 4294967296))).
  { unfold enc_ulong. destruct ((0 <=? v mod 4294967296) && (v mod 4294967296 <? 4294967296)) eqn:E1; [reflexivity | lia]. }
  rewrite (ulong_rt _ _ _ H1). rewrite (ulong_rt _ _ _ H2). f_equal. f_equal. lia.
Qed.

Lemma fdoubl_dom v : (exists bs, enc_fdoubl v = OK bs) <-> 0 <= v < 18446744073709551616.
Proof.
  unfold enc_fdoubl. destruct ((0 <=? v) && (v <? 18446744073709551616)) eqn:E; split; intros H.
  - lia. - eauto. - destruct H; discriminate. - lia.
Qed.

(* ---------- UVARI ---------- *)

Lemma uvari_rt v bs r : enc_uvari v = OK bs -> dec_uvari (bs ++ r) = Some (v, r).
Proof.
  unfold enc_uvari, UNORM_OFFSET, ULONG_OFFSET.
  destruct (v <? 128) eqn:E1.
  - intros H. apply ushort_ok in H. destruct H as [-> H]. cbn. rewrite E1. reflexivity.
  - destruct (v <? 16384) eqn:E2.
    + intros H. apply unorm_ok in H. destruct H as [-> H]. unfold be2. cbn [app dec_uvari].
      destruct ((v + 32768) / 256 <? 128) eqn:E3; [lia|].
      destruct ((v + 32768) / 256 <? 192) eqn:E4; [|lia].
      f_equal. f_equal. lia.
    + unfold enc_ulong. destruct ((0 <=? v + 3221225472) && (v + 3221225472 <? 4294967296)) eqn:E3; intros H; inv H.
      unfold be4. cbn [app dec_uvari].
      destruct ((v + 3221225472) / 16777216 <? 128) eqn:E4; [lia|].
      destruct ((v + 3221225472) / 16777216 <? 192) eqn:E5; [lia|].
      f_equal. f_equal. unfold of_be4. lia.
Qed.

Lemma uvari_dom v : (exists bs, enc_uvari v = OK bs) <-> 0 <= v < 1073741824.
Proof.
  unfold enc_uvari, UNORM_OFFSET, ULONG_OFFSET, enc_ushort, enc_unorm, enc_ulong.
  destruct (v <? 128) eqn:E1.
  - destruct ((0 <=? v) && (v <? 256)) eqn:E; split; intros H; try lia; eauto. destruct H; discriminate.
  - destruct (v <? 16384) eqn:E2.
    + destruct ((0 <=? v + 32768) && (v + 32768 <? 65536)) eqn:E; split; intros H; try lia; eauto.
    + destruct ((0 <=? v + 3221225472) && (v + 3221225472 <? 4294967296)) eqn:E; split; intros H; try lia; eauto.
      destruct H; discriminate.
Qed.

Lemma uvari_len v bs : enc_uvari v = OK bs ->
  zlen bs = (if v <? 128 then 1 else if v <? 16384 then 2 else 4) /\ all_bytes bs = true.
Proof.
  unfold enc_uvari, UNORM_OFFSET, ULONG_OFFSET, enc_ushort, enc_unorm, enc_ulong.
  destruct (v <? 128) eqn:E1.
  - destruct ((0 <=? v) && (v <? 256)) eqn:E; intros H; inv H. split; [reflexivity|]. cbn. unfold is_byte. lia.
  - destruct (v <? 16384) eqn:E2.
    + destruct ((0 <=? v + 32768) && (v + 32768 <? 65536)) eqn:E; intros H; inv H. split; [reflexivity|].
      apply be2_bytes. lia.
    + destruct ((0 <=? v + 3221225472) && (v + 3221225472 <? 4294967296)) eqn:E; intros H; inv H.
      split; [reflexivity|]. apply be4_bytes. lia.
Qed.

(* ---------- text ---------- *)

Lemma take_app (s r : bytes) : take (zlen s) (s ++ r) = Some (s, r).
Proof.
  unfold take. rewrite zlen_app. pose proof (zlen_nonneg s). pose proof (zlen_nonneg r).
  destruct ((0 <=? zlen s) && (zlen s <=? zlen s + zlen r)) eqn:E; [|lia].
  rewrite firstnz_app_exact, skipnz_app_exact. reflexivity.
Qed.

Lemma chars_ok s bs : enc_chars s = OK bs -> bs = s /\ all_ascii s = true.
Proof. unfold enc_chars. destruct (all_ascii s) eqn:E; intros H; inv H. auto. Qed.

Lemma ident_rt s bs r : enc_ident s = OK bs -> dec_ident (bs ++ r) = Some (s, r).
Proof.
  unfold enc_ident. intros H. bind_inv H. bind_inv H. inv H.
  apply chars_ok in H1. destruct H1 as [-> Ha].
  unfold dec_ident. rewrite <- app_assoc. rewrite (ushort_rt _ _ _ H0).
  rewrite take_app, Ha. reflexivity.
Qed.

Lemma ident_dom s : (exists bs, enc_ident s = OK bs) <-> zlen s < 256 /\ all_ascii s = true.
Proof.
  unfold enc_ident, enc_ushort, enc_chars. pose proof (zlen_nonneg s).
  destruct ((0 <=? zlen s) && (zlen s <? 256)) eqn:E; cbn [bind].
  - destruct (all_ascii s) eqn:Ea; cbn [bind]; split; intros H1; try (split; [lia | reflexivity]); eauto.
    + destruct H1; discriminate. + destruct H1; discriminate.
  - split; intros H1; [destruct H1; discriminate | lia].
Qed.

Lemma ascii_rt s bs r : enc_ascii s = OK bs -> dec_ascii (bs ++ r) = Some (s, r).
Proof.
  unfold enc_ascii. intros H. bind_inv H. bind_inv H. inv H.
  apply chars_ok in H1. destruct H1 as [-> Ha].
  unfold dec_ascii. rewrite <- app_assoc. rewrite (uvari_rt _ _ _ H0).
  rewrite take_app, Ha. reflexivity.
Qed.

Lemma ascii_dom s : (exists bs, enc_ascii s = OK bs) <-> zlen s < 1073741824 /\ all_ascii s = true.
Proof.
  unfold enc_ascii. pose proof (zlen_nonneg s). split.
  - intros [bs H1]. bind_inv H1. bind_inv H1. apply chars_ok in H2. destruct H2 as [_ Ha].
    split; [|exact Ha]. assert (Hd : exists b, enc_uvari (zlen s) = OK b) by eauto. apply uvari_dom in Hd. lia.
  - intros [Hl Ha]. assert (Hd : exists b, enc_uvari (zlen s) = OK b) by (apply uvari_dom; lia).
    destruct Hd as [b Hb]. rewrite Hb. cbn [bind]. unfold enc_chars. rewrite Ha. cbn [bind]. eauto.
Qed.

(* ---------- STATUS ---------- *)

Lemma status_rt v bs r : enc_status v = OK bs -> dec_status (bs ++ r) = Some (v, r).
Proof.
  unfold enc_status. destruct ((v =? 0) || (v =? 1)) eqn:E; intros H; inv H. cbn. rewrite E. reflexivity.
Qed.

Lemma status_dom v : (exists bs, enc_status v = OK bs) <-> v = 0 \/ v = 1.
Proof.
  unfold enc_status. destruct ((v =? 0) || (v =? 1)) eqn:E; split; intros H; try lia; eauto. destruct H; discriminate.
Qed.

(* ---------- OBNAME / OBJREF ---------- *)

Lemma obname_rt o bs r : enc_obname o = OK bs ->
  exists org, on_origin o = Some org /\ dec_obname (bs ++ r) = Some (o, r).
Proof.
  unfold enc_obname. destruct o as [[org|] cp nm]; cbn [on_origin on_copy on_name]; [|discriminate].
  intros H. bind_inv H. bind_inv H. bind_inv H. inv H. exists org. split; [reflexivity|].
  unfold dec_obname. rewrite <- !app_assoc.
  rewrite (uvari_rt _ _ _ H0). rewrite (ushort_rt _ _ _ H1). rewrite (ident_rt _ _ _ H2). reflexivity.
Qed.

Definition obname_in_domain (o : obname) : Prop :=
  exists org, on_origin o = Some org /\ 0 <= org < 1073741824 /\ 0 <= on_copy o < 256
              /\ zlen (on_name o) < 256 /\ all_ascii (on_name o) = true.

Lemma obname_dom o : (exists bs, enc_obname o = OK bs) <-> obname_in_domain o.
Proof.
  unfold enc_obname, obname_in_domain. destruct o as [[org|] cp nm]; cbn [on_origin on_copy on_name].
  - split.
    + intros [bs H]. bind_inv H. bind_inv H. bind_inv H. exists org. split; [reflexivity|].
      assert (D1 : exists b, enc_uvari org = OK b) by eauto. apply uvari_dom in D1.
      assert (D2 : exists b, enc_ushort cp = OK b) by eauto. apply ushort_dom in D2.
      assert (D3 : exists b, enc_ident nm = OK b) by eauto. apply ident_dom in D3. tauto.
    + intros (org' & E & D1 & D2 & D3). inv E.
      apply uvari_dom in D1. destruct D1 as [b1 ->]. apply ushort_dom in D2. destruct D2 as [b2 ->].
      apply ident_dom in D3. destruct D3 as [b3 ->]. cbn [bind]. eauto.
  - split; [intros [bs H]; discriminate | intros (org & E & _); discriminate].
Qed.

Lemma objref_rt t o bs r : enc_objref t o = OK bs -> dec_objref (bs ++ r) = Some ((t, o), r).
Proof.
  unfold enc_objref. intros H. bind_inv H. bind_inv H. inv H.
  unfold dec_objref. rewrite <- app_assoc. rewrite (ident_rt _ _ _ H0).
  destruct (obname_rt _ _ r H1) as (org & _ & ->). reflexivity.
Qed.

Lemma objref_dom t o : (exists bs, enc_objref t o = OK bs) <->
  (zlen t < 256 /\ all_ascii t = true) /\ obname_in_domain o.
Proof.
  unfold enc_objref. split.
  - intros [bs H]. bind_inv H. bind_inv H. split; [apply ident_dom | apply obname_dom]; eauto.
  - intros [D1 D2]. apply ident_dom in D1. destruct D1 as [b1 ->]. apply obname_dom in D2. destruct D2 as [b2 ->].
    cbn [bind]. eauto.
Qed.

(* ---------- DTIME ---------- *)

Lemma ms_of_us_spec us : 0 <= us < 1000000 ->
  0 <= ms_of_us us <= 999 /\
  ((-500 <= 1000 * ms_of_us us - us <= 500) \/ (ms_of_us us = 999 /\ 999500 <= us)).
Proof.
  intros H. unfold ms_of_us.
  destruct (us mod 1000 <? 500) eqn:E1; [lia|].
  destruct (500 <? us mod 1000) eqn:E2; [lia|].
  destruct (Z.even (us / 1000)) eqn:E3; lia.
Qed.

(* ties go to the even millisecond (Python's round) *)
Lemma ms_of_us_tie q : 0 <= q < 999 -> ms_of_us (1000 * q + 500) = if Z.even q then q else q + 1.
Proof.
  intros H. unfold ms_of_us.
  replace ((1000 * q + 500) / 1000) with q by lia. replace ((1000 * q + 500) mod 1000) with 500 by lia.
  cbn. destruct (Z.even q); lia.
Qed.

Definition dtime_in_domain (d : dtime) : Prop :=
  1900 <= dt_year d < 2156 /\ -32 <= dt_month d < 224 /\ 0 <= dt_day d < 256 /\ 0 <= dt_hour d < 256 /\
  0 <= dt_min d < 256 /\ 0 <= dt_sec d < 256 /\ 0 <= ms_of_us (dt_us d) < 65536.

Lemma dtime_dom d : (exists bs, enc_dtime d = OK bs) <-> dtime_in_domain d.
Proof.
  unfold enc_dtime, dtime_in_domain. split.
  - intros [bs H]. do 7 bind_inv H.
    repeat match goal with
    | Hx : enc_ushort _ = OK _ |- _ => apply ushort_ok in Hx; destruct Hx as [_ Hx]
    | Hx : enc_unorm _ = OK _ |- _ => apply unorm_ok in Hx; destruct Hx as [_ Hx]
    end. lia.
  - intros (D1 & D2 & D3 & D4 & D5 & D6 & D7).
    assert (E1 : 0 <= dt_year d - 1900 < 256) by lia. apply ushort_dom in E1. destruct E1 as [? ->].
    assert (E2 : 0 <= 32 + dt_month d < 256) by lia. apply ushort_dom in E2. destruct E2 as [? ->].
    apply ushort_dom in D3. destruct D3 as [? ->]. apply ushort_dom in D4. destruct D4 as [? ->].
    apply ushort_dom in D5. destruct D5 as [? ->]. apply ushort_dom in D6. destruct D6 as [? ->].
    apply unorm_dom in D7. destruct D7 as [? ->]. cbn [bind]. eauto.
Qed.

(* a calendar date-time (what a Python datetime can hold) decodes to its own fields, UTC zone code 2 *)
Lemma dtime_rt d bs r :
  1 <= dt_month d <= 12 -> enc_dtime d = OK bs ->
  dec_dtime (bs ++ r) =
    Some ({| dd_year := dt_year d; dd_tz := 2; dd_month := dt_month d; dd_day := dt_day d; dd_hour := dt_hour d;
             dd_min := dt_min d; dd_sec := dt_sec d; dd_ms := ms_of_us (dt_us d) |}, r).
Proof.
  intros Hm H. unfold enc_dtime in H. do 7 bind_inv H. inv H.
  repeat match goal with
  | Hx : enc_ushort _ = OK _ |- _ => apply ushort_ok in Hx; destruct Hx as [-> Hx]
  | Hx : enc_unorm _ = OK _ |- _ => apply unorm_ok in Hx; destruct Hx as [-> Hx]
  end.
  unfold be2. cbn [app dec_dtime]. f_equal. f_equal.
  rewrite of_be2_be2 by lia. f_equal; lia.
Qed.
