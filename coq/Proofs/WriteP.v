(* WriteP.v — reachable builder states only hold count-consistent attribute values, so that every explicitly formatted
   record the model writes satisfies the hypothesis of C04 (wf_attr), and the write-time checks keep it. *)
From DV Require Import Model.ApiDispatch Model.EflrReader Proofs.BaseP Proofs.PrimP Proofs.EflrP Proofs.BuilderP.
From Coq Require Import Lia ZifyBool.

(* ---------- schema facts (finite table, regenerated from /repo) ---------- *)
Definition adef_codes_ok (ad : adef) : bool :=
  (match ad_rc0 ad with Some c => (1 <=? c) && (c <=? 27) | None => true end)
  && forallb (fun c => (1 <=? c) && (c <=? 27)) (ad_valid ad)
  && nonnil (ad_label ad).

Lemma schema_codes_ok : forallb (fun td => forallb adef_codes_ok (td_attrs td)) schema = true.
Proof. vm_compute. reflexivity. Qed.

Lemma adef_at_ok ty idx :
  let ad := nth idx (td_attrs (tdef_at ty)) dummy_adef in
  (match ad_rc0 ad with Some c => 1 <= c <= 27 | None => True end) /\ Forall (fun c => 1 <= c <= 27) (ad_valid ad).
Proof.
  cbn zeta. destruct (Nat.lt_ge_cases idx (length (td_attrs (tdef_at ty)))) as [Hlt|Hge].
  - assert (Hin : In (nth idx (td_attrs (tdef_at ty)) dummy_adef) (td_attrs (tdef_at ty))) by (apply nth_In; exact Hlt).
    assert (Htd : In (tdef_at ty) schema \/ tdef_at ty = dummy_tdef).
    { unfold tdef_at. destruct (Nat.lt_ge_cases ty (length schema)); [left; apply nth_In; assumption | right; apply nth_overflow; assumption]. }
    destruct Htd as [Htd | Htd]; [|rewrite Htd in Hin; destruct Hin].
    pose proof schema_codes_ok as H. rewrite forallb_forall in H. specialize (H _ Htd). rewrite forallb_forall in H. specialize (H _ Hin).
    unfold adef_codes_ok in H. repeat (apply andb_prop in H; destruct H as [H ?]).
    split.
    + destruct (ad_rc0 _); [lia | exact I].
    + apply Forall_forall. intros c Hc. rewrite forallb_forall in H1. specialize (H1 c Hc). lia.
  - rewrite nth_overflow by exact Hge. cbn. split; [exact I | constructor].
Qed.

(* ---------- shape of stored values ---------- *)
Definition shape_ok (ad : adef) (vu : spv * option (list Z)) : Prop :=
  ad_mv ad = false -> match fst vu with SPList _ => False | _ => True end.

Definition item_shape_ok (it : item) : Prop :=
  forall idx, shape_ok (nth idx (td_attrs (tdef_at (i_ty it))) dummy_adef) (nth idx (i_attrs it) (SPNone, None)).

Definition Inv_shape (st : bstate) : Prop := forall i, item_shape_ok (nth i (b_items st) dummy_item).

Lemma wf_attr_of_shape st ty idx vu :
  shape_ok (nth idx (td_attrs (tdef_at ty)) dummy_adef) vu ->
  wf_attr (to_attr st (nth idx (td_attrs (tdef_at ty)) dummy_adef) vu).
Proof.
  intros Hs. destruct (adef_at_ok ty idx) as [Hrc Hvalid]. cbn zeta in *.
  set (ad := nth idx (td_attrs (tdef_at ty)) dummy_adef) in *.
  unfold wf_attr, to_attr, attr_count, values_of. cbn [a_mv a_value a_rc0 a_valid].
  split; [|split; [exact Hrc | exact Hvalid]].
  destruct (ad_mv ad) eqn:Emv; cbn [negb].
  - destruct (fst vu); cbn [to_pval]; [reflexivity | right; reflexivity | right; reflexivity].
  - specialize (Hs Emv). destruct (fst vu); cbn [to_pval]; [left; reflexivity | right; reflexivity | destruct Hs].
Qed.

Lemma convert_value_shape f ad r v : convert_value f ad r = OK v -> ad_mv ad = false -> match v with SPList _ => False | _ => True end.
Proof.
  unfold convert_value. intros H Hmv. rewrite Hmv in H. destruct r; try (bind_inv H; inv H; destruct a; exact I). discriminate.
Qed.

Lemma shape_upd_value it idx v :
  item_shape_ok it ->
  (ad_mv (nth idx (td_attrs (tdef_at (i_ty it))) dummy_adef) = false -> match v with SPList _ => False | _ => True end) ->
  forall u, (idx < length (i_attrs it))%nat \/ True ->
  forall j, shape_ok (nth j (td_attrs (tdef_at (i_ty it))) dummy_adef) (nth j (upd (i_attrs it) idx (v, u)) (SPNone, None)).
Proof.
  intros Hok Hv u _ j. destruct (Nat.eq_dec idx j) as [->|Hne].
  - destruct (Nat.lt_ge_cases j (length (i_attrs it))).
    + rewrite nth_upd_same by assumption. exact Hv.
    + assert (E : nth j (upd (i_attrs it) j (v, u)) (SPNone, None) = (SPNone, None)) by (apply nth_overflow; rewrite length_upd; assumption).
      rewrite E. intros _. exact I.
  - rewrite nth_upd_other by exact Hne. apply Hok.
Qed.

Lemma set_value_shape hc st it idx r it' : set_value hc st it idx r = OK it' -> item_shape_ok it -> item_shape_ok it'.
Proof.
  unfold set_value. intros H Hok. bind_inv H. inv H. unfold item_shape_ok. cbn [i_ty i_attrs].
  apply shape_upd_value; [exact Hok | | right; exact I].
  intros Hmv. eapply convert_value_shape; eassumption.
Qed.

Lemma set_units_shape hc st it idx r it' : set_units hc st it idx r = OK it' -> item_shape_ok it -> item_shape_ok it'.
Proof.
  unfold set_units. intros H Hok. bind_inv H. inv H. unfold item_shape_ok. cbn [i_ty i_attrs].
  apply shape_upd_value; [exact Hok | | right; exact I].
  intros Hmv. apply (Hok idx Hmv).
Qed.

Lemma set_attributes_shape hc st : forall kw it it', set_attributes hc st it kw = OK it' -> item_shape_ok it -> item_shape_ok it'.
Proof.
  induction kw as [|[idx p] kw IH]; intros it it' H Hok; [inv H; exact Hok|].
  cbn [set_attributes] in H. bind_inv H. apply (IH _ _ H). clear H IH.
  destruct p as [r|v u].
  - eapply set_value_shape; eassumption.
  - apply bind_ok in H0. destruct H0 as (a0 & Hv1 & Hu1).
    assert (Ha : item_shape_ok a0) by (destruct v; [eapply set_value_shape; eassumption | inv Hv1; exact Hok]).
    destruct u; [eapply set_units_shape; eassumption | inv Hu1; exact Ha].
Qed.

Lemma inv_shape_app st it items' sets' phys' lfs' :
  Inv_shape st -> item_shape_ok it -> items' = b_items st ++ [it] ->
  Inv_shape {| b_items := items'; b_sets := sets'; b_phys := phys'; b_lfs := lfs' |}.
Proof.
  intros Hi Hit ->. intros i. cbn [b_items].
  destruct (Nat.lt_ge_cases i (length (b_items st))).
  - rewrite app_nth1 by assumption. apply Hi.
  - destruct (Nat.eq_dec i (length (b_items st))) as [->|Hne]; [rewrite nth_middle; exact Hit|].
    rewrite nth_overflow by (rewrite app_length; cbn; lia). intros idx. cbn. destruct idx; intros _; exact I.
Qed.

Lemma inv_shape_same_items st st' : b_items st' = b_items st -> Inv_shape st -> Inv_shape st'.
Proof. intros E H i. rewrite E. apply H. Qed.

Lemma inv_shape_set_item st i it : Inv_shape st -> item_shape_ok it -> Inv_shape (set_item st i it).
Proof.
  intros Hi Hit j. unfold set_item. cbn [b_items]. destruct (Nat.eq_dec i j) as [->|Hne].
  - destruct (Nat.lt_ge_cases j (length (b_items st))); [rewrite nth_upd_same by assumption; exact Hit|].
    rewrite nth_overflow by (rewrite length_upd; assumption). intros idx. cbn. destruct idx; intros _; exact I.
  - rewrite nth_upd_other by exact Hne. apply Hi.
Qed.

Lemma gms_items st ty sn st1 sid : get_or_make_set st ty sn = (st1, sid) -> b_items st1 = b_items st.
Proof. unfold get_or_make_set. cbv zeta. destruct (reg_find _ _ _); intros H; inv H; reflexivity. Qed.

Lemma repeat_shape ty n : forall idx, shape_ok (nth idx (td_attrs (tdef_at ty)) dummy_adef) (nth idx (repeat (SPNone, None) n) (SPNone, None)).
Proof. intros idx _. destruct (nth_in_or_default idx (repeat (@SPNone, @None (list Z)) n) (SPNone, None)) as [Hin | ->]; [apply repeat_spec in Hin; rewrite Hin|]; exact I. Qed.

Lemma add_common_shape hc st l ty name sn org dflt kw ds cast st' out :
  add_common hc st l ty name sn org dflt kw ds cast = (st', out) -> Inv_shape st -> Inv_shape st'.
Proof.
  unfold add_common. destruct (lf_at st l) as [f|]; [|intros H; inv H; auto].
  destruct (get_or_make_set st ty sn) as [st1 sid] eqn:Hg. intros H Hi.
  assert (Hi2 : Inv_shape (set_lf st1 l (try_add_set st1 f ty sn sid))) by (eapply inv_shape_same_items; [|exact Hi]; cbn; eapply gms_items; eassumption).
  destruct name; try (inv H; exact Hi2).
  destruct (hc && negb (hc_string s)); [inv H; exact Hi2|].
  match type of H with context [match ?o with OK _ => _ | Err _ => _ end] => destruct o end; [|inv H; exact Hi2].
  match type of H with context [set_attributes ?a ?b ?c ?d] => destruct (set_attributes a b c d) as [it|] eqn:Hs end; inv H; [|exact Hi2].
  unfold register. eapply inv_shape_app; [exact Hi2 | | reflexivity].
  eapply set_attributes_shape; [exact Hs|]. unfold item_shape_ok. cbn [i_ty i_attrs]. apply repeat_shape.
Qed.

Lemma fill_some_shape mine o : forall items k i,
  item_shape_ok (nth i items dummy_item) -> item_shape_ok (nth i (fill_some mine o k items) dummy_item).
Proof.
  induction items as [|it r IH]; intros k i H; [exact H|].
  cbn [fill_some]. destruct i; cbn [nth] in *; [|apply IH; exact H].
  destruct (existsb (Nat.eqb k) mine); [|exact H]. unfold fill_origin. destruct (i_origin it); exact H.
Qed.

Theorem step_inv_shape ps st o ps' st' out : step ps st o = (ps', st', out) -> Inv_shape st -> Inv_shape st'.
Proof.
  destruct o; unfold step.
  - unfold add_lf. destruct hid; try solve [intros H; inv H; auto]. destruct seq; try solve [intros H; inv H; auto].
    repeat match goal with |- context [if ?c then _ else _] => destruct c end; intros H Hi; inv H; exact Hi.
  - destruct (add_common (p_hc ps) st l ty name sn origin default_origin kw None None) as [s1 o1] eqn:E.
    intros H; injection H as <- <- <-. eapply add_common_shape; eassumption.
  - destruct (add_origin (p_hc ps) st l name sn origin kw) as [s1 o1] eqn:E. intros H Hi; injection H as <- <- <-.
    unfold add_origin in E. destruct (lf_at st l) as [f|]; [|inv E; exact Hi].
    destruct (get_or_make_set st T_ORIGIN sn) as [st1 sid] eqn:Hg.
    assert (Hi1 : Inv_shape (set_lf st1 l (try_add_set st1 f T_ORIGIN sn sid))) by (eapply inv_shape_same_items; [|exact Hi]; cbn; eapply gms_items; eassumption).
    match type of E with context [match ?c with Some _ => _ | None => _ end = _] => destruct c end; [inv E; exact Hi1|].
    match type of E with context [add_common ?a ?b ?c ?d ?e0 ?f0 ?g ?h ?i ?j ?k] =>
      destruct (add_common a b c d e0 f0 g h i j k) as [st3 out3] eqn:Ea end.
    assert (Hi3 : Inv_shape st3) by (eapply add_common_shape; [exact Ea | exact Hi1]).
    destruct out3 as [[iid|]|e3]; try (inv E; exact Hi3). inv E.
    assert (Hi4 : Inv_shape (origin_fsn_default (p_hc ps) st3 sid iid)).
    { unfold origin_fsn_default. destruct (fst (nth _ (i_attrs (item_at st3 iid)) (SPNone, None))); try exact Hi3.
      destruct (p_hc ps); [|exact Hi3]. apply inv_shape_set_item; [exact Hi3|].
      unfold item_shape_ok. cbn [i_ty i_attrs]. apply shape_upd_value; [apply (Hi3 iid) | intros _; exact I | right; exact I]. }
    unfold origin_backfill. match goal with |- context [if ?c then _ else _] => destruct c end; [|exact Hi4].
    intros i. cbn [set_lf b_items]. apply fill_some_shape. apply Hi4.
  - destruct (add_channel (p_hc ps) st l name sn origin kw bad_data data ds cast) as [s1 o1] eqn:E. intros H Hi; injection H as <- <- <-.
    unfold add_channel in E. destruct (lf_at st l) as [f|]; [|inv E; exact Hi].
    destruct bad_data; [inv E; exact Hi|].
    destruct (unique_dataset_name st f _ ds); [|inv E; exact Hi].
    destruct cast as [[c|]|].
    + destruct (add_common (p_hc ps) st l T_CHANNEL name sn origin default_origin kw (Some a) (Some c)) as [st3 out3] eqn:Ea.
      assert (Hi3 : Inv_shape st3) by (eapply add_common_shape; eassumption).
      destruct out3 as [[iid|]|e3]; [destruct data; [destruct (lf_at st3 l)|]|..]; inv E; exact Hi3.
    + destruct (get_or_make_set st T_CHANNEL sn) as [st1 sid] eqn:Hg. inv E.
      eapply inv_shape_same_items; [|exact Hi]; cbn; eapply gms_items; eassumption.
    + destruct (add_common (p_hc ps) st l T_CHANNEL name sn origin default_origin kw (Some a) None) as [st3 out3] eqn:Ea.
      assert (Hi3 : Inv_shape st3) by (eapply add_common_shape; eassumption).
      destruct out3 as [[iid|]|e3]; [destruct data; [destruct (lf_at st3 l)|]|..]; inv E; exact Hi3.
  - destruct (add_frame (p_hc ps) st l name sn origin channels chan_attr_idx kw) as [s1 o1] eqn:E. intros H Hi; injection H as <- <- <-.
    unfold add_frame in E. destruct channels; try (inv E; exact Hi). destruct l0; [inv E; exact Hi|].
    match type of E with context [if ?c then _ else _] => destruct c end; [|inv E; exact Hi].
    eapply add_common_shape; eassumption.
  - unfold assign. destruct (nth_error (b_items st) i) as [it|] eqn:En; [|intros H; inv H; auto].
    intros H Hi.
    assert (Hsh : item_shape_ok it) by (rewrite <- (nth_error_nth _ _ dummy_item En); apply Hi).
    destruct units.
    + destruct (set_units (p_hc ps) st it idx r) as [it'|] eqn:Es; inv H; [|exact Hi].
      apply inv_shape_set_item; [exact Hi|]. eapply set_units_shape; eassumption.
    + destruct (set_value (p_hc ps) st it idx r) as [it'|] eqn:Es; inv H; [|exact Hi].
      apply inv_shape_set_item; [exact Hi|]. eapply set_value_shape; eassumption.
  - unfold add_nofmt_data. destruct (lf_at st l); intros H Hi; inv H; exact Hi.
  - intros H; inv H; auto.
  - intros H; inv H; auto.
  - destruct (p_stack ps); intros H; inv H; auto.
  - unfold set_origin. destruct (nth_error (b_items st) i) as [it|] eqn:En; [|intros H; inv H; auto].
    intros H Hi.
    assert (Hsh : item_shape_ok it) by (rewrite <- (nth_error_nth _ _ dummy_item En); apply Hi).
    destruct r; inv H; try exact Hi. apply inv_shape_set_item; [exact Hi | exact Hsh].
  - unfold set_header. destruct (lf_at st l); [|intros H; inv H; auto].
    destruct is_id, r; intros H Hi; inv H; exact Hi.
Qed.

Theorem run_ops_inv_shape : forall ops ps st, Inv_shape st -> Inv_shape (bstate_of (run_ops ps st ops)).
Proof.
  induction ops as [|o ops IH]; intros ps st Hi; [exact Hi|].
  cbn [run_ops]. destruct (step ps st o) as [[ps1 st1] out] eqn:E.
  specialize (IH ps1 st1 (step_inv_shape _ _ _ _ _ _ E Hi)).
  destruct (run_ops ps1 st1 ops) as [[ps2 st2] outs]. exact IH.
Qed.

Lemma inv_shape_init : Inv_shape b_init.
Proof. intros i idx. cbn. destruct i; destruct idx; intros _; exact I. Qed.

(* in every reachable state every attribute of every object satisfies the hypothesis of C04 *)
Theorem reachable_attrs_wf ops ps i idx :
  let st := bstate_of (run_ops ps b_init ops) in
  let it := nth i (b_items st) dummy_item in
  wf_attr (to_attr st (nth idx (td_attrs (tdef_at (i_ty it))) dummy_adef) (nth idx (i_attrs it) (SPNone, None))).
Proof.
  cbn zeta. apply wf_attr_of_shape. apply (run_ops_inv_shape ops ps b_init inv_shape_init i idx).
Qed.
