(* DataP.v — channel descriptors vs data, frame numbering (C03, C08). *)
From DV Require Import Model.Data Proofs.BaseP Proofs.PrimP Proofs.IflrP.
From Coq Require Import Lia ZifyBool.
Ltac Zify.zify_post_hook ::= Z.to_euclidean_division_equations.

Lemma frame_recs_spec o : forall rows i recs,
  frame_recs o i rows = OK recs ->
  Forall2 (fun '(k, row) r => lr_eflr r = false /\ lr_type r = 0 /\ lr_body r <> []
                              /\ dec_fdata (descr_of row) (lr_body r) = Some (o, k, row))
          (numbered i rows) recs.
Proof.
  induction rows as [|row rows IH]; intros i recs H.
  - inv H. constructor.
  - cbn [frame_recs] in H. bind_inv H. bind_inv H. inv H. cbn [numbered]. constructor; [|apply IH; assumption].
    unfold fdata_rec in H0. bind_inv H0. inv H0. cbn [lr_eflr lr_type lr_body].
    repeat split; [eapply fdata_body_nonempty; eassumption | eapply fdata_decode; eassumption].
Qed.

Lemma frame_recs_length o : forall rows i recs, frame_recs o i rows = OK recs -> length recs = length rows.
Proof.
  induction rows as [|row rows IH]; intros i recs H.
  - inv H. reflexivity.
  - cbn [frame_recs] in H. bind_inv H. bind_inv H. inv H. cbn [length]. f_equal. eapply IH. eassumption.
Qed.

Lemma elim_bounds_refl : forall d, Forall (fun x => True) d -> elim_bounds d d = true.
Proof. induction d as [|x d IH]; intros _; [reflexivity|]. cbn. rewrite Z.leb_refl. apply IH. apply Forall_forall. auto. Qed.

Lemma channel_setup_spec udim uelim cast src shape code dim el :
  channel_setup udim uelim cast src shape = OK (code, dim, el) ->
  code = match cast with Some c => c | None => src end /\ valid_dtype code = true
  /\ dim = match shape with [] => [1] | _ => shape end
  /\ elim_bounds el dim = true
  /\ (match udim with Some (d :: ds) => d :: ds = dim | _ => True end)
  /\ (match uelim with Some (e :: es) => el = e :: es | _ => el = dim end).
Proof.
  unfold channel_setup. set (dm := match shape with [] => [1] | _ => shape end).
  intros H. bind_inv H. bind_inv H. bind_inv H. inv H.
  assert (Hrefl : elim_bounds dm dm = true) by (apply elim_bounds_refl; apply Forall_forall; auto).
  repeat split.
  - destruct cast as [c|]; [destruct (valid_dtype c); inv H2; reflexivity | destruct (valid_dtype src); inv H2; reflexivity].
  - destruct cast as [c|]; [destruct (valid_dtype c) eqn:E; inv H2; exact E | destruct (valid_dtype src) eqn:E; inv H2; exact E].
  - destruct uelim as [[|e es]|]; try (inv H1; exact Hrefl).
    destruct (list_eqb (e :: es) dm) eqn:E1; [inv H1; exact Hrefl|].
    destruct (elim_bounds (e :: es) dm) eqn:E2; inv H1. exact E2.
  - destruct udim as [[|d ds]|]; try exact I.
    destruct (list_eqb (d :: ds) dm) eqn:E; [|discriminate]. apply list_eqb_eq in E. exact E.
  - destruct uelim as [[|e es]|]; try (inv H1; reflexivity).
    destruct (list_eqb (e :: es) dm) eqn:E1; [inv H1; apply list_eqb_eq in E1; congruence|].
    destruct (elim_bounds (e :: es) dm) eqn:E2; inv H1. reflexivity.
Qed.

(* ---------- C11: the two loading paths agree; the window is a slice; chunking is invisible ---------- *)

Lemma slice_zip_rows cols n a b :
  0 <= a <= b -> b <= Z.of_nat n ->
  slice a b (zip_rows cols n) = zip_rows (map (slice a b) cols) (Z.to_nat (b - a)).
Proof.
  intros H1 H2. unfold slice at 1, zip_rows, firstnz, skipnz.
  rewrite skipn_map, firstn_map. rewrite skipn_seq, firstn_seq by lia.
  cbn [Nat.add]. rewrite <- (map_seq_shift _ (Z.to_nat a) (Z.to_nat (b - a))).
  apply map_ext_in. intros i Hi. apply in_seq in Hi. rewrite map_map. apply map_ext. intros c.
  unfold slice, firstnz, skipnz. rewrite nth_firstn_lt by lia. rewrite nth_skipn_add. reflexivity.
Qed.

(* the direct-slice path of a structured source equals the generic per-channel path *)
Theorem load_paths_agree cols n from_idx start stop :
  0 <= from_idx -> 0 <= start <= stop -> from_idx + stop <= Z.of_nat n ->
  load_direct (zip_rows cols n) from_idx start stop = load_generic cols from_idx start stop.
Proof.
  intros H1 H2 H3. unfold load_direct, load_generic. rewrite slice_zip_rows by lia. f_equal. f_equal. lia.
Qed.

(* loading rows [start, stop) of the window [from, to) is slicing the pre-sliced data *)
Theorem load_window cols from_idx to_idx start stop :
  0 <= from_idx -> 0 <= start <= stop -> from_idx + stop <= to_idx ->
  load_generic cols from_idx start stop = load_generic (map (slice from_idx to_idx) cols) 0 start stop.
Proof.
  intros H1 H2 H3. unfold load_generic. rewrite map_map. f_equal. apply map_ext. intros c.
  cbn [Z.add]. apply slice_slice; lia.
Qed.

Lemma chunk_ranges_bounds n chunk : 0 <= n -> match chunk with Some c => 0 < c | None => True end ->
  Forall (fun '(a, b) => 0 <= a <= b /\ b <= n) (chunk_ranges n chunk).
Proof.
  intros Hn Hc. unfold chunk_ranges. destruct chunk as [c|]; [|constructor; [lia | constructor]].
  pose proof (Z.div_pos n c Hn Hc) as Hq0. pose proof (Z.mod_pos_bound n c Hc) as Hr.
  pose proof (Z.div_mod n c ltac:(lia)) as Hdm.
  remember (n / c) as q eqn:Eq. remember (n mod c) as r eqn:Er.
  apply Forall_app. split.
  - assert (G : forall k i, 0 <= i -> (i + Z.of_nat k) * c <= n -> Forall (fun '(a, b) => 0 <= a <= b /\ b <= n) (full_chunks k i c)).
    { induction k as [|k IH]; intros i Hi Hle; [constructor|]. cbn [full_chunks]. constructor; [nia|]. apply IH; [lia | nia]. }
    apply G; [lia|]. rewrite Z2Nat.id by lia. nia.
  - destruct (0 <? r); [constructor; [nia | constructor] | constructor].
Qed.

From DV Require Import Proofs.OutputP.

Lemma zlen_zip_rows cols n : zlen (zip_rows cols n) = Z.of_nat n.
Proof. unfold zlen, zip_rows. rewrite map_length, seq_length. reflexivity. Qed.

(* rows produced by the chunked generator over the window [from, to) = the pre-sliced data, whole; for every chunk size *)
Theorem load_all_window cols from_idx to_idx chunk :
  0 <= from_idx <= to_idx -> match chunk with Some c => 0 < c | None => True end ->
  load_all (load_generic cols from_idx) (to_idx - from_idx) chunk
  = zip_rows (map (slice from_idx to_idx) cols) (Z.to_nat (to_idx - from_idx)).
Proof.
  intros Hw Hc. unfold load_all.
  set (n := to_idx - from_idx). set (W := zip_rows (map (slice from_idx to_idx) cols) (Z.to_nat n)).
  assert (HW : zlen W = n) by (unfold W; rewrite zlen_zip_rows; lia).
  transitivity (chunked W chunk); [|apply chunked_id; exact Hc]. unfold chunked. rewrite HW. f_equal.
  apply map_ext_in. intros [a b] Hin.
  pose proof (chunk_ranges_bounds n chunk ltac:(lia) Hc) as Hb. rewrite Forall_forall in Hb. specialize (Hb _ Hin). cbn in Hb.
  rewrite (load_window cols from_idx to_idx a b) by lia.
  unfold load_generic. cbn [Z.add]. unfold W. rewrite slice_zip_rows by lia. reflexivity.
Qed.

(* ---------- C13: index statistics ---------- *)

Lemma in_insert_sorted x y l : In x (insert_sorted y l) <-> x = y \/ In x l.
Proof.
  induction l as [|z l IH]; cbn; [intuition|]. destruct (y <=? z); cbn; [intuition|]. rewrite IH. intuition.
Qed.

Lemma in_sort_z x l : In x (sort_z l) <-> In x l.
Proof. induction l as [|y l IH]; cbn; [tauto|]. rewrite in_insert_sorted, IH. intuition. Qed.

Lemma in_dedup_sorted x : forall l, In x (dedup_sorted l) <-> In x l.
Proof.
  induction l as [|a l IH]; [tauto|]. destruct l as [|b r]; [cbn; tauto|].
  change (dedup_sorted (a :: b :: r)) with (if a =? b then dedup_sorted (b :: r) else a :: dedup_sorted (b :: r)).
  destruct (a =? b) eqn:E.
  - rewrite IH. apply Z.eqb_eq in E. subst. cbn. intuition.
  - cbn [In]. rewrite IH. cbn. intuition.
Qed.

Lemma fold_min_spec x r : (forall y, In y (x :: r) -> fold_right Z.min x r <= y) /\ In (fold_right Z.min x r) (x :: r).
Proof.
  induction r as [|z r [IH1 IH2]]; cbn [fold_right].
  - split; [intros y [<-|[]]; lia | left; reflexivity].
  - split.
    + intros y [<-|[<-|Hy]]; [specialize (IH1 x (or_introl eq_refl)) | | specialize (IH1 y (or_intror Hy))]; lia.
    + destruct (Z.min_spec z (fold_right Z.min x r)) as [[_ ->]|[_ ->]]; [right; left; reflexivity|].
      destruct IH2 as [<-|H]; [left; reflexivity | right; right; exact H].
Qed.

Lemma fold_max_spec x r : (forall y, In y (x :: r) -> y <= fold_right Z.max x r) /\ In (fold_right Z.max x r) (x :: r).
Proof.
  induction r as [|z r [IH1 IH2]]; cbn [fold_right].
  - split; [intros y [<-|[]]; lia | left; reflexivity].
  - split.
    + intros y [<-|[<-|Hy]]; [specialize (IH1 x (or_introl eq_refl)) | | specialize (IH1 y (or_intror Hy))]; lia.
    + destruct (Z.max_spec z (fold_right Z.max x r)) as [[_ ->]|[_ ->]]; [|right; left; reflexivity].
      destruct IH2 as [<-|H]; [left; reflexivity | right; right; exact H].
Qed.

(* "uniform within the documented tolerance": every difference d satisfies (1 - d/s)^2 < 1/1000, s = s2/2 *)
Definition within_tolerance (s2 d : Z) : Prop := 1000 * (s2 - 2 * d) * (s2 - 2 * d) < s2 * s2.

Theorem index_stats_spec rows s :
  index_stats rows = Some s ->
  (forall y, In y rows -> is_min s <= y <= is_max s) /\ In (is_min s) rows /\ In (is_max s) rows
  /\ (forall s2, is_spacing2 s = Some s2 ->
        (2 <= length rows)%nat /\ ((forall d, In d (diffs rows) -> 2 * d = s2) \/ (s2 <> 0 /\ forall d, In d (diffs rows) -> within_tolerance s2 d)))
  /\ (is_direction s = Some true -> (forall d, In d (diffs rows) -> 0 <= d) /\ exists d, In d (diffs rows) /\ d <> 0)
  /\ (is_direction s = Some false -> (forall d, In d (diffs rows) -> d <= 0) /\ exists d, In d (diffs rows) /\ d <> 0)
  /\ ((length rows < 2)%nat -> is_spacing2 s = None /\ is_direction s = None).
Proof.
  unfold index_stats. destruct rows as [|x r]; [discriminate|].
  remember (diffs (x :: r)) as ds eqn:Hds. remember (dedup_sorted (sort_z ds)) as du eqn:Hdu.
  remember (fold_right Z.min x r) as mn eqn:Hmn. remember (fold_right Z.max x r) as mx eqn:Hmx.
  intros H. destruct s as [smin smax ssp sdir]. cbn [is_min is_max is_spacing2 is_direction].
  assert (E1 : smin = mn) by congruence. assert (E2 : smax = mx) by congruence.
  assert (E3 : ssp = match ds with [] => None | _ :: _ => spacing2_of ds du end) by congruence.
  assert (E4 : sdir = match ds with [] => None | _ :: _ => direction_of du end) by congruence.
  clear H. subst smin smax ssp sdir. subst mn mx.
  destruct (fold_min_spec x r) as [Hmin1 Hmin2]. destruct (fold_max_spec x r) as [Hmax1 Hmax2].
  assert (Hin : forall d, In d du <-> In d ds) by (intros d; rewrite Hdu, in_dedup_sorted, in_sort_z; tauto).
  assert (Hlen : ds <> [] -> (2 <= length (x :: r))%nat).
  { rewrite Hds. destruct r; cbn; [congruence | lia]. }
  clear Hdu.
  assert (Hex : forallb (Z.eqb 0) du = false -> exists d, In d ds /\ d <> 0).
  { intros E0. assert (Hx : exists d, In d du /\ d <> 0).
    { clear -E0. induction du as [|a l IH]; [discriminate|]. cbn [forallb] in E0. destruct (0 =? a) eqn:Ea; cbn [andb] in E0.
      - destruct (IH E0) as (d & Hd & Hn). exists d. split; [right; exact Hd | exact Hn].
      - exists a. split; [left; reflexivity | lia]. }
    destruct Hx as (d & Hd & Hn). exists d. split; [apply Hin; exact Hd | exact Hn]. }
  split; [intros y Hy; split; [apply Hmin1 | apply Hmax1]; assumption|].
  split; [exact Hmin2|]. split; [exact Hmax2|].
  split.
  { intros s2 Hs. destruct ds as [|d0 ds'] eqn:Eds; [discriminate|]. split; [apply Hlen; discriminate|].
    unfold spacing2_of in Hs. destruct du as [|u [|u2 du']] eqn:Edu.
    - exfalso. specialize (Hin d0). cbn in Hin. tauto.
    - inv Hs. left. intros d Hd. apply Hin in Hd. destruct Hd as [<-|[]]. reflexivity.
    - destruct (median2 (d0 :: ds') =? 0) eqn:Em; [discriminate|].
      destruct (forallb (fun d => 1000 * (median2 (d0 :: ds') - 2 * d) * (median2 (d0 :: ds') - 2 * d) <? median2 (d0 :: ds') * median2 (d0 :: ds')) (u :: u2 :: du')) eqn:Ef; [|discriminate].
      inv Hs. right. split; [lia|].
      intros d Hd. apply Hin in Hd. rewrite forallb_forall in Ef. specialize (Ef d Hd). unfold within_tolerance. lia. }
  split.
  { intros Hd. destruct ds as [|d0 ds'] eqn:Eds; [discriminate|]. unfold direction_of in Hd.
    destruct (forallb (Z.eqb 0) du) eqn:E0; [discriminate|].
    destruct (forallb (fun d => 0 <=? d) du) eqn:E1; [|destruct (forallb (fun d => d <=? 0) du); discriminate].
    split; [|apply Hex; reflexivity].
    intros d Hi. apply Hin in Hi. rewrite forallb_forall in E1. specialize (E1 d Hi). lia. }
  split.
  { intros Hd. destruct ds as [|d0 ds'] eqn:Eds; [discriminate|]. unfold direction_of in Hd.
    destruct (forallb (Z.eqb 0) du) eqn:E0; [discriminate|].
    destruct (forallb (fun d => 0 <=? d) du) eqn:E1; [discriminate|].
    destruct (forallb (fun d => d <=? 0) du) eqn:E2; [|discriminate].
    split; [|apply Hex; reflexivity].
    intros d Hi. apply Hin in Hi. rewrite forallb_forall in E2. specialize (E2 d Hi). lia. }
  intros Hl. rewrite Hds. destruct r as [|y r']; [split; reflexivity | cbn in Hl; lia].
Qed.
