(* DataP.v — channel descriptors vs data, frame numbering (C03, C08). *)
From DV Require Import Model.Data Proofs.BaseP Proofs.PrimP Proofs.IflrP.
From Coq Require Import Lia ZifyBool.
Ltac Zify.zify_post_hook ::= Z.to_euclidean_division_equations.

Lemma frame_recs_spec o : forall rows i recs,
  frame_recs o i rows = OK recs ->
  Forall2 (fun '(k, row) r => lr_eflr r = false /\ lr_type r = 0 /\ lr_body r <> []
                              /\ dec_fdata (descr_of row) (lr_body r) = Some (o, k, row))
          (numbered i rows) recs.
Proof.
  induction rows as [|row rows IH]; intros i recs H.
  - inv H. constructor.
  - cbn [frame_recs] in H. bind_inv H. bind_inv H. inv H. cbn [numbered]. constructor; [|apply IH; assumption].
    unfold fdata_rec in H0. bind_inv H0. inv H0. cbn [lr_eflr lr_type lr_body].
    repeat split; [eapply fdata_body_nonempty; eassumption | eapply fdata_decode; eassumption].
Qed.

Lemma frame_recs_length o : forall rows i recs, frame_recs o i rows = OK recs -> length recs = length rows.
Proof.
  induction rows as [|row rows IH]; intros i recs H.
  - inv H. reflexivity.
  - cbn [frame_recs] in H. bind_inv H. bind_inv H. inv H. cbn [length]. f_equal. eapply IH. eassumption.
Qed.

Lemma elim_bounds_refl : forall d, Forall (fun x => True) d -> elim_bounds d d = true.
Proof. induction d as [|x d IH]; intros _; [reflexivity|]. cbn. rewrite Z.leb_refl. apply IH. apply Forall_forall. auto. Qed.

Lemma channel_setup_spec udim uelim cast src shape code dim el :
  channel_setup udim uelim cast src shape = OK (code, dim, el) ->
  code = match cast with Some c => c | None => src end /\ valid_dtype code = true
  /\ dim = match shape with [] => [1] | _ => shape end
  /\ elim_bounds el dim = true
  /\ (match udim with Some (d :: ds) => d :: ds = dim | _ => True end)
  /\ (match uelim with Some (e :: es) => el = e :: es | _ => el = dim end).
Proof.
  unfold channel_setup. set (dm := match shape with [] => [1] | _ => shape end).
  intros H. bind_inv H. bind_inv H. bind_inv H. inv H.
  assert (Hrefl : elim_bounds dm dm = true) by (apply elim_bounds_refl; apply Forall_forall; auto).
  repeat split.
  - destruct cast as [c|]; [destruct (valid_dtype c); inv H2; reflexivity | destruct (valid_dtype src); inv H2; reflexivity].
  - destruct cast as [c|]; [destruct (valid_dtype c) eqn:E; inv H2; exact E | destruct (valid_dtype src) eqn:E; inv H2; exact E].
  - destruct uelim as [[|e es]|]; try (inv H1; exact Hrefl).
    destruct (list_eqb (e :: es) dm) eqn:E1; [inv H1; exact Hrefl|].
    destruct (elim_bounds (e :: es) dm) eqn:E2; inv H1. exact E2.
  - destruct udim as [[|d ds]|]; try exact I.
    destruct (list_eqb (d :: ds) dm) eqn:E; [|discriminate]. apply list_eqb_eq in E. exact E.
  - destruct uelim as [[|e es]|]; try (inv H1; reflexivity).
    destruct (list_eqb (e :: es) dm) eqn:E1; [inv H1; apply list_eqb_eq in E1; congruence|].
    destruct (elim_bounds (e :: es) dm) eqn:E2; inv H1. reflexivity.
Qed.
