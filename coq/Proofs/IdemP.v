(* IdemP.v — the per-object "checks and defaults" step of a write is idempotent: running it on its own result changes
   nothing and succeeds again (EFLRItem._run_checks_and_set_defaults as modelled by Write.run_checks). This is where defect
   D23 was: before its repair the PARAMETER / COMPUTATION / CALIBRATION-MEASUREMENT branches failed this statement. *)
From DV Require Import Model.ApiDispatch Proofs.BaseP Proofs.PrimP Proofs.BuilderP Proofs.WriteP Proofs.BytesP Proofs.StructP Proofs.FileP Proofs.KeepP.
From Coq Require Import Lia ZifyBool.

(* ---------- puts ---------- *)
Lemma upd_upd {A} : forall (l : list A) n x y, upd (upd l n x) n y = upd l n y.
Proof. induction l as [|h t IH]; intros n x y; [reflexivity|]. destruct n; cbn [upd]; [reflexivity | rewrite IH; reflexivity]. Qed.

Lemma put_put it idx v w : put_value (put_value it idx v) idx w = put_value it idx w.
Proof.
  unfold put_value at 1 3. cbn [i_ty i_set i_name i_origin i_copy i_dataset i_cast]. f_equal.
  rewrite get_put_value_snd. unfold put_value. cbn [i_attrs]. apply upd_upd.
Qed.

Lemma get_put_same it idx v : (idx < length (i_attrs it))%nat -> get_attr (put_value it idx v) idx = (v, snd (get_attr it idx)).
Proof. intros H. unfold get_attr, put_value. cbn [i_attrs]. apply nth_upd_same. exact H. Qed.

Lemma put_ty it idx v : i_ty (put_value it idx v) = i_ty it.       Proof. reflexivity. Qed.
Lemma put_name it idx v : i_name (put_value it idx v) = i_name it. Proof. reflexivity. Qed.
Lemma put_len it idx v : length (i_attrs (put_value it idx v)) = length (i_attrs it).
Proof. unfold put_value. cbn [i_attrs]. apply length_upd. Qed.

Lemma int_list_of_ints l : int_list_of (spv_ints l) = Some l.
Proof.
  unfold spv_ints, int_list_of. induction l as [|z l IH]; [reflexivity|]. cbn [map].
  cbn. cbn in IH. rewrite IH. reflexivity.
Qed.

Lemma check_axis_ext st a b :
  i_ty a = i_ty b -> get_attr a (aidx (i_ty b) n_axis) = get_attr b (aidx (i_ty b) n_axis) ->
  get_attr a (aidx (i_ty b) n_dimension) = get_attr b (aidx (i_ty b) n_dimension) ->
  check_axis_vs_dimension st a = check_axis_vs_dimension st b.
Proof. intros E1 E2 E3. unfold check_axis_vs_dimension. cbv zeta. rewrite E1, E2, E3. reflexivity. Qed.

(* attribute positions (finite table regenerated from /repo) *)
Lemma ix_channel : aidx T_CHANNEL n_element_limit = 6%nat /\ aidx T_CHANNEL n_dimension = 4%nat /\ aidx T_CHANNEL n_long_name = 0%nat
                   /\ aidx T_CHANNEL n_axis = 5%nat /\ length (td_attrs (tdef_at T_CHANNEL)) = 10%nat.
Proof. vm_compute. repeat split. Qed.

(* ---------- ORIGIN ---------- *)
Lemma idem_origin st it it' : i_ty it = T_ORIGIN -> run_checks st it = OK it' -> run_checks st it' = OK it'.
Proof.
  intros Ho H. unfold run_checks in *. cbv zeta in *.
  assert (Ho' : i_ty it' = T_ORIGIN).
  { rewrite Ho, Nat.eqb_refl in H. inv H. destruct (fst (get_attr it _)); exact Ho. }
  rewrite Ho' , Nat.eqb_refl. rewrite Ho, Nat.eqb_refl in H. inv H. f_equal.
  destruct (fst (get_attr it (aidx T_ORIGIN n_field_name))) eqn:E.
  - destruct (fst (get_attr (put_value it (aidx T_ORIGIN n_field_name) (SPScalar (SStr str_WILDCAT))) (aidx T_ORIGIN n_field_name))); [apply put_put | reflexivity | reflexivity].
  - rewrite E. reflexivity.
  - rewrite E. reflexivity.
Qed.

(* ---------- CHANNEL ---------- *)
Definition eldm (it : item) : res item :=
  if negb (spv_truthy (fst (get_attr it 6))) && spv_truthy (fst (get_attr it 4)) then OK (put_value it 6 (fst (get_attr it 4)))
  else if negb (spv_truthy (fst (get_attr it 4))) && spv_truthy (fst (get_attr it 6)) then OK (put_value it 4 (fst (get_attr it 6)))
  else match int_list_of (fst (get_attr it 6)), int_list_of (fst (get_attr it 4)) with
       | Some e, Some d => if list_eqb e d || elim_bounds e d then OK it else Err ERuntime
       | _, _ => OK it
       end.

Lemma eldm_fix it it1 : length (i_attrs it) = 10%nat -> eldm it = OK it1 ->
  forall x, fst (get_attr x 6) = fst (get_attr it1 6) -> fst (get_attr x 4) = fst (get_attr it1 4) -> eldm x = OK x.
Proof.
  intros Hn H x E6 E4. unfold eldm in H.
  destruct (negb (spv_truthy (fst (get_attr it 6))) && spv_truthy (fst (get_attr it 4))) eqn:CA.
  { (* element limit := dimension *)
    apply OK_inj_ in H. subst it1. apply andb_prop in CA. destruct CA as [_ Td].
    rewrite get_put_same in E6 by lia. rewrite get_put_value_other in E4 by discriminate. cbn [fst] in E6.
    unfold eldm. rewrite E6, E4, Td. cbn [negb andb].
    destruct (int_list_of (fst (get_attr it 4))) as [d|]; [rewrite list_eqb_refl; reflexivity | reflexivity]. }
  destruct (negb (spv_truthy (fst (get_attr it 4))) && spv_truthy (fst (get_attr it 6))) eqn:CB.
  { apply OK_inj_ in H. subst it1. apply andb_prop in CB. destruct CB as [_ Te].
    rewrite get_put_same in E4 by lia. rewrite get_put_value_other in E6 by discriminate. cbn [fst] in E4.
    unfold eldm. rewrite E6, E4, Te. cbn [negb andb].
    destruct (int_list_of (fst (get_attr it 6))) as [e|]; [rewrite list_eqb_refl; reflexivity | reflexivity]. }
  assert (E : it1 = it).
  { destruct (int_list_of (fst (get_attr it 6))) as [e|]; [|inv H; reflexivity].
    destruct (int_list_of (fst (get_attr it 4))) as [d|]; [|inv H; reflexivity].
    destruct (list_eqb e d || elim_bounds e d); inv H; reflexivity. }
  subst it1. unfold eldm. rewrite E6, E4, CA, CB.
  destruct (int_list_of (fst (get_attr it 6))) as [e|]; [|reflexivity].
  destruct (int_list_of (fst (get_attr it 4))) as [d|]; [|reflexivity].
  destruct (list_eqb e d || elim_bounds e d); [reflexivity | discriminate].
Qed.

Lemma eldm_facts it it1 : eldm it = OK it1 ->
  i_ty it1 = i_ty it /\ i_name it1 = i_name it /\ length (i_attrs it1) = length (i_attrs it)
  /\ forall j, j <> 6%nat -> j <> 4%nat -> get_attr it1 j = get_attr it j.
Proof.
  unfold eldm. intros H.
  destruct (negb _ && _); [apply OK_inj_ in H; subst it1; repeat split; [apply put_len | intros j H6 H4; apply get_put_value_other; exact H6]|].
  destruct (negb _ && _); [apply OK_inj_ in H; subst it1; repeat split; [apply put_len | intros j H6 H4; apply get_put_value_other; exact H4]|].
  assert (E : it1 = it).
  { destruct (int_list_of (fst (get_attr it 6))) as [e|]; [|inv H; reflexivity].
    destruct (int_list_of (fst (get_attr it 4))) as [d|]; [|inv H; reflexivity].
    destruct (list_eqb e d || elim_bounds e d); inv H; reflexivity. }
  subst it1. repeat split.
Qed.

Lemma run_checks_channel st it : i_ty it = T_CHANNEL ->
  run_checks st it =
  (do it1 <- eldm it; do _ <- check_axis_vs_dimension st it1;
   OK (if spv_truthy (fst (get_attr it1 0)) then it1 else put_value it1 0 (SPScalar (SStr (i_name it1))))).
Proof.
  intros Hc. destruct ix_channel as (IE & ID & IL & IA & IN). unfold run_checks. cbv zeta. rewrite Hc.
  change (Nat.eqb T_CHANNEL T_ORIGIN) with false. rewrite Nat.eqb_refl. cbv iota. rewrite IE, ID, IL. reflexivity.
Qed.

Lemma idem_channel st it it' : i_ty it = T_CHANNEL -> item_len_ok it -> run_checks st it = OK it' -> run_checks st it' = OK it'.
Proof.
  intros Hc Hlen H. destruct ix_channel as (IE & ID & IL & IA & IN).
  assert (Hn : length (i_attrs it) = 10%nat).
  { unfold item_len_ok, sig_len_ok, isig in Hlen. cbn [fst snd] in Hlen. rewrite Hlen, Hc. exact IN. }
  rewrite run_checks_channel in H by exact Hc.
  bind_inv H. rename a into it1, H0 into H1. bind_inv H. rename H0 into Hax. apply OK_inj_ in H. destruct a.
  destruct (eldm_facts _ _ H1) as (T1 & N1 & L1 & O1).
  assert (T' : i_ty it' = T_CHANNEL) by (subst it'; destruct (spv_truthy _); [congruence | rewrite put_ty; congruence]).
  assert (G : forall j, j <> 0%nat -> get_attr it' j = get_attr it1 j).
  { intros j Hj. subst it'. destruct (spv_truthy _); [reflexivity | apply get_put_value_other; exact Hj]. }
  rewrite run_checks_channel by exact T'.
  rewrite (eldm_fix it it1 Hn H1 it') by (rewrite G by discriminate; reflexivity). cbn [bind].
  assert (Eax : check_axis_vs_dimension st it' = check_axis_vs_dimension st it1).
  { apply check_axis_ext; [congruence | |]; rewrite T1, Hc; [rewrite IA | rewrite ID]; apply G; discriminate. }
  rewrite Eax, Hax. cbn [bind]. f_equal.
  subst it'. destruct (spv_truthy (fst (get_attr it1 0))) eqn:Tl; [rewrite Tl; reflexivity|].
  destruct (spv_truthy (fst (get_attr (put_value it1 0 (SPScalar (SStr (i_name it1)))) 0))); [reflexivity|].
  rewrite put_name. apply put_put.
Qed.

(* ---------- the dimension step of PARAMETER / COMPUTATION (and, per attribute, CALIBRATION-MEASUREMENT) ---------- *)
Lemma truthy_ints l : spv_truthy (spv_ints l) = nonnil l.
Proof. destruct l; reflexivity. Qed.

Lemma falsy_int_list d dl : spv_truthy d = false -> int_list_of d = Some dl -> d = SPList [] /\ dl = [].
Proof.
  destruct d as [|s|l]; try discriminate. destruct l as [|x l]; [intros _ H; inv H; auto|]. discriminate.
Qed.

(* check_or_set_dimensionality on an item whose dimension already is what the check leaves *)
Lemma cosd_fix it v it1 :
  check_or_set_dimensionality it v = OK it1 -> (aidx (i_ty it) n_dimension < length (i_attrs it))%nat ->
  forall x, i_ty x = i_ty it -> fst (get_attr x (aidx (i_ty it) n_dimension)) = fst (get_attr it1 (aidx (i_ty it) n_dimension)) ->
  check_or_set_dimensionality x v = OK x.
Proof.
  intros H Hlt x Tx Ex. unfold check_or_set_dimensionality in *. rewrite Tx.
  assert (G : forall dim,
            match fst (get_attr it (aidx (i_ty it) n_dimension)) with
            | SPNone => OK (put_value it (aidx (i_ty it) n_dimension) (spv_ints dim))
            | d => match int_list_of d with
                   | Some dl => if list_eqb dl dim || (negb (nonnil dim) && list_eqb dl [1]) then OK it else Err ERuntime
                   | None => Err ERuntime
                   end
            end = OK it1 ->
            match fst (get_attr x (aidx (i_ty it) n_dimension)) with
            | SPNone => OK (put_value x (aidx (i_ty it) n_dimension) (spv_ints dim))
            | d => match int_list_of d with
                   | Some dl => if list_eqb dl dim || (negb (nonnil dim) && list_eqb dl [1]) then OK x else Err ERuntime
                   | None => Err ERuntime
                   end
            end = OK x).
  { intros dim. destruct (fst (get_attr it (aidx (i_ty it) n_dimension))) as [|s0|l0] eqn:E0; intros H0.
    - apply OK_inj_ in H0. subst it1. rewrite get_put_same in Ex by exact Hlt. cbn [fst] in Ex. rewrite Ex.
      destruct dim as [|z dim]; cbn [spv_ints map]; [reflexivity|]. change (SPList (SLeaf (SInt z) :: map (fun z0 => SLeaf (SInt z0)) dim)) with (spv_ints (z :: dim)).
      rewrite int_list_of_ints, list_eqb_refl. reflexivity.
    - cbn [int_list_of] in H0. discriminate H0.
    - destruct (int_list_of (SPList l0)) as [dl|] eqn:El; [|discriminate H0].
      destruct (list_eqb dl dim || negb (nonnil dim) && list_eqb dl [1]) eqn:C; [|discriminate H0]. apply OK_inj_ in H0. subst it1.
      rewrite E0 in Ex. rewrite Ex, El, C. reflexivity. }
  destruct v as [|s|l]; [reflexivity | |].
  - destruct (shape_tail (SPScalar s)) as [dim|]; [|discriminate]. apply G. exact H.
  - destruct (shape_tail (SPList l)) as [dim|]; [|discriminate]. apply G. exact H.
Qed.

Lemma cosd_same_ty it v it1 : check_or_set_dimensionality it v = OK it1 ->
  i_ty it1 = i_ty it /\ length (i_attrs it1) = length (i_attrs it)
  /\ forall j, j <> aidx (i_ty it) n_dimension -> get_attr it1 j = get_attr it j.
Proof.
  unfold check_or_set_dimensionality. intros H.
  assert (G : forall dim,
            match fst (get_attr it (aidx (i_ty it) n_dimension)) with
            | SPNone => OK (put_value it (aidx (i_ty it) n_dimension) (spv_ints dim))
            | d => match int_list_of d with
                   | Some dl => if list_eqb dl dim || (negb (nonnil dim) && list_eqb dl [1]) then OK it else Err ERuntime
                   | None => Err ERuntime
                   end
            end = OK it1 ->
            i_ty it1 = i_ty it /\ length (i_attrs it1) = length (i_attrs it)
            /\ forall j, j <> aidx (i_ty it) n_dimension -> get_attr it1 j = get_attr it j).
  { intros dim. destruct (fst (get_attr it (aidx (i_ty it) n_dimension))) as [|s0|l0]; intros H0.
    - apply OK_inj_ in H0. subst it1. repeat split; [apply put_len | intros j Hj; apply get_put_value_other; exact Hj].
    - cbn [int_list_of] in H0. discriminate H0.
    - destruct (int_list_of (SPList l0)) as [dl|]; [|discriminate H0].
      destruct (list_eqb dl dim || negb (nonnil dim) && list_eqb dl [1]); [|discriminate H0]. apply OK_inj_ in H0. subst it1. repeat split. }
  destruct v as [|s|l]; [apply OK_inj_ in H; subst it1; repeat split | |].
  - destruct (shape_tail (SPScalar s)) as [dim|]; [|discriminate]. apply (G dim). exact H.
  - destruct (shape_tail (SPList l)) as [dim|]; [|discriminate]. apply (G dim). exact H.
Qed.

(* a non-empty value whose check left a falsy dimension has scalar elements *)
Lemma cosd_dim_nil it v it1 :
  check_or_set_dimensionality it v = OK it1 -> (aidx (i_ty it) n_dimension < length (i_attrs it))%nat ->
  spv_truthy v = true -> spv_truthy (fst (get_attr it1 (aidx (i_ty it) n_dimension))) = false -> shape_tail v = Some [].
Proof.
  unfold check_or_set_dimensionality. intros H Hlt Tv Fd.
  assert (G : forall dim,
            match fst (get_attr it (aidx (i_ty it) n_dimension)) with
            | SPNone => OK (put_value it (aidx (i_ty it) n_dimension) (spv_ints dim))
            | d => match int_list_of d with
                   | Some dl => if list_eqb dl dim || (negb (nonnil dim) && list_eqb dl [1]) then OK it else Err ERuntime
                   | None => Err ERuntime
                   end
            end = OK it1 -> dim = []).
  { intros dim. destruct (fst (get_attr it (aidx (i_ty it) n_dimension))) as [|s0|l0] eqn:E0; intros H0.
    - apply OK_inj_ in H0. subst it1. rewrite get_put_same in Fd by exact Hlt. cbn [fst] in Fd. rewrite truthy_ints in Fd. destruct dim; [reflexivity | discriminate].
    - cbn [int_list_of] in H0. discriminate H0.
    - destruct (int_list_of (SPList l0)) as [dl|] eqn:El; [|discriminate H0].
      destruct (list_eqb dl dim || negb (nonnil dim) && list_eqb dl [1]) eqn:C; [|discriminate H0]. apply OK_inj_ in H0. subst it1.
      rewrite E0 in Fd. destruct (falsy_int_list _ _ Fd El) as [_ ->].
      apply orb_prop in C. destruct C as [C|C]; [apply list_eqb_eq in C; symmetry; exact C|].
      apply andb_prop in C. destruct C as [_ C]. discriminate C. }
  destruct v as [|s|l]; [discriminate Tv | |].
  - destruct (shape_tail (SPScalar s)) as [dim|]; [|discriminate]. rewrite (G dim H). reflexivity.
  - destruct (shape_tail (SPList l)) as [dim|]; [|discriminate]. rewrite (G dim H). reflexivity.
Qed.

Lemma cosd_on_one x v : shape_tail v = Some [] -> fst (get_attr x (aidx (i_ty x) n_dimension)) = spv_ints [1] ->
  check_or_set_dimensionality x v = OK x.
Proof.
  intros Hs Hd. unfold check_or_set_dimensionality. destruct v as [|s|l]; [reflexivity | |]; rewrite Hs, Hd; reflexivity.
Qed.

(* the two steps together: derive the dimension, default it to [1] *)
Definition dimstep (it : item) (vals : spv) : res item :=
  do it1 <- check_or_set_dimensionality it vals;
  OK (if spv_truthy vals && negb (spv_truthy (fst (get_attr it1 (aidx (i_ty it) n_dimension))))
      then put_value it1 (aidx (i_ty it) n_dimension) (spv_ints [1]) else it1).

Lemma dimstep_idem it vals it2 :
  dimstep it vals = OK it2 -> (aidx (i_ty it) n_dimension < length (i_attrs it))%nat ->
  i_ty it2 = i_ty it /\ length (i_attrs it2) = length (i_attrs it)
  /\ (forall j, j <> aidx (i_ty it) n_dimension -> get_attr it2 j = get_attr it j)
  /\ dimstep it2 vals = OK it2.
Proof.
  unfold dimstep. intros H Hlt. bind_inv H. rename a into it1, H0 into Hc. apply OK_inj_ in H.
  destruct (cosd_same_ty _ _ _ Hc) as (T1 & L1 & O1).
  destruct (spv_truthy vals && negb (spv_truthy (fst (get_attr it1 (aidx (i_ty it) n_dimension))))) eqn:C.
  - subst it2. split; [exact T1|]. split; [rewrite put_len; exact L1|].
    split; [intros j Hj; rewrite get_put_value_other by exact Hj; apply O1; exact Hj|].
    apply andb_prop in C. destruct C as [Tv Fd]. apply negb_true_iff in Fd.
    pose proof (cosd_dim_nil _ _ _ Hc Hlt Tv Fd) as Hs.
    rewrite put_ty, T1.
    assert (Hd : fst (get_attr (put_value it1 (aidx (i_ty it) n_dimension) (spv_ints [1])) (aidx (i_ty it) n_dimension)) = spv_ints [1]).
    { rewrite get_put_same by (rewrite L1; exact Hlt). reflexivity. }
    rewrite cosd_on_one; [|exact Hs | rewrite put_ty, T1; exact Hd]. cbn [bind]. rewrite Hd, truthy_ints. cbn [nonnil negb].
    rewrite Bool.andb_false_r. reflexivity.
  - subst it2. split; [exact T1|]. split; [exact L1|]. split; [exact O1|].
    rewrite T1. rewrite (cosd_fix it vals it1 Hc Hlt it1 T1 eq_refl). cbn [bind]. rewrite C. reflexivity.
Qed.

(* ---------- PARAMETER / COMPUTATION ---------- *)
Definition pc_counts (st : bstate) (it : item) : res unit :=
  let ty := i_ty it in
  match fst (get_attr it (aidx ty n_values)), fst (get_attr it (aidx ty n_zones)) with
  | SPNone, _ => OK tt
  | _, SPNone => if Nat.eqb ty T_PARAMETER then
                   (match fst (get_attr it (aidx ty n_values)) with SPList l => if 1 <? zlen (flatten (map (to_nval st) l)) then Err EValue else OK tt | _ => OK tt end)
                 else OK tt
  | SPList vl, SPList zl => if zlen vl =? zlen (flatten (map (to_nval st) zl)) then OK tt else Err ERuntime
  | _, _ => OK tt
  end.

Lemma run_checks_pc st it : (i_ty it = T_PARAMETER \/ i_ty it = T_COMPUTATION) ->
  run_checks st it =
  (do _ <- pc_counts st it; do it2 <- dimstep it (fst (get_attr it (aidx (i_ty it) n_values)));
   do _ <- check_axis_vs_dimension st it2; OK it2).
Proof.
  intros Hty. unfold run_checks, pc_counts, dimstep. cbv zeta.
  destruct Hty as [Hty|Hty]; rewrite Hty;
    (match goal with |- (if ?c then _ else _) = _ => change c with false end; cbv iota;
     match goal with |- (if ?c then _ else _) = _ => change c with false end; cbv iota;
     match goal with |- (if ?c then _ else _) = _ => change c with true end; cbv iota);
    (match goal with |- bind ?a _ = bind ?a' _ => change a' with a; destruct a as [[]|e]; cbn [bind]; [|reflexivity] end);
    (match goal with |- bind ?a _ = _ => destruct a as [it1|e]; cbn [bind]; reflexivity end).
Qed.

Lemma ix_pc : (aidx T_PARAMETER n_values <> aidx T_PARAMETER n_dimension /\ aidx T_PARAMETER n_zones <> aidx T_PARAMETER n_dimension
               /\ (aidx T_PARAMETER n_dimension < length (td_attrs (tdef_at T_PARAMETER)))%nat)
            /\ (aidx T_COMPUTATION n_values <> aidx T_COMPUTATION n_dimension /\ aidx T_COMPUTATION n_zones <> aidx T_COMPUTATION n_dimension
               /\ (aidx T_COMPUTATION n_dimension < length (td_attrs (tdef_at T_COMPUTATION)))%nat).
Proof. vm_compute. repeat split; try discriminate; lia. Qed.

Lemma idem_pc st it it' : (i_ty it = T_PARAMETER \/ i_ty it = T_COMPUTATION) -> item_len_ok it ->
  run_checks st it = OK it' -> run_checks st it' = OK it'.
Proof.
  intros Hty Hlen H.
  assert (Hix : aidx (i_ty it) n_values <> aidx (i_ty it) n_dimension /\ aidx (i_ty it) n_zones <> aidx (i_ty it) n_dimension
                /\ (aidx (i_ty it) n_dimension < length (i_attrs it))%nat).
  { unfold item_len_ok, sig_len_ok, isig in Hlen. cbn [fst snd] in Hlen. rewrite Hlen.
    destruct ix_pc as [P C]. destruct Hty as [E|E]; rewrite E; assumption. }
  destruct Hix as (HV & HZ & Hlt).
  rewrite run_checks_pc in H by exact Hty.
  bind_inv H. rename H0 into Hcnt. destruct a. bind_inv H. rename a into it2, H0 into Hds. bind_inv H. rename H0 into Hax. destruct a. apply OK_inj_ in H. subst it'.
  destruct (dimstep_idem _ _ _ Hds Hlt) as (T2 & L2 & O2 & Hds2).
  assert (Hty2 : i_ty it2 = T_PARAMETER \/ i_ty it2 = T_COMPUTATION) by (rewrite T2; exact Hty).
  rewrite run_checks_pc by exact Hty2.
  assert (Ev : fst (get_attr it2 (aidx (i_ty it2) n_values)) = fst (get_attr it (aidx (i_ty it) n_values))) by (rewrite T2, O2 by exact HV; reflexivity).
  assert (Ecnt : pc_counts st it2 = pc_counts st it).
  { unfold pc_counts. cbv zeta. rewrite T2, !O2 by assumption. reflexivity. }
  rewrite Ecnt, Hcnt. cbn [bind]. rewrite Ev, Hds2. cbn [bind]. rewrite Hax. reflexivity.
Qed.

(* ---------- CALIBRATION-MEASUREMENT: the dimension check over several attributes ---------- *)
Definition cosd_fold (ty : nat) (names : list (list Z)) (a0 : item) : res item :=
  fold_left (fun acc n => do a <- acc; check_or_set_dimensionality a (fst (get_attr a (aidx ty n)))) names (OK a0).

Lemma cosd_fold_err ty names e :
  fold_left (fun acc n => do a <- acc; check_or_set_dimensionality a (fst (get_attr a (aidx ty n)))) names (Err e) = Err e.
Proof. induction names as [|n names IH]; [reflexivity | exact IH]. Qed.

Lemma cosd_fold_cons ty n names a0 :
  cosd_fold ty (n :: names) a0 =
  match check_or_set_dimensionality a0 (fst (get_attr a0 (aidx ty n))) with OK a1 => cosd_fold ty names a1 | Err e => Err e end.
Proof.
  unfold cosd_fold. cbn [fold_left bind]. destruct (check_or_set_dimensionality a0 _); [reflexivity | apply cosd_fold_err].
Qed.

Lemma cosd_keeps_set_dim a v a' : check_or_set_dimensionality a v = OK a' ->
  fst (get_attr a (aidx (i_ty a) n_dimension)) <> SPNone -> a' = a.
Proof.
  unfold check_or_set_dimensionality. intros H Hd.
  destruct v as [|s|l]; [inv H; reflexivity | |];
    (destruct (shape_tail _) as [dim|]; [|discriminate]);
    (destruct (fst (get_attr a (aidx (i_ty a) n_dimension))) as [|s0|l0]; [congruence | |]);
    (destruct (int_list_of _); [|discriminate]);
    (match type of H with (if ?c then _ else _) = _ => destruct c end; inv H; reflexivity).
Qed.

Lemma cosd_sets_dim a v a' : check_or_set_dimensionality a v = OK a' -> (aidx (i_ty a) n_dimension < length (i_attrs a))%nat ->
  v <> SPNone -> fst (get_attr a' (aidx (i_ty a) n_dimension)) <> SPNone.
Proof.
  unfold check_or_set_dimensionality. intros H Hlt Hv.
  destruct v as [|s|l]; [congruence | |];
    (destruct (shape_tail _) as [dim|]; [|discriminate]);
    (destruct (fst (get_attr a (aidx (i_ty a) n_dimension))) as [|s0|l0] eqn:E0;
     [inv H; rewrite get_put_same by exact Hlt; cbn [fst]; unfold spv_ints; discriminate | |]);
    (destruct (int_list_of _); [|discriminate]);
    (match type of H with (if ?c then _ else _) = _ => destruct c end; inv H; rewrite E0; discriminate).
Qed.

Lemma cosd_fold_facts ty : forall names a0 b, cosd_fold ty names a0 = OK b ->
  i_ty b = i_ty a0 /\ length (i_attrs b) = length (i_attrs a0)
  /\ (forall j, j <> aidx (i_ty a0) n_dimension -> get_attr b j = get_attr a0 j)
  /\ (fst (get_attr a0 (aidx (i_ty a0) n_dimension)) <> SPNone -> b = a0).
Proof.
  induction names as [|n names IH]; intros a0 b H; [inv H; repeat split|].
  rewrite cosd_fold_cons in H. destruct (check_or_set_dimensionality a0 _) as [a1|e] eqn:E; [|discriminate].
  destruct (cosd_same_ty _ _ _ E) as (T1 & L1 & O1). destruct (IH _ _ H) as (T2 & L2 & O2 & S2).
  split; [congruence|]. split; [congruence|]. split.
  - intros j Hj. rewrite O2 by (rewrite T1; exact Hj). apply O1. exact Hj.
  - intros Hd. pose proof (cosd_keeps_set_dim _ _ _ E Hd) as ->. apply S2. exact Hd.
Qed.

Lemma cosd_fold_each ty : forall names a0 b,
  cosd_fold ty names a0 = OK b -> (aidx (i_ty a0) n_dimension < length (i_attrs a0))%nat ->
  (forall n, In n names -> aidx ty n <> aidx (i_ty a0) n_dimension) ->
  forall m, In m names -> check_or_set_dimensionality b (fst (get_attr b (aidx ty m))) = OK b.
Proof.
  induction names as [|n names IH]; intros a0 b H Hlt Hne m Hm; [destruct Hm|].
  rewrite cosd_fold_cons in H. destruct (check_or_set_dimensionality a0 (fst (get_attr a0 (aidx ty n)))) as [a1|e] eqn:E; [|discriminate].
  destruct (cosd_same_ty _ _ _ E) as (T1 & L1 & O1). destruct (cosd_fold_facts _ _ _ _ H) as (T2 & L2 & O2 & S2).
  destruct Hm as [<-|Hm].
  - assert (Ev : fst (get_attr b (aidx ty n)) = fst (get_attr a0 (aidx ty n))).
    { rewrite O2 by (rewrite T1; apply Hne; left; reflexivity). rewrite O1 by (apply Hne; left; reflexivity). reflexivity. }
    rewrite Ev. destruct (fst (get_attr a0 (aidx ty n))) eqn:Ev0; [reflexivity | |].
    + assert (Hd1 : fst (get_attr a1 (aidx (i_ty a1) n_dimension)) <> SPNone) by (rewrite T1; eapply cosd_sets_dim; [exact E | exact Hlt | discriminate]).
      rewrite (S2 Hd1). eapply cosd_fix; [exact E | exact Hlt | exact T1 | reflexivity].
    + assert (Hd1 : fst (get_attr a1 (aidx (i_ty a1) n_dimension)) <> SPNone) by (rewrite T1; eapply cosd_sets_dim; [exact E | exact Hlt | discriminate]).
      rewrite (S2 Hd1). eapply cosd_fix; [exact E | exact Hlt | exact T1 | reflexivity].
  - eapply (IH a1 b H); [rewrite T1, L1; exact Hlt | intros k Hk; rewrite T1; apply Hne; right; exact Hk | exact Hm].
Qed.

Lemma cosd_fold_fix ty : forall names b,
  (forall m, In m names -> check_or_set_dimensionality b (fst (get_attr b (aidx ty m))) = OK b) -> cosd_fold ty names b = OK b.
Proof.
  induction names as [|n names IH]; intros b H; [reflexivity|].
  rewrite cosd_fold_cons, (H n (or_introl eq_refl)). apply IH. intros m Hm. apply H. right. exact Hm.
Qed.

Definition cm_names : list (list Z) := [n_maximum_deviation; n_standard_deviation; n_standard; n_plus_tolerance; n_minus_tolerance].

Lemma run_checks_cm st it : i_ty it = T_CALMEAS ->
  run_checks st it =
  (if negb (counts_equal it cm_names) then Err ERuntime
   else do it1 <- cosd_fold T_CALMEAS cm_names it; do _ <- check_axis_vs_dimension st it1; OK it1).
Proof. intros Hty. unfold run_checks. cbv zeta. rewrite Hty. reflexivity. Qed.

Lemma ix_cm : (forall n, In n cm_names -> aidx T_CALMEAS n <> aidx T_CALMEAS n_dimension)
              /\ (aidx T_CALMEAS n_dimension < length (td_attrs (tdef_at T_CALMEAS)))%nat.
Proof.
  split; [|vm_compute; lia]. intros n Hn. unfold cm_names in Hn. cbn [In] in Hn.
  destruct Hn as [<-|[<-|[<-|[<-|[<-|[]]]]]]; vm_compute; discriminate.
Qed.

Lemma idem_cm st it it' : i_ty it = T_CALMEAS -> item_len_ok it -> run_checks st it = OK it' -> run_checks st it' = OK it'.
Proof.
  intros Hty Hlen H. destruct ix_cm as [Hne Hlt0].
  assert (Hlt : (aidx (i_ty it) n_dimension < length (i_attrs it))%nat).
  { unfold item_len_ok, sig_len_ok, isig in Hlen. cbn [fst snd] in Hlen. rewrite Hlen, Hty. exact Hlt0. }
  rewrite run_checks_cm in H by exact Hty. destruct (negb (counts_equal it cm_names)) eqn:Cq; [discriminate|].
  bind_inv H. rename a into it1, H0 into Hf. bind_inv H. rename H0 into Hax. destruct a. apply OK_inj_ in H. subst it'.
  destruct (cosd_fold_facts _ _ _ _ Hf) as (T1 & L1 & O1 & _).
  rewrite run_checks_cm by congruence.
  assert (Ecq : counts_equal it1 cm_names = counts_equal it cm_names).
  { unfold counts_equal. rewrite T1, Hty.
    assert (Em : map (fun n : list Z => match fst (get_attr it1 (aidx T_CALMEAS n)) with SPNone => [] | SPList l => [zlen l] | _ => [1] end) cm_names
               = map (fun n : list Z => match fst (get_attr it (aidx T_CALMEAS n)) with SPNone => [] | SPList l => [zlen l] | _ => [1] end) cm_names).
    { apply map_ext_in. intros n Hn. rewrite O1 by (rewrite Hty; apply Hne; exact Hn). reflexivity. }
    rewrite Em. reflexivity. }
  rewrite Ecq, Cq.
  rewrite (cosd_fold_fix T_CALMEAS cm_names it1).
  - cbn [bind]. rewrite Hax. reflexivity.
  - apply (cosd_fold_each T_CALMEAS cm_names it it1 Hf Hlt). intros n Hn. rewrite Hty. apply Hne. exact Hn.
Qed.

(* ---------- every type ---------- *)
Theorem run_checks_idem st it it' : item_len_ok it -> run_checks st it = OK it' -> run_checks st it' = OK it'.
Proof.
  intros Hlen H.
  destruct (Nat.eq_dec (i_ty it) T_ORIGIN) as [Ho|No]; [exact (idem_origin st it it' Ho H)|].
  destruct (Nat.eq_dec (i_ty it) T_CHANNEL) as [Hc|Nc]; [exact (idem_channel st it it' Hc Hlen H)|].
  destruct (Nat.eq_dec (i_ty it) T_PARAMETER) as [Hp|Np]; [exact (idem_pc st it it' (or_introl Hp) Hlen H)|].
  destruct (Nat.eq_dec (i_ty it) T_COMPUTATION) as [Hq|Nq]; [exact (idem_pc st it it' (or_intror Hq) Hlen H)|].
  destruct (Nat.eq_dec (i_ty it) T_CALMEAS) as [Hm|Nm]; [exact (idem_cm st it it' Hm Hlen H)|].
  (* the remaining types only check: the object is returned as it is *)
  assert (E : it' = it).
  { revert H. unfold run_checks. cbv zeta.
    destruct (Nat.eqb_spec (i_ty it) T_ORIGIN); [contradiction|]. destruct (Nat.eqb_spec (i_ty it) T_CHANNEL); [contradiction|].
    destruct (Nat.eqb_spec (i_ty it) T_PARAMETER); [contradiction|]. destruct (Nat.eqb_spec (i_ty it) T_COMPUTATION); [contradiction|]. cbn [orb].
    destruct (Nat.eqb (i_ty it) T_ZONE).
    { repeat match goal with
             | |- match ?c with _ => _ end = OK _ -> _ => destruct c
             | |- (if ?c then _ else _) = OK _ -> _ => destruct c
             end; intros H; inv H; reflexivity. }
    destruct (Nat.eqb (i_ty it) T_CALCOEF); [destruct (counts_equal _ _); intros H; inv H; reflexivity|].
    destruct (Nat.eqb_spec (i_ty it) T_CALMEAS); [contradiction|].
    destruct (Nat.eqb (i_ty it) T_SPLICE).
    { repeat match goal with
             | |- match ?c with _ => _ end = OK _ -> _ => destruct c
             | |- (if ?c then _ else _) = OK _ -> _ => destruct c
             end; intros H; inv H; reflexivity. }
    intros H; inv H; reflexivity. }
  subst it'. exact H.
Qed.

(* ---------- with the REPRESENTATION-CODE synchronisation that precedes it in EFLRSet._make_body_bytes ---------- *)
Lemma upd_nth_same {A} (d : A) : forall (l : list A) n, upd l n (nth n l d) = l.
Proof.
  induction l as [|h t IH]; intros n; [reflexivity|]. destruct n; cbn [upd nth]; [reflexivity | rewrite IH; reflexivity].
Qed.

Lemma put_value_same it idx v : fst (get_attr it idx) = v -> put_value it idx v = it.
Proof.
  intros E. unfold put_value. destruct it as [ty se nm og cp at_ ds ca]. cbn [i_ty i_set i_name i_origin i_copy i_attrs i_dataset i_cast] in *. f_equal.
  unfold get_attr in *. cbn [i_attrs] in *. subst v. rewrite <- surjective_pairing. apply upd_nth_same.
Qed.

Lemma cosd_cast a v a' : check_or_set_dimensionality a v = OK a' -> i_cast a' = i_cast a.
Proof.
  unfold check_or_set_dimensionality.
  destruct v; [intros H; inv H; reflexivity | |];
    (destruct (shape_tail _); [|discriminate]);
    (destruct (fst (get_attr a _)); [intros H; inv H; reflexivity | |]);
    (destruct (int_list_of _); [|discriminate]);
    (match goal with |- (if ?c then _ else _) = _ -> _ => destruct c end; intros H; inv H; reflexivity).
Qed.

(* a channel's checks touch ELEMENT-LIMIT, DIMENSION and LONG-NAME only, and never the cast dtype *)
Lemma run_checks_channel_frame st it it' : i_ty it = T_CHANNEL -> run_checks st it = OK it' ->
  i_ty it' = T_CHANNEL /\ i_cast it' = i_cast it
  /\ forall j, j <> 6%nat -> j <> 4%nat -> j <> 0%nat -> get_attr it' j = get_attr it j.
Proof.
  intros Hc H. rewrite run_checks_channel in H by exact Hc.
  bind_inv H. rename a into it1, H0 into He. bind_inv H. apply OK_inj_ in H.
  destruct (eldm_facts _ _ He) as (T1 & N1 & L1 & O1).
  assert (C1 : i_cast it1 = i_cast it).
  { revert He. unfold eldm. repeat match goal with
                                   | |- (if ?c then _ else _) = OK _ -> _ => destruct c
                                   | |- match ?c with Some _ => _ | None => _ end = OK _ -> _ => destruct c
                                   end; intros Hx; inv Hx; reflexivity. }
  subst it'. destruct (spv_truthy _).
  - split; [congruence|]. split; [exact C1|]. intros j H6 H4 H0'. apply O1; assumption.
  - split; [rewrite put_ty; congruence|]. split; [exact C1|]. intros j H6 H4 H0'. rewrite get_put_value_other by exact H0'. apply O1; assumption.
Qed.

(* the whole per-object step of the encoder: synchronise the representation code, then checks and defaults *)
Theorem object_step_idem st it it' :
  item_len_ok it -> run_checks st (sync_repr_code it) = OK it' -> run_checks st (sync_repr_code it') = OK it'.
Proof.
  intros Hlen H.
  assert (Hlen1 : item_len_ok (sync_repr_code it)).
  { unfold sync_repr_code. destruct (Nat.eqb (i_ty it) T_CHANNEL); [|exact Hlen].
    unfold item_len_ok, sig_len_ok, isig in *. cbn [fst snd] in *. rewrite put_ty, put_len. exact Hlen. }
  assert (Es : sync_repr_code it' = it').
  { unfold sync_repr_code in *. destruct (Nat.eqb_spec (i_ty it) T_CHANNEL) as [Hc|Hn].
    - destruct (run_checks_channel_frame st _ it' ltac:(rewrite put_ty; exact Hc) H) as (Ty & Ec & Ot).
      rewrite Ty, Nat.eqb_refl. apply put_value_same. rewrite Ec. cbn [i_cast put_value].
      assert (Hlt : (aidx T_CHANNEL n_representation_code < length (i_attrs it))%nat).
      { unfold item_len_ok, sig_len_ok, isig in Hlen. cbn [fst snd] in Hlen. rewrite Hlen, Hc. vm_compute. lia. }
      rewrite Ot by (vm_compute; discriminate). rewrite get_put_same by exact Hlt. reflexivity.
    - pose proof (run_checks_keeps st it it' H) as [Ty _]. rewrite Ty.
      destruct (Nat.eqb_spec (i_ty it) T_CHANNEL); [contradiction | reflexivity]. }
  rewrite Es. exact (run_checks_idem st (sync_repr_code it) it' Hlen1 H).
Qed.
