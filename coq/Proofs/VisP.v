(* VisP.v — what a REJECTED call can leave in a logical file's registry: nothing that is visible. A registry entry is
   visible when its set holds items (sets without items produce no record and, since the repair of D22, have no
   position). *)
From DV Require Import Model.ApiDispatch Proofs.BaseP Proofs.PrimP Proofs.BuilderP Proofs.StructP Proofs.RegP.
From Coq Require Import Lia.

Definition vis_dict (st : bstate) (k : nat) (d : list (oname * nat)) : list (nat * oname * nat) :=
  map (fun ns => (k, fst ns, snd ns)) (filter (fun ns => negb (set_empty st (snd ns))) d).
Definition vis (st : bstate) (r : reg) : list (nat * oname * nat) := concat (map (fun kd => vis_dict st (fst kd) (snd kd)) r).

Lemma vis_dict_app st k a b : vis_dict st k (a ++ b) = vis_dict st k a ++ vis_dict st k b.
Proof. unfold vis_dict. rewrite filter_app, map_app. reflexivity. Qed.

Lemma vis_app st a b : vis st (a ++ b) = vis st a ++ vis st b.
Proof. unfold vis. rewrite map_app, concat_app. reflexivity. Qed.

(* inserting an entry whose set is empty changes nothing visible *)
Lemma vis_insert_empty st k n sid : set_empty st sid = true -> forall r, vis st (reg_insert r k n sid) = vis st r.
Proof.
  intros He. induction r as [|[k' d] r IH]; cbn [reg_insert].
  - unfold vis, vis_dict. cbn. rewrite He. reflexivity.
  - destruct (Nat.eqb_spec k k') as [->|Hne].
    + unfold vis. cbn [map concat fst snd]. rewrite vis_dict_app. unfold vis_dict at 2. cbn [filter snd]. rewrite He. cbn. rewrite app_nil_r. reflexivity.
    + unfold vis in *. cbn [map concat]. rewrite IH. reflexivity.
Qed.

(* removing the (first) entry of a name whose set is empty changes nothing visible *)
Lemma vis_dict_remove_empty st k n sid : forall d, dict_find d n = Some sid -> set_empty st sid = true ->
  vis_dict st k (dict_remove d n) = vis_dict st k d.
Proof.
  induction d as [|[n1 v1] d IH]; cbn [dict_find dict_remove]; [discriminate|].
  destruct (oname_eqb n n1); intros H He.
  - inv H. unfold vis_dict. cbn [filter snd]. rewrite He. reflexivity.
  - unfold vis_dict in *. cbn [filter snd]. destruct (negb (set_empty st v1)); cbn [map]; rewrite (IH H He); reflexivity.
Qed.

Lemma vis_remove_empty st k n sid : forall r, reg_find r k n = Some sid -> set_empty st sid = true -> vis st (reg_remove r k n) = vis st r.
Proof.
  unfold reg_find. induction r as [|[k' d] r IH]; cbn [reg_lookup reg_remove]; [discriminate|].
  destruct (Nat.eqb_spec k k') as [->|Hne]; intros H He.
  - pose proof (vis_dict_remove_empty st k' n sid d H He) as Hd.
    destruct (dict_remove d n) as [|e d'] eqn:Ed; unfold vis; cbn [map concat fst snd]; rewrite <- Hd; reflexivity.
  - unfold vis in *. cbn [map concat]. rewrite (IH H He). reflexivity.
Qed.

Lemma vis_forget st r k n : vis st (forget_empty st r k n) = vis st r.
Proof.
  unfold forget_empty. destruct (reg_find r k n) as [sid|] eqn:Ef; [|reflexivity].
  destruct (set_empty st sid) eqn:He; [eapply vis_remove_empty; eassumption | reflexivity].
Qed.

(* moving a class whose sets are all empty changes nothing visible *)
Lemma vis_dict_all_empty st k d : class_all_empty st d = true -> vis_dict st k d = [].
Proof.
  unfold class_all_empty, vis_dict. induction d as [|ns d IH]; [reflexivity|]. cbn [forallb filter]. intros H.
  apply andb_prop in H. destruct H as [H1 H2]. rewrite H1. cbn [negb]. apply IH. exact H2.
Qed.

Lemma vis_drop_class st k : forall r, NoDup (map fst r) -> class_all_empty st (reg_lookup r k) = true -> vis st (reg_drop_class r k) = vis st r.
Proof.
  unfold reg_drop_class. induction r as [|[k' d] r IH]; intros Hn He; [reflexivity|]. inversion Hn as [|? ? Hk Hn']; subst.
  cbn [filter fst reg_lookup] in *. destruct (Nat.eqb_spec k k') as [->|Hne]; cbn [negb].
  - unfold vis at 2. cbn [map concat fst snd]. rewrite (vis_dict_all_empty _ _ _ He). cbn [app].
    (* no other entry of class k' in r: the filter keeps everything *)
    assert (Hf : filter (fun kd : nat * list (oname * nat) => negb (Nat.eqb k' (fst kd))) r = r).
    { clear -Hk. induction r as [|[k2 d2] r IHr]; [reflexivity|]. cbn [filter fst map] in *.
      destruct (Nat.eqb_spec k' k2) as [->|]; [exfalso; apply Hk; left; reflexivity|]. cbn [negb]. f_equal. apply IHr. intros H; apply Hk; right; exact H. }
    rewrite Hf. reflexivity.
  - unfold vis in *. cbn [map concat]. rewrite (IH Hn' He). reflexivity.
Qed.

Lemma vis_reposition st r k : NoDup (map fst r) -> vis st (reposition_class st r k) = vis st r.
Proof.
  intros Hn. unfold reposition_class. destruct (reg_lookup r k) as [|e d] eqn:El; [reflexivity|].
  destruct (class_all_empty st (e :: d)) eqn:Ea; [|reflexivity].
  rewrite vis_app. rewrite vis_drop_class by (try assumption; rewrite El; exact Ea).
  unfold vis at 2. cbn [map concat fst snd]. rewrite (vis_dict_all_empty _ _ _ Ea). rewrite !app_nil_r. reflexivity.
Qed.

(* try_add_set with a set that holds no items (a new one, or one left behind earlier) leaves the visible registry as it is *)
Theorem vis_try_add_empty keys st f ty sn sid :
  regk_ok keys (l_reg f) -> set_empty st sid = true -> vis st (l_reg (try_add_set st f ty sn sid)) = vis st (l_reg f).
Proof.
  intros Hk He. unfold try_add_set. cbv zeta.
  set (n := match sn with Some [] => None | _ => sn end).
  destruct (reg_find (forget_empty st (l_reg f) ty n) ty n); [reflexivity|]. cbn [l_reg].
  rewrite (vis_insert_empty st ty n sid He). rewrite vis_reposition; [apply vis_forget|].
  apply (regk_forget st keys _ ty n Hk).
Qed.

(* ---------- lookups through the registry edits ---------- *)
Lemma oname_eqb_refl n : oname_eqb n n = true.
Proof. apply oname_eqb_eq. reflexivity. Qed.

Lemma oname_eqb_sym a b : oname_eqb a b = oname_eqb b a.
Proof.
  destruct (oname_eqb a b) eqn:E.
  - apply oname_eqb_eq in E. subst. symmetry. apply oname_eqb_refl.
  - destruct (oname_eqb b a) eqn:E2; [|reflexivity]. apply oname_eqb_eq in E2. subst. rewrite oname_eqb_refl in E. discriminate.
Qed.

Lemma dict_find_app d n sid n' :
  dict_find (d ++ [(n, sid)]) n' = match dict_find d n' with Some x => Some x | None => if oname_eqb n' n then Some sid else None end.
Proof.
  induction d as [|[n1 v1] d IH]; cbn [app dict_find]; [reflexivity|]. destruct (oname_eqb n' n1); [reflexivity | exact IH].
Qed.

Lemma reg_find_insert r k n sid k' n' :
  reg_find (reg_insert r k n sid) k' n' =
  match reg_find r k' n' with Some x => Some x | None => if Nat.eqb k' k && oname_eqb n' n then Some sid else None end.
Proof.
  unfold reg_find. induction r as [|[k1 d1] r IH]; cbn [reg_insert reg_lookup dict_find].
  - destruct (Nat.eqb_spec k' k) as [->|Hne]; cbn [andb dict_find]; [destruct (oname_eqb n' n); reflexivity | reflexivity].
  - destruct (Nat.eqb_spec k k1) as [->|Hne]; cbn [reg_lookup].
    + destruct (Nat.eqb_spec k' k1) as [->|Hne']; [rewrite dict_find_app; cbn [andb]; reflexivity|].
      destruct (dict_find (reg_lookup r k') n'); reflexivity.
    + destruct (Nat.eqb_spec k' k1) as [->|Hne'].
      * assert (E : Nat.eqb k1 k = false) by (apply Nat.eqb_neq; congruence). rewrite E. cbn [andb]. destruct (dict_find d1 n'); reflexivity.
      * exact IH.
Qed.

Lemma dict_find_remove_other d n n' : oname_eqb n' n = false -> dict_find (dict_remove d n) n' = dict_find d n'.
Proof.
  intros Hne. induction d as [|[n1 v1] d IH]; cbn [dict_remove dict_find]; [reflexivity|].
  destruct (oname_eqb n n1) eqn:E1.
  - apply oname_eqb_eq in E1. subst. rewrite Hne. reflexivity.
  - cbn [dict_find]. destruct (oname_eqb n' n1); [reflexivity | exact IH].
Qed.

Lemma reg_lookup_remove_other r k n k' : k' <> k -> reg_lookup (reg_remove r k n) k' = reg_lookup r k'.
Proof.
  intros Hne. induction r as [|[k1 d1] r IH]; cbn [reg_remove reg_lookup]; [reflexivity|].
  destruct (Nat.eqb_spec k k1) as [->|Hk].
  - assert (E : Nat.eqb k' k1 = false) by (apply Nat.eqb_neq; exact Hne).
    destruct (dict_remove d1 n); cbn [reg_lookup]; rewrite E; reflexivity.
  - cbn [reg_lookup]. destruct (Nat.eqb k' k1); [reflexivity | exact IH].
Qed.

Lemma reg_find_remove_other r k n k' n' : (k' <> k \/ oname_eqb n' n = false) -> NoDup (map fst r) ->
  reg_find (reg_remove r k n) k' n' = reg_find r k' n'.
Proof.
  unfold reg_find. intros Hne Hn. destruct (Nat.eq_dec k' k) as [->|Hk]; [|rewrite reg_lookup_remove_other by exact Hk; reflexivity].
  destruct Hne as [Hne|Hne]; [congruence|].
  induction r as [|[k1 d1] r IH]; cbn [reg_remove reg_lookup]; [reflexivity|]. inversion Hn as [|? ? Hk1 Hn']; subst.
  destruct (Nat.eqb_spec k k1) as [->|Hk].
  - pose proof (dict_find_remove_other d1 n n' Hne) as Hd.
    destruct (dict_remove d1 n) as [|e d'] eqn:Ed.
    + (* class dropped: nothing of class k1 remains in r *)
      rewrite <- Hd. cbn [dict_find].
      destruct (reg_lookup_spec r k1 Hn') as [Hin | [He _]]; [|rewrite He; reflexivity].
      exfalso. apply Hk1. apply in_map_iff. exists (k1, reg_lookup r k1). split; [reflexivity | exact Hin].
    + cbn [reg_lookup]. rewrite Nat.eqb_refl. exact Hd.
  - cbn [reg_lookup]. destruct (Nat.eqb k k1) eqn:E; [apply Nat.eqb_eq in E; congruence|]. apply IH. exact Hn'.
Qed.

Lemma reg_lookup_drop_other r k k' : k' <> k -> reg_lookup (reg_drop_class r k) k' = reg_lookup r k'.
Proof.
  intros Hne. unfold reg_drop_class. induction r as [|[k1 d1] r IH]; cbn [filter fst reg_lookup]; [reflexivity|].
  destruct (Nat.eqb_spec k k1) as [->|Hk]; cbn [negb].
  - assert (E : Nat.eqb k' k1 = false) by (apply Nat.eqb_neq; exact Hne). rewrite E. exact IH.
  - cbn [reg_lookup]. destruct (Nat.eqb k' k1); [reflexivity | exact IH].
Qed.

Lemma reg_lookup_app_other r k d k' : k' <> k -> reg_lookup (r ++ [(k, d)]) k' = reg_lookup r k'.
Proof.
  intros Hne. induction r as [|[k1 d1] r IH]; cbn [app reg_lookup].
  - assert (E : Nat.eqb k' k = false) by (apply Nat.eqb_neq; exact Hne). rewrite E. reflexivity.
  - destruct (Nat.eqb k' k1); [reflexivity | exact IH].
Qed.

Lemma reg_find_reposition_any st r k k' n' : reg_find (reposition_class st r k) k' n' = reg_find r k' n'.
Proof.
  destruct (Nat.eq_dec k' k) as [->|Hne]; [apply reg_find_reposition|].
  unfold reposition_class, reg_find. destruct (reg_lookup r k) as [|e d]; [reflexivity|].
  destruct (class_all_empty st (e :: d)); [|reflexivity].
  rewrite reg_lookup_app_other by exact Hne. rewrite reg_lookup_drop_other by exact Hne. reflexivity.
Qed.

(* ---------- the registries of the logical files are sub-registries of the physical one ---------- *)
Definition sub_reg (phys r : reg) : Prop := forall k n sid, reg_find r k n = Some sid -> reg_find phys k n = Some sid.
Definition Inv_sub (st : bstate) : Prop := Forall (fun f => sub_reg (b_phys st) (l_reg f)) (b_lfs st).

Lemma dict_find_notin d n : ~ In n (map fst d) -> dict_find d n = None.
Proof.
  induction d as [|[n1 v1] d IH]; cbn [dict_find map fst]; intros H; [reflexivity|].
  destruct (oname_eqb n n1) eqn:E; [apply oname_eqb_eq in E; subst; exfalso; apply H; left; reflexivity|].
  apply IH. intros Hin. apply H. right. exact Hin.
Qed.

Lemma dict_find_removed d n : NoDup (map fst d) -> dict_find (dict_remove d n) n = None.
Proof.
  induction d as [|[n1 v1] d IH]; cbn [dict_remove map fst]; intros H; [reflexivity|]. inversion H as [|? ? Hn Hd]; subst.
  destruct (oname_eqb n n1) eqn:E.
  - apply oname_eqb_eq in E. subst. apply dict_find_notin. exact Hn.
  - cbn [dict_find]. rewrite E. apply IH. exact Hd.
Qed.

Lemma reg_find_removed keys r k n : regk_ok keys r -> reg_find (reg_remove r k n) k n = None.
Proof.
  unfold reg_find. intros [Hn Hall]. induction r as [|[k1 d1] r IH]; cbn [reg_remove reg_lookup]; [reflexivity|].
  inversion Hn as [|? ? Hk1 Hn']; subst. apply Forall_cons_iff in Hall. destruct Hall as [[Hd _] Hall]. cbn [fst snd] in *.
  destruct (Nat.eqb_spec k k1) as [->|Hk].
  - pose proof (dict_find_removed d1 n Hd) as Hr. destruct (dict_remove d1 n) as [|e d'] eqn:Ed.
    + destruct (reg_lookup_spec r k1 Hn') as [Hin | [He _]]; [|rewrite He; reflexivity].
      exfalso. apply Hk1. apply in_map_iff. exists (k1, reg_lookup r k1). split; [reflexivity | exact Hin].
    + cbn [reg_lookup]. rewrite Nat.eqb_refl. exact Hr.
  - cbn [reg_lookup]. destruct (Nat.eqb k k1) eqn:E; [apply Nat.eqb_eq in E; congruence|]. apply IH; assumption.
Qed.

Lemma forget_find keys st r k n k' n' sid : regk_ok keys r -> reg_find (forget_empty st r k n) k' n' = Some sid -> reg_find r k' n' = Some sid.
Proof.
  intros Hr. unfold forget_empty. destruct (reg_find r k n) as [s0|] eqn:Ef; [|auto].
  destruct (set_empty st s0); [|auto].
  destruct (Nat.eq_dec k' k) as [->|Hk]; [|rewrite reg_find_remove_other by (try apply Hr; auto); auto].
  destruct (oname_eqb n' n) eqn:En; [|rewrite reg_find_remove_other by (try apply Hr; auto); auto].
  apply oname_eqb_eq in En. subst n'. rewrite (reg_find_removed keys r k n Hr). discriminate.
Qed.

Lemma try_add_sub keys st phys f ty sn sid :
  regk_ok keys (l_reg f) -> sub_reg phys (l_reg f) -> reg_find phys ty (norm_name sn) = Some sid ->
  sub_reg phys (l_reg (try_add_set st f ty sn sid)).
Proof.
  intros Hk Hs Hp. unfold try_add_set. cbv zeta. change (match sn with Some [] => None | _ => sn end) with (norm_name sn).
  destruct (reg_find (forget_empty st (l_reg f) ty (norm_name sn)) ty (norm_name sn)) eqn:Ef; [exact Hs|].
  cbn [l_reg]. intros k n s0 H. rewrite reg_find_insert, reg_find_reposition_any in H.
  destruct (reg_find (forget_empty st (l_reg f) ty (norm_name sn)) k n) as [x|] eqn:Ex.
  - inv H. apply Hs. eapply forget_find; eassumption.
  - destruct (Nat.eqb_spec k ty) as [->|]; cbn [andb] in H; [|discriminate].
    destruct (oname_eqb n (norm_name sn)) eqn:En; [|discriminate]. apply oname_eqb_eq in En. subst n. inv H. exact Hp.
Qed.

Lemma gms_sub st ty sn st1 sid :
  get_or_make_set st ty sn = (st1, sid) ->
  reg_find (b_phys st1) ty (norm_name sn) = Some sid
  /\ (forall k n s, reg_find (b_phys st) k n = Some s -> reg_find (b_phys st1) k n = Some s)
  /\ b_lfs st1 = b_lfs st /\ b_items st1 = b_items st
  /\ (exists extra, b_sets st1 = b_sets st ++ extra /\ Forall (fun s => s_items s = []) extra)
  /\ (set_empty st1 sid = false -> st1 = st).
Proof.
  unfold get_or_make_set. cbv zeta. change (match sn with Some [] => None | _ => sn end) with (norm_name sn).
  destruct (reg_find (b_phys st) ty (norm_name sn)) as [s0|] eqn:Ef; intros H; inv H.
  - repeat split; auto. exists []. rewrite app_nil_r. auto.
  - cbn [b_phys b_lfs b_items b_sets]. split; [rewrite reg_find_insert, Ef, Nat.eqb_refl, oname_eqb_refl; reflexivity|].
    split; [intros k n s Hs; rewrite reg_find_insert, Hs; reflexivity|]. split; [reflexivity|]. split; [reflexivity|].
    split; [eexists; split; [reflexivity | constructor; [reflexivity | constructor]]|].
    unfold set_empty, set_at. cbn [b_sets]. rewrite nth_middle. cbn. discriminate.
Qed.

Lemma sub_reg_mono phys phys' r : (forall k n s, reg_find phys k n = Some s -> reg_find phys' k n = Some s) -> sub_reg phys r -> sub_reg phys' r.
Proof. intros Hm Hs k n s H. apply Hm. apply Hs. exact H. Qed.

Lemma inv_sub_same st st' : b_phys st' = b_phys st -> b_lfs st' = b_lfs st -> Inv_sub st -> Inv_sub st'.
Proof. unfold Inv_sub. intros -> ->. auto. Qed.

Lemma set_lf_sub st l f : Inv_sub st -> sub_reg (b_phys st) (l_reg f) -> Inv_sub (set_lf st l f).
Proof. intros Hi Hf. unfold Inv_sub, set_lf. cbn [b_lfs b_phys]. apply Forall_upd; assumption. Qed.

Lemma lf_at_sub st l f : Inv_sub st -> lf_at st l = Some f -> sub_reg (b_phys st) (l_reg f).
Proof. intros Hi H. unfold Inv_sub in Hi. rewrite Forall_forall in Hi. apply Hi. unfold lf_at in H. eapply nth_error_In. exact H. Qed.

(* the state after the set look-ups of an add_* call *)
Lemma lookups_sub st l f ty sn st1 sid :
  Inv_reg st -> Inv_sub st -> lf_at st l = Some f -> get_or_make_set st ty sn = (st1, sid) ->
  Inv_sub (set_lf st1 l (try_add_set st1 f ty sn sid)).
Proof.
  intros Hr Hs Hf Hg. destruct (gms_sub _ _ _ _ _ Hg) as (Hfind & Hmono & Hl & _ & _ & _).
  destruct (gms_reg _ _ _ _ _ Hg Hr) as (Hr1 & _ & _ & Hext).
  assert (Hs1 : Inv_sub st1).
  { unfold Inv_sub in *. rewrite Hl. eapply Forall_impl; [|exact Hs]. intros f0. apply sub_reg_mono. exact Hmono. }
  apply set_lf_sub; [exact Hs1|].
  eapply try_add_sub; [| |exact Hfind].
  - eapply regk_keys_ext; [exact Hext|]. eapply lf_at_reg; eassumption.
  - eapply sub_reg_mono; [exact Hmono|]. eapply lf_at_sub; eassumption.
Qed.

Lemma add_common_sub hc st l ty name sn org dflt kw ds cast st' out :
  add_common hc st l ty name sn org dflt kw ds cast = (st', out) -> Inv_reg st -> Inv_sub st -> Inv_sub st'.
Proof.
  unfold add_common. destruct (lf_at st l) as [f|] eqn:Hf; [|intros H; inv H; auto].
  destruct (get_or_make_set st ty sn) as [st1 sid] eqn:Hg. intros H Hr Hi.
  pose proof (lookups_sub _ _ _ _ _ _ _ Hr Hi Hf Hg) as Hi2.
  destruct name; try (inv H; exact Hi2).
  destruct (hc && negb (hc_string s)); [inv H; exact Hi2|].
  match type of H with context [match ?o with OK _ => _ | Err _ => _ end] => destruct o end; [|inv H; exact Hi2].
  match type of H with context [set_attributes ?a ?b ?c ?d] => destruct (set_attributes a b c d) as [it|] end; inv H; [|exact Hi2].
  revert Hi2. apply inv_sub_same; reflexivity.
Qed.

Lemma add_common_lfs_len a b c d e0 f0 g h i j k s' o' :
  add_common a b c d e0 f0 g h i j k = (s', o') -> length (b_lfs s') = length (b_lfs b).
Proof.
  unfold add_common. destruct (lf_at b c); [|intros H; inv H; reflexivity].
  destruct (get_or_make_set b d f0) as [b1 sid1] eqn:G.
  assert (L : b_lfs b1 = b_lfs b) by (unfold get_or_make_set in G; cbv zeta in G; destruct (reg_find _ _ _); inv G; reflexivity).
  assert (L2 : forall x, length (b_lfs (set_lf b1 c x)) = length (b_lfs b)) by (intros x; cbn [set_lf b_lfs]; rewrite length_upd, L; reflexivity).
  destruct e0; try (intros H; inv H; apply L2).
  destruct (a && negb (hc_string s)); [intros H; inv H; apply L2|].
  match goal with |- context [match ?o with OK _ => _ | Err _ => _ end] => destruct o end; [|intros H; inv H; apply L2].
  match goal with |- context [set_attributes ?a1 ?b2 ?c3 ?d4] => destruct (set_attributes a1 b2 c3 d4) end; intros H; inv H; [|apply L2].
  unfold register. cbn [b_lfs]. apply L2.
Qed.

Theorem step_inv_sub ps st o ps' st' out : step ps st o = (ps', st', out) -> Inv_reg st -> Inv_sub st -> Inv_sub st'.
Proof.
  destruct o; unfold step.
  - unfold add_lf. destruct hid; try solve [intros H; inv H; auto]. destruct seq; try solve [intros H; inv H; auto].
    repeat match goal with |- context [if ?c then _ else _] => destruct c end; intros H Hr Hi; inv H; try exact Hi.
    unfold Inv_sub in *. cbn [b_lfs b_phys]. apply Forall_app. split; [exact Hi|]. constructor; [|constructor].
    cbn [l_reg]. intros k0 n0 s0 H0. discriminate.
  - destruct (add_common (p_hc ps) st l ty name sn origin default_origin kw None None) as [s1 o1] eqn:E.
    intros H; injection H as <- <- <-. eapply add_common_sub; eassumption.
  - destruct (add_origin (p_hc ps) st l name sn origin kw) as [s1 o1] eqn:E. intros H Hr Hi; injection H as <- <- <-.
    unfold add_origin in E. destruct (lf_at st l) as [f|] eqn:Hf; [|inv E; exact Hi].
    destruct (get_or_make_set st T_ORIGIN sn) as [st1 sid] eqn:Hg.
    pose proof (lookups_sub _ _ _ _ _ _ _ Hr Hi Hf Hg) as Hi1.
    assert (Hr1 : Inv_reg (set_lf st1 l (try_add_set st1 f T_ORIGIN sn sid))).
    { destruct (gms_reg _ _ _ _ _ Hg Hr) as (Hr0 & He & Hlfs & Hext).
      apply set_lf_reg; [exact Hr0|]. apply try_add_reg; [|exact He]. eapply regk_keys_ext; [exact Hext|]. eapply lf_at_reg; eassumption. }
    match type of E with context [match ?c with Some _ => _ | None => _ end = _] => destruct c end; [inv E; exact Hi1|].
    match type of E with context [add_common ?a ?b ?c ?d ?e0 ?f0 ?g ?h ?i ?j ?k] =>
      destruct (add_common a b c d e0 f0 g h i j k) as [st3 out3] eqn:Ea end.
    assert (Hi3 : Inv_sub st3) by (eapply add_common_sub; [exact Ea | exact Hr1 | exact Hi1]).
    destruct out3 as [[iid|]|e3]; try (inv E; exact Hi3). inv E.
    assert (Hi4 : Inv_sub (origin_fsn_default (p_hc ps) st3 sid iid)).
    { unfold origin_fsn_default. destruct (fst (nth _ (i_attrs (item_at st3 iid)) (SPNone, None))); try exact Hi3.
      destruct (p_hc ps); [|exact Hi3]. revert Hi3. apply inv_sub_same; reflexivity. }
    unfold origin_backfill. match goal with |- context [if ?c then _ else _] => destruct c end; [|exact Hi4].
    set (s4 := origin_fsn_default (p_hc ps) st3 sid iid) in *.
    apply set_lf_sub.
    + revert Hi4. apply inv_sub_same; reflexivity.
    + cbn [l_reg b_phys]. destruct (lf_at s4 l) as [x|] eqn:Hx; [eapply lf_at_sub; [exact Hi4 | exact Hx]|].
      exfalso. apply add_common_lfs_len in Ea. cbn [set_lf b_lfs] in Ea. rewrite length_upd in Ea.
      assert (L1 : b_lfs st1 = b_lfs st) by (unfold get_or_make_set in Hg; cbv zeta in Hg; destruct (reg_find _ _ _); inv Hg; reflexivity).
      rewrite L1 in Ea. unfold lf_at in Hx, Hf. apply nth_error_None in Hx. assert (l < length (b_lfs st))%nat by (apply nth_error_Some; congruence).
      assert (E4 : b_lfs s4 = b_lfs st3).
      { unfold s4, origin_fsn_default. destruct (fst _); try reflexivity. destruct (p_hc ps); reflexivity. }
      rewrite E4 in Hx. lia.
  - destruct (add_channel (p_hc ps) st l name sn origin kw bad_data data ds cast) as [s1 o1] eqn:E. intros H Hr Hi; injection H as <- <- <-.
    unfold add_channel in E. destruct (lf_at st l) as [f|] eqn:Hf; [|inv E; exact Hi].
    destruct bad_data; [inv E; exact Hi|].
    destruct (unique_dataset_name st f _ ds); [|inv E; exact Hi].
    assert (Hsd : forall s3 f3 k d, Inv_sub s3 -> lf_at s3 l = Some f3 -> Inv_sub (set_lf s3 l (set_data f3 k d))).
    { intros s3 f3 k d H3 Hl3. apply set_lf_sub; [exact H3|]. cbn [set_data l_reg]. eapply lf_at_sub; eassumption. }
    destruct cast as [[c|]|].
    + destruct (add_common (p_hc ps) st l T_CHANNEL name sn origin default_origin kw (Some a) (Some c)) as [st3 out3] eqn:Ea.
      assert (Hi3 : Inv_sub st3) by (eapply add_common_sub; eassumption).
      destruct out3 as [[iid|]|e3]; [destruct data; [destruct (lf_at st3 l) eqn:Hl3|]|..]; inv E; try exact Hi3. apply Hsd; assumption.
    + destruct (get_or_make_set st T_CHANNEL sn) as [st1 sid] eqn:Hg. inv E. eapply lookups_sub; eassumption.
    + destruct (add_common (p_hc ps) st l T_CHANNEL name sn origin default_origin kw (Some a) None) as [st3 out3] eqn:Ea.
      assert (Hi3 : Inv_sub st3) by (eapply add_common_sub; eassumption).
      destruct out3 as [[iid|]|e3]; [destruct data; [destruct (lf_at st3 l) eqn:Hl3|]|..]; inv E; try exact Hi3. apply Hsd; assumption.
  - destruct (add_frame (p_hc ps) st l name sn origin channels chan_attr_idx kw) as [s1 o1] eqn:E. intros H Hr Hi; injection H as <- <- <-.
    unfold add_frame in E. destruct channels; try (inv E; exact Hi). destruct l0; [inv E; exact Hi|].
    match type of E with context [if ?c then _ else _] => destruct c end; [|inv E; exact Hi].
    eapply add_common_sub; eassumption.
  - unfold assign. destruct (nth_error (b_items st) i) as [it|]; [|intros H; inv H; auto].
    match goal with |- context [match ?x with OK _ => _ | Err _ => _ end] => destruct x end; intros H Hr Hi; inv H; exact Hi.
  - unfold add_nofmt_data. destruct (lf_at st l) as [f|] eqn:Hf; intros H Hr Hi; inv H; [|exact Hi].
    apply set_lf_sub; [exact Hi|]. cbn [l_reg]. eapply lf_at_sub; eassumption.
  - intros H; inv H; auto.
  - intros H; inv H; auto.
  - destruct (p_stack ps); intros H; inv H; auto.
  - unfold set_origin. destruct (nth_error (b_items st) i) as [it|]; [|intros H; inv H; auto].
    destruct r; intros H Hr Hi; inv H; exact Hi.
  - unfold set_header. destruct (lf_at st l) as [f|] eqn:Hf; [|intros H; inv H; auto].
    destruct is_id, r; intros H Hr Hi; inv H; try exact Hi; (apply set_lf_sub; [exact Hi|]; cbn [l_reg]; eapply lf_at_sub; eassumption).
Qed.

Theorem run_ops_inv_sub : forall ops ps st, Inv_reg st -> Inv_sub st -> Inv_sub (bstate_of (run_ops ps st ops)).
Proof.
  induction ops as [|o ops IH]; intros ps st Hr Hi; [exact Hi|].
  cbn [run_ops]. destruct (step ps st o) as [[ps1 st1] out] eqn:E.
  specialize (IH ps1 st1 (step_inv_reg _ _ _ _ _ _ E Hr) (step_inv_sub _ _ _ _ _ _ E Hr Hi)).
  destruct (run_ops ps1 st1 ops) as [[ps2 st2] outs]. exact IH.
Qed.

Lemma inv_sub_init : Inv_sub b_init.
Proof. constructor. Qed.

(* ---------- a rejected add_* call leaves nothing visible in any logical file's registry ---------- *)
Lemma nth_error_upd_same' {A} : forall (l : list A) n x y, nth_error l n = Some y -> nth_error (upd l n x) n = Some x.
Proof. induction l as [|h t IH]; intros [|n] x y H; try discriminate; cbn [upd nth_error] in *; [reflexivity | eapply IH; exact H]. Qed.

Lemma nth_error_upd_other {A} : forall (l : list A) n m x, n <> m -> nth_error (upd l n x) m = nth_error l m.
Proof.
  induction l as [|h t IH]; intros n m x Hne; [reflexivity|]. destruct n, m; cbn [upd nth_error]; try reflexivity; [congruence|].
  apply IH. congruence.
Qed.

Lemma vis_ext st st1 extra r :
  b_sets st1 = b_sets st ++ extra -> regk_ok (skeys st) r -> vis st1 r = vis st r.
Proof.
  intros Hs [_ Hall]. unfold vis. f_equal. apply map_ext_in. intros [k d] Hin. rewrite Forall_forall in Hall.
  destruct (Hall _ Hin) as [_ Hd]. cbn [fst snd] in *. unfold vis_dict. f_equal.
  clear Hin. induction d as [|[n sid] d IH]; [reflexivity|]. apply Forall_cons_iff in Hd. destruct Hd as [H1 Hd]. cbn [filter snd fst] in *.
  assert (E : set_empty st1 sid = set_empty st sid).
  { unfold set_empty, set_at. rewrite Hs. rewrite app_nth1; [reflexivity|].
    assert (nth_error (skeys st) sid <> None) by congruence. apply nth_error_Some in H. unfold skeys in H. rewrite map_length in H. exact H. }
  rewrite E. destruct (negb (set_empty st sid)); [f_equal|]; apply IH; exact Hd.
Qed.

Theorem add_common_reject_invisible hc st l ty name sn org dflt kw ds cast st' e f :
  add_common hc st l ty name sn org dflt kw ds cast = (st', Rejected e) ->
  Inv_reg st -> lf_at st l = Some f ->
  (* not the sharing of D12: a set of that (type, name) which already holds items in the physical registry is this file's *)
  (forall sid, reg_find (b_phys st) ty (norm_name sn) = Some sid -> set_empty st sid = false -> reg_find (l_reg f) ty (norm_name sn) = Some sid) ->
  (exists f', lf_at st' l = Some f' /\ vis st' (l_reg f') = vis st (l_reg f))
  /\ (forall l2 f2, l2 <> l -> lf_at st l2 = Some f2 -> lf_at st' l2 = Some f2 /\ vis st' (l_reg f2) = vis st (l_reg f2)).
Proof.
  unfold add_common. intros H Hr Hf Hown. rewrite Hf in H.
  destruct (get_or_make_set st ty sn) as [st1 sid] eqn:Hg.
  destruct (gms_sub _ _ _ _ _ Hg) as (Hfind & _ & Hl & _ & (extra & Hs & _) & Hne).
  destruct (gms_reg _ _ _ _ _ Hg Hr) as (Hr1 & _ & _ & Hext).
  set (f1 := try_add_set st1 f ty sn sid) in *.
  assert (Hst' : st' = set_lf st1 l f1).
  { destruct name; try (inv H; reflexivity).
    destruct (hc && negb (hc_string s)); [inv H; reflexivity|].
    match type of H with context [match ?o with OK _ => _ | Err _ => _ end] => destruct o end; [|inv H; reflexivity].
    match type of H with context [set_attributes ?a ?b ?c ?d] => destruct (set_attributes a b c d) end; inv H. reflexivity. }
  subst st'. clear H.
  assert (Hv2 : forall r, vis (set_lf st1 l f1) r = vis st1 r) by reflexivity.
  assert (Hkf : regk_ok (skeys st) (l_reg f)) by (eapply lf_at_reg; eassumption).
  split.
  - exists f1. split; [unfold lf_at, set_lf in *; cbn [b_lfs]; rewrite Hl; eapply nth_error_upd_same'; exact Hf|].
    rewrite Hv2. destruct (set_empty st1 sid) eqn:Ee.
    + unfold f1. rewrite (vis_try_add_empty (skeys st1) st1 f ty sn sid); [eapply vis_ext; eassumption | eapply regk_keys_ext; eassumption | exact Ee].
    + specialize (Hne eq_refl). subst st1. specialize (Hown sid Hfind Ee).
      unfold f1, try_add_set. cbv zeta. change (match sn with Some [] => None | _ => sn end) with (norm_name sn).
      unfold forget_empty. rewrite Hown, Ee, Hown. reflexivity.
  - intros l2 f2 Hne2 Hf2. split.
    + unfold lf_at, set_lf in *. cbn [b_lfs]. rewrite nth_error_upd_other by congruence. rewrite Hl. exact Hf2.
    + rewrite Hv2. eapply vis_ext; [exact Hs|]. eapply lf_at_reg; eassumption.
Qed.

(* ---------- with ONE logical file the hypothesis of add_common_reject_invisible always holds ---------- *)
Definition owns (st : bstate) (f : lfile) : Prop :=
  forall k n sid, reg_find (b_phys st) k n = Some sid -> set_empty st sid = false -> reg_find (l_reg f) k n = Some sid.
Definition Inv_single (st : bstate) : Prop := forall f, b_lfs st = [f] -> owns st f.

Lemma try_add_find_other keys st f ty sn sid k n :
  regk_ok keys (l_reg f) -> (k <> ty \/ oname_eqb n (norm_name sn) = false) ->
  forall s, reg_find (l_reg f) k n = Some s -> set_empty st s = false \/ True ->
  reg_find (l_reg (try_add_set st f ty sn sid)) k n = Some s.
Proof.
  intros Hk Hne s Hs _. unfold try_add_set. cbv zeta. change (match sn with Some [] => None | _ => sn end) with (norm_name sn).
  assert (Hf : reg_find (forget_empty st (l_reg f) ty (norm_name sn)) k n = Some s).
  { unfold forget_empty. destruct (reg_find (l_reg f) ty (norm_name sn)) as [s0|]; [|exact Hs].
    destruct (set_empty st s0); [|exact Hs]. rewrite reg_find_remove_other; [exact Hs | exact Hne | apply Hk]. }
  destruct (reg_find (forget_empty st (l_reg f) ty (norm_name sn)) ty (norm_name sn)); [exact Hs|].
  cbn [l_reg]. rewrite reg_find_insert, reg_find_reposition_any, Hf. reflexivity.
Qed.

Lemma try_add_find_target keys st phys f ty sn sid :
  regk_ok keys (l_reg f) -> sub_reg phys (l_reg f) -> reg_find phys ty (norm_name sn) = Some sid ->
  reg_find (l_reg (try_add_set st f ty sn sid)) ty (norm_name sn) = Some sid.
Proof.
  intros Hk Hs Hp. unfold try_add_set. cbv zeta. change (match sn with Some [] => None | _ => sn end) with (norm_name sn).
  destruct (reg_find (forget_empty st (l_reg f) ty (norm_name sn)) ty (norm_name sn)) as [x|] eqn:Ef.
  - pose proof (forget_find keys st _ _ _ _ _ _ Hk Ef) as Hx. rewrite (Hs _ _ _ Hx) in Hp. inv Hp. exact Hx.
  - cbn [l_reg]. rewrite reg_find_insert, reg_find_reposition_any, Ef, Nat.eqb_refl, oname_eqb_refl. reflexivity.
Qed.

Lemma set_empty_old st st1 extra s : b_sets st1 = b_sets st ++ extra -> Forall (fun x => s_items x = []) extra ->
  set_empty st1 s = false -> (s < length (b_sets st))%nat /\ set_empty st s = false.
Proof.
  intros Hs He Hf. destruct (Nat.lt_ge_cases s (length (b_sets st))) as [Hlt|Hge].
  - split; [exact Hlt|]. unfold set_empty, set_at in *. rewrite Hs, app_nth1 in Hf by exact Hlt. exact Hf.
  - exfalso. unfold set_empty, set_at in Hf. rewrite Hs in Hf. rewrite app_nth2 in Hf by exact Hge.
    set (d := {| s_ty := 0; s_name := None; s_items := [] |}) in *.
    destruct (nth_in_or_default (s - length (b_sets st)) extra d) as [Hin|Hd].
    + rewrite Forall_forall in He. rewrite (He _ Hin) in Hf. discriminate.
    + rewrite Hd in Hf. discriminate.
Qed.

Lemma lookups_owns st f ty sn st1 sid :
  Inv_reg st -> Inv_sub st -> b_lfs st = [f] -> owns st f -> get_or_make_set st ty sn = (st1, sid) ->
  owns (set_lf st1 0 (try_add_set st1 f ty sn sid)) (try_add_set st1 f ty sn sid).
Proof.
  intros Hr Hsub Hl Hown Hg. destruct (gms_sub _ _ _ _ _ Hg) as (Hfind & Hmono & Hl1 & _ & (extra & Hs & Hex) & _).
  destruct (gms_reg _ _ _ _ _ Hg Hr) as (_ & _ & _ & Hext).
  assert (Hf : lf_at st 0 = Some f) by (unfold lf_at; rewrite Hl; reflexivity).
  assert (Hkf : regk_ok (skeys st1) (l_reg f)) by (eapply regk_keys_ext; [exact Hext|]; eapply lf_at_reg; eassumption).
  assert (Hsf : sub_reg (b_phys st1) (l_reg f)) by (eapply sub_reg_mono; [exact Hmono|]; eapply lf_at_sub; eassumption).
  intros k n s Hp He. cbn [set_lf b_phys] in Hp.
  assert (He1 : set_empty st1 s = false) by exact He.
  destruct (set_empty_old _ _ _ _ Hs Hex He1) as [_ He0].
  destruct (Nat.eq_dec k ty) as [->|Hk].
  - destruct (oname_eqb n (norm_name sn)) eqn:En.
    + apply oname_eqb_eq in En. subst n. rewrite Hfind in Hp. inv Hp. eapply try_add_find_target; eassumption.
    + eapply try_add_find_other; [exact Hkf | right; exact En | | right; exact I].
      apply Hown; [|exact He0]. revert Hp Hg. clear -En. unfold get_or_make_set. cbv zeta.
      change (match sn with Some [] => None | _ => sn end) with (norm_name sn).
      destruct (reg_find (b_phys st) ty (norm_name sn)); intros Hp Hg; inv Hg; [exact Hp|].
      cbn [b_phys] in Hp. rewrite reg_find_insert in Hp. destruct (reg_find (b_phys st) ty n); [exact Hp|].
      rewrite Nat.eqb_refl, En in Hp. discriminate.
  - eapply try_add_find_other; [exact Hkf | left; exact Hk | | right; exact I].
    apply Hown; [|exact He0]. revert Hp Hg. clear -Hk. unfold get_or_make_set. cbv zeta.
    change (match sn with Some [] => None | _ => sn end) with (norm_name sn).
    destruct (reg_find (b_phys st) ty (norm_name sn)); intros Hp Hg; inv Hg; [exact Hp|].
    cbn [b_phys] in Hp. rewrite reg_find_insert in Hp. destruct (reg_find (b_phys st) k n); [exact Hp|].
    destruct (Nat.eqb_spec k ty); [contradiction|]. cbn [andb] in Hp. discriminate.
Qed.

Lemma owns_same st st' f : b_phys st' = b_phys st -> b_sets st' = b_sets st -> owns st f -> owns st' f.
Proof. intros Hp Hs H k n s. unfold set_empty, set_at. rewrite Hp, Hs. apply H. Qed.

Lemma register_owns st sid it f ty n :
  regk_ok (skeys st) (b_phys st) -> nth_error (skeys st) sid = Some (ty, n) -> reg_find (l_reg f) ty n = Some sid ->
  owns st f -> owns (register st sid it) f.
Proof.
  intros Hr Hk Hf Hown k n0 s Hp He. cbn [register b_phys] in Hp.
  destruct (Nat.eq_dec s sid) as [->|Hne].
  - pose proof (reg_find_entry _ _ _ _ _ Hr Hp) as Hkey. rewrite Hk in Hkey. inv Hkey. exact Hf.
  - apply Hown; [exact Hp|]. unfold set_empty, set_at, register in *. cbn [b_sets] in He. rewrite nth_upd_other in He by congruence. exact He.
Qed.

Definition Inv_one (st : bstate) : Prop :=
  (b_lfs st = [] -> b_sets st = [] /\ b_phys st = []) /\ (forall f, b_lfs st = [f] -> owns st f).

Lemma add_common_one hc st l ty name sn org dflt kw ds cast st' out :
  add_common hc st l ty name sn org dflt kw ds cast = (st', out) -> Inv_reg st -> Inv_sub st -> Inv_one st -> Inv_one st'.
Proof.
  intros H Hr Hsub [Hnone Hone]. pose proof (add_common_lfs_len _ _ _ _ _ _ _ _ _ _ _ _ _ H) as Hlen.
  unfold add_common in H. destruct (lf_at st l) as [f|] eqn:Hf; [|inv H; split; assumption].
  assert (Hpos : b_lfs st <> []) by (unfold lf_at in Hf; destruct (b_lfs st); [destruct l; discriminate | discriminate]).
  split; [intros E; rewrite E in Hlen; destruct (b_lfs st); [congruence | discriminate]|].
  intros f' Hf'. rewrite Hf' in Hlen. destruct (b_lfs st) as [|f0 [|x r]] eqn:El; try discriminate. clear Hlen Hpos.
  assert (l = 0%nat /\ f0 = f) as [-> ->] by (unfold lf_at in Hf; rewrite El in Hf; destruct l as [|[|l]]; cbn in Hf; inv Hf; auto).
  specialize (Hone f eq_refl).
  destruct (get_or_make_set st ty sn) as [st1 sid] eqn:Hg.
  pose proof (lookups_owns st f ty sn st1 sid Hr Hsub El Hone Hg) as Ho2.
  set (f1 := try_add_set st1 f ty sn sid) in *. set (st2 := set_lf st1 0 f1) in *.
  destruct (gms_sub _ _ _ _ _ Hg) as (Hfind & Hmono & Hl1 & _ & _ & _).
  destruct (gms_reg _ _ _ _ _ Hg Hr) as (Hr1 & Hkey & _ & Hext).
  assert (Hl2 : b_lfs st2 = [f1]) by (unfold st2; cbn [set_lf b_lfs]; rewrite Hl1, El; reflexivity).
  assert (Hst2 : forall fx, b_lfs st2 = [fx] -> owns st2 fx) by (intros fx E; rewrite Hl2 in E; inv E; exact Ho2).
  destruct name; try (inv H; apply Hst2; exact Hf').
  destruct (hc && negb (hc_string s)); [inv H; apply Hst2; exact Hf'|].
  match type of H with context [match ?o with OK _ => _ | Err _ => _ end] => destruct o end; [|inv H; apply Hst2; exact Hf'].
  match type of H with context [set_attributes ?a ?b ?c ?d] => destruct (set_attributes a b c d) as [it|] end; inv H; [|apply Hst2; exact Hf'].
  cbn [register b_lfs] in Hf'. change (b_lfs st2) with (b_lfs st2) in Hf'. rewrite Hl2 in Hf'. inv Hf'.
  apply (register_owns st2 sid it f1 ty (norm_name sn)).
  - apply Hr1.
  - exact Hkey.
  - eapply try_add_find_target; [| |exact Hfind].
    + eapply regk_keys_ext; [exact Hext|]. eapply lf_at_reg; [exact Hr | exact Hf].
    + eapply sub_reg_mono; [exact Hmono|]. eapply lf_at_sub; [exact Hsub | exact Hf].
  - exact Ho2.
Qed.

Lemma upd_single {A} (l : list A) n x y : upd l n x = [y] -> exists a, l = [a] /\ ((n = 0%nat /\ y = x) \/ (n <> 0%nat /\ y = a)).
Proof.
  destruct l as [|a [|b r]]; [destruct n; discriminate | | destruct n as [|[|n]]; discriminate].
  destruct n as [|n]; cbn [upd]; intros H.
  - exists a. split; [reflexivity|]. left. split; [reflexivity | congruence].
  - exists a. split; [reflexivity|]. right. split; [discriminate|]. destruct n; cbn in H; congruence.
Qed.

Lemma set_lf_one st l f f' : lf_at st l = Some f -> l_reg f' = l_reg f -> Inv_one st -> Inv_one (set_lf st l f').
Proof.
  intros Hf Hreg [Hnone Hone]. split.
  - cbn [set_lf b_lfs]. intros E. exfalso. unfold lf_at in Hf. destruct (b_lfs st) as [|a r]; [destruct l; discriminate|]. destruct l; discriminate.
  - cbn [set_lf b_lfs]. intros fx E. destruct (upd_single _ _ _ _ E) as (a & Ea & [[-> ->] | [Hl ->]]).
    + assert (a = f) by (unfold lf_at in Hf; rewrite Ea in Hf; inv Hf; reflexivity). subst a.
      intros k n s Hp He. unfold owns in Hone. rewrite Hreg. apply (Hone f Ea k n s Hp He).
    + eapply owns_same; [| |apply Hone; exact Ea]; reflexivity.
Qed.

Lemma items_only_one st st' : b_lfs st' = b_lfs st -> b_sets st' = b_sets st -> b_phys st' = b_phys st -> Inv_one st -> Inv_one st'.
Proof.
  intros Hl Hs Hp [Hnone Hone]. split; [rewrite Hl, Hs, Hp; exact Hnone|]. intros f E. rewrite Hl in E.
  eapply owns_same; [exact Hp | exact Hs | apply Hone; exact E].
Qed.

Lemma lookups_one st l f ty sn st1 sid :
  Inv_reg st -> Inv_sub st -> Inv_one st -> lf_at st l = Some f -> get_or_make_set st ty sn = (st1, sid) ->
  Inv_one (set_lf st1 l (try_add_set st1 f ty sn sid)).
Proof.
  intros Hr Hsub [Hnone Hone] Hf Hg. destruct (gms_sub _ _ _ _ _ Hg) as (_ & _ & Hl1 & _ & _ & _).
  split.
  - cbn [set_lf b_lfs]. rewrite Hl1. intros E. exfalso. unfold lf_at in Hf. destruct (b_lfs st) as [|a r]; [destruct l; discriminate|]. destruct l; discriminate.
  - cbn [set_lf b_lfs]. rewrite Hl1. intros fx E. destruct (upd_single _ _ _ _ E) as (a & Ea & [[-> ->] | [Hl ->]]).
    + assert (a = f) by (unfold lf_at in Hf; rewrite Ea in Hf; inv Hf; reflexivity). subst a.
      apply (lookups_owns st f ty sn st1 sid Hr Hsub Ea (Hone f Ea) Hg).
    + exfalso. unfold lf_at in Hf. rewrite Ea in Hf. destruct l as [|[|l]]; [congruence | discriminate | discriminate].
Qed.

Theorem step_inv_one ps st o ps' st' out : step ps st o = (ps', st', out) -> Inv_reg st -> Inv_sub st -> Inv_one st -> Inv_one st'.
Proof.
  destruct o; unfold step.
  - unfold add_lf. destruct hid; try solve [intros H; inv H; auto]. destruct seq; try solve [intros H; inv H; auto].
    repeat match goal with |- context [if ?c then _ else _] => destruct c end; intros H Hr Hs Hi; inv H; try exact Hi.
    destruct Hi as [Hnone Hone]. split; cbn [b_lfs b_sets b_phys].
    + intros E. destruct (b_lfs st); discriminate.
    + intros fx E. destruct (b_lfs st) as [|a r] eqn:El; [|destruct r; discriminate].
      destruct (Hnone eq_refl) as [Es Ep]. intros k0 n0 s0 Hp. cbn [b_phys] in Hp. rewrite Ep in Hp. discriminate.
  - destruct (add_common (p_hc ps) st l ty name sn origin default_origin kw None None) as [s1 o1] eqn:E.
    intros H; injection H as <- <- <-. eapply add_common_one; eassumption.
  - destruct (add_origin (p_hc ps) st l name sn origin kw) as [s1 o1] eqn:E. intros H Hr Hs Hi; injection H as <- <- <-.
    unfold add_origin in E. destruct (lf_at st l) as [f|] eqn:Hf; [|inv E; exact Hi].
    destruct (get_or_make_set st T_ORIGIN sn) as [st1 sid] eqn:Hg.
    pose proof (lookups_one _ _ _ _ _ _ _ Hr Hs Hi Hf Hg) as Hi1.
    pose proof (lookups_sub _ _ _ _ _ _ _ Hr Hs Hf Hg) as Hs1.
    assert (Hr1 : Inv_reg (set_lf st1 l (try_add_set st1 f T_ORIGIN sn sid))).
    { destruct (gms_reg _ _ _ _ _ Hg Hr) as (Hr0 & He & Hlfs & Hext).
      apply set_lf_reg; [exact Hr0|]. apply try_add_reg; [|exact He]. eapply regk_keys_ext; [exact Hext|]. eapply lf_at_reg; eassumption. }
    match type of E with context [match ?c with Some _ => _ | None => _ end = _] => destruct c end; [inv E; exact Hi1|].
    match type of E with context [add_common ?a ?b ?c ?d ?e0 ?f0 ?g ?h ?i ?j ?k] =>
      destruct (add_common a b c d e0 f0 g h i j k) as [st3 out3] eqn:Ea end.
    assert (Hi3 : Inv_one st3) by (eapply add_common_one; [exact Ea | exact Hr1 | exact Hs1 | exact Hi1]).
    destruct out3 as [[iid|]|e3]; try (inv E; exact Hi3). inv E.
    assert (Hi4 : Inv_one (origin_fsn_default (p_hc ps) st3 sid iid)).
    { unfold origin_fsn_default. destruct (fst (nth _ (i_attrs (item_at st3 iid)) (SPNone, None))); try exact Hi3.
      destruct (p_hc ps); [|exact Hi3]. revert Hi3. apply items_only_one; reflexivity. }
    unfold origin_backfill. match goal with |- context [if ?c then _ else _] => destruct c end; [|exact Hi4].
    set (s4 := origin_fsn_default (p_hc ps) st3 sid iid) in *.
    destruct (lf_at s4 l) as [x|] eqn:Hx.
    + match goal with |- Inv_one (set_lf ?s l ?f4) => apply (set_lf_one s l x f4) end; [exact Hx | reflexivity|].
      revert Hi4. apply items_only_one; reflexivity.
    + exfalso. apply add_common_lfs_len in Ea. cbn [set_lf b_lfs] in Ea. rewrite length_upd in Ea.
      assert (L1 : b_lfs st1 = b_lfs st) by (unfold get_or_make_set in Hg; cbv zeta in Hg; destruct (reg_find _ _ _); inv Hg; reflexivity).
      rewrite L1 in Ea. unfold lf_at in Hx, Hf. apply nth_error_None in Hx. assert (l < length (b_lfs st))%nat by (apply nth_error_Some; congruence).
      assert (E4 : b_lfs s4 = b_lfs st3).
      { unfold s4, origin_fsn_default. destruct (fst _); try reflexivity. destruct (p_hc ps); reflexivity. }
      rewrite E4 in Hx. lia.
  - destruct (add_channel (p_hc ps) st l name sn origin kw bad_data data ds cast) as [s1 o1] eqn:E. intros H Hr Hs Hi; injection H as <- <- <-.
    unfold add_channel in E. destruct (lf_at st l) as [f|] eqn:Hf; [|inv E; exact Hi].
    destruct bad_data; [inv E; exact Hi|].
    destruct (unique_dataset_name st f _ ds); [|inv E; exact Hi].
    assert (Hsd : forall s3 f3 k d, Inv_one s3 -> lf_at s3 l = Some f3 -> Inv_one (set_lf s3 l (set_data f3 k d))).
    { intros s3 f3 k d H3 Hl3. apply (set_lf_one s3 l f3); [exact Hl3 | reflexivity | exact H3]. }
    destruct cast as [[c|]|].
    + destruct (add_common (p_hc ps) st l T_CHANNEL name sn origin default_origin kw (Some a) (Some c)) as [st3 out3] eqn:Ea.
      assert (Hi3 : Inv_one st3) by (eapply add_common_one; eassumption).
      destruct out3 as [[iid|]|e3]; [destruct data; [destruct (lf_at st3 l) eqn:Hl3|]|..]; inv E; try exact Hi3. apply Hsd; assumption.
    + destruct (get_or_make_set st T_CHANNEL sn) as [st1 sid] eqn:Hg. inv E. eapply lookups_one; eassumption.
    + destruct (add_common (p_hc ps) st l T_CHANNEL name sn origin default_origin kw (Some a) None) as [st3 out3] eqn:Ea.
      assert (Hi3 : Inv_one st3) by (eapply add_common_one; eassumption).
      destruct out3 as [[iid|]|e3]; [destruct data; [destruct (lf_at st3 l) eqn:Hl3|]|..]; inv E; try exact Hi3. apply Hsd; assumption.
  - destruct (add_frame (p_hc ps) st l name sn origin channels chan_attr_idx kw) as [s1 o1] eqn:E. intros H Hr Hs Hi; injection H as <- <- <-.
    unfold add_frame in E. destruct channels; try (inv E; exact Hi). destruct l0; [inv E; exact Hi|].
    match type of E with context [if ?c then _ else _] => destruct c end; [|inv E; exact Hi].
    eapply add_common_one; eassumption.
  - unfold assign. destruct (nth_error (b_items st) i) as [it|]; [|intros H; inv H; auto].
    match goal with |- context [match ?x with OK _ => _ | Err _ => _ end] => destruct x end; intros H Hr Hs Hi; inv H; exact Hi.
  - unfold add_nofmt_data. destruct (lf_at st l) as [f|] eqn:Hf; intros H Hr Hs Hi; inv H; [|exact Hi].
    apply (set_lf_one st l f); [exact Hf | reflexivity | exact Hi].
  - intros H; inv H; auto.
  - intros H; inv H; auto.
  - destruct (p_stack ps); intros H; inv H; auto.
  - unfold set_origin. destruct (nth_error (b_items st) i) as [it|]; [|intros H; inv H; auto].
    destruct r; intros H Hr Hs Hi; inv H; exact Hi.
  - unfold set_header. destruct (lf_at st l) as [f|] eqn:Hf; [|intros H; inv H; auto].
    destruct is_id, r; intros H Hr Hs Hi; inv H; try exact Hi; (apply (set_lf_one st l f); [exact Hf | reflexivity | exact Hi]).
Qed.

Lemma inv_one_init : Inv_one b_init.
Proof. split; [intros _; split; reflexivity | intros f E; discriminate]. Qed.

Theorem run_ops_invs : forall ops ps st, Inv_reg st -> Inv_sub st -> Inv_one st ->
  let st' := bstate_of (run_ops ps st ops) in Inv_reg st' /\ Inv_sub st' /\ Inv_one st'.
Proof.
  induction ops as [|o ops IH]; intros ps st Hr Hs Hi; [cbn; auto|].
  cbn [run_ops]. destruct (step ps st o) as [[ps1 st1] out] eqn:E.
  specialize (IH ps1 st1 (step_inv_reg _ _ _ _ _ _ E Hr) (step_inv_sub _ _ _ _ _ _ E Hr Hs) (step_inv_one _ _ _ _ _ _ E Hr Hs Hi)).
  cbn zeta in *. destruct (run_ops ps1 st1 ops) as [[ps2 st2] outs]. exact IH.
Qed.

(* a DLISFile with ONE logical file, after any sequence of API calls: a rejected add_* leaves the visible registry unchanged —
   no side condition *)
Theorem single_lf_reject_invisible ops ps hc l ty name sn org dflt kw ds cast st' e f :
  let st := bstate_of (run_ops ps b_init ops) in
  b_lfs st = [f] ->
  add_common hc st l ty name sn org dflt kw ds cast = (st', Rejected e) ->
  l = 0%nat -> exists f', lf_at st' 0 = Some f' /\ vis st' (l_reg f') = vis st (l_reg f).
Proof.
  intros st Hl H ->. destruct (run_ops_invs ops ps b_init inv_reg_init inv_sub_init inv_one_init) as (Hr & Hs & [_ Hone]). fold st in Hr, Hs, Hone.
  assert (Hf : lf_at st 0 = Some f) by (unfold lf_at; rewrite Hl; reflexivity).
  destruct (add_common_reject_invisible _ _ _ _ _ _ _ _ _ _ _ _ _ _ H Hr Hf) as [Hv _]; [|exact Hv].
  intros sid Hp He. apply (Hone f Hl _ _ _ Hp He).
Qed.
