(* IflrP.v — frame-data and no-format bodies decode to what was put in (C03, C08, C16). *)
From DV Require Import Model.Iflr Proofs.BaseP Proofs.PrimP.
From Coq Require Import Lia ZifyBool.
Ltac Zify.zify_post_hook ::= Z.to_euclidean_division_equations.

Lemma nofmt_decode o p body :
  nofmt_body o p = OK body ->
  exists d, payload_bytes p = OK d /\ dec_nofmt body = Some (o, d).
Proof.
  unfold nofmt_body. intros H. bind_inv H. bind_inv H. inv H. exists a0. split; [assumption|].
  unfold dec_nofmt. destruct (obname_rt o a a0 H0) as (org & _ & ->). reflexivity.
Qed.

Lemma obname_nonempty o b : enc_obname o = OK b -> b <> [].
Proof.
  unfold enc_obname. destruct (on_origin o); [|discriminate].
  intros H. bind_inv H. bind_inv H. bind_inv H. inv H. apply ushort_ok in H1. destruct H1 as [-> _].
  destruct a; discriminate.
Qed.

Lemma nofmt_body_nonempty o p body : nofmt_body o p = OK body -> body <> [].
Proof.
  unfold nofmt_body. intros H. bind_inv H. bind_inv H. inv H. apply obname_nonempty in H0.
  destruct a; [congruence | discriminate].
Qed.

Lemma be_n_rt size v bs r : be_n size v = OK bs -> dec_n size (bs ++ r) = Some (v, r) /\ zlen bs = size.
Proof.
  unfold be_n, dec_n.
  destruct (size =? 1) eqn:E1. { intros H. split; [apply ushort_rt; exact H|]. apply ushort_ok in H. destruct H as [-> _]. unfold zlen; cbn [length]; lia. }
  destruct (size =? 2) eqn:E2. { intros H. split; [apply unorm_rt; exact H|]. apply unorm_ok in H. destruct H as [-> _]. unfold zlen, be2; cbn [length]; lia. }
  destruct (size =? 4) eqn:E4.
  { intros H. split; [apply ulong_rt; exact H|]. unfold enc_ulong in H. destruct (_ && _) in H; inv H. unfold zlen, be4; cbn [length]; lia. }
  destruct (size =? 8) eqn:E8; [|discriminate].
  intros H. split; [apply fdoubl_rt; exact H|]. unfold enc_fdoubl in H. destruct (_ && _) in H; inv H. unfold zlen, be8, be4; cbn [length app]; lia.
Qed.

Lemma enc_elems_rt size : forall vs bs r, enc_elems size vs = OK bs ->
  dec_elems size (length vs) (bs ++ r) = Some (vs, r) /\ zlen bs = size * zlen vs.
Proof.
  induction vs as [|v vs IH]; intros bs r H.
  - inv H. split; [reflexivity | cbn; lia].
  - cbn [enc_elems] in H. bind_inv H. bind_inv H. inv H.
    destruct (be_n_rt size v a (a0 ++ r) H0) as [D1 L1]. destruct (IH a0 r H1) as [D2 L2].
    cbn [length dec_elems]. rewrite <- app_assoc, D1, D2. split; [reflexivity|].
    rewrite zlen_app, zlen_cons. lia.
Qed.

Lemma enc_slots_rt : forall ss bs r, enc_slots ss = OK bs ->
  dec_slots (descr_of ss) (bs ++ r) = Some (ss, r) /\ zlen bs = slots_len (descr_of ss).
Proof.
  induction ss as [|[size vs] ss IH]; intros bs r H.
  - inv H. split; reflexivity.
  - cbn [enc_slots] in H. bind_inv H. bind_inv H. inv H.
    destruct (enc_elems_rt size vs a (a0 ++ r) H0) as [D1 L1]. destruct (IH a0 r H1) as [D2 L2].
    cbn [descr_of map dec_slots]. rewrite <- app_assoc, D1. fold (descr_of ss). rewrite D2. split; [reflexivity|].
    cbn [slots_len fold_right]. fold (slots_len (descr_of ss)). rewrite zlen_app. unfold zlen in *. lia.
Qed.

Theorem fdata_decode o n ss body :
  fdata_body o n ss = OK body -> dec_fdata (descr_of ss) body = Some (o, n, ss).
Proof.
  unfold fdata_body. intros H. bind_inv H. bind_inv H. bind_inv H. inv H.
  unfold dec_fdata. destruct (obname_rt o a (a0 ++ a1) H0) as (org & _ & ->).
  rewrite (uvari_rt _ _ a1 H1).
  destruct (enc_slots_rt ss a1 [] H2) as [D _]. rewrite app_nil_r in D. rewrite D. reflexivity.
Qed.

(* record length = reference + frame number + sum over the channels, in order, of size x element count *)
Theorem fdata_length o n ss body :
  fdata_body o n ss = OK body ->
  exists ob nb, enc_obname o = OK ob /\ enc_uvari n = OK nb /\
    zlen body = zlen ob + zlen nb + slots_len (descr_of ss).
Proof.
  unfold fdata_body. intros H. bind_inv H. bind_inv H. bind_inv H. inv H.
  exists a, a0. split; [assumption|]. split; [assumption|].
  destruct (enc_slots_rt ss a1 [] H2) as [_ L]. rewrite !zlen_app. lia.
Qed.

(* a frame-data body is never empty, so its record is never dropped *)
Lemma fdata_body_nonempty o n ss body : fdata_body o n ss = OK body -> body <> [].
Proof.
  unfold fdata_body. intros H. bind_inv H. bind_inv H. bind_inv H. inv H. apply obname_nonempty in H0.
  destruct a; [congruence | discriminate].
Qed.
