(* ConstantsOK.v — the constants regenerated from /repo on every run are the ones the model uses.
   A changed constant in the source breaks one of these obligations for all inputs at once. *)
From DV Require Import Gen.Constants Model.Reader Model.Data Model.Eflr.
From Coq Require Import Lia.

Definition s (l : list Z) := l.

Lemma ok_uvari : forall v,
  enc_uvari v = (if v <? nth 0 g_uvari_thresholds 0 then enc_ushort v
                 else if v <? nth 1 g_uvari_thresholds 0 then enc_unorm (v + g_UNORM_OFFSET)
                 else enc_ulong (v + g_ULONG_OFFSET)).
Proof. reflexivity. Qed.

(* names: FSINGL FDOUBL SSHORT SNORM SLONG USHORT UNORM ULONG UVARI IDENT ASCII DTIME ORIGIN OBNAME OBJREF STATUS *)
Lemma ok_repr_codes : map snd g_repr_codes = [2; 7; 12; 13; 14; 15; 16; 17; 18; 19; 20; 21; 22; 23; 24; 26].
Proof. reflexivity. Qed.

(* '>f' '>d' '>b' '>h' '>i' '>B' '>H' '>I' none none none '>BBBBBBH' none none none '>B': big-endian struct formats *)
Lemma ok_struct_formats : g_struct_formats =
  [(2, [62; 102]); (7, [62; 100]); (12, [62; 98]); (13, [62; 104]); (14, [62; 105]); (15, [62; 66]); (16, [62; 72]); (17, [62; 73]);
   (18, []); (19, []); (20, []); (21, [62; 66; 66; 66; 66; 66; 66; 72]); (22, []); (23, []); (24, []); (26, [62; 66])].
Proof. reflexivity. Qed.

(* int8 int16 int32 uint8 uint16 uint32 float32 float64 -> the codes of Model/Data.v *)
Lemma ok_dtype_codes : map snd g_dtype_codes = dtype_codes.
Proof. reflexivity. Qed.
Lemma ok_dtype_names : map fst g_dtype_codes =
  [[105;110;116;56]; [105;110;116;49;54]; [105;110;116;51;50]; [117;105;110;116;56]; [117;105;110;116;49;54]; [117;105;110;116;51;50];
   [102;108;111;97;116;51;50]; [102;108;111;97;116;54;52]].
Proof. reflexivity. Qed.

Definition codes_1_27 : list Z := map Z.of_nat (seq 1 27).
Lemma ok_code_classes :
  forallb (fun c => Bool.eqb (is_float_code c) (existsb (Z.eqb c) g_float_codes)
                    && Bool.eqb (is_sint_code c) (existsb (Z.eqb c) g_sint_codes)
                    && Bool.eqb (is_uint_code c) (existsb (Z.eqb c) g_uint_codes)) codes_1_27 = true.
Proof. vm_compute. reflexivity. Qed.

(* int -> SLONG, float -> FDOUBL, str -> ASCII, datetime -> DTIME (infer_single) *)
Lemma ok_generic_types :
  g_generic_types = [14; 7; 20; 21] /\
  infer_single (VInt 0) = Some 14 /\ infer_single (VFloat 0) = Some 7 /\ infer_single (VStr []) = Some 20.
Proof. repeat split. Qed.

Lemma ok_iflr_types : map snd g_iflr_types = [0; 1].    (* FDATA = 0, NOFMT = 1: lr_type of fdata_rec / nofmt_rec *)
Proof. reflexivity. Qed.
Lemma ok_eflr_types : map snd g_eflr_types = [0; 1; 2; 3; 4; 5; 6; 7; 8; 9; 10; 11].
Proof. reflexivity. Qed.

Lemma ok_sul : g_sul_fields = [(4, false); (5, true); (6, false); (5, false); (60, true)]
  /\ g_sul_strings = [str_V100; str_RECORD] /\ g_max_record_length_limit = 16384.
Proof. repeat split. Qed.

Lemma ok_vrl : forall v, check_vrl v = ((nth 0 g_vrl_limits 0 <=? v) && (v <=? nth 1 g_vrl_limits 0) && Z.even v).
Proof. reflexivity. Qed.

Lemma ok_marker : forall vrl seg h, make_vr vrl seg = OK h -> exists l, h = l ++ g_vr_marker ++ seg.
Proof.
  unfold make_vr. intros vrl seg h. destruct (vrl <? zlen seg + 4); [discriminate|].
  destruct (enc_unorm (zlen seg + 4)) as [l|]; cbn; [|discriminate]. intros H. inversion H. exists l. reflexivity.
Qed.

Lemma ok_segment_min : g_segment_min_body = 12 /\ forall n, 0 <= n -> g_segment_min_body <= n + pad_count n.
Proof. split; [reflexivity|]. intros n H. unfold pad_count, g_segment_min_body. destruct (Z.odd _); lia. Qed.

Lemma ok_weights : forall e f l p,
  seg_attr e f l p =
    fold_right Z.add 0 (map (fun '(b, w) => b2z b * w) (combine [e; negb f; negb l; false; false; false; false; p] g_segment_weights)).
Proof. intros [] [] [] []; reflexivity. Qed.

Lemma ok_fileheader_limits : g_header_id_length_limit = 65 /\ g_max_sequence_number = 9999999999.
Proof. split; reflexivity. Qed.

(* "[A-Z0-9_-]+" *)
Lemma ok_hc_pattern : g_hc_pattern = [91; 65; 45; 90; 48; 45; 57; 95; 45; 93; 43].
Proof. reflexivity. Qed.

Lemma ok_tolerance : g_spacing_tolerance_num_den = (1, 1000).
Proof. reflexivity. Qed.
