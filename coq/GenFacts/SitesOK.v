(* SitesOK.v — the places where /repo's code sets an attribute value or units on the user's behalf while writing
   (Gen/Sites.v, regenerated on every run by harness/gen_tables.py from the syntax trees of the item classes, of
   DimensionedItem and of LogicalFile; any such assignment outside the recognised write-time functions aborts the
   translator) are exactly the sites of Proofs/KeepP.v: default_sites for values, unit_sites for units.
   So the theorem C05_write_changes_only_defaults speaks about the defaults the source has now: a new write-time
   default, or one that disappears, breaks this obligation. Type indices are those of Gen/Schema.v (the T_ constants of Model/Builder.v). *)
From DV Require Import Gen.Sites Gen.Order Model.ApiDispatch Proofs.KeepP.

Definition site_eqb (a b : nat * list Z) : bool := Nat.eqb (fst a) (fst b) && list_eqb (snd a) (snd b).
Definition gen_of (u : bool) : list (nat * list Z) :=
  map (fun x => (fst (fst x), snd (fst x))) (filter (fun x => Bool.eqb (snd x) u) g_write_sites).
Definition same_sites (a b : list (nat * list Z)) : bool :=
  forallb (fun x => existsb (site_eqb x) b) a && forallb (fun x => existsb (site_eqb x) a) b.

Lemma value_sites_ok : same_sites (gen_of false) default_sites = true.
Proof. vm_compute. reflexivity. Qed.

Lemma unit_sites_ok : same_sites (gen_of true) unit_sites = true.
Proof. vm_compute. reflexivity. Qed.

(* the attribute names are attributes of their type in the schema (so that aidx finds them) *)
Lemma sites_in_schema :
  forallb (fun tn => existsb (fun ad => list_eqb (ad_name ad) (snd tn)) (td_attrs (tdef_at (fst tn)))) (default_sites ++ unit_sites) = true.
Proof. vm_compute. reflexivity. Qed.

(* D23: the three _run_checks_and_set_defaults methods that derive a dimension call _check_axis_vs_dimension after every
   statement that can set it (Gen/Order.v, from the syntax trees): the order Write.run_checks has, on which
   C14_checked_object_passes_the_axis_check_again and C14_checks_and_defaults_are_idempotent rest *)
Lemma axis_check_last : g_axis_check_last = true.
Proof. reflexivity. Qed.

(* D25 / D24: the guards the model and the theorems assume are in the source (Gen/Order.v, from the syntax trees):
   MultiFrameData refuses a chunk size below 1 (C11_chunks and the chunking theorems of C10 assume 0 < chunk);
   SourceDataWrapper refuses a negative from_idx and a to_idx beyond the rows (Write.setup_frame, C11_window_inside_the_data) *)
Lemma chunk_positive_enforced : g_chunk_positive_enforced = true.
Proof. reflexivity. Qed.
Lemma window_inside_enforced : g_window_inside_enforced = true.
Proof. reflexivity. Qed.
