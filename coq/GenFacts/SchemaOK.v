(* SchemaOK.v — well-formedness of the object schema regenerated from /repo's 21 item classes (+ FILE-HEADER):
   labels non-empty, ASCII, shorter than 256, pairwise distinct per type; explicit codes are codes the model encodes;
   set types are distinct. Finite table: decided by vm_compute. *)
From DV Require Import Gen.Schema Model.EflrReader.

Definition ga_label (a : g_attr) : list Z := match a with (_, l, _, _, _, _, _, _, _, _, _, _) => l end.
Definition ga_rc0 (a : g_attr) : option Z := match a with (_, _, _, _, _, rc, _, _, _, _, _, _) => rc end.
Definition ga_valid (a : g_attr) : list Z := match a with (_, _, _, _, _, _, v, _, _, _, _, _) => v end.
Definition ga_mv (a : g_attr) : bool := match a with (_, _, _, mv, _, _, _, _, _, _, _, _) => mv end.
Definition ga_md (a : g_attr) : bool := match a with (_, _, _, _, md, _, _, _, _, _, _, _) => md end.

Definition modelled_codes : list Z := [7; 12; 13; 14; 15; 16; 17; 18; 19; 20; 21; 23; 24; 26].

Definition type_ok (t : list Z * list Z * Z * list g_attr) : bool :=
  let '(_, settype, _, attrs) := t in
  nonnil settype && all_ascii settype && (zlen settype <? 256)
  && forallb (fun a => nonnil (ga_label a) && all_ascii (ga_label a) && (zlen (ga_label a) <? 256)) attrs
  && distinct (map ga_label attrs)
  && forallb (fun a => match ga_rc0 a with Some c => existsb (Z.eqb c) modelled_codes | None => true end) attrs
  && forallb (fun a => forallb (fun c => (1 <=? c) && (c <=? 27)) (ga_valid a)) attrs
  && forallb (fun a => implb (ga_md a) (ga_mv a)) attrs.

Lemma schema_ok : forallb type_ok g_schema = true.
Proof. vm_compute. reflexivity. Qed.

Lemma schema_types : length g_schema = 21%nat /\ distinct (map (fun '(_, st, _, _) => st) g_schema) = true.
Proof. split; vm_compute; reflexivity. Qed.

Lemma api_template : g_api_template_ok = true.
Proof. reflexivity. Qed.
