(* C17 — high-compatibility mode enforces its restrictions and never leaks. Statements only. *)
From DV Require Import Model.ApiDispatch Proofs.BuilderP.

(* leaving the context — normally or through the finally clause of an exception, nested or not, interleaved with any
   building, assigning, querying — restores the previous mode: after any balanced operation sequence the process
   state (flag and save stack) is what it was *)
Theorem C17_restored : forall ops, balanced ops -> forall ps st, pstate_of (run_ops ps st ops) = ps.
Proof. exact mode_restored. Qed.

(* operations other than entering / leaving never touch the flag *)
Theorem C17_only_contexts_change_mode : forall ps st o, is_hc_op o = false -> fst (fst (step ps st o)) = ps.
Proof. exact step_keeps_mode. Qed.

(* inside the mode an accepted add_* has a name matching [A-Z0-9_-]+ (breach => rejected, not warned) *)
Theorem C17_names_enforced : forall st l ty name sn org dflt kw ds cast st' iid,
  add_common true st l ty name sn org dflt kw ds cast = (st', Accepted (Some iid)) ->
  exists nm h, name = RStr nm h /\ hc_string nm = true.
Proof. exact hc_name_enforced. Qed.

(* outside the mode the same name is accepted: soft breach *)
Example C17_soft :
  let ops := [OAddLF (RStr [72] HNone) (RInt 1); OAdd 0 T_AXIS (RStr [97; 32; 98] HNone) None RNone []] in
  snd (run_ops p_init b_init ops) = [Accepted None; Accepted (Some 0%nat)]
  /\ snd (run_ops p_init b_init (OEnterHC :: ops ++ [OExitHC])) = [Accepted None; Accepted None; Rejected EValue; Accepted None]
  /\ p_hc (pstate_of (run_ops p_init b_init (OEnterHC :: ops ++ [OExitHC]))) = false.
Proof. vm_compute. repeat split. Qed.

Print Assumptions C17_restored.
Print Assumptions C17_only_contexts_change_mode.
Print Assumptions C17_names_enforced.
