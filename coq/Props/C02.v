(* C02 — segmentation is lossless, ordered and correctly bracketed. Statements only. *)
From DV Require Import Model.Reader Proofs.SegmentP.
From DV Require Import Model.ApiDispatch Proofs.FileP.

(* Reading the file back with the strict reader (headers and flagged pad bytes dropped, bracket discipline enforced)
   yields exactly the records given to the writer, in order, byte for byte, with flag and type preserved.
   Records with an empty body produce no segment at all (the mechanism by which empty sets vanish, see C09):
   that is the only normalisation. *)
Theorem C02_roundtrip : forall c recs bs,
  forallb wf_rec recs = true -> write_file c recs = OK bs ->
  read_records c bs = Some (filter nonempty_body recs).
Proof. exact read_write_file. Qed.

(* Whatever the reader's reassembly accepts is bracketed (Model/Reader.v: Run, Bracketed): only the first segment of
   a record lacks the predecessor bit, only the last lacks the successor bit, flag and type are identical on all
   segments of a record, records never interleave, and a record's body is the concatenation of its chunks. *)
Theorem C02_bracket : forall vrs rs, reassemble vrs = Some rs -> Bracketed (concat vrs) rs.
Proof. exact reassemble_bracketed. Qed.

(* hence the writer's output is bracketed *)
Theorem C02_writer_bracketed : forall c recs bs,
  forallb wf_rec recs = true -> write_file c recs = OK bs ->
  exists vrs, parse_file c bs = Some vrs /\ Bracketed (concat vrs) (filter nonempty_body recs).
Proof. exact writer_bracketed. Qed.

(* END TO END over the modelled API: after any sequence of API calls and earlier writes, the file DLISFile.write returns
   parses into visible records whose segment sequence is bracketed, and reassembles *)
Theorem C02_api_bracketed : forall l ps hc w st' bs,
  let st := snd (run_actions ps b_init l) in
  write hc st w = (st', OK bs) ->
  let cfg := {| sul_seq := w_seq w; sul_vrl := w_vrl w; sul_id := w_ident w |} in
  exists vrs recs, parse_file cfg bs = Some vrs /\ Bracketed (concat vrs) recs /\ read_records cfg bs = Some recs.
Proof. exact api_output_bracketed. Qed.

(* non-vacuity: a body of 30 bytes at capacity 12 is cut in three segments (12, 6 padded, 12) and read back *)
Example C02_ex :
  let c := {| sul_seq := 1; sul_vrl := 20; sul_id := [] |} in
  let r := {| lr_eflr := false; lr_type := 0; lr_body := map Z.of_nat (seq 0 30) |} in
  exists bs, write_file c [r] = OK bs /\ read_records c bs = Some [r]
             /\ match parse_file c bs with Some vrs => length vrs = 3%nat | None => False end.
Proof. eexists. split; [vm_compute; reflexivity|]. split; vm_compute; reflexivity. Qed.

Print Assumptions C02_roundtrip.
Print Assumptions C02_bracket.
Print Assumptions C02_writer_bracketed.
Print Assumptions C02_api_bracketed.
