(* C16 — no-format payloads come back exactly, in order, under their object. Statements only. *)
From DV Require Import Model.Reader Model.Iflr Proofs.SegmentP Proofs.IflrP.

(* the body of a no-format record is the object reference followed by exactly the payload: the standard reader
   gets the reference and the payload back, nothing appended, removed or altered (any length, also 0) *)
Theorem C16_body : forall o p body,
  nofmt_body o p = OK body -> exists d, payload_bytes p = OK d /\ dec_nofmt body = Some (o, d).
Proof. exact nofmt_decode. Qed.

(* the body is never empty, so the record is never dropped by the segmenter *)
Theorem C16_kept : forall o p body, nofmt_body o p = OK body -> body <> [].
Proof. exact nofmt_body_nonempty. Qed.

(* records of any size survive the physical layer in order (C02 instantiated: all records, hence the no-format
   records among them, are read back unchanged and in order) *)
Theorem C16_file : forall c recs bs,
  forallb wf_rec recs = true -> write_file c recs = OK bs ->
  read_records c bs = Some (filter nonempty_body recs).
Proof. exact read_write_file. Qed.

Example C16_ex :
  let o := {| on_origin := Some 1; on_copy := 0; on_name := [78] |} in
  nofmt_body o (PText [97; 98]) = OK [1; 0; 1; 78; 97; 98] /\ nofmt_body o (PBytes []) = OK [1; 0; 1; 78]
  /\ dec_nofmt [1; 0; 1; 78; 97; 98] = Some (o, [97; 98]).
Proof. vm_compute. repeat split. Qed.

Print Assumptions C16_body.
Print Assumptions C16_kept.
Print Assumptions C16_file.
