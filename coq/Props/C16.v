(* C16 — no-format payloads come back exactly, in order, under their object. Statements only. *)
From DV Require Import Model.Reader Model.Iflr Proofs.SegmentP Proofs.IflrP.
From DV Require Import Model.ApiDispatch Proofs.FileP.

(* the body of a no-format record is the object reference followed by exactly the payload: the standard reader
   gets the reference and the payload back, nothing appended, removed or altered (any length, also 0) *)
Theorem C16_body : forall o p body,
  nofmt_body o p = OK body -> exists d, payload_bytes p = OK d /\ dec_nofmt body = Some (o, d).
Proof. exact nofmt_decode. Qed.

(* the body is never empty, so the record is never dropped by the segmenter *)
Theorem C16_kept : forall o p body, nofmt_body o p = OK body -> body <> [].
Proof. exact nofmt_body_nonempty. Qed.

(* records of any size survive the physical layer in order (C02 instantiated: all records, hence the no-format
   records among them, are read back unchanged and in order) *)
Theorem C16_file : forall c recs bs,
  forallb wf_rec recs = true -> write_file c recs = OK bs ->
  read_records c bs = Some (filter nonempty_body recs).
Proof. exact read_write_file. Qed.

(* over the modelled API: the records of a logical file are its explicitly formatted records, then ONE type-1 record per
   add_no_format_frame_data call, in call order, whose body is the reference to the object given in that call followed by
   that call's payload (nofmt_rel, printed below; C16_body then gives the decoded pair), then the frame data *)
Print nofmt_rel.
Theorem C16_api_records : forall st f frames st' recs,
  lf_records st f frames = OK (st', recs) ->
  exists pre nf fd, recs = pre ++ nf ++ fd
    /\ Forall (fun r => lr_eflr r = true) pre
    /\ Forall2 (nofmt_rel st') (l_nofmt f) nf
    /\ Forall (fun r => lr_eflr r = false /\ lr_type r = 0) fd.
Proof. exact lf_nofmt_records. Qed.

(* and the calls are recorded in call order: an accepted add_no_format_frame_data appends its (object, payload) pair *)
Theorem C16_call_order : forall st l obj p st',
  add_nofmt_data st l obj p = (st', Accepted None) ->
  exists f f', lf_at st l = Some f /\ lf_at st' l = Some f' /\ l_nofmt f' = l_nofmt f ++ [(obj, p)].
Proof. exact nofmt_call_appends. Qed.

Example C16_ex :
  let o := {| on_origin := Some 1; on_copy := 0; on_name := [78] |} in
  nofmt_body o (PText [97; 98]) = OK [1; 0; 1; 78; 97; 98] /\ nofmt_body o (PBytes []) = OK [1; 0; 1; 78]
  /\ dec_nofmt [1; 0; 1; 78; 97; 98] = Some (o, [97; 98]).
Proof. vm_compute. repeat split. Qed.

Print Assumptions C16_body.
Print Assumptions C16_kept.
Print Assumptions C16_file.
Print Assumptions C16_api_records.
Print Assumptions C16_call_order.
