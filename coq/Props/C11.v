(* C11 — all data sources are equivalent and the row window selects exactly its rows. Statements only.
   A column is the list of per-row slots of one data set; zip_rows puts the columns side by side in FRAME CHANNEL ORDER
   (the order of `cols`), never the source's own order. *)
From DV Require Import Model.Data Proofs.DataP.

(* the direct-slice path of a structured source (taken when its fields are exactly the frame's channels) and the generic
   per-channel path used by dict / HDF5 / inline sources produce the same rows *)
Theorem C11_sources : forall cols n from_idx start stop,
  0 <= from_idx -> 0 <= start <= stop -> from_idx + stop <= Z.of_nat n ->
  load_direct (zip_rows cols n) from_idx start stop = load_generic cols from_idx start stop.
Proof. exact load_paths_agree. Qed.

(* loading from the window [from, to) is loading from the pre-sliced arrays *)
Theorem C11_window : forall cols from_idx to_idx start stop,
  0 <= from_idx -> 0 <= start <= stop -> from_idx + stop <= to_idx ->
  load_generic cols from_idx start stop = load_generic (map (slice from_idx to_idx) cols) 0 start stop.
Proof. exact load_window. Qed.

(* for every input chunk size: the rows produced are exactly rows [from, to) of every channel, in order *)
Theorem C11_chunks : forall cols from_idx to_idx chunk,
  0 <= from_idx <= to_idx -> match chunk with Some c => 0 < c | None => True end ->
  load_all (load_generic cols from_idx) (to_idx - from_idx) chunk
  = zip_rows (map (slice from_idx to_idx) cols) (Z.to_nat (to_idx - from_idx)).
Proof. exact load_all_window. Qed.

Example C11_ex :
  let a := [(1, [10]); (1, [11]); (1, [12]); (1, [13]); (1, [14])] in
  let b := [(2, [20]); (2, [21]); (2, [22]); (2, [23]); (2, [24])] in
  load_all (load_generic [a; b] 1) 3 (Some 2) = [[(1, [11]); (2, [21])]; [(1, [12]); (2, [22])]; [(1, [13]); (2, [23])]]
  /\ load_direct (zip_rows [a; b] 5) 1 0 3 = load_generic [a; b] 1 0 3.
Proof. vm_compute. split; reflexivity. Qed.

Print Assumptions C11_sources.
Print Assumptions C11_window.
Print Assumptions C11_chunks.
