(* C11 — all data sources are equivalent and the row window selects exactly its rows. Statements only.
   A column is the list of per-row slots of one data set; zip_rows puts the columns side by side in FRAME CHANNEL ORDER
   (the order of `cols`), never the source's own order. *)
From DV Require Import Model.Data Proofs.DataP Model.ApiDispatch Proofs.CoverP.

(* the direct-slice path of a structured source (taken when its fields are exactly the frame's channels) and the generic
   per-channel path used by dict / HDF5 / inline sources produce the same rows *)
Theorem C11_sources : forall cols n from_idx start stop,
  0 <= from_idx -> 0 <= start <= stop -> from_idx + stop <= Z.of_nat n ->
  load_direct (zip_rows cols n) from_idx start stop = load_generic cols from_idx start stop.
Proof. exact load_paths_agree. Qed.

(* loading from the window [from, to) is loading from the pre-sliced arrays *)
Theorem C11_window : forall cols from_idx to_idx start stop,
  0 <= from_idx -> 0 <= start <= stop -> from_idx + stop <= to_idx ->
  load_generic cols from_idx start stop = load_generic (map (slice from_idx to_idx) cols) 0 start stop.
Proof. exact load_window. Qed.

(* for every input chunk size: the rows produced are exactly rows [from, to) of every channel, in order *)
Theorem C11_chunks : forall cols from_idx to_idx chunk,
  0 <= from_idx <= to_idx -> match chunk with Some c => 0 < c | None => True end ->
  load_all (load_generic cols from_idx) (to_idx - from_idx) chunk
  = zip_rows (map (slice from_idx to_idx) cols) (Z.to_nat (to_idx - from_idx)).
Proof. exact load_all_window. Qed.

Example C11_ex :
  let a := [(1, [10]); (1, [11]); (1, [12]); (1, [13]); (1, [14])] in
  let b := [(2, [20]); (2, [21]); (2, [22]); (2, [23]); (2, [24])] in
  load_all (load_generic [a; b] 1) 3 (Some 2) = [[(1, [11]); (2, [21])]; [(1, [12]); (2, [22])]; [(1, [13]); (2, [23])]]
  /\ load_direct (zip_rows [a; b] 5) 1 0 3 = load_generic [a; b] 1 0 3.
Proof. vm_compute. split; reflexivity. Qed.

(* the window a write honours lies INSIDE the data: a frame is only set up when 0 <= from_idx < rows of its first data set
   and, if given, from_idx < to_idx <= those rows. (Before the repair of D24 in /repo the wrapper accepted to_idx beyond the
   data and negative from_idx; when exactly one row remained numpy broadcast it over the whole requested window and the file
   held rows that are not in the source.) C11_sources / C11_window / C11_chunks above assume such a window. *)
Theorem C11_window_inside_the_data : forall hc st l w wf st' rows,
  setup_frame hc st l w wf = OK (st', rows) ->
  0 <= w_from w /\
  exists f, lf_at st l = Some f /\
    let merged := data_merge (l_data f) (match w_data w with Some d => d | None => [] end) in
    let st1 := set_lf st l (set_ldata f merged) in
    forall c0 cs, frame_channels st (wf_item wf) = c0 :: cs ->
      exists d0, data_find merged (dataset_name_of (item_at st1 c0)) = Some d0
                 /\ w_from w < cd_rows d0
                 /\ match w_to w with Some t => w_from w < t /\ t <= cd_rows d0 | None => True end.
Proof. exact setup_frame_window. Qed.

Print Assumptions C11_sources.
Print Assumptions C11_window.
Print Assumptions C11_chunks.
Print Assumptions C11_window_inside_the_data.
