(* C15 — writability never hinges on byte-size coincidences. Statements only. *)
From DV Require Import Model.Reader Proofs.SegmentP.
From DV Require Import Model.ApiDispatch Proofs.FileP.

(* every accepted maximum record length (even, 20..16384), every valid label, records of ANY body length
   (0, 1, ..., 11, odd, many capacities): the write succeeds *)
Theorem C15_total : forall c recs,
  check_vrl (sul_vrl c) = true -> sul_valid c -> forallb wf_rec recs = true ->
  exists bs, write_file c recs = OK bs.
Proof. exact write_file_total. Qed.

(* the splitting loop terminates within the supplied fuel for every capacity >= 12 and every length *)
Theorem C15_plan_total : forall cap rem, 12 <= cap -> 0 <= rem ->
  exists sizes, plan (S (Z.to_nat rem)) cap rem = OK sizes /\ Forall (fun n => 1 <= n <= cap) sizes /\ zsum sizes = rem.
Proof. exact plan_total_std. Qed.

(* short bodies are padded (flag set, count in every pad byte), never rejected *)
Theorem C15_short_body : forall eflr ty first last chunk,
  zlen chunk <= 65000 -> is_byte ty = true -> all_bytes chunk = true ->
  make_segment eflr ty first last chunk = OK (seg_bytes (aseg eflr ty first last chunk))
  /\ seg_wf (aseg eflr ty first last chunk) = true.
Proof. exact short_body_padded. Qed.

(* over the modelled API: once the specification has passed its checks and the records of every logical file have been
   produced (whatever their sizes), an accepted record length and a valid label are all the write needs — no body
   length, no coincidence of lengths with the segment capacity can make it fail *)
Theorem C15_api_total : forall hc st w st1 st2 perlf st3 recs,
  Inv st ->
  check_all hc 0 (b_lfs st) st = OK st1 -> setup_all hc w 0 (b_lfs st1) st1 [] = (st2, OK perlf) ->
  records_all 0 perlf st2 [] = (st3, OK recs) ->
  check_vrl (w_vrl w) = true -> sul_valid {| sul_seq := w_seq w; sul_vrl := w_vrl w; sul_id := w_ident w |} ->
  exists bs, write hc st w = (st3, OK bs).
Proof. exact write_total_after_records. Qed.

(* non-vacuity: the smallest accepted record length with a 1-byte body and a 6-byte body *)
Example C15_ex : exists bs,
  write_file {| sul_seq := 1; sul_vrl := 20; sul_id := [65] |}
    [{| lr_eflr := false; lr_type := 0; lr_body := [7] |}; {| lr_eflr := false; lr_type := 1; lr_body := [1;2;3;4;5;6] |}] = OK bs
  /\ zlen bs = 80 + 20 + 20.
Proof. eexists. split; [vm_compute; reflexivity | reflexivity]. Qed.

Print Assumptions C15_total.
Print Assumptions C15_plan_total.
Print Assumptions C15_short_body.
Print Assumptions C15_api_total.
