(* C03 — channel data round-trips bit-exactly, one numbered record per row. Statements only.
   Values are bit patterns (the cast and numpy's float handling are below the model, see DESIGN 4). *)
From DV Require Import Model.Data Proofs.IflrP Proofs.DataP Proofs.SegmentP Model.Reader.

(* decoding a frame-data record with the element sizes and counts of its channels returns the frame reference,
   the frame number and, slot by slot in channel order, exactly the elements that were written; nothing is left over *)
Theorem C03_decode : forall o n ss body,
  fdata_body o n ss = OK body -> dec_fdata (descr_of ss) body = Some (o, n, ss).
Proof. exact fdata_decode. Qed.

(* one record per row, numbered i, i+1, ... in input order, each an IFLR of type 0 that is never dropped *)
Theorem C03_rows : forall o rows i recs,
  frame_recs o i rows = OK recs ->
  Forall2 (fun '(k, row) r => lr_eflr r = false /\ lr_type r = 0 /\ lr_body r <> []
                              /\ dec_fdata (descr_of row) (lr_body r) = Some (o, k, row))
          (numbered i rows) recs.
Proof. exact frame_recs_spec. Qed.

Theorem C03_count : forall o rows i recs, frame_recs o i rows = OK recs -> length recs = length rows.
Proof. exact frame_recs_length. Qed.

(* through the physical layer: the records are read back unchanged and in order (C02) *)
Theorem C03_file : forall c recs bs,
  forallb wf_rec recs = true -> write_file c recs = OK bs -> read_records c bs = Some (filter nonempty_body recs).
Proof. exact read_write_file. Qed.

Example C03_ex :
  let o := {| on_origin := Some 1; on_copy := 0; on_name := [70] |} in
  let rows := [[(8, [9221120237041090560]); (2, [65535; 0])]; [(8, [9223372036854775808]); (2, [1; 2])]] in
  exists recs, frame_recs o 1 rows = OK recs /\ length recs = 2%nat
    /\ map lr_body recs = [[1; 0; 1; 70; 1; 127; 248; 0; 0; 0; 0; 0; 0; 255; 255; 0; 0]; [1; 0; 1; 70; 2; 128; 0; 0; 0; 0; 0; 0; 0; 0; 1; 0; 2]].
Proof. eexists. split; [vm_compute; reflexivity|]. split; reflexivity. Qed.

Print Assumptions C03_decode.
Print Assumptions C03_rows.
Print Assumptions C03_count.
Print Assumptions C03_file.
