(* C18 — frames and logical files are isolated from one another. Statements only. *)
From DV Require Import Model.ApiDispatch Proofs.BuilderP Proofs.DataP Model.Data Proofs.RegP Proofs.FileP Proofs.KeepP Proofs.ContentP Proofs.CoverP.

(* each frame's records are its own rows, numbered from 1, independent of every other frame *)
Theorem C18_frames : forall o rows recs,
  frame_recs o 1 rows = OK recs ->
  Forall2 (fun '(k, row) r => lr_eflr r = false /\ lr_type r = 0 /\ lr_body r <> []
                              /\ dec_fdata (descr_of row) (lr_body r) = Some (o, k, row))
          (numbered 1 rows) recs.
Proof. intros o rows recs. exact (frame_recs_spec o rows 1 recs). Qed.

(* each logical file opens with its own header and keeps explicit records before data records *)
Theorem C18_lf_records : forall st f frames st' recs,
  lf_records st f frames = OK (st', recs) ->
  exists fh erecs ifl,
    enc_fileheader {| on_origin := l_fh_origin f; on_copy := 0; on_name := l_ident f |} (l_seq f) (l_hid f) = OK fh
    /\ recs = {| lr_eflr := true; lr_type := 0; lr_body := fh |} :: erecs ++ ifl
    /\ Forall (fun r => lr_eflr r = true) erecs /\ Forall (fun r => lr_eflr r = false) ifl.
Proof. exact lf_records_order. Qed.

(* KNOWN FINDING (D12), witnessed in the model: sets are looked up in the registry of the PHYSICAL file by (class, name),
   so two logical files using the same set name (e.g. the default) share one set: the object added to logical file 1
   is also an object of logical file 0, and the configuration is not rejected *)
Example C18_refuted_shared_default_sets :
  let ops := [OAddLF (RStr [72] HNone) (RInt 1); OAddLF (RStr [73] HNone) (RInt 2);
              OAdd 0 T_AXIS (RStr [65] HNone) None RNone []; OAdd 1 T_AXIS (RStr [66] HNone) None RNone []] in
  let '(_, st, outs) := run_ops p_init b_init ops in
  outs = [Accepted None; Accepted None; Accepted (Some 0%nat); Accepted (Some 1%nat)]
  /\ match b_lfs st with
     | [f0; f1] => reg_items st (l_reg f0) T_AXIS = [0; 1]%nat /\ reg_items st (l_reg f1) T_AXIS = [0; 1]%nat
     | _ => False
     end.
Proof. vm_compute. repeat split. Qed.

(* creation order. The list of logical files only ever grows at its end: an accepted add_logical_file appends the new
   logical file; every other operation (accepted or rejected) leaves the number of logical files unchanged (it works on one
   of them in place). So the position of a logical file is its creation rank, whatever its header sequence number. *)
Theorem C18_logical_files_are_appended : forall ps st o ps' st' out,
  step ps st o = (ps', st', out) ->
  (exists h z, b_lfs st' = b_lfs st ++ [{| l_hid := h; l_seq := z; l_ident := [48]; l_fh_origin := None; l_reg := []; l_nofmt := []; l_data := [] |}]
               /\ exists hh, o = OAddLF (RStr h hh) (RInt z))
  \/ length (b_lfs st') = length (b_lfs st).
Proof. exact step_lfs. Qed.

(* ... and a written file is one group of records per logical file IN THAT ORDER, each group opening with the header of its
   own logical file and holding the sets registered for that logical file only (statement explained in Props/C09.v and
   Props/C05.v). Hypothesis: no set registered for two logical files — the sharing of known finding D12 is exactly what it
   excludes. *)
Theorem C18_api_groups : forall l ps hc w st' bs,
  let st := snd (run_actions ps b_init l) in
  write hc st w = (st', OK bs) ->
  NoDup (concat (map lf_sids (b_lfs st))) ->
  exists groups,
    write_file {| sul_seq := w_seq w; sul_vrl := w_vrl w; sul_id := w_ident w |} (concat groups) = OK bs
    /\ Forall2 (lf_group st') (b_lfs st) groups.
Proof.
  intros l ps hc w st' bs st H Hnd.
  assert (Hi : Inv st) by (apply reachable_inv_actions; split; [apply WriteP.inv_shape_init | apply StructP.inv_struct_init]).
  assert (Hr : Inv_reg st) by (apply reachable_inv_reg_actions; [split; [apply WriteP.inv_shape_init | apply StructP.inv_struct_init] | apply inv_reg_init]).
  assert (Hd : Inv_disj st) by (apply reachable_inv_disj_actions; [split; [apply WriteP.inv_shape_init | apply StructP.inv_struct_init] | apply inv_reg_init | apply inv_disj_init]).
  destruct (write_content hc st w st' bs H Hi Hr Hd Hnd) as (groups & Hw & Hall & _). exists groups. split; assumption.
Qed.

(* how many records a logical file contributes: its header, one per registered set (sets without objects included: their
   record has an empty body and is dropped by the segmenter), one per no-format call, one per row of every frame. This is the
   number DLISFile.generate_logical_records announces to the progress bar since the repair of D27 (it used to announce the
   number of OBJECTS, without the headers, and the progress bar refused some valid files); the harness compares the announced
   with the actual number on every multi-logical-file case. *)
Theorem C18_records_per_logical_file : forall st f frames st' recs,
  lf_records st f frames = OK (st', recs) ->
  length recs = (1 + length (lf_sids f) + length (l_nofmt f) + fold_right (fun fr n => length (snd fr) + n) 0 frames)%nat.
Proof. exact lf_records_count. Qed.

Print Assumptions C18_frames.
Print Assumptions C18_lf_records.
Print Assumptions C18_logical_files_are_appended.
Print Assumptions C18_api_groups.
Print Assumptions C18_records_per_logical_file.
