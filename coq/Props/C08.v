(* C08 — a frame's channel descriptors match the layout of its data records. Statements only. *)
From DV Require Import Model.Data Proofs.IflrP Proofs.DataP.

(* descriptors derived from the data: the code is that of the written dtype (the cast dtype if given, else the
   source dtype; one of the 8 supported), DIMENSION is the per-row shape ([1] for scalars), ELEMENT-LIMIT bounds it;
   a user DIMENSION must equal the shape and a user ELEMENT-LIMIT is kept when it bounds the shape (else: error) *)
Theorem C08_descr : forall udim uelim cast src shape code dim el,
  channel_setup udim uelim cast src shape = OK (code, dim, el) ->
  code = match cast with Some c => c | None => src end /\ valid_dtype code = true
  /\ dim = match shape with [] => [1] | _ => shape end
  /\ elim_bounds el dim = true
  /\ (match udim with Some (d :: ds) => d :: ds = dim | _ => True end)
  /\ (match uelim with Some (e :: es) => el = e :: es | _ => el = dim end).
Proof. exact channel_setup_spec. Qed.

(* byte length of a frame-data record = reference + frame number + sum over the channels, in listed order, of
   element size x element count *)
Theorem C08_length : forall o n ss body,
  fdata_body o n ss = OK body ->
  exists ob nb, enc_obname o = OK ob /\ enc_uvari n = OK nb /\
    zlen body = zlen ob + zlen nb + slots_len (descr_of ss).
Proof. exact fdata_length. Qed.

(* a reader knowing only the descriptors slices every row unambiguously *)
Theorem C08_slicing : forall o n ss body,
  fdata_body o n ss = OK body -> dec_fdata (descr_of ss) body = Some (o, n, ss).
Proof. exact fdata_decode. Qed.

Example C08_ex :
  channel_setup None (Some [5; 4]) (Some 2) 7 [3; 4] = OK (2, [3; 4], [5; 4])
  /\ channel_setup (Some [2]) None None 13 [3] = Err ERuntime
  /\ channel_setup None None None 12 [] = OK (12, [1], [1]).
Proof. vm_compute. repeat split. Qed.

Print Assumptions C08_descr.
Print Assumptions C08_length.
Print Assumptions C08_slicing.
