(* C13 — frame index metadata is truthful for the rows written. Statements only.
   Exact arithmetic over integer-valued index data (Model/Data.v index_stats); spacing is carried as twice its value
   because the median of the differences may be a half-integer. Float index data whose differences are not exactly
   representable are below the model (numpy), see DESIGN: the check keeps its inputs on the exact grid and away from
   the tolerance threshold, and reports how many were generated. *)
From DV Require Import Model.Data Proofs.DataP.

Theorem C13_index : forall rows s,
  index_stats rows = Some s ->
  (* INDEX-MIN / INDEX-MAX are the minimum and maximum of the rows written, and are attained *)
  (forall y, In y rows -> is_min s <= y <= is_max s) /\ In (is_min s) rows /\ In (is_max s) rows
  (* SPACING only for >= 2 rows and only when every consecutive difference d equals it, or lies within the documented
     tolerance (1 - d/s)^2 < 1/1000 of the (non-zero) median s = s2/2 *)
  /\ (forall s2, is_spacing2 s = Some s2 ->
        (2 <= length rows)%nat /\ ((forall d, In d (diffs rows) -> 2 * d = s2) \/ (s2 <> 0 /\ forall d, In d (diffs rows) -> within_tolerance s2 d)))
  (* DIRECTION reflects the monotonic sense: increasing only if no difference is negative and some is positive, ... *)
  /\ (is_direction s = Some true -> (forall d, In d (diffs rows) -> 0 <= d) /\ exists d, In d (diffs rows) /\ d <> 0)
  /\ (is_direction s = Some false -> (forall d, In d (diffs rows) -> d <= 0) /\ exists d, In d (diffs rows) /\ d <> 0)
  (* a single row has neither *)
  /\ ((length rows < 2)%nat -> is_spacing2 s = None /\ is_direction s = None).
Proof. exact index_stats_spec. Qed.

Example C13_ex :
  index_stats [9; 7; 5; 3] = Some {| is_min := 3; is_max := 9; is_spacing2 := Some (-4); is_direction := Some false |}
  /\ index_stats [100; -100] = Some {| is_min := -100; is_max := 100; is_spacing2 := Some (-400); is_direction := Some false |}
  /\ index_stats [0; 10; 20; 31] = Some {| is_min := 0; is_max := 31; is_spacing2 := None; is_direction := Some true |}
  /\ index_stats [0; 100; 200; 301] = Some {| is_min := 0; is_max := 301; is_spacing2 := Some 200; is_direction := Some true |}
  /\ index_stats [5] = Some {| is_min := 5; is_max := 5; is_spacing2 := None; is_direction := None |}.
Proof. vm_compute. repeat split. Qed.

Print Assumptions C13_index.
