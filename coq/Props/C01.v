(* C01 — physical layout: label, visible records and segments are well-formed. Statements only. *)
From DV Require Import Model.Reader Proofs.SegmentP.
From DV Require Import Model.ApiDispatch Model.FileReader Proofs.FileP.

(* Declarative layout of a file under configuration c: the 80-byte label the configuration prescribes, then a whole
   number of visible records (marker FF 01, length even, 20..max, body tiled exactly by well-formed segments:
   declared length even and >= 16, attribute byte = role bits + padding bit only, pad count in the last pad byte). *)
(* Layout is defined in Proofs/SegmentP.v and printed below so that the statement is visible here *)
Print Layout.

(* every file the writer produces has that layout: for all record lists, all body lengths, all accepted lengths *)
Theorem C01_layout : forall c recs bs,
  forallb wf_rec recs = true -> write_file c recs = OK bs -> Layout c bs.
Proof. exact write_file_layout. Qed.

(* the strict reader accepts exactly such files (completeness half: it parses every laid-out file back) *)
Theorem C01_reader_complete : forall c recs bs,
  forallb wf_rec recs = true -> write_file c recs = OK bs -> check_layout c bs = true.
Proof. exact write_file_checked. Qed.

(* the decider applied to implementation output is exact: it accepts a byte string if and only if that byte string has
   the layout (soundness: whatever it accepts is laid out; completeness: it accepts every laid-out byte string) *)
Theorem C01_checker : forall c bs, check_layout c bs = true <-> Layout c bs.
Proof. intros c bs. split; [apply check_layout_sound | apply check_layout_complete]. Qed.

(* one visible record per segment, each no longer than the configured maximum *)
Theorem C01_vr_bound : forall c recs bs,
  forallb wf_rec recs = true -> write_file c recs = OK bs ->
  Forall (fun v => 20 <= vr_len v <= sul_vrl c /\ Z.even (vr_len v) = true) (file_vrs (sul_vrl c) recs).
Proof. exact write_file_vr_bound. Qed.

(* the label is 80 ASCII bytes *)
Theorem C01_label : forall c lab, sul_bytes c = OK lab -> zlen lab = 80 /\ all_ascii lab = true.
Proof. exact sul_bytes_len. Qed.

(* non-vacuity: a configuration and records that satisfy the hypotheses, with an odd body and a short one *)
Example C01_ex : exists bs,
  write_file {| sul_seq := 1; sul_vrl := 24; sul_id := [65; 66] |}
             [{| lr_eflr := true; lr_type := 3; lr_body := repeat 7 33 |}; {| lr_eflr := false; lr_type := 0; lr_body := [1; 2; 3] |}] = OK bs
  /\ zlen bs = 80 + 24 + 3 * 20.
Proof. eexists. split; [vm_compute; reflexivity | reflexivity]. Qed.

(* END TO END over the modelled API: after any sequence of API calls and earlier writes (run_actions from the empty
   file), whatever DLISFile.write returns — for any write options and either mode — has the standard layout: 80-byte label, then visible records each within the declared maximum length whose segments are well formed. *)
Theorem C01_api_layout : forall l ps hc w st' bs,
  let st := snd (run_actions ps b_init l) in
  write hc st w = (st', OK bs) ->
  let cfg := {| sul_seq := w_seq w; sul_vrl := w_vrl w; sul_id := w_ident w |} in
  Layout cfg bs.
Proof. intros l ps hc w st' bs st H cfg. exact (proj1 (every_written_file_is_readable l ps hc w st' bs H)). Qed.

Print Assumptions C01_layout.
Print Assumptions C01_reader_complete.
Print Assumptions C01_checker.
Print Assumptions C01_vr_bound.
Print Assumptions C01_label.
Print Assumptions C01_api_layout.
