(* C05 — metadata fidelity: what the user sets is what a reader gets. Statements only.
   Value level: Props/C04.v (C04_value, C04_attribute: every stored value is read back as dv_of code value).
   API level, proved here: an assignment stores exactly the converter's result in exactly the assigned part.
   Record level, proved here (C05_record_is_the_set): every explicitly formatted record decodes to exactly the set as it
   stands when the record is produced — identities, and attribute by attribute ABSATR or count / code / units / values.
   What remains per run: that the stored state at write time is the last accepted assignment plus the documented
   defaults (the harness computes the expectation from the operation list, not from dliswriter objects): see DESIGN. *)
From DV Require Import Model.ApiDispatch Proofs.BuilderP Proofs.EflrP Model.EflrReader Proofs.StructP Proofs.FileP Proofs.RegP Proofs.KeepP Proofs.ContentP Proofs.CoverP.

Theorem C05_assign_value : forall hc st it idx r it',
  set_value hc st it idx r = OK it' -> (idx < length (i_attrs it))%nat ->
  let ad := nth idx (td_attrs (tdef_at (i_ty it))) dummy_adef in
  let cur := nth idx (i_attrs it) (SPNone, None) in
  exists v, convert_value (conv_elem hc (item_ty_of st) ad (cur_is_int st ad cur) (cur_is_set cur)) ad r = OK v
    /\ nth idx (i_attrs it') (SPNone, None) = (v, snd cur)
    /\ (forall j, j <> idx -> nth j (i_attrs it') (SPNone, None) = nth j (i_attrs it) (SPNone, None))
    /\ i_ty it' = i_ty it /\ i_name it' = i_name it /\ i_origin it' = i_origin it /\ i_copy it' = i_copy it
    /\ i_dataset it' = i_dataset it /\ i_cast it' = i_cast it.
Proof. exact set_value_frame. Qed.

Theorem C05_assign_units : forall hc st it idx r it',
  set_units hc st it idx r = OK it' -> (idx < length (i_attrs it))%nat ->
  let ad := nth idx (td_attrs (tdef_at (i_ty it))) dummy_adef in
  let cur := nth idx (i_attrs it) (SPNone, None) in
  exists u, convert_units hc ad r = OK u
    /\ nth idx (i_attrs it') (SPNone, None) = (fst cur, u)
    /\ (forall j, j <> idx -> nth j (i_attrs it') (SPNone, None) = nth j (i_attrs it) (SPNone, None))
    /\ i_name it' = i_name it /\ i_origin it' = i_origin it /\ i_copy it' = i_copy it.
Proof. exact set_units_frame. Qed.

(* what is written for a stored value is what a reader decodes *)
Theorem C05_value_readback : forall c v b r,
  enc_val (Some c) v = OK b -> exists dv, dv_of c v = Some dv /\ dec_val c (b ++ r) = Some (dv, r).
Proof. exact enc_val_dec. Qed.

(* the relations used below, printed so that the statement can be read here *)
Print set_matches.
Print obj_matches.
Print attr_matches.
Print eset_of.

(* In every state satisfying the invariant (hence after any sequence of API calls and writes: reachable_inv_actions),
   the record produced for a non-empty set decodes, and the decoded set MATCHES the set of the state the encoder leaves
   (write-time defaults included): same set type and name; template labels = the schema's labels; per object the identity
   (origin, copy number, name) and, per attribute, ABSATR for an unset value, else the announced count, the representation
   code, the units and the values dv_of code v of the stored state — references as the identity of the referenced item. *)
Theorem C05_record_is_the_set : forall st sid st' r,
  Inv st -> enc_sset st sid = OK (st', r) -> s_items (set_at st sid) <> [] ->
  exists d, dec_set (lr_body r) = Some d /\ set_matches (eset_of st' sid) d.
Proof. intros st sid st' r Hi H Hne. exact (enc_sset_faithful st sid st' r H Hi Hne). Qed.

Theorem C05_reachable_states_satisfy_the_invariant : forall l ps, Inv (snd (run_actions ps b_init l)).
Proof. intros l ps. apply reachable_inv_actions. split; [apply WriteP.inv_shape_init | apply inv_struct_init]. Qed.

(* frame rule of the whole API: no call — add_* of any type (accepted or rejected), add_origin with its back-fill, queries,
   no-format data, origin_reference changes, mode changes — touches the attribute states of an EXISTING object; only an
   assignment to that very object does (and then C05_assign_value / C05_assign_units say what changes) *)
Theorem C05_api_frame : forall ps st o ps' st' out j,
  step ps st o = (ps', st', out) -> (j < length (b_items st))%nat ->
  attrs_at st' j = attrs_at st j \/ (exists idx u r, o = OAssign j idx u r).
Proof. exact step_attrs_frame. Qed.

(* what a write may change in the specification it is given (Proofs/KeepP.v). For every state reachable by API calls and
   writes in any order, every write (in any mode, successful or not), every object i and attribute index idx:
   the object keeps its type; the VALUE of the attribute after the write differs from the one before only at one of the
   listed (type, attribute) sites, and there only if the value before was unset / falsy (or the attribute is a channel's
   REPRESENTATION-CODE, which always follows the cast dtype); the UNITS differ only at a listed units site and only if there
   were none. Hence every value and unit the user gave reaches the encoder (C05_record_is_the_set) unchanged, and an
   attribute never assigned, outside those sites, is absent in the file; the sites are the documented write-time defaults. *)
Print default_sites.
Print unit_sites.
Print site.
Print derived.
Theorem C05_write_changes_only_defaults : forall l ps hc w,
  let st := snd (run_actions ps b_init l) in
  let st' := fst (write hc st w) in
  forall i idx,
    let ty := i_ty (item_at st i) in
    let v := fst (get_attr (item_at st i) idx) in let v' := fst (get_attr (item_at st' i) idx) in
    let u := snd (get_attr (item_at st i) idx) in let u' := snd (get_attr (item_at st' i) idx) in
    i_ty (item_at st' i) = ty
    /\ (v' <> v -> site default_sites ty idx = true /\ (spv_truthy v = false \/ derived ty idx = true))
    /\ (u' <> u -> site unit_sites ty idx = true /\ u = None).
Proof. exact write_changes_only_defaults. Qed.

(* non-vacuity: an origin (FILE-SET-NUMBER given, FILE-ID not), a channel and a frame; the write fails for want of data,
   after check_objects filled in the defining origin's FILE-ID from the header: the given value is kept, the default
   appears at a listed site whose value was unset *)
Example C05_write_default_ex :
  let ops := [AOp (OAddLF (RStr [72] HNone) (RInt 1));
              AOp (OAddOrigin 0 (RStr [79] HNone) None RNone [(attr_index T_ORIGIN [102;105;108;101;95;115;101;116;95;110;117;109;98;101;114], PVal (RInt 7))]);
              AOp (OAddChannel 0 (RStr [67] HNone) None RNone [] false None None None);
              AOp (OAddFrame 0 (RStr [70] HNone) None RNone (RList [RRef 1]) [])] in
  let st := snd (run_actions p_init b_init ops) in
  let w := {| w_data := None; w_from := 0; w_to := None; w_frames := []; w_seq := 1; w_vrl := 8192; w_ident := [85] |} in
  let st' := fst (write false st w) in
  let fid := aidx T_ORIGIN n_file_id in let fsn := attr_index T_ORIGIN [102;105;108;101;95;115;101;116;95;110;117;109;98;101;114] in
  length (b_items st) = 3%nat
  /\ fst (get_attr (item_at st 0) fid) = SPNone /\ fst (get_attr (item_at st' 0) fid) = SPScalar (SStr [72])
  /\ site default_sites T_ORIGIN fid = true
  /\ fst (get_attr (item_at st' 0) fsn) = fst (get_attr (item_at st 0) fsn) /\ fst (get_attr (item_at st 0) fsn) <> SPNone
  /\ exists e, snd (write false st w) = Err e.
Proof. vm_compute. repeat split; try discriminate. eexists. reflexivity. Qed.

(* END TO END for explicitly formatted records (Proofs/ContentP.v). For every state reachable by API calls and writes in any
   order in which no set is registered for two logical files (this excludes exactly the sharing of known finding D12, and
   always holds with one logical file: C05_file_content_single), whenever write returns a file, that file is write_file of
   one group of records per logical file, in creation order; a group is: the FILE-HEADER record, then one record per set
   registered for that logical file, in registry order, which is empty for a set without objects and otherwise decodes to
   that set AS IT STANDS IN THE STATE THE WRITE LEAVES (set_matches (eset_of st' sid): type, name, template, and per object the
   identity and per attribute absent / count / code / units / values, references as identities), then implicitly formatted
   records only; and (skeeps) the state the write leaves has the same sets and registries as the state it found, with
   attribute values / units changed only at the write-time default sites where nothing had been given. Reading the file back
   gives these records again (C02_roundtrip). *)
Print lf_group.
Print set_rec.
Print skeeps.
Print keeps.
Theorem C05_file_content : forall l ps hc w st' bs,
  let st := snd (run_actions ps b_init l) in
  write hc st w = (st', OK bs) ->
  NoDup (concat (map lf_sids (b_lfs st))) ->
  exists groups,
    write_file {| sul_seq := w_seq w; sul_vrl := w_vrl w; sul_id := w_ident w |} (concat groups) = OK bs
    /\ Forall2 (lf_group st') (b_lfs st) groups
    /\ skeeps st st'.
Proof.
  intros l ps hc w st' bs st H Hnd.
  assert (Hi : Inv st) by (apply reachable_inv_actions; split; [apply WriteP.inv_shape_init | apply inv_struct_init]).
  assert (Hr : Inv_reg st) by (apply reachable_inv_reg_actions; [split; [apply WriteP.inv_shape_init | apply inv_struct_init] | apply inv_reg_init]).
  assert (Hd : Inv_disj st) by (apply reachable_inv_disj_actions; [split; [apply WriteP.inv_shape_init | apply inv_struct_init] | apply inv_reg_init | apply inv_disj_init]).
  exact (write_content hc st w st' bs H Hi Hr Hd Hnd).
Qed.

Theorem C05_file_content_single : forall l ps hc w st' bs f,
  let st := snd (run_actions ps b_init l) in
  write hc st w = (st', OK bs) -> b_lfs st = [f] ->
  exists g, write_file {| sul_seq := w_seq w; sul_vrl := w_vrl w; sul_id := w_ident w |} g = OK bs
            /\ lf_group st' f g /\ skeeps st st'.
Proof.
  intros l ps hc w st' bs f st H Hf.
  assert (Hi : Inv st) by (apply reachable_inv_actions; split; [apply WriteP.inv_shape_init | apply inv_struct_init]).
  assert (Hr : Inv_reg st) by (apply reachable_inv_reg_actions; [split; [apply WriteP.inv_shape_init | apply inv_struct_init] | apply inv_reg_init]).
  assert (Hd : Inv_disj st) by (apply reachable_inv_disj_actions; [split; [apply WriteP.inv_shape_init | apply inv_struct_init] | apply inv_reg_init | apply inv_disj_init]).
  exact (write_content_single hc st w st' bs f H Hi Hr Hd Hf).
Qed.

(* non-vacuity: origin, channel with two rows of uint8 data, frame; the write returns a file (the program and the write
   options are the request trees the harness sends for that program) *)
Example C05_file_content_ex :
  let t_ops := [TL [TI 0; TL [TI 4; TB [72]; TL []]; TL [TI 1; TI 1]];
                TL [TI 2; TI 0; TL [TI 4; TB [79]; TL []]; TL []; TL [TI 0]; TL [TL [TI 2; TL [TI 0; TL [TI 1; TI 7]]]; TL [TI 0; TL [TI 0; TL [TI 4; TB [72]; TL []]]]; TL [TI 8; TL [TI 0; TL [TI 4; TB [50; 48; 50; 48; 47; 48; 49; 47; 48; 49; 32; 48; 48; 58; 48; 48; 58; 48; 48]; TL [TI 3; TL [TI 2020; TI 1; TI 1; TI 0; TI 0; TI 0; TI 0]]]]]]];
                TL [TI 3; TI 0; TL [TI 4; TB [67]; TL []]; TL []; TL [TI 0]; TL []; TI 0; TL [TL [TI 15; TL []; TI 2]]; TL []; TL []];
                TL [TI 4; TI 0; TL [TI 4; TB [70]; TL []]; TL []; TL [TI 0]; TL [TI 7; TL [TL [TI 6; TI 1]]]; TL []]] in
  let t_w := TL [TL []; TI 0; TL []; TL [TL [TI 2; TL [TL [TL [TI 1; TB [37]]]; TL [TL [TI 1; TB [244]]]]; TL []]]; TI 1; TI 8192; TB [85]] in
  match map_opt as_op t_ops, as_wopts t_w with
  | Some ops, Some w =>
      let st := snd (run_actions p_init b_init (map AOp ops)) in
      (Nat.eqb (length (b_lfs st)) 1 && Nat.eqb (length (b_items st)) 3
       && match snd (write false st w) with OK bs => Nat.ltb 80 (length bs) | Err _ => false end) = true
  | _, _ => False
  end.
Proof. vm_compute. reflexivity. Qed.

(* NOTHING IS LOST (one logical file; Proofs/CoverP.v). After any sequence of API calls and writes on a DLISFile with one
   logical file, whenever write returns a file, EVERY object of the specification — every accepted add_* call; rejected calls
   add none (C20) — is an object of a set whose record is in the file: the record decodes (set_matches) to the set as it
   stands in the state the write leaves, and that set lists the object as the encoder sees it there (obj_of st' i: identity,
   attributes as given plus the write-time defaults, by skeeps). Invariants behind it, all by induction over operations and
   writes: every set is registered in the physical registry under its own (type, name) and every object is listed in a set
   (Inv_fm); the logical file's registry holds every non-empty set of the physical one (Inv_one, Proofs/VisP.v); an object is
   listed in at most one set (Inv_disj). With several logical files the same needs the per-file ownership that known
   finding D12 breaks; it is judged per run there. *)
Theorem C05_every_object_is_in_the_file : forall l ps hc w st' bs f,
  let st := snd (run_actions ps b_init l) in
  b_lfs st = [f] -> write hc st w = (st', OK bs) ->
  exists g, write_file {| sul_seq := w_seq w; sul_vrl := w_vrl w; sul_id := w_ident w |} g = OK bs
    /\ skeeps st st'
    /\ forall i, (i < length (b_items st))%nat ->
         exists sid r d, In r g /\ lr_eflr r = true /\ dec_set (lr_body r) = Some d /\ set_matches (eset_of st' sid) d
                         /\ In (obj_of st' i) (e_objs (eset_of st' sid)).
Proof.
  intros l ps hc w st' bs f st Hf H.
  assert (C : cover_invs st) by (apply reachable_cover_invs; apply cover_invs_init).
  assert (Hd : Inv_disj st) by (apply reachable_inv_disj_actions; [apply cover_invs_init | apply cover_invs_init | apply inv_disj_init]).
  exact (every_object_is_written hc st w st' bs f C Hd Hf H).
Qed.

(* ... and with SEVERAL logical files none of which shares a set with another (the hypothesis excludes exactly known finding
   D12): every object is in the group of records of a logical file that registers its set (covered: every non-empty set is
   registered for at least one logical file, by induction over operations and writes). *)
Theorem C05_every_object_is_in_the_file_multi : forall l ps hc w st' bs,
  let st := snd (run_actions ps b_init l) in
  NoDup (concat (map lf_sids (b_lfs st))) -> write hc st w = (st', OK bs) ->
  exists groups, write_file {| sul_seq := w_seq w; sul_vrl := w_vrl w; sul_id := w_ident w |} (concat groups) = OK bs
    /\ Forall2 (lf_group st') (b_lfs st) groups /\ skeeps st st'
    /\ forall i, (i < length (b_items st))%nat ->
         exists sid g r d, In g groups /\ In r g /\ lr_eflr r = true /\ dec_set (lr_body r) = Some d
                           /\ set_matches (eset_of st' sid) d /\ In (obj_of st' i) (e_objs (eset_of st' sid)).
Proof.
  intros l ps hc w st' bs st Hnd H.
  assert (C : cover_invs st) by (apply reachable_cover_invs; apply cover_invs_init).
  assert (Hc : covered st) by (apply reachable_covered; [apply cover_invs_init | apply covered_init]).
  assert (Hd : Inv_disj st) by (apply reachable_inv_disj_actions; [apply cover_invs_init | apply cover_invs_init | apply inv_disj_init]).
  exact (every_object_is_written_multi hc st w st' bs C Hc Hd Hnd H).
Qed.

Print Assumptions C05_assign_value.
Print Assumptions C05_assign_units.
Print Assumptions C05_value_readback.
Print Assumptions C05_record_is_the_set.
Print Assumptions C05_reachable_states_satisfy_the_invariant.
Print Assumptions C05_api_frame.
Print Assumptions C05_write_changes_only_defaults.
Print Assumptions C05_file_content.
Print Assumptions C05_file_content_single.
Print Assumptions C05_every_object_is_in_the_file.
Print Assumptions C05_every_object_is_in_the_file_multi.
