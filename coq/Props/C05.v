(* C05 — metadata fidelity: what the user sets is what a reader gets. Statements only.
   Value level: Props/C04.v (C04_value, C04_attribute: every stored value is read back as dv_of code value).
   API level, proved here: an assignment stores exactly the converter's result in exactly the assigned part.
   The end-to-end statement "decoded attribute = last accepted assignment" is checked on every run by the harness on
   implementation output (expected values computed from the operation list, not from dliswriter objects): see DESIGN. *)
From DV Require Import Model.ApiDispatch Proofs.BuilderP Proofs.EflrP Model.EflrReader.

Theorem C05_assign_value : forall hc st it idx r it',
  set_value hc st it idx r = OK it' -> (idx < length (i_attrs it))%nat ->
  let ad := nth idx (td_attrs (tdef_at (i_ty it))) dummy_adef in
  let cur := nth idx (i_attrs it) (SPNone, None) in
  exists v, convert_value (conv_elem hc (item_ty_of st) ad (cur_is_int st ad cur) (cur_is_set cur)) ad r = OK v
    /\ nth idx (i_attrs it') (SPNone, None) = (v, snd cur)
    /\ (forall j, j <> idx -> nth j (i_attrs it') (SPNone, None) = nth j (i_attrs it) (SPNone, None))
    /\ i_ty it' = i_ty it /\ i_name it' = i_name it /\ i_origin it' = i_origin it /\ i_copy it' = i_copy it
    /\ i_dataset it' = i_dataset it /\ i_cast it' = i_cast it.
Proof. exact set_value_frame. Qed.

Theorem C05_assign_units : forall hc st it idx r it',
  set_units hc st it idx r = OK it' -> (idx < length (i_attrs it))%nat ->
  let ad := nth idx (td_attrs (tdef_at (i_ty it))) dummy_adef in
  let cur := nth idx (i_attrs it) (SPNone, None) in
  exists u, convert_units hc ad r = OK u
    /\ nth idx (i_attrs it') (SPNone, None) = (fst cur, u)
    /\ (forall j, j <> idx -> nth j (i_attrs it') (SPNone, None) = nth j (i_attrs it) (SPNone, None))
    /\ i_name it' = i_name it /\ i_origin it' = i_origin it /\ i_copy it' = i_copy it.
Proof. exact set_units_frame. Qed.

(* what is written for a stored value is what a reader decodes *)
Theorem C05_value_readback : forall c v b r,
  enc_val (Some c) v = OK b -> exists dv, dv_of c v = Some dv /\ dec_val c (b ++ r) = Some (dv, r).
Proof. exact enc_val_dec. Qed.

Print Assumptions C05_assign_value.
Print Assumptions C05_assign_units.
Print Assumptions C05_value_readback.
