(* C12 — fail-closed: a write either raises or yields a faithful, well-formed file. Statements only.
   The model's input type contains the invalid fringe (arbitrary code points, arbitrary integers, unequal row counts,
   dtype codes outside the 8, 3-D shapes, missing data sets, missing origin / channels / frames), so "raises" is the Err
   branch. What is proved: whatever the physical writer returns reads back (C12_physical), whatever the set encoder
   returns decodes to the set (C12_explicit), and the listed unrepresentable inputs are Err (the C12_rejects theorems).
   The composition over the whole API is checked per run: every file the implementation returns for a malformed
   specification is decoded by the strict reader and compared with the specification (harness/props/c12.py). *)
From DV Require Import Model.ApiDispatch Model.EflrReader Proofs.SegmentP Proofs.EflrP Proofs.PrimP Proofs.BuilderP Proofs.RegP Proofs.KeepP Proofs.ContentP.
From DV Require Import Model.ApiDispatch Model.FileReader Proofs.FileP.

Theorem C12_physical : forall c recs bs,
  forallb wf_rec recs = true -> write_file c recs = OK bs -> read_records c bs = Some (filter nonempty_body recs).
Proof. exact read_write_file. Qed.

Theorem C12_explicit : forall s b,
  wf_set s -> e_objs s <> [] -> enc_set s = OK b -> exists d, dec_set b = Some d /\ set_matches s d.
Proof. exact enc_set_dec. Qed.

(* names, labels, units, set types: longer than the one-byte length prefix allows or non-ASCII -> rejected *)
Theorem C12_rejects_ident : forall s, (exists bs, enc_ident s = OK bs) <-> zlen s < 256 /\ all_ascii s = true.
Proof. exact ident_dom. Qed.
Theorem C12_rejects_text : forall s, (exists bs, enc_ascii s = OK bs) <-> zlen s < 1073741824 /\ all_ascii s = true.
Proof. exact ascii_dom. Qed.
(* integers outside their code's range -> rejected *)
Theorem C12_rejects_uvari : forall v, (exists bs, enc_uvari v = OK bs) <-> 0 <= v < 1073741824.
Proof. exact uvari_dom. Qed.
Theorem C12_rejects_unorm : forall v, (exists bs, enc_unorm v = OK bs) <-> 0 <= v < 65536.
Proof. exact unorm_dom. Qed.

(* no origin, no channels, no frames, or a frame channel that is not a channel of the logical file -> the write raises *)
Theorem C12_rejects_incomplete : forall hc st l f st',
  check_objects hc st l f = OK st' ->
  lf_origins st f <> [] /\ lf_channels st f <> [] /\ lf_frames st f <> []
  /\ (forall c, In c (concat (map (frame_channels st) (lf_frames st f))) -> In c (lf_channels st f)).
Proof. exact check_objects_requires. Qed.

(* missing data set, unsupported dtype, more than two dimensions -> the write raises *)
Theorem C12_rejects_bad_data : forall hc st l w wf st' rows,
  setup_frame hc st l w wf = OK (st', rows) ->
  exists f, lf_at st l = Some f /\
    let merged := data_merge (l_data f) (match w_data w with Some d => d | None => [] end) in
    let st1 := set_lf st l (set_ldata f merged) in
    Forall (fun c => exists d, data_find merged (dataset_name_of (item_at st1 c)) = Some d
                               /\ valid_dtype (match i_cast (item_at st1 c) with Some k => k | None => cd_code d end) = true
                               /\ zlen (cd_shape d) <= 1)
           (frame_channels st (wf_item wf)).
Proof. exact setup_frame_requires. Qed.

(* the degenerate but representable empty value list is encoded faithfully: count 0, no value *)
Example C12_empty_list :
  enc_attr_body {| a_label := [65]; a_mv := true; a_md := false; a_rc0 := Some 7; a_valid := [7]; a_reftext := false; a_units := None; a_value := PList [] |}
  = OK [44; 0; 7]
  /\ dec_oattr global_default [44; 0; 7] = Some (Some {| d_count := 0; d_code := 7; d_units := None; d_values := None |}, []).
Proof. vm_compute. split; reflexivity. Qed.

(* END TO END over the modelled API: after any sequence of API calls and earlier writes (run_actions from the empty
   file), whatever DLISFile.write returns — for any write options and either mode — is a well-formed file: it has the standard layout and the complete strict reader accepts it. So a write either fails or returns a file a standard reader can read. *)
Theorem C12_api_returned_file_is_well_formed : forall l ps hc w st' bs,
  let st := snd (run_actions ps b_init l) in
  write hc st w = (st', OK bs) ->
  let cfg := {| sul_seq := w_seq w; sul_vrl := w_vrl w; sul_id := w_ident w |} in
  Layout cfg bs /\ exists lrds, read_logical cfg bs = Some lrds.
Proof. intros l ps hc w st' bs st H cfg. exact (every_written_file_is_readable l ps hc w st' bs H). Qed.

(* ... and the file is FAITHFUL to the specification: it is one group of records per logical file, each set's record decoding
   to that set as it stands in the state the write leaves, which differs from the state the write found only by write-time
   defaults where nothing had been given (Proofs/ContentP.v, Proofs/KeepP.v; statement explained in Props/C05.v). Hypothesis:
   no set registered for two logical files (known finding D12 is exactly the excluded case). *)
Theorem C12_api_returned_file_is_faithful : forall l ps hc w st' bs,
  let st := snd (run_actions ps b_init l) in
  write hc st w = (st', OK bs) ->
  NoDup (concat (map lf_sids (b_lfs st))) ->
  exists groups,
    write_file {| sul_seq := w_seq w; sul_vrl := w_vrl w; sul_id := w_ident w |} (concat groups) = OK bs
    /\ Forall2 (lf_group st') (b_lfs st) groups
    /\ skeeps st st'.
Proof.
  intros l ps hc w st' bs st H Hnd.
  assert (Hi : Inv st) by (apply reachable_inv_actions; split; [apply WriteP.inv_shape_init | apply StructP.inv_struct_init]).
  assert (Hr : Inv_reg st) by (apply reachable_inv_reg_actions; [split; [apply WriteP.inv_shape_init | apply StructP.inv_struct_init] | apply inv_reg_init]).
  assert (Hd : Inv_disj st) by (apply reachable_inv_disj_actions; [split; [apply WriteP.inv_shape_init | apply StructP.inv_struct_init] | apply inv_reg_init | apply inv_disj_init]).
  exact (write_content hc st w st' bs H Hi Hr Hd Hnd).
Qed.

Print Assumptions C12_physical.
Print Assumptions C12_explicit.
Print Assumptions C12_rejects_ident.
Print Assumptions C12_rejects_incomplete.
Print Assumptions C12_rejects_bad_data.
Print Assumptions C12_api_returned_file_is_well_formed.
Print Assumptions C12_api_returned_file_is_faithful.
