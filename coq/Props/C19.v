(* C19 — writing never alters the caller's data (PARTIAL). Statements only.
   A Gallina model is value-semantic, so aliasing is modelled explicitly: an ownership-tagged store and effect steps
   (Model/Effects.v). The pipelines are hand-abstracted from the code and numpy's copy-versus-view behaviour is assumed:
   the runtime behaviour the model cannot exhibit is numpy / h5py aliasing. The code-tied part of this property is the
   before/after snapshot of every caller-owned buffer on every data-path case (harness/props/c19.py). *)
From DV Require Import Model.Effects Proofs.EffectsP.

(* any sequence of effect steps in which every write targets a library-allocated buffer leaves every caller-owned buffer
   bit-identical *)
Theorem C19_no_caller_write : forall p s s', run_effects s p = Some s' -> caller_part s' = caller_part s.
Proof. exact no_caller_write. Qed.

(* the abstracted data paths are such sequences *)
Theorem C19_direct_path_admissible : forall d, exists s', run_effects [{| bf_owner := Caller; bf_data := d |}] pipeline_direct = Some s'.
Proof. exact pipeline_direct_ok. Qed.
Theorem C19_index_path_admissible : forall d, exists s', run_effects [{| bf_owner := Caller; bf_data := d |}] pipeline_index = Some s'.
Proof. exact pipeline_index_ok. Qed.
Theorem C19_generic_path_admissible : forall d1 d2,
  exists s', run_effects [{| bf_owner := Caller; bf_data := d1 |}; {| bf_owner := Caller; bf_data := d2 |}] (pipeline_generic 2) = Some s'.
Proof. exact pipeline_generic_ok_2. Qed.

(* a write into a caller-owned buffer is not admissible *)
Example C19_ex : run_effects [{| bf_owner := Caller; bf_data := [1; 2] |}] [EAlloc 2; EWriteInto 0 1] = None.
Proof. reflexivity. Qed.

Print Assumptions C19_no_caller_write.
Print Assumptions C19_generic_path_admissible.
