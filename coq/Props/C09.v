(* C09 — each logical file has the mandated order: header, origin, sets, then data. Statements only. *)
From DV Require Import Model.ApiDispatch Proofs.BuilderP Proofs.RegP Proofs.FileP Proofs.KeepP Proofs.ContentP.

(* the records of a logical file are: the FILE-HEADER record (type 0, one object, sequence number right-justified in 10,
   id left-justified in 65 — see enc_fileheader), then explicitly formatted records only, then indirectly formatted
   records only (no-format data, then frame data): every object is defined before any data record *)
Theorem C09_order : forall st f frames st' recs,
  lf_records st f frames = OK (st', recs) ->
  exists fh erecs ifl,
    enc_fileheader {| on_origin := l_fh_origin f; on_copy := 0; on_name := l_ident f |} (l_seq f) (l_hid f) = OK fh
    /\ recs = {| lr_eflr := true; lr_type := 0; lr_body := fh |} :: erecs ++ ifl
    /\ Forall (fun r => lr_eflr r = true) erecs
    /\ Forall (fun r => lr_eflr r = false) ifl.
Proof. exact lf_records_order. Qed.

(* an empty set gives an empty body, which the segmenter drops: never an empty record in the file *)
Theorem C09_no_empty_sets : forall st sid st' r,
  s_items (set_at st sid) = [] -> enc_sset st sid = OK (st', r) -> lr_body r = [].
Proof.
  intros st sid st' r He H. unfold enc_sset in H. rewrite He in H. cbn in H. inversion H. reflexivity.
Qed.

(* each (type, name) at most once: in every reachable state, the sets a logical file writes — `lf_sids f`, the list
   lf_records iterates over (lf_sids_spec): its ORIGIN sets, then every other class in registry order — are existing sets
   with pairwise distinct (set type, set name) *)
Theorem C09_sets_once : forall ops ps l f,
  let st := bstate_of (run_ops ps b_init ops) in
  lf_at st l = Some f ->
  NoDup (map (fun sid => (s_ty (set_at st sid), s_name (set_at st sid), (sid <? length (b_sets st))%nat)) (lf_sids f)).
Proof. exact reachable_lf_sets_distinct. Qed.

(* the header fields are justified as the standard prescribes *)
Example C09_header :
  exists b, enc_fileheader {| on_origin := Some 1; on_copy := 0; on_name := [48] |} 7 [72; 73] = OK b
  /\ firstn 16 (skipn 41 b) = [33; 10; 32; 32; 32; 32; 32; 32; 32; 32; 32; 55; 33; 65; 72; 73].
Proof. eexists. split; vm_compute; reflexivity. Qed.

(* the order of a whole file written through the API (Proofs/ContentP.v): one group of records per logical file, in the
   order of the logical files; a group opens with the header record of ITS logical file (enc_fileheader of that file's
   header fields), continues with exactly one record per set registered for it — ORIGIN sets first, then the other types
   in registry order (lf_sids) — each decoding to that set (or empty, hence dropped by the segmenter, for a set without
   objects), and ends with implicitly formatted records only: every object of the logical file precedes every data record
   of it. Hypothesis: no set registered for two logical files (known finding D12 excluded; automatic with one logical file). *)
Print lf_group.
Theorem C09_api_file_order : forall l ps hc w st' bs,
  let st := snd (run_actions ps b_init l) in
  write hc st w = (st', OK bs) ->
  NoDup (concat (map lf_sids (b_lfs st))) ->
  exists groups,
    write_file {| sul_seq := w_seq w; sul_vrl := w_vrl w; sul_id := w_ident w |} (concat groups) = OK bs
    /\ Forall2 (lf_group st') (b_lfs st) groups.
Proof.
  intros l ps hc w st' bs st H Hnd.
  assert (Hi : Inv st) by (apply reachable_inv_actions; split; [apply WriteP.inv_shape_init | apply StructP.inv_struct_init]).
  assert (Hr : Inv_reg st) by (apply reachable_inv_reg_actions; [split; [apply WriteP.inv_shape_init | apply StructP.inv_struct_init] | apply inv_reg_init]).
  assert (Hd : Inv_disj st) by (apply reachable_inv_disj_actions; [split; [apply WriteP.inv_shape_init | apply StructP.inv_struct_init] | apply inv_reg_init | apply inv_disj_init]).
  destruct (write_content hc st w st' bs H Hi Hr Hd Hnd) as (groups & Hw & Hall & _). exists groups. split; assumption.
Qed.

Print Assumptions C09_order.
Print Assumptions C09_no_empty_sets.
Print Assumptions C09_sets_once.
Print Assumptions C09_api_file_order.
