(* C09 — each logical file has the mandated order: header, origin, sets, then data. Statements only. *)
From DV Require Import Model.ApiDispatch Proofs.BuilderP Proofs.RegP.

(* the records of a logical file are: the FILE-HEADER record (type 0, one object, sequence number right-justified in 10,
   id left-justified in 65 — see enc_fileheader), then explicitly formatted records only, then indirectly formatted
   records only (no-format data, then frame data): every object is defined before any data record *)
Theorem C09_order : forall st f frames st' recs,
  lf_records st f frames = OK (st', recs) ->
  exists fh erecs ifl,
    enc_fileheader {| on_origin := l_fh_origin f; on_copy := 0; on_name := l_ident f |} (l_seq f) (l_hid f) = OK fh
    /\ recs = {| lr_eflr := true; lr_type := 0; lr_body := fh |} :: erecs ++ ifl
    /\ Forall (fun r => lr_eflr r = true) erecs
    /\ Forall (fun r => lr_eflr r = false) ifl.
Proof. exact lf_records_order. Qed.

(* an empty set gives an empty body, which the segmenter drops: never an empty record in the file *)
Theorem C09_no_empty_sets : forall st sid st' r,
  s_items (set_at st sid) = [] -> enc_sset st sid = OK (st', r) -> lr_body r = [].
Proof.
  intros st sid st' r He H. unfold enc_sset in H. rewrite He in H. cbn in H. inversion H. reflexivity.
Qed.

(* each (type, name) at most once: in every reachable state, the sets a logical file writes — `lf_sids f`, the list
   lf_records iterates over (lf_sids_spec): its ORIGIN sets, then every other class in registry order — are existing sets
   with pairwise distinct (set type, set name) *)
Theorem C09_sets_once : forall ops ps l f,
  let st := bstate_of (run_ops ps b_init ops) in
  lf_at st l = Some f ->
  NoDup (map (fun sid => (s_ty (set_at st sid), s_name (set_at st sid), (sid <? length (b_sets st))%nat)) (lf_sids f)).
Proof. exact reachable_lf_sets_distinct. Qed.

(* the header fields are justified as the standard prescribes *)
Example C09_header :
  exists b, enc_fileheader {| on_origin := Some 1; on_copy := 0; on_name := [48] |} 7 [72; 73] = OK b
  /\ firstn 16 (skipn 41 b) = [33; 10; 32; 32; 32; 32; 32; 32; 32; 32; 32; 55; 33; 65; 72; 73].
Proof. eexists. split; vm_compute; reflexivity. Qed.

Print Assumptions C09_order.
Print Assumptions C09_no_empty_sets.
Print Assumptions C09_sets_once.
