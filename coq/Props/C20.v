(* C20 — a rejected call leaves no trace in later files. Statements only. *)
From DV Require Import Model.ApiDispatch Proofs.BuilderP Proofs.RegP Proofs.VisP Proofs.FileP Proofs.KeepP.

(* same_content st st' (Proofs/BuilderP.v): the objects, the registration list of every existing set, the no-format
   data, the data dictionary and the header of every logical file are unchanged; sets that did not exist before are
   empty (an empty set produces no record). Printed so that the statement is visible here. *)
Print same_content.

(* any rejected operation — add_* of every type rejected at any point (name, origin reference, any attribute value),
   add_logical_file, assignment, leaving a context that was not entered — leaves the content and the mode unchanged *)
Theorem C20_reject : forall ps st o ps' st' e,
  step ps st o = (ps', st', Rejected e) -> ps' = ps /\ same_content st st'.
Proof. exact reject_no_trace. Qed.

(* copy numbers of later objects are as if the rejected call had never been made: in every reachable state the copy
   number of an object is the number of EARLIER REGISTERED objects of the same name in its set *)
Theorem C20_copy_numbers : forall ops ps sid,
  let st := bstate_of (run_ops ps b_init ops) in
  copy_ok (map (fun i => (i_name (item_at st i), i_copy (item_at st i))) (s_items (set_at st sid))).
Proof. intros ops ps sid. cbn zeta. pose proof (run_ops_inv_copy ops ps b_init inv_init) as [_ H]. apply (H sid). Qed.

(* non-vacuity: a zone with a domain outside the enumeration is rejected after its set was created; the next zone of that
   name gets copy number 0 *)
Example C20_ex :
  let bad := OAdd 0 T_ZONE (RStr [90] HNone) None RNone [(attr_index T_ZONE [100;111;109;97;105;110], PVal (RStr [78; 79] HNone))] in
  let good := OAdd 0 T_ZONE (RStr [90] HNone) None RNone [] in
  let '(_, st, outs) := run_ops p_init b_init [OAddLF (RStr [72] HNone) (RInt 1); bad; good] in
  outs = [Accepted None; Rejected EValue; Accepted (Some 0%nat)] /\ i_copy (item_at st 0) = 0 /\ length (b_items st) = 1%nat.
Proof. vm_compute. repeat split. Qed.

(* D22 (repaired in /repo by "fix: sets and set types left without items by a rejected add_* call take their position with
   their first item"): a rejected FIRST
   add_* call for a (type, set name) used to leave its empty set registered, and the position of that set decided later
   which origin is the defining one. Now a set without items is forgotten at the next lookup: with the rejected add_origin
   (non-str name) the zone added last gets the same origin reference as without it. *)
Example C20_set_position_repaired :
  let lf := OAddLF (RStr [72] HNone) (RInt 1) in
  let rejected := OAddOrigin 0 (RInt 3) None RNone [] in
  let a := OAddOrigin 0 (RStr [65] HNone) (Some [83]) RNone [] in
  let b := OAddOrigin 0 (RStr [66] HNone) None (RInt 7) [] in
  let z := OAdd 0 T_ZONE (RStr [90] HNone) None RNone [] in
  let '(_, st1, outs1) := run_ops p_init b_init [lf; rejected; a; b; z] in
  let '(_, st2, outs2) := run_ops p_init b_init [lf; a; b; z] in
  outs1 = [Accepted None; Rejected EType; Accepted (Some 0%nat); Accepted (Some 1%nat); Accepted (Some 2%nat)]
  /\ outs2 = [Accepted None; Accepted (Some 0%nat); Accepted (Some 1%nat); Accepted (Some 2%nat)]
  /\ i_origin (item_at st1 2) = i_origin (item_at st2 2) /\ i_origin (item_at st2 2) <> Some 7
  /\ map (fun f => map fst (l_reg f)) (b_lfs st1) = map (fun f => map fst (l_reg f)) (b_lfs st2).
Proof. vm_compute. repeat split. discriminate. Qed.

(* same_content leaves the REGISTRIES out: a rejected call may register sets. What it can register is invisible. `vis st r`
   (printed below) lists, in registry order, the entries of r whose sets hold items — the sets that are written, in the order
   they are written (sets without items give no record and have no position). A rejected add_* of any type — rejected at any
   point after the set look-up — leaves `vis` of its own logical file and of every other logical file unchanged. The one
   hypothesis excludes the sharing of known finding D12: a set of that (type, name) which already holds items in the physical
   registry must be this logical file's. *)
Print vis.
Theorem C20_reject_invisible : forall hc st l ty name sn org dflt kw ds cast st' e f,
  add_common hc st l ty name sn org dflt kw ds cast = (st', Rejected e) ->
  Inv_reg st -> lf_at st l = Some f ->
  (forall sid, reg_find (b_phys st) ty (norm_name sn) = Some sid -> set_empty st sid = false -> reg_find (l_reg f) ty (norm_name sn) = Some sid) ->
  (exists f', lf_at st' l = Some f' /\ vis st' (l_reg f') = vis st (l_reg f))
  /\ (forall l2 f2, l2 <> l -> lf_at st l2 = Some f2 -> lf_at st' l2 = Some f2 /\ vis st' (l_reg f2) = vis st (l_reg f2)).
Proof. exact add_common_reject_invisible. Qed.

(* with ONE logical file (the usual case) the hypothesis holds in every reachable state: unconditional *)
Theorem C20_single_lf_reject_invisible : forall ops ps hc l ty name sn org dflt kw ds cast st' e f,
  let st := bstate_of (run_ops ps b_init ops) in
  b_lfs st = [f] ->
  add_common hc st l ty name sn org dflt kw ds cast = (st', Rejected e) ->
  l = 0%nat -> exists f', lf_at st' 0 = Some f' /\ vis st' (l_reg f') = vis st (l_reg f).
Proof. exact single_lf_reject_invisible. Qed.

(* Inv_reg holds in every reachable state, and the logical files' registries are sub-registries of the physical one *)
Theorem C20_registries_reachable : forall ops ps,
  let st := bstate_of (run_ops ps b_init ops) in Inv_reg st /\ Inv_sub st.
Proof.
  intros ops ps. split; [apply run_ops_inv_reg, inv_reg_init | apply run_ops_inv_sub; [apply inv_reg_init | apply inv_sub_init]].
Qed.

(* the last clause — a write that raises. In every state reachable by API calls and writes, a write that FAILS (for any
   reason, at any point) leaves the sets, the physical registry and, for every logical file, its header fields, registry and no-format
   calls (lf_static: everything but the data dictionary) exactly as they were,
   every object with its type, and every attribute value / units the user gave; all it can leave behind are write-time
   defaults at the listed sites (Proofs/KeepP.v, regenerated from the source) where nothing had been given. What those
   defaults then do to a later write with OTHER data is known finding D9 (C13/C14), not covered here. *)
Print lf_static.
Theorem C20_failed_write_keeps_the_specification : forall l ps hc w st' e,
  let st := snd (run_actions ps b_init l) in
  write hc st w = (st', Err e) ->
  b_sets st' = b_sets st /\ b_phys st' = b_phys st /\ map lf_static (b_lfs st') = map lf_static (b_lfs st)
  /\ forall i idx,
       let ty := i_ty (item_at st i) in
       let v := fst (get_attr (item_at st i) idx) in let v' := fst (get_attr (item_at st' i) idx) in
       let u := snd (get_attr (item_at st i) idx) in let u' := snd (get_attr (item_at st' i) idx) in
       i_ty (item_at st' i) = ty
       /\ (spv_truthy v = true -> derived ty idx = false -> v' = v)
       /\ (site default_sites ty idx = false -> v' = v)
       /\ (u <> None -> u' = u) /\ (site unit_sites ty idx = false -> u' = u).
Proof.
  intros l ps hc w st' e st H.
  assert (Hi : Inv st) by (apply reachable_inv_actions; split; [apply WriteP.inv_shape_init | apply StructP.inv_struct_init]).
  assert (Hr : Inv_reg st) by (apply reachable_inv_reg_actions; [split; [apply WriteP.inv_shape_init | apply StructP.inv_struct_init] | apply inv_reg_init]).
  pose proof (write_keeps hc st w Hi Hr) as K. rewrite H in K. cbn [fst] in K. destruct K as (S & P & L & K & _).
  split; [exact S|]. split; [exact P|]. split; [exact L|]. intros i idx. destruct (K i) as [Et Kv]. destruct (Kv idx) as [V U].
  cbv zeta. split; [exact Et|]. repeat split.
  - intros Ht Hd. destruct V as [E|[_ [F|D]]]; [exact E | congruence | congruence].
  - intros Hs. destruct V as [E|[S1 _]]; [exact E | congruence].
  - intros Hu. destruct U as [E|[_ N]]; [exact E | congruence].
  - intros Hs. destruct U as [E|[S1 _]]; [exact E | congruence].
Qed.

(* KNOWN FINDING (D30), witnessed in the model: a rejected add_channel of logical file 0 under set name "B" leaves the empty set
   registered for logical file 0; logical file 1 then adds a channel under (CHANNEL, "B"), gets the same set from the physical
   registry, and logical file 0's registry lists that channel too. (C20_reject_invisible is about the state right after the
   rejected call, where the set is still empty and invisible; its hypothesis — a set with items in the physical registry
   belongs to this logical file — is what fails later.) *)
Example C20_refuted_rejected_set_adopted :
  let ops := [OAddLF (RStr [72] HNone) (RInt 1); OAddLF (RStr [73] HNone) (RInt 2);
              OAddChannel 0 (RStr [88] HNone) (Some [66]) RNone [(attr_index T_CHANNEL [117;110;105;116;115], PVal (RInt 5))] false None None None;
              OAddChannel 1 (RStr [67] HNone) (Some [66]) RNone [] false None None None] in
  let '(_, st, outs) := run_ops p_init b_init ops in
  outs = [Accepted None; Accepted None; Rejected EType; Accepted (Some 0%nat)]
  /\ map (fun f => reg_items st (l_reg f) T_CHANNEL) (b_lfs st) = [[0%nat]; [0%nat]].
Proof. vm_compute. split; reflexivity. Qed.

Print Assumptions C20_reject.
Print Assumptions C20_copy_numbers.
Print Assumptions C20_reject_invisible.
Print Assumptions C20_registries_reachable.
Print Assumptions C20_single_lf_reject_invisible.
Print Assumptions C20_failed_write_keeps_the_specification.
