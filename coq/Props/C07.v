(* C07 — object identity is unique and every reference resolves in its logical file. Statements only. *)
From DV Require Import Model.ApiDispatch Proofs.BuilderP Proofs.PrimP.
From DV Require Import Model.EflrReader Proofs.EflrP Proofs.FileP Proofs.RegP Proofs.CoverP.

(* in every reachable state, within a set (one set type, one set name), objects are told apart by name and copy number:
   same-named objects of one type get distinct copy numbers, for every order of add_* calls, including rejected ones *)
Theorem C07_identity_in_set : forall ops ps sid,
  let st := bstate_of (run_ops ps b_init ops) in
  NoDup (map (fun i => (i_name (item_at st i), i_copy (item_at st i))) (s_items (set_at st sid))).
Proof. exact identity_unique_in_set. Qed.

(* the copy number is the number of earlier same-named objects of the set *)
Theorem C07_copy_numbers : forall ops ps sid,
  let st := bstate_of (run_ops ps b_init ops) in
  copy_ok (map (fun i => (i_name (item_at st i), i_copy (item_at st i))) (s_items (set_at st sid))).
Proof. intros ops ps sid. cbn zeta. pose proof (run_ops_inv_copy ops ps b_init inv_init) as [_ H]. apply (H sid). Qed.

(* a reference is written as the referenced object's identity and read back as such (OBNAME / OBJREF) *)
Theorem C07_reference_roundtrip : forall t o bs r,
  enc_objref t o = OK bs -> dec_objref (bs ++ r) = Some ((t, o), r).
Proof. exact objref_rt. Qed.

(* what a reader gets for a reference the program stored: under OBNAME the identity (origin, copy number, name) of the
   referenced item as it stands at write time, under OBJREF that identity together with the set type of the item's type. Combined
   with C05_record_is_the_set (every record decodes to the set of the state, attribute by attribute through dv_of) this is the
   clause "decodes to the identity of exactly the object the user passed". *)
Theorem C07_reference_is_identity : forall st j,
  dv_of 23 (to_aval st (SItem j)) = Some (DName (snd (ident_of st j)))
  /\ dv_of 24 (to_aval st (SItem j)) = Some (DRef (fst (ident_of st j)) (snd (ident_of st j))).
Proof. intros st j. unfold to_aval. destruct (ident_of st j) as [t o]. split; reflexivity. Qed.

(* the identity fields of an item are not touched by the mutations of a write (item_ext keeps name, origin, copy number, type) *)
Theorem C07_write_keeps_identities : forall st it it', run_checks st it = OK it' ->
  i_name it' = i_name it /\ i_origin it' = i_origin it /\ i_copy it' = i_copy it /\ i_ty it' = i_ty it.
Proof.
  intros st it it' H. destruct (run_checks_ext st it it' H) as (Es & _ & Hid). unfold iid in Hid. injection Hid as H1 H2 H3.
  apply (f_equal fst) in Es. cbn in Es. auto.
Qed.

(* KNOWN FINDING (D13), witnessed in the model: copy numbers are counted per set instance, so two sets of one type with
   different set names can hold objects with the same (type, origin, copy, name) *)
Example C07_refuted_named_sets :
  let ops := [OAddLF (RStr [72] HNone) (RInt 1);
              OAdd 0 T_AXIS (RStr [65] HNone) (Some [83; 49]) RNone []; OAdd 0 T_AXIS (RStr [65] HNone) (Some [83; 50]) RNone []] in
  let st := bstate_of (run_ops p_init b_init ops) in
  ident_of st 0 = ident_of st 1 /\ i_set (item_at st 0) <> i_set (item_at st 1).
Proof. vm_compute. split; [reflexivity | discriminate]. Qed.

(* across the sets a logical file writes: when the logical file holds at most one set per object type (no two sets of one
   type under different set names — that configuration is known finding D13, witnessed below), (type, name, copy number)
   identifies an object among ALL the objects of the logical file, in every reachable state *)
Theorem C07_identity_in_logical_file : forall ops ps f,
  let st := bstate_of (run_ops ps b_init ops) in
  NoDup (map (fun sid => s_ty (set_at st sid)) (lf_sids f)) ->
  forall sid1 sid2 i j, In sid1 (lf_sids f) -> In sid2 (lf_sids f) ->
    In i (s_items (set_at st sid1)) -> In j (s_items (set_at st sid2)) ->
    (i_ty (item_at st i), i_name (item_at st i), i_copy (item_at st i)) = (i_ty (item_at st j), i_name (item_at st j), i_copy (item_at st j)) ->
    i = j.
Proof. exact identity_unique_in_lf. Qed.

Print Assumptions C07_identity_in_set.
Print Assumptions C07_copy_numbers.
Print Assumptions C07_reference_roundtrip.
Print Assumptions C07_reference_is_identity.
Print Assumptions C07_write_keeps_identities.
Print Assumptions C07_identity_in_logical_file.
