(* C10 — chunk sizes are invisible; the file on disk only ever grows by whole records. Statements only. *)
From DV Require Import Model.Output Proofs.OutputP.

(* for every buffer size: the final file is label ++ records, its size is the reported total, and the content
   after every physical write is label ++ a prefix of the records (ends on a visible-record boundary) *)
Theorem C10_out_invisible : forall cap disk0 sul vrs,
  let s := run_output cap disk0 sul vrs in
  o_disk s = sul ++ concat vrs
  /\ o_total s = zlen (sul ++ concat vrs)
  /\ Forall (fun snap => exists j, (j <= length vrs)%nat /\ snap = sul ++ concat (firstn j vrs)) (o_snaps s).
Proof. exact run_output_correct. Qed.

(* hence two buffer sizes give the same file *)
Theorem C10_out_independent : forall cap1 cap2 d1 d2 sul vrs,
  o_disk (run_output cap1 d1 sul vrs) = o_disk (run_output cap2 d2 sul vrs).
Proof.
  intros. destruct (run_output_correct cap1 d1 sul vrs) as [-> _]. destruct (run_output_correct cap2 d2 sul vrs) as [-> _].
  reflexivity.
Qed.

(* prior content of the target is discarded by the first write *)
Theorem C10_replace : forall cap d1 d2 sul vrs,
  o_disk (run_output cap d1 sul vrs) = o_disk (run_output cap d2 sul vrs)
  /\ o_snaps (run_output cap d1 sul vrs) = o_snaps (run_output cap d2 sul vrs).
Proof. exact run_output_replaces. Qed.

(* end to end: for every buffer size and prior content the file is write_file's, and its size is the reported total *)
Theorem C10_file : forall c recs cap disk0 st,
  write_buffered c recs cap disk0 = OK st ->
  write_file c recs = OK (o_disk st) /\ o_total st = zlen (o_disk st).
Proof. exact write_buffered_file. Qed.

(* input chunking: iterating the chunked generator yields the rows unchanged, for every chunk size > 0 and None *)
Theorem C10_in_invisible : forall (A : Type) (rows : list A) chunk,
  match chunk with Some c => 0 < c | None => True end -> chunked rows chunk = rows.
Proof. intros A. exact (@chunked_id A). Qed.

Example C10_ex :
  let s := run_output 5 [9; 9; 9] [1; 2] [[3; 4; 5]; [6; 7; 8]; [9]] in
  o_disk s = [1; 2; 3; 4; 5; 6; 7; 8; 9] /\ length (o_snaps s) = 3%nat /\ chunked [1; 2; 3; 4; 5] (Some 2) = [1; 2; 3; 4; 5].
Proof. vm_compute. repeat split. Qed.

Print Assumptions C10_out_invisible.
Print Assumptions C10_out_independent.
Print Assumptions C10_replace.
Print Assumptions C10_in_invisible.
Print Assumptions C10_file.
