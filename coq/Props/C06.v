(* C06 — primitive values are encoded exactly as their representation code prescribes.
   Statements only; proofs are in Proofs/PrimP.v. `dec_*` are the standard's decoders (Model/Prim.v). *)
From DV Require Import Model.Prim Proofs.PrimP.

(* round trip: an independent decoder recovers the value and consumes exactly the emitted bytes *)
Theorem C06_roundtrip_ushort : forall v bs r, enc_ushort v = OK bs -> dec_ushort (bs ++ r) = Some (v, r).
Proof. exact ushort_rt. Qed.
Theorem C06_roundtrip_unorm : forall v bs r, enc_unorm v = OK bs -> dec_unorm (bs ++ r) = Some (v, r).
Proof. exact unorm_rt. Qed.
Theorem C06_roundtrip_ulong : forall v bs r, enc_ulong v = OK bs -> dec_ulong (bs ++ r) = Some (v, r).
Proof. exact ulong_rt. Qed.
Theorem C06_roundtrip_sshort : forall v bs r, enc_sshort v = OK bs -> dec_sshort (bs ++ r) = Some (v, r).
Proof. exact sshort_rt. Qed.
Theorem C06_roundtrip_snorm : forall v bs r, enc_snorm v = OK bs -> dec_snorm (bs ++ r) = Some (v, r).
Proof. exact snorm_rt. Qed.
Theorem C06_roundtrip_slong : forall v bs r, enc_slong v = OK bs -> dec_slong (bs ++ r) = Some (v, r).
Proof. exact slong_rt. Qed.
Theorem C06_roundtrip_fsingl : forall v bs r, enc_fsingl v = OK bs -> dec_fsingl (bs ++ r) = Some (v, r).
Proof. exact fsingl_rt. Qed.
Theorem C06_roundtrip_fdoubl : forall v bs r, enc_fdoubl v = OK bs -> dec_fdoubl (bs ++ r) = Some (v, r).
Proof. exact fdoubl_rt. Qed.
Theorem C06_roundtrip_uvari : forall v bs r, enc_uvari v = OK bs -> dec_uvari (bs ++ r) = Some (v, r).
Proof. exact uvari_rt. Qed.
Theorem C06_roundtrip_ident : forall s bs r, enc_ident s = OK bs -> dec_ident (bs ++ r) = Some (s, r).
Proof. exact ident_rt. Qed.
Theorem C06_roundtrip_ascii : forall s bs r, enc_ascii s = OK bs -> dec_ascii (bs ++ r) = Some (s, r).
Proof. exact ascii_rt. Qed.
Theorem C06_roundtrip_status : forall v bs r, enc_status v = OK bs -> dec_status (bs ++ r) = Some (v, r).
Proof. exact status_rt. Qed.
Theorem C06_roundtrip_obname : forall o bs r, enc_obname o = OK bs ->
  exists org, on_origin o = Some org /\ dec_obname (bs ++ r) = Some (o, r).
Proof. exact obname_rt. Qed.
Theorem C06_roundtrip_objref : forall t o bs r, enc_objref t o = OK bs -> dec_objref (bs ++ r) = Some ((t, o), r).
Proof. exact objref_rt. Qed.
Theorem C06_roundtrip_dtime : forall d bs r, 1 <= dt_month d <= 12 -> enc_dtime d = OK bs ->
  dec_dtime (bs ++ r) =
    Some ({| dd_year := dt_year d; dd_tz := 2; dd_month := dt_month d; dd_day := dt_day d; dd_hour := dt_hour d;
             dd_min := dt_min d; dd_sec := dt_sec d; dd_ms := ms_of_us (dt_us d) |}, r).
Proof. exact dtime_rt. Qed.
(* milliseconds: nearest (ties to even), except the clamp of the last half millisecond to 999 *)
Theorem C06_dtime_ms : forall us, 0 <= us < 1000000 ->
  0 <= ms_of_us us <= 999 /\
  ((-500 <= 1000 * ms_of_us us - us <= 500) \/ (ms_of_us us = 999 /\ 999500 <= us)).
Proof. exact ms_of_us_spec. Qed.

(* exact domains: a value is rejected iff the code cannot represent it *)
Theorem C06_domain_ushort : forall v, (exists bs, enc_ushort v = OK bs) <-> 0 <= v < 256.
Proof. exact ushort_dom. Qed.
Theorem C06_domain_unorm : forall v, (exists bs, enc_unorm v = OK bs) <-> 0 <= v < 65536.
Proof. exact unorm_dom. Qed.
Theorem C06_domain_ulong : forall v, (exists bs, enc_ulong v = OK bs) <-> 0 <= v < 4294967296.
Proof. exact ulong_dom. Qed.
Theorem C06_domain_sshort : forall v, (exists bs, enc_sshort v = OK bs) <-> -128 <= v < 128.
Proof. exact sshort_dom. Qed.
Theorem C06_domain_snorm : forall v, (exists bs, enc_snorm v = OK bs) <-> -32768 <= v < 32768.
Proof. exact snorm_dom. Qed.
Theorem C06_domain_slong : forall v, (exists bs, enc_slong v = OK bs) <-> -2147483648 <= v < 2147483648.
Proof. exact slong_dom. Qed.
Theorem C06_domain_uvari : forall v, (exists bs, enc_uvari v = OK bs) <-> 0 <= v < 1073741824.
Proof. exact uvari_dom. Qed.
Theorem C06_domain_ident : forall s, (exists bs, enc_ident s = OK bs) <-> zlen s < 256 /\ all_ascii s = true.
Proof. exact ident_dom. Qed.
Theorem C06_domain_ascii : forall s, (exists bs, enc_ascii s = OK bs) <-> zlen s < 1073741824 /\ all_ascii s = true.
Proof. exact ascii_dom. Qed.
Theorem C06_domain_status : forall v, (exists bs, enc_status v = OK bs) <-> v = 0 \/ v = 1.
Proof. exact status_dom. Qed.
Theorem C06_domain_obname : forall o, (exists bs, enc_obname o = OK bs) <->
  exists org, on_origin o = Some org /\ 0 <= org < 1073741824 /\ 0 <= on_copy o < 256
              /\ zlen (on_name o) < 256 /\ all_ascii (on_name o) = true.
Proof. exact obname_dom. Qed.
Theorem C06_domain_objref : forall t o, (exists bs, enc_objref t o = OK bs) <->
  (zlen t < 256 /\ all_ascii t = true) /\ obname_in_domain o.
Proof. exact objref_dom. Qed.
Theorem C06_domain_dtime : forall d, (exists bs, enc_dtime d = OK bs) <->
  1900 <= dt_year d < 2156 /\ -32 <= dt_month d < 224 /\ 0 <= dt_day d < 256 /\ 0 <= dt_hour d < 256 /\
  0 <= dt_min d < 256 /\ 0 <= dt_sec d < 256 /\ 0 <= ms_of_us (dt_us d) < 65536.
Proof. exact dtime_dom. Qed.

(* the hypotheses are satisfiable on non-trivial values *)
Example C06_ex_uvari : enc_uvari 16384 = OK [192; 0; 64; 0] /\ enc_uvari 16383 = OK [191; 255] /\ enc_uvari 128 = OK [128; 128].
Proof. repeat split. Qed.
Example C06_ex_ident_255 : exists bs, enc_ident (repeat 65 255) = OK bs /\ zlen bs = 256.
Proof. eexists. split; [vm_compute; reflexivity | reflexivity]. Qed.
Example C06_ex_ident_256_rejected : enc_ident (repeat 65 256) = Err EStruct.
Proof. vm_compute. reflexivity. Qed.

Print Assumptions C06_roundtrip_ushort. Print Assumptions C06_roundtrip_unorm. Print Assumptions C06_roundtrip_ulong.
Print Assumptions C06_roundtrip_sshort. Print Assumptions C06_roundtrip_snorm. Print Assumptions C06_roundtrip_slong.
Print Assumptions C06_roundtrip_fsingl. Print Assumptions C06_roundtrip_fdoubl. Print Assumptions C06_roundtrip_uvari.
Print Assumptions C06_roundtrip_ident. Print Assumptions C06_roundtrip_ascii. Print Assumptions C06_roundtrip_status.
Print Assumptions C06_roundtrip_obname. Print Assumptions C06_roundtrip_objref. Print Assumptions C06_roundtrip_dtime.
Print Assumptions C06_dtime_ms.
Print Assumptions C06_domain_ushort. Print Assumptions C06_domain_unorm. Print Assumptions C06_domain_ulong.
Print Assumptions C06_domain_sshort. Print Assumptions C06_domain_snorm. Print Assumptions C06_domain_slong.
Print Assumptions C06_domain_uvari. Print Assumptions C06_domain_ident. Print Assumptions C06_domain_ascii.
Print Assumptions C06_domain_status. Print Assumptions C06_domain_obname. Print Assumptions C06_domain_objref.
Print Assumptions C06_domain_dtime.
