(* C14 — output depends only on the current specification, not on process history. Statements only.
   The model has no caches: it is the cache-free denotation. What is proved: a new DLISFile starts from the empty
   specification whatever was built and written before, and only the mode flag is process state, restored by every
   balanced use of the context manager. That the implementation's caches (encoded values, object names, record-type
   bytes, merged data) do not leak is decided by the correspondence of in-process histories with the model and with a
   fresh subprocess (harness/props/c14.py). *)
From DV Require Import Model.ApiDispatch Proofs.BuilderP.

Theorem C14_new_file_is_fresh : forall ps st rest,
  run_program ps st (TL [TI 20] :: rest) = TL [TI 0] :: run_program ps b_init rest.
Proof. exact new_file_is_fresh. Qed.

Theorem C14_mode_is_the_only_process_state : forall ops, balanced ops -> forall ps st, pstate_of (run_ops ps st ops) = ps.
Proof. exact mode_restored. Qed.

Print Assumptions C14_new_file_is_fresh.
Print Assumptions C14_mode_is_the_only_process_state.
