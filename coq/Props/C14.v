(* C14 — output depends only on the current specification, not on process history. Statements only.
   The model has no caches: it is the cache-free denotation. What is proved: a new DLISFile starts from the empty
   specification whatever was built and written before, and only the mode flag is process state, restored by every
   balanced use of the context manager. That the implementation's caches (encoded values, object names, record-type
   bytes, merged data) do not leak is decided by the correspondence of in-process histories with the model and with a
   fresh subprocess (harness/props/c14.py). *)
From DV Require Import Model.ApiDispatch Proofs.BuilderP Proofs.FileP Proofs.RegP Proofs.KeepP Proofs.StructP Proofs.IdemP.

Theorem C14_new_file_is_fresh : forall ps st rest,
  run_program ps st (TL [TI 20] :: rest) = TL [TI 0] :: run_program ps b_init rest.
Proof. exact new_file_is_fresh. Qed.

Theorem C14_mode_is_the_only_process_state : forall ops, balanced ops -> forall ps st, pstate_of (run_ops ps st ops) = ps.
Proof. exact mode_restored. Qed.

(* writing the same DLISFile again. Two ingredients are theorems:
   (1) whatever a write leaves behind (successful or not) differs from what it found only by write-time defaults put where
       nothing was given — the user's own values, the sets, the registries, the headers and the no-format calls are
       untouched, so the second write starts from the first one's specification plus its defaults;
   (2) the check that precedes the encoding of a PARAMETER / COMPUTATION / CALIBRATION-MEASUREMENT object tests the axes
       against the dimension AFTER the dimension has been derived from the values: the object a successful check leaves
       passes that test again. Before the repair of D23 in /repo ("fix: check the axes of parameters, computations and
       calibration measurements against the dimension after it has been derived") the test came first, an object whose
       derived dimension contradicted its axes was written once, and the second write of the same DLISFile raised.
   That the second write then produces the same bytes is decided per run (K-write-twice, K-api histories). *)
Theorem C14_a_write_leaves_the_specification : forall l ps hc w,
  let st := snd (run_actions ps b_init l) in skeeps st (fst (write hc st w)).
Proof.
  intros l ps hc w st.
  apply write_keeps; [apply reachable_inv_actions; split; [apply WriteP.inv_shape_init | apply StructP.inv_struct_init]|].
  apply reachable_inv_reg_actions; [split; [apply WriteP.inv_shape_init | apply StructP.inv_struct_init] | apply inv_reg_init].
Qed.

Theorem C14_checked_object_passes_the_axis_check_again : forall st it it',
  run_checks st it = OK it' ->
  (Nat.eqb (i_ty it) T_PARAMETER || Nat.eqb (i_ty it) T_COMPUTATION || Nat.eqb (i_ty it) T_CALMEAS) = true ->
  check_axis_vs_dimension st it' = OK tt.
Proof. exact run_checks_axis_checked. Qed.

(* (3) the per-object step of the encoder — synchronise the channel's representation code with its cast dtype, then
   EFLRItem._run_checks_and_set_defaults of the object's type — is IDEMPOTENT for every object type: applied to the object it
   returned, it succeeds again and returns that same object. So an object that was written once is accepted unchanged by
   the next write (Proofs/IdemP.v; item_len_ok holds for every object of a reachable state: FileP.Inv). This is the statement
   whose PARAMETER branch would not prove before the repair of D23. *)
Theorem C14_checks_and_defaults_are_idempotent : forall st it it',
  item_len_ok it -> run_checks st (sync_repr_code it) = OK it' -> run_checks st (sync_repr_code it') = OK it'.
Proof. exact object_step_idem. Qed.

Print Assumptions C14_new_file_is_fresh.
Print Assumptions C14_mode_is_the_only_process_state.
Print Assumptions C14_a_write_leaves_the_specification.
Print Assumptions C14_checked_object_passes_the_axis_check_again.
Print Assumptions C14_checks_and_defaults_are_idempotent.
