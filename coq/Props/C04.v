(* C04 — every explicitly formatted record decodes under the RP66 component grammar. Statements only. *)
From DV Require Import Model.EflrReader Model.Builder Model.Write Proofs.EflrP Proofs.BuilderP Proofs.WriteP.
From DV Require Import Model.ApiDispatch Model.FileReader Proofs.FileP.

(* Every non-empty set whose attribute states are count-consistent (wf_set; guaranteed by the attribute converters)
   is decoded by the strict component reader (Model/EflrReader.v: SET, template of labelled ATTRIB components, OBJECT
   components each followed by exactly one component per template attribute, values read by count and code, nothing
   left over) into: the same type and name, the template labels of the first object, and per object its identity and,
   per attribute, either ABSATR (value None) or the announced count / code / units and the decoded values. *)
Theorem C04_grammar : forall s b,
  wf_set s -> e_objs s <> [] -> enc_set s = OK b ->
  exists d, dec_set b = Some d /\ set_matches s d.
Proof. exact enc_set_dec. Qed.

(* one attribute component: count, code, units and values come back; the count announced is the number of values *)
Theorem C04_attribute : forall a b r,
  wf_attr a -> enc_attr_body a = OK b ->
  exists rc dvs,
    attr_rc a = OK rc
    /\ (values_of a = [] /\ dvs = [] \/ exists c, rc = Some c /\ map_opt (dv_of c) (values_of a) = Some dvs /\ values_of a <> [])
    /\ dec_oattr global_default (b ++ r) = Some (Some (dattr_of a rc dvs), r).
Proof. exact enc_attr_body_dec. Qed.

(* every value written under code c is read back as dv_of c v, consuming exactly its bytes *)
Theorem C04_value : forall c v b r,
  enc_val (Some c) v = OK b -> exists dv, dv_of c v = Some dv /\ dec_val c (b ++ r) = Some (dv, r).
Proof. exact enc_val_dec. Qed.

(* an empty set gives no record at all *)
Theorem C04_empty_set : forall s, e_objs s = [] -> enc_set s = OK [].
Proof. intros s H. unfold enc_set. rewrite H. reflexivity. Qed.

(* the hypothesis wf_attr of the two theorems above is not an assumption about the caller: after ANY sequence of API
   calls (accepted or rejected), starting from the empty file, every attribute of every object — converted by the
   schema's converter for its slot and handed to the encoder by to_attr — satisfies it. *)
Theorem C04_reachable_wf : forall ops ps i idx,
  let st := bstate_of (run_ops ps b_init ops) in
  let it := nth i (b_items st) dummy_item in
  wf_attr (to_attr st (nth idx (td_attrs (tdef_at (i_ty it))) dummy_adef) (nth idx (i_attrs it) (SPNone, None))).
Proof. exact reachable_attrs_wf. Qed.

(* non-vacuity: a set with an empty list, a 2-value list with units, an absent attribute and a reference *)
Example C04_ex :
  let o := {| on_origin := Some 1; on_copy := 0; on_name := [65] |} in
  let mk l mv rc u v := {| a_label := l; a_mv := mv; a_md := false; a_rc0 := rc; a_valid := [7; 14; 20; 23]; a_reftext := false; a_units := u; a_value := v |} in
  let s := {| e_type := [65; 88]; e_name := Some [83]; e_objs := [ {| o_name := o; o_attrs :=
       [ mk [67] true None None (PList []);
         mk [68] true (Some 7) (Some [109]) (PList [NLeaf (VFloat 4609434218613702656); NLeaf (VInt 2)]);
         mk [69] false (Some 20) None PNone;
         mk [70] false (Some 23) None (PScalar (VRef [65; 88] o)) ] |} ] |} in
  exists b d, enc_set s = OK b /\ dec_set b = Some d /\ template_ok d = true /\ length (ds_objs d) = 1%nat.
Proof. eexists. eexists. split; [vm_compute; reflexivity|]. split; [vm_compute; reflexivity|]. split; reflexivity. Qed.

(* END TO END over the modelled API: after any sequence of API calls and earlier writes (run_actions from the empty
   file), whatever DLISFile.write returns — for any write options and either mode — is accepted by the complete strict reader: framing, reassembly, and the component grammar of EVERY explicitly formatted record (FILE-HEADER included). *)
Theorem C04_api_records_decode : forall l ps hc w st' bs,
  let st := snd (run_actions ps b_init l) in
  write hc st w = (st', OK bs) ->
  let cfg := {| sul_seq := w_seq w; sul_vrl := w_vrl w; sul_id := w_ident w |} in
  exists lrds, read_logical cfg bs = Some lrds.
Proof. intros l ps hc w st' bs st H cfg. exact (proj2 (every_written_file_is_readable l ps hc w st' bs H)). Qed.

Print Assumptions C04_grammar.
Print Assumptions C04_attribute.
Print Assumptions C04_value.
Print Assumptions C04_empty_set.
Print Assumptions C04_reachable_wf.
Print Assumptions C04_api_records_decode.
