(* Data.v — model of the data path: dtype -> representation code, channel descriptors from data
   (ChannelItem.set_dimension_and_repr_code_from_data), rows of a frame as slots, row window, numbering. *)
From DV Require Export Model.Iflr.

(* numpy_dtypes_to_repr_codes, dtypes named by their code; element sizes *)
Definition dtype_codes : list Z := [12; 13; 14; 15; 16; 17; 2; 7].
Definition code_size (c : Z) : Z :=
  if (c =? 12) || (c =? 15) then 1 else if (c =? 13) || (c =? 16) then 2
  else if (c =? 14) || (c =? 17) || (c =? 2) then 4 else if c =? 7 then 8 else 0.
Definition valid_dtype (c : Z) : bool := existsb (Z.eqb c) dtype_codes.

(* ChannelItem._compare_element_limit_vs_dimension *)
Fixpoint elim_bounds (el dim : list Z) : bool :=
  match dim, el with
  | [], _ => true
  | d :: ds, e :: es => (d <=? e) && elim_bounds es ds
  | _ :: _, [] => false
  end.

(* set_dimension_and_repr_code_from_data followed by _run_checks_and_set_defaults:
   user dimension / element limit (None or a list), cast dtype, source dtype, per-row shape of the data *)
Definition channel_setup (udim uelim : option (list Z)) (cast : option Z) (src : Z) (shape : list Z)
  : res (Z * list Z * list Z) :=
  let dim := match shape with [] => [1] | _ => shape end in
  do _ <- (match udim with
           | Some (d :: ds) => if list_eqb (d :: ds) dim then OK tt else Err ERuntime
           | _ => OK tt
           end);
  do el <- (match uelim with
            | Some (e :: es) => if list_eqb (e :: es) dim then OK dim
                                else if elim_bounds (e :: es) dim then OK (e :: es) else Err ERuntime
            | _ => OK dim
            end);
  do code <- (match cast with
              | Some c => if valid_dtype c then OK c else Err EValue
              | None => if valid_dtype src then OK src else Err EValue
              end);
  OK (code, dim, el).

Definition prod_list (l : list Z) : Z := fold_right Z.mul 1 l.

(* MultiFrameData: one record per row, frame numbers i, i+1, ... *)
Fixpoint frame_recs (o : obname) (i : Z) (rows : list (list slot)) : res (list lrec) :=
  match rows with
  | [] => OK []
  | r :: rs => do x <- fdata_rec o i r; do xs <- frame_recs o (i + 1) rs; OK (x :: xs)
  end.

Fixpoint numbered {A} (i : Z) (l : list A) : list (Z * A) :=
  match l with [] => [] | x :: r => (i, x) :: numbered (i + 1) r end.

(* the row window [from, to) of every source kind *)
Definition window {A} (from_idx : Z) (to_idx : option Z) (rows : list A) : res (list A) :=
  let total := zlen rows in
  let to_ := match to_idx with Some t => t | None => total end in
  if total <=? from_idx then Err EValue
  else if to_ - from_idx <? 1 then Err EValue
  else OK (slice from_idx to_ rows).

(* ---- data sources (SourceDataWrapper and subclasses) ---- *)

(* a column: the per-row slots of one data set; a row of a frame: one slot per channel, in frame channel order *)
Definition zip_rows (cols : list (list slot)) (n : nat) : list (list slot) :=
  map (fun i => map (fun c => nth i c (0, [])) cols) (seq 0 n).

(* SourceDataWrapper.load_chunk (generic path): per channel, rows [from+start, from+stop) of its data set *)
Definition load_generic (cols : list (list slot)) (from_idx start stop : Z) : list (list slot) :=
  zip_rows (map (slice (from_idx + start) (from_idx + stop)) cols) (Z.to_nat (stop - start)).

(* NumpyDataWrapper.load_chunk (direct path, taken when the structured source has exactly the frame's fields):
   rows [from+start, from+stop) of the source array *)
Definition load_direct (source_rows : list (list slot)) (from_idx start stop : Z) : list (list slot) :=
  slice (from_idx + start) (from_idx + stop) source_rows.

(* make_chunked_generator: the rows produced for n = to - from rows *)
Definition load_all (loader : Z -> Z -> list (list slot)) (n : Z) (chunk : option Z) : list (list slot) :=
  concat (map (fun '(a, b) => loader a b) (chunk_ranges n chunk)).

(* ---- frame index statistics (FrameItem._compute_spacing_and_direction), exact arithmetic over integer-valued data ---- *)

Fixpoint diffs (l : list Z) : list Z :=
  match l with
  | a :: ((b :: _) as r) => (b - a) :: diffs r
  | _ => []
  end.

Fixpoint insert_sorted (x : Z) (l : list Z) : list Z :=
  match l with [] => [x] | y :: r => if x <=? y then x :: l else y :: insert_sorted x r end.
Definition sort_z (l : list Z) : list Z := fold_right insert_sorted [] l.
Fixpoint dedup_sorted (l : list Z) : list Z :=
  match l with
  | a :: ((b :: _) as r) => if a =? b then dedup_sorted r else a :: dedup_sorted r
  | _ => l
  end.

(* twice the numpy median of a non-empty list (the median itself may be a half-integer) *)
Definition median2 (l : list Z) : Z :=
  let s := sort_z l in
  let n := length s in
  if Nat.even n then nth (n / 2 - 1) s 0 + nth (n / 2) s 0 else 2 * nth (n / 2) s 0.

(* direction: None when constant or non-monotonic *)
Definition direction_of (du : list Z) : option bool :=
  if forallb (Z.eqb 0) du then None
  else if forallb (fun d => 0 <=? d) du then Some true
  else if forallb (fun d => d <=? 0) du then Some false
  else None.

(* spacing as twice its value (a half-integer median is possible); (1 - d/median)^2 < 1/1000 in exact arithmetic *)
Definition spacing2_of (ds du : list Z) : option Z :=
  match du with
  | [d] => Some (2 * d)
  | _ =>
      let m2 := median2 ds in
      if m2 =? 0 then None
      else if forallb (fun d => 1000 * (m2 - 2 * d) * (m2 - 2 * d) <? m2 * m2) du then Some m2 else None
  end.

Record istats := { is_min : Z; is_max : Z; is_spacing2 : option Z; is_direction : option bool }.

Definition index_stats (rows : list Z) : option istats :=
  match rows with
  | [] => None
  | x :: r =>
      let ds := diffs rows in
      let du := dedup_sorted (sort_z ds) in
      Some {| is_min := fold_right Z.min x r; is_max := fold_right Z.max x r;
              is_spacing2 := match ds with [] => None | _ => spacing2_of ds du end;
              is_direction := match ds with [] => None | _ => direction_of du end |}
  end.
