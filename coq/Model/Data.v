(* Data.v — model of the data path: dtype -> representation code, channel descriptors from data
   (ChannelItem.set_dimension_and_repr_code_from_data), rows of a frame as slots, row window, numbering. *)
From DV Require Export Model.Iflr.

(* numpy_dtypes_to_repr_codes, dtypes named by their code; element sizes *)
Definition dtype_codes : list Z := [12; 13; 14; 15; 16; 17; 2; 7].
Definition code_size (c : Z) : Z :=
  if (c =? 12) || (c =? 15) then 1 else if (c =? 13) || (c =? 16) then 2
  else if (c =? 14) || (c =? 17) || (c =? 2) then 4 else if c =? 7 then 8 else 0.
Definition valid_dtype (c : Z) : bool := existsb (Z.eqb c) dtype_codes.

(* ChannelItem._compare_element_limit_vs_dimension *)
Fixpoint elim_bounds (el dim : list Z) : bool :=
  match dim, el with
  | [], _ => true
  | d :: ds, e :: es => (d <=? e) && elim_bounds es ds
  | _ :: _, [] => false
  end.

(* set_dimension_and_repr_code_from_data followed by _run_checks_and_set_defaults:
   user dimension / element limit (None or a list), cast dtype, source dtype, per-row shape of the data *)
Definition channel_setup (udim uelim : option (list Z)) (cast : option Z) (src : Z) (shape : list Z)
  : res (Z * list Z * list Z) :=
  let dim := match shape with [] => [1] | _ => shape end in
  do _ <- (match udim with
           | Some (d :: ds) => if list_eqb (d :: ds) dim then OK tt else Err ERuntime
           | _ => OK tt
           end);
  do el <- (match uelim with
            | Some (e :: es) => if list_eqb (e :: es) dim then OK dim
                                else if elim_bounds (e :: es) dim then OK (e :: es) else Err ERuntime
            | _ => OK dim
            end);
  do code <- (match cast with
              | Some c => if valid_dtype c then OK c else Err EValue
              | None => if valid_dtype src then OK src else Err EValue
              end);
  OK (code, dim, el).

Definition prod_list (l : list Z) : Z := fold_right Z.mul 1 l.

(* MultiFrameData: one record per row, frame numbers i, i+1, ... *)
Fixpoint frame_recs (o : obname) (i : Z) (rows : list (list slot)) : res (list lrec) :=
  match rows with
  | [] => OK []
  | r :: rs => do x <- fdata_rec o i r; do xs <- frame_recs o (i + 1) rs; OK (x :: xs)
  end.

Fixpoint numbered {A} (i : Z) (l : list A) : list (Z * A) :=
  match l with [] => [] | x :: r => (i, x) :: numbered (i + 1) r end.

(* the row window [from, to) of every source kind *)
Definition window {A} (from_idx : Z) (to_idx : option Z) (rows : list A) : res (list A) :=
  let total := zlen rows in
  let to_ := match to_idx with Some t => t | None => total end in
  if total <=? from_idx then Err EValue
  else if to_ - from_idx <? 1 then Err EValue
  else OK (slice from_idx to_ rows).
