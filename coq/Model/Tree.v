(* Tree.v — the generic exchange format between harness and model; all structure lives in Coq. *)
From DV Require Export Model.Base.

Inductive tree : Type :=
| TI (z : Z)
| TB (b : bytes)
| TL (l : list tree).

Definition t_ok (t : tree) : tree := TL [TI 0; t].
Definition t_err (e : Z) : tree := TL [TI 1; TI e].
Definition t_bad : tree := TL [TI 2].            (* the request was not understood *)
Definition t_none : tree := TL [TI 1].
Definition t_bool (b : bool) : tree := TI (if b then 1 else 0).

Definition t_res {A} (f : A -> tree) (r : res A) : tree :=
  match r with OK a => t_ok (f a) | Err e => t_err e end.
Definition t_opt {A} (f : A -> tree) (r : option A) : tree :=
  match r with Some a => t_ok (f a) | None => t_none end.
Definition t_list {A} (f : A -> tree) (l : list A) : tree := TL (map f l).

Definition as_bool (t : tree) : option bool :=
  match t with TI 0 => Some false | TI 1 => Some true | _ => None end.
Definition as_int (t : tree) : option Z := match t with TI z => Some z | _ => None end.
Definition as_bytes (t : tree) : option bytes := match t with TB b => Some b | _ => None end.
Definition as_optint (t : tree) : option (option Z) :=
  match t with TI z => Some (Some z) | TL [] => Some None | _ => None end.

Fixpoint tree_eqb (a b : tree) : bool :=
  match a, b with
  | TI x, TI y => x =? y
  | TB x, TB y => list_eqb x y
  | TL x, TL y =>
      (fix go (x y : list tree) : bool :=
         match x, y with
         | [], [] => true
         | p :: x', q :: y' => tree_eqb p q && go x' y'
         | _, _ => false
         end) x y
  | _, _ => false
  end.
